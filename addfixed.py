#!/usr/bin/env python3
"""usage: addfixed.py <prop> <commit> <violation_classes regex> <found by> <what>  - records a repaired defect in
known_findings.json and DESIGN.md 7.1"""
import json, sys
prop, commit, classes, foundby, what = sys.argv[1:6]
d = json.load(open('/verif/known_findings.json'))
d['findings'].append({"status": "fixed", "property": prop, "commit": commit, "what": what, "violation_classes": classes,
                      "line": "fixed: property=%s %s %s" % (prop, commit, what)})
json.dump(d, open('/verif/known_findings.json', 'w'), indent=1)
p = '/verif/DESIGN.md'
s = open(p).read()
marker = "### 7.2 Corrections"
i = s.index(marker)
row = "| %s | %s | %s | %s |\n" % (prop, commit, what, foundby)
# rows end right before the blank line preceding 7.2
j = s.rstrip().rfind("\n|", 0, i)
k = s.index("\n", j + 1) + 1
s = s[:k] + row + s[k:]
open(p, 'w').write(s)
print("recorded", prop, commit)

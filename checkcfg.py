"""Per-property configuration of the checks: tiers, level, evidence texts."""

REAL = ("real code: the whole github.com/bufbuild/connect-go package built from the working tree with -tags verif "
        "(Client, Handler, envelope framing, compression, codecs, error/trailer mapping, duplexHTTPCall, interceptors)")
STUB = ("stub: simhttp replaces net/http's client transport and server (header commit, flush, trailers, flow-control "
        "windows, stream reset, request-body close after early handler return, request-body reader lag, late end of response); calibrated against measured net/http behaviour (DESIGN 3.3)")
SCHED = ("simulated: goroutine scheduling (seeded scheduler over transport operations and library yield points), "
         "clock (testing/synctest fake clock), sync.Pools (deterministic poisoned free lists)")

ASSUME_COMMON = [
    "simhttp faithfully models the parts of net/http's contract the property depends on (DESIGN.md 3.3, 11)",
    "between two scheduler releases goroutines woken inside the library touch disjoint state (measured by selftest-determinism, not assumed)",
    "sampling: a clean batch is evidence, not proof",
]


def e2e(rule, quick_runs, thorough_runs, level="exploration", extra_assume=(), race=False, quick_budget=120, thorough_budget=900, **kw):
    d = {
        "level": level,
        "rule": rule,
        "components": {"real": REAL, "stub": STUB, "simulated": SCHED},
        "assumptions": ASSUME_COMMON + list(extra_assume),
        "quick": {"runs": quick_runs, "budget_s": quick_budget},
        "thorough": {"runs": thorough_runs, "budget_s": thorough_budget},
        "race": race,
    }
    d["race_also"] = kw.get("race_also", [])
    d["quick"].update(kw.get("quick_extra", {}))
    d["thorough"].update(kw.get("thorough_extra", {}))
    return d


BYZ_NOTE = ("the deciding power here is the byzantine peer's seeded generation; what the simulator adds is hang detection on the fake "
            "clock, segmentation/timing of the hostile bytes and attribution of panics on the library's own goroutine")

PROPS = {
    "C01": e2e(
        "each run = one seeded scenario (1-3 calls over one handler set and one client: protocol x codec x compression sets/thresholds x kind x "
        "HTTP version, message sequences with size strata and zero-valued messages) executed under a seeded schedule with adversarial "
        "segmentation/windows/flushing, transport lags (request-body reader busy 3-300 us, end of response 3-300 us after the handler's return) and "
        "poisoned LIFO/FIFO pools; unary calls may re-send an earlier call's Request object with a new message; with the binary codec some messages "
        "carry a field unknown to the receiver's schema; distinct = distinct scheduler-log hash (sequence of chosen operations and "
        "their parameters) among runs in which the scheduler had >= 2 candidates at some step",
        16000, 400000),
    "C02": e2e(
        "each run = one seeded call whose handler returns an error (code 1..16, message class, 0..3 details, metadata multimap; plain errors; "
        "NewError(code,nil); coded errors returned wrapped with %w; sentinel errors shared by a history of calls; histories of calls with different "
        "errors) after k messages, possibly before draining the request, under a seeded schedule/segmentation; distinct = distinct "
        "scheduler-log hash among runs with >= 2 candidates at some step",
        16000, 300000),
    "C11": e2e(
        "each run = one seeded call with generated request-header, response-header and response-trailer multimaps (multi-valued keys, -Bin keys, "
        "a third of them padded; sentinel errors shared by a history of calls, with a multiset exactness oracle for generated keys) "
        "x {success, error before first message, error after messages}; distinct = distinct scheduler-log hash among runs with >= 2 candidates",
        16000, 300000),
    "C14": e2e(
        "each run = one seeded client program over {Send, CloseRequest, Receive, CloseResponse, cancel} (split sender/receiver tasks for bidi) "
        "against a seeded handler program {receive i, send j, drain or not, return nil|error} x protocols x HTTP versions x windows down to 1 byte "
        "x slow-point sets at the library's 18 yield points (none, every single point, every pair, random subsets), plus calls refused by a handler-side "
        "interceptor before the request is read (Sends still blocked); checked: bounded termination "
        "(hang = no enabled operation for 120 s of fake time), end-of-request visibility, Send-after-finish errors, outcome equality, sticky Receive "
        "errors, goroutine leaks (stack scan of the bubble) and response-body Close; distinct = distinct scheduler-log hash among runs with >= 2 candidates",
        16000, 300000),
    "C15": e2e(
        "each run = one seeded call with exactly one of: a canceller task (its release step is the cancellation instant, so every instant between two "
        "scheduling steps is reachable), a cancel operation between two program operations (incl. before the call), a deadline on the fake clock "
        "(1 us .. 30 ms against handler sleeps), or a handler that returns a context error of its own; handlers sleep / wait for their context; "
        "a quarter of the canceller / deadline runs give the client a 64-byte read limit that response messages exceed (competing failure cause: an operation "
        "in flight at the instant may report the limit only if it had consumed the whole offending envelope); "
        "checked by step number / fake time: operations started after the instant fail with canceled / deadline_exceeded (Send may return io.EOF), "
        "final outcome never success; distinct = distinct scheduler-log hash among runs with >= 2 candidates",
        16000, 300000,
        extra_assume=["the transport propagates a client-side cancellation to the server's request context (the stub always does; net/http's HTTP/1.1 "
                      "server does so only once the request body has been read to its end - measured in the calibration world, DESIGN.md 9)"]),
    "C19": e2e(
        "each run = one seeded call whose handler program panics (crash fault of the handler task) with nil / error / string / struct / "
        "slice / map / struct holding a slice / pointer / http.ErrAbortHandler / an error wrapping it, optionally after forwarding the received "
        "request object to a downstream client, at a seeded program point (before anything, between Sends, after the last Send) x 4 kinds x 3 protocols x position "
        "of WithRecover among 0..3 other interceptors, plus non-panicking controls; the stub treats a panic leaving ServeHTTP as net/http does; "
        "distinct = distinct scheduler-log hash among runs with >= 2 candidates",
        16000, 100000),
    "C10": e2e(
        "each run = either a client call with a deadline d (stratified: 10^k x unit +- 1 for every gRPC unit and k=0..8, the Connect 10-digit limit, "
        "the int64 limit, log-uniform random; or no deadline) whose context is created in the same scheduler step as the library encodes the timeout "
        "(remaining == d exactly on the fake clock; in a third of these runs the deadline is set by a client interceptor and the caller's own context "
        "has none or a longer one), or a crafted request carrying a timeout header string (grammatical incl. leading zeros and 0; "
        "near-grammatical: no/unknown/wrong-case unit, empty number, decimal point, hex, non-ASCII digits, embedded space, too many digits; arbitrary) "
        "served directly; the header is parsed by the reference grammar; the handler deadline is compared with arrival time + value on the fake clock; "
        "distinct = distinct scheduler-log hash among runs with >= 2 candidates",
        16000, 1000000),
    "C03": e2e(
        "each run = one recorded valid exchange (seeded: protocol x codec x compression x kind x HTTP version x message sizes x success/error, "
        "recorded from a fault-free E2E run of the real client and handler) re-delivered to the real receiver - response bytes through "
        "HTTPClient.Do, request bytes into Handler.ServeHTTP - under every enumerated segmentation: all 2^(n-1) splits for bodies of n <= 9 "
        "(thorough: 13) bytes, otherwise whole / 1 / 2 / 3 / 7-byte reads, a single split at every offset from -1 to +6 around every envelope "
        "prefix and payload end, one-byte reads across each prefix, and 12 random splits; each x {EOF with the last data, EOF on a separate "
        "read}; half of the unenveloped bodies are re-delivered with a declared Content-Length; oracle: outcome == outcome in one piece == outcome of the originating run; evaluations = exchanges, distinct = distinct "
        "(protocol, kind, request bytes, response bytes); the probe 'deliveries' counts the (exchange, segmentation, EOF mode) triples",
        1200, 40000, level="fault_enumeration"),
    "C04": e2e(
        "each run = one recorded valid exchange (as C03) whose response body is cut at EVERY byte offset 0..len (bodies <= 300 bytes, thorough 2048; "
        "larger ones: every offset -2..+6 around every envelope boundary plus 60 random) x {clean EOF, unexpected EOF, connection reset, RST CANCEL, "
        "RST INTERNAL_ERROR} x {HTTP trailers delivered, dropped}, whose request body is cut at every offset x {EOF, unexpected EOF, reset} into "
        "ServeHTTP, and whose k-th ResponseWriter.Write fails for every k (live E2E); the reference codec decides whether the terminator arrived "
        "within the delivered prefix; evaluations = exchanges, distinct = distinct (protocol, kind, bodies); 'deliveries' counts the faulted deliveries",
        800, 30000, level="fault_enumeration"),
    "C06": e2e(
        "each run = one client call (4 shapes x 3 protocols x 2 codecs) against a byzantine server behind HTTPClient.Do that answers with (i) a "
        "conformant response from the reference encoder mutated 1-3 times (bit flips, truncation, appended bytes, status, deleted/duplicated/"
        "swapped headers and trailers, flag bits, lying lengths, unknown encodings, abnormal end), (ii) grammar-aware adversarial fields "
        "(Connect error / end-of-stream JSON without code, code_0, wrong types; grpc-status '', '00', '-1', huge, non-numeric; details-bin garbage "
        "or Status code 0; lower-case keys in in-body blocks; trailer keys announced and never sent), or (iii) a random status/header/body/trailer tuple; delivery segmented and scheduled "
        "by the tape; checked: termination on the fake clock, no panic, every error is a *connect.Error with non-zero code, HTTP-status mapping for "
        "401/403/404/429/502/503/504, case-insensitive metadata lookup; distinct = distinct scheduler-log hash among runs with >= 2 candidates",
        100000, 2000000),
    "C07": e2e(
        "each run = one crafted HTTP request served by Handler.ServeHTTP (4 handler kinds x handler configurations: compression sets, read limit) "
        "from a byzantine client: a conformant request from the reference encoder left valid, mutated 1-3 times (bit flips, truncation, appended "
        "bytes, deleted headers, flag bits, encodings, content types, lying envelope lengths, lying Content-Length on unenveloped bodies without a "
        "read limit, abnormal end of body), replaced by a grammar-aware adversarial "
        "request with a documented outcome (unknown compression, malformed timeout, undecodable payload, corrupt compressed payload, oversize "
        "message, framing cut inside an envelope, wrong method, wrong content type, bidi over HTTP/1.1), or random; body delivery segmented by the "
        "tape; checked: ServeHTTP returns (fake-clock hang detection), no panic escapes, response strictly decodable by the reference codec for the "
        "protocol the Content-Type selects (or bare 405/415/505), user code entered at most once and only with a decodable prefix of the request, "
        "documented codes; distinct = distinct requests (method, headers, body, kind)",
        100000, 2000000),
    "C05": e2e(
        "each run = one exchange in one of three refinement worlds against the independent reference codec (package ref, shares no code with "
        "connect-go): (0) real client <-> real handler with generated programs (headers, trailers, k messages, nil or error with details and "
        "metadata), both directions recorded and strictly decoded by ref; (1) real client <-> reference server that strictly decodes the request "
        "and answers in a randomly chosen legal form (padded/unpadded -bin, upper/lower-case percent escapes, lower-case in-body keys, trailers-only "
        "or headers+trailers, per-message compression, details-bin present or omitted, identity named explicitly or omitted); (2) reference client "
        "(bare content types, padded -bin "
        "metadata, per-message compression with any supported algorithm, grammatical timeouts) -> real handler; oracle: strict decode succeeds and "
        "equals the supplied values; distinct = distinct scheduler-log hash among runs with >= 2 candidates",
        16000, 200000),
    "C08": e2e(
        "each run = one history of 2-5 calls (sequential on one task or interleaved on two) through ONE shared handler set and ONE shared client: "
        "handler registration list and client accept list are independent ordered subsets of {a,b,c} plus gzip, send-compression from the client's "
        "set, both compress-min-bytes from {0,1,8,64,512}, message sizes around the thresholds, 3 protocols x 4 kinds; some calls carry a corrupt "
        "compressed request (bit flip, truncation, wrong algorithm, 4 MiB bomb) or receive a corrupt compressed response; optionally one operation "
        "(Write/Close/Reset/Read) of an instrumented custom (de)compressor fails once; deterministic LIFO/FIFO pools so that the instance a failed "
        "call returned is the next one handed out; oracle from the raw exchange via the reference codec: negotiation, preference order, encoding "
        "header, threshold, losslessness, isolation of bad calls, instrumented instance discipline; distinct = distinct scheduler-log hash",
        12000, 200000),
    "C09": e2e(
        "each run = one call with a read limit N (1,2,5,64,512,1024,65536 or random) on the handler or on the client: honest senders with encoded "
        "sizes N-1, N, N+1, >>N at stream positions 0..4 with identity/gzip/custom compression and compressible payloads (wire <= N < decompressed, "
        "up to 1 MiB; 16 MiB thorough); byzantine senders (crafted request into ServeHTTP / crafted response behind HTTPClient.Do) with a declared "
        "length of 2^32-1 and 3 bytes present, N+1 declared and nothing present, 1 MiB envelopes flagged as plain / end-of-stream / trailers, a 4 MiB "
        "gzip bomb, a 64 MiB Content-Length on a 5-byte body; sizes on the wire and after decompression are computed by the harness from the "
        "recorded bytes; the verif pool hook reports the largest buffer the receiver released (bound 4N+64KiB); workers run under a 6 GiB address-space "
        "limit; distinct = distinct scheduler-log hash among runs with >= 2 candidates",
        16000, 150000),
    "C13": e2e(
        "each run = G in 2..6 client tasks x K in 1..3 calls (plus separate sender/receiver tasks for bidi streams) with pairwise-distinct tagged "
        "payloads, headers and trailers, of mixed protocols, codecs, compressions, kinds and sizes, over ONE handler set and 1-3 shared clients; "
        "deterministic build: schedule decided at every transport operation and library yield point, poisoned LIFO/FIFO pools, custom (de)compressors "
        "that park mid-operation, detection of double Put; oracle: each call's result == its solo expectation, no foreign tag anywhere, values "
        "handed to user code still equal their at-receipt copies at the end of the run; in half of the runs the HTTPClient edits request.URL in place "
        "(per-call query parameter) and the URL handed to Do must be pristine; -race build of the same world with happens-before-free "
        "gates (also over the C14, C15 and C08 worlds: sender / receiver / request goroutine of one call, shared compressor pools): a race report whose "
        "racing accesses are inside connect-go is a violation; distinct = distinct scheduler-log hash",
        6000, 100000, race=True, race_also=["C14", "C15", "C08"], quick_extra={"race_runs": 600}, thorough_extra={"race_runs": 20000}),
}

# Scenario families added after the rule texts above were written (hunt waves 2 and 3, DESIGN.md 9).
TRANSPORT_HABITS = ("transport habits drawn per call: transit time (the handler starts 3-300 us after Do), an HTTPClient that reports the "
                    "context's end in its own words (a fifth of the calls), on HTTP/1.1 a cancellation that reaches the server before the "
                    "client's socket is closed (half of the calls); in a sixth of the non-bidi calls a ResponseWriter without Flush (on HTTP/1.1 net/http's rule "
                    "for unchunked responses applies: trailers added after the first write are lost unless announced), in half of the HTTP/1.1 calls a "
                    "server that closes the connection on a client that keeps uploading after it has the answer; in half of the calls the server "
                    "keeps the answer in its buffer until the handler flushes, overflows it or returns, and gives a complete one its Content-Length; an eighth of the calls go through an HTTPClient whose hand-built Response leaves ContentLength at zero")
ADDENDA = {
    "C07": "unknown-compression requests include lists of codings on one header line and on two",
    "C10": "a re-sent Request may carry a deadline too far away for the header to express; a third of the unary calls with a deadline use a client codec that takes fake time over "
           "the request message (for unary Connect the bound is the time remaining when marshalling ended)",
    "C19": "recovery functions whose error quotes a panic value that is not valid UTF-8; the handler's other interceptors (up to three, each its own option) record whether a call "
           "returned through them or a panic unwound through them, which must match the configured position of WithRecover; in a quarter of the unary calls one of them mirrors the "
           "request object to a shadow client before the call proceeds",
    "C01": "a sixth of the runs put an interceptor on one side that receives streamed messages through the conn-level API into two scratch "
           "values used in turn; codec marshal failures (plain and wrapping io.EOF) on some messages; " + TRANSPORT_HABITS,
    "C02": "errors (plain or coded) whose cause wraps io.EOF; details whose type is not linked into the binary or that have no JSON form (the two listed open findings); handlers whose codecs marshal the service's own messages only (a tenth of the runs: intact over Connect, a coded failure with its metadata over gRPC / gRPC-Web); errors received from another "
           "call and passed on; " + TRANSPORT_HABITS,
    "C04": "a third of the exchanges have a read limit on the handler, an over-limit message mid-request and a handler that carries on "
           "receiving; gRPC responses are also re-delivered with Response.Trailer complete from the start (an in-memory HTTPClient) and cut at "
           "every offset with every failing end condition; cut conditions also include a transport error that has io.EOF in its chain and a reset with NO_ERROR; after a faulted delivery the program may keep receiving: the outcome must stay an error",
    "C05": "plain Go errors and error texts that are not valid UTF-8 in the live worlds (code and the rest of the text must arrive); the "
           "reference server answers before reading the request in a third of its successful answers; world (0) includes gateway handlers that return the Response, or pass on the Request, they got from a backend call in another protocol and "
           "encoding: the hop's own protocol and entity headers must describe the hop; " + TRANSPORT_HABITS,
    "C06": "a third of the non-2xx answers (not for unary Connect calls) come from a server that flushes its answer and reads the request to its end "
           "before ending the response; over HTTP/2 the transport has stopped uploading at the sight of the status, so that end comes only if the "
           "client lets go of the response",
    "C08": "some Requests are re-sent through a second client with another compression set and possibly another protocol; some compression "
           "constructors are nil; instrumented (de)compressors report any use between Put and the next Get",
    "C09": "hostile peers also send a unary request whose Content-Length fits the limit while the body is far larger (what a handler sees "
           "behind a body-rewriting middleware); clients also get hand-built Responses whose ContentLength is zero",
    "C11": "metadata under well-known HTTP field names the protocols do not use (Content-Language, Content-Location, Allow, Link, Etag, "
           "Server-Timing); unary Connect error bodies over the client's read limit or undecodable (the metadata must survive); "
           "stream handlers whose first response the codec refuses and that end with their error (nothing sent: the metadata must still arrive)",
    "C13": "a quarter of the unary HTTP/2 calls are retries of the very same Request after a first attempt that its deadline cut short, or "
           "that the HTTPClient itself gave up on under a context that never ends - while the stub's HTTP/2 transport reads the request's "
           "header map once more at a later step, as net/http's header-encoding goroutine may (race build); one client may be misconfigured so that every call fails locally (each call must get its own error value); clients may annotate the errors "
           "they receive; a third of the server and bidi streams call Receive once more after the stream has reported its end",
    "C14": "a third of the calls run under a context that can be cancelled but outlives the call (the library's watcher must be gone "
           "when the call is); Do failures (nothing answers); calls refused by the protocol layer (compression the handler lacks), first messages that cannot be marshalled, programs that abandon a "
           "cancelled call without closing it, lock-step bidi programs; " + TRANSPORT_HABITS,
    "C15": "some messages cannot be marshalled: an operation started after the instant must still report the context; half of the canceller "
           "runs make the canceller eligible only after a tape-chosen stretch of fake time (the instant lands anywhere in the life of the call); "
           "a focused family - HTTP/1.1, a receiver blocked on a quiet stream, a handler that stops when its context ends (returning the "
           "context's error, or nil), a slow library watcher - in which a clean end or a foreign code handed over by the transport after the "
           "instant is a violation; " + TRANSPORT_HABITS,
}
for _k, _v in ADDENDA.items():
    PROPS[_k]["rule"] += "; ALSO: " + _v

#!/usr/bin/env python3
"""Regenerates MANIFEST.json from checkcfg.py and the texts below."""
import json, subprocess, sys
sys.path.insert(0, "/verif")
from checkcfg import PROPS

NA = {
    "C12": "pure function of (method, HTTP version, Content-Type string, immutable handler configuration): no schedule, clock, stream fault or shared state influences the dispatch decision, so deterministic simulation has nothing to act on (DESIGN.md 6)",
    "C16": "the interceptor chain is a pure function of the option list, computed once at construction; the order of interceptor events does not depend on any interleaving, clock or fault (DESIGN.md 6)",
    "C17": "batch program from a CodeGeneratorRequest on stdin to a response on stdout: deciding it needs descriptor generation plus go/parser and go build, i.e. property-based testing, not simulation (DESIGN.md 6)",
    "C18": "total pure functions over integers and byte strings whose stated verification is complete enumeration; nothing for a scheduler or fault injector to act on (DESIGN.md 6)",
}
PENDING = "check not built yet in this session (see DESIGN.md 5 for the planned world)"
ALL = ["C%02d" % i for i in range(1, 20)]

TEXT = {
 "C01": ("seeded deterministic simulation of client/handler exchanges over a stub transport; oracle: received sequence == sent sequence in both directions + clean end",
         "Seeded search over scenarios x schedules x segmentations (not exhaustive). Exploration is the honest level: the quantifier ranges over all message sequences x ~100 configurations, which cannot be enumerated; what the simulator adds over the tests is control of read boundaries, windows, flush points, goroutine interleaving and pool reuse, with poisoned pooled buffers.",
         "5 C01"),
 "C02": ("seeded deterministic simulation of failing handlers; oracle: client error == handler error (code, message bytes, details, metadata) and never success",
         "Seeded search: the input dimension (codes, message classes, details, metadata) is seeded generation; what simulation adds is the k-messages-then-error histories under concurrent sender/receiver, early handler exit with a blocked sender, and the three error carriers (headers, HTTP trailers, in-body block) under adversarial segmentation.",
         "5 C02"),
 "C11": ("seeded deterministic simulation of header/trailer propagation; oracle: every key/value set by one side is observed by the other in per-key order",
         "Seeded search over metadata multimaps x protocols x kinds x outcomes under adversarial schedules and segmentation; exploration is the honest level for an unbounded input space.",
         "5 C11"),
 "C14": ("seeded deterministic simulation with adversarial scheduling at library yield points; oracle: bounded termination on the fake clock, leak scan, Send/Receive stickiness",
         "Seeded search over operation sequences x handler programs x schedules, including delays at every single library synchronisation point and every pair (sampled by tape; coverage of pairs is counted in the evidence). Liveness is decided as deterministic hang detection on the simulated clock, which real-time tests cannot do.",
         "5 C14"),
 "C15": ("seeded deterministic simulation with cancellation/expiry instants chosen by the scheduler on a fake clock; oracle: codes of operations started after the instant",
         "Seeded search over cancellation instants relative to call progress (any scheduler step, incl. while a Send is blocked on a full window or a Receive on an empty body) and expiry instants on the simulated clock; only decidable with a controlled clock and scheduler. That the server-side context is cancelled is the stub's doing and is not claimed.",
         "5 C15"),
 "C19": ("seeded deterministic simulation with handler crash (panic) injection; oracle: recovery function called exactly once with the value, client sees its error, abort sentinel re-raised",
         "Seeded search over panic values x program points x kinds x protocols x interceptor positions under adversarial schedules; the panic is a crash fault injected into the handler task.",
         "5 C19"),
 "C10": ("seeded deterministic simulation on a fake clock; oracle: reference timeout grammar, value <= remaining with bounded loss, handler deadline == arrival + value exactly",
         "Only decidable with a controlled clock: with real time the remaining time changes between context creation and header encoding. The duration and string domains are sampled by seeded, stratified generation (every unit x digit-count boundary), not enumerated.",
         "5 C10"),
 "C03": ("deterministic simulation with enumerated transport segmentation: recorded exchanges re-delivered to the real receiver under every split of the bounded bodies",
         "Fault enumeration: for each explored exchange the segmentation space is enumerated completely for small bodies (all 2^(n-1) splits) and by a fixed adversarial family for larger ones; the exchanges themselves are sampled by seed, so completeness holds per exchange over the stated family, not over all bodies.",
         "5 C03"),
 "C04": ("deterministic simulation with enumerated crash points: every cut offset x end condition x trailers of recorded exchanges, plus failure of the k-th write",
         "Fault enumeration: every byte offset of every explored body (bounded size) x every end condition is delivered to the real client / handler; 'terminator arrived' is computed by the independent reference codec from the delivered prefix. Exchanges are sampled by seed.",
         "5 C04"),
 "C06": ("deterministic simulation with a byzantine server node behind HTTPClient.Do; oracle: termination, no panic, coded non-zero errors, HTTP status mapping, case-insensitive lookups",
         "Seeded search over hostile responses; honest note: the deciding power is the byzantine peer's seeded generation, the simulator adds termination/hang detection on the fake clock, segmentation and timing of the hostile bytes, and attribution of panics on the library's own goroutine.",
         "5 C06"),
 "C07": ("deterministic simulation with a byzantine client node driving Handler.ServeHTTP; oracle: termination, no panic, response strictly decodable by the reference codec, user code at most once with decodable messages, documented codes",
         "Seeded search over hostile requests; honest note as for C06: the byzantine peer's seeded generation decides, the simulator adds termination/hang detection, segmentation of the hostile body and panic attribution. Request envelopes carrying the response-only flags 0x02/0x80 are a don't-care zone.",
         "5 C07"),
 "C05": ("deterministic simulation with reference peer nodes: refinement of recorded exchanges against an independent strict codec of the three protocols",
         "Refinement against an executable reference model driven by seeded program generation; scheduling and segmentation vary but are not what the property turns on (honest note). Only table entries that are stable across every published protocol revision are asserted exactly.",
         "5 C05"),
 "C08": ("deterministic simulation of call histories over shared (de)compressor pools with corrupt payloads and injected compressor failures; oracle from the raw exchange via the reference codec",
         "Seeded search over algorithm sets/orders x thresholds x sizes x protocols x kinds and over histories (sequences and interleavings) of valid and corrupt calls on shared pools made deterministic (LIFO) by the verif hooks, so that reuse of an instance after a failed call is guaranteed rather than left to sync.Pool.",
         "5 C08"),
 "C09": ("deterministic simulation with honest and byzantine senders around the read limit; oracle: harness-computed wire/decompressed sizes, pool-hook buffer bound",
         "Seeded search over limits x sizes x positions x compressions x protocols x directions, plus lying length prefixes, flagged oversized envelopes, false Content-Lengths and decompression bombs. The buffering bound is measured on pooled buffers through the verif hook (not RSS). The protocol's own end-of-stream block is not a message: limits smaller than it are only used where no such block exists.",
         "5 C09"),
 "C13": ("deterministic simulation of concurrent calls over shared clients/handlers with poisoned deterministic pools, plus the same world under the race detector with happens-before-free scheduling gates",
         "Seeded search over interleavings (the scheduler decides every transport operation and library yield point). The race detector only sees accesses a run executes, so 'no unsynchronised access' is decided for the operations the workloads reach. Race-build schedules are not settled against same-instant timers (DESIGN 3.2), so a race report is confirmed by re-running its seed.",
         "5 C13"),
}

hooks_commits = subprocess.run(["git", "-C", "/repo", "log", "--format=%H", "--grep=^verif:"], capture_output=True, text=True).stdout.split()
m = {
 "version": 1,
 "setup_cmd": "cd /verif && ./check build",
 "hooks": {
   "guard": "verif",
   "enable": "go1.26.8 test -c -tags verif (GOTOOLCHAIN=local GOFLAGS=-mod=mod GOPROXY=off); hooks are the function variables in connect.VerifHooks (verif_on.go); with the tag off verif_off.go supplies empty inlinable stubs",
   "baseline_off_cmd": "cd /repo && GOFLAGS=-mod=mod go test -json -vet=off -count=1 -timeout 25m ./...",
   "source_commits": hooks_commits,
   "add_only": True,
 },
 "engines": [
   {"name": "sim", "path": "/verif/sim", "serves_properties": sorted(PROPS), "kind_free_text": "deterministic simulator: choice tape (one seed), cooperative scheduler inside a testing/synctest bubble (fake clock), stub HTTP transport with fault injection, reference protocol codec, per-property workloads and oracles, tape minimiser"},
 ],
 "checks": [],
 "not_applicable": [],
 "notes": "Driver: /verif/check (python3) builds /verif/sim/world as a test binary against /repo's working tree with -tags verif on every invocation and runs it in up to 16 worker processes. Replay files are written to /verif/replays/. Known findings: /verif/known_findings.json.",
}
for pid in ALL:
    if pid in PROPS:
        tech, text, ref = TEXT[pid]
        cfg = PROPS[pid]
        m["checks"].append({
          "property_id": pid,
          "quick_cmd": "./check %s --tier quick" % pid,
          "thorough_cmd": "./check %s --tier thorough" % pid,
          "evidence_file": "/verif/evidence/%s.json" % pid,
          "replay_cmd_template": "./check %s --replay {path}" % pid,
          "engine": "sim",
          "level_claimed": {"category": cfg["level"], "text": text, "design_ref": ref},
          "level_note": "; ".join(cfg["assumptions"]),
          "technique": "deterministic simulation with fault injection: " + tech,
        })
    elif pid in NA:
        m["not_applicable"].append({"property_id": pid, "reason": NA[pid]})
    else:
        m["not_applicable"].append({"property_id": pid, "reason": PENDING})
json.dump(m, open("/verif/MANIFEST.json", "w"), indent=1)
print("checks:", [c["property_id"] for c in m["checks"]])

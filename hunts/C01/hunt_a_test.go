package connect_test

import (
	"context"
	"io"
	"log"
	"net/http"
	"net/http/httptest"
	"testing"

	connect "github.com/bufbuild/connect-go"
	pingv1 "github.com/bufbuild/connect-go/internal/gen/connect/ping/v1"
)

// TestHuntA_WithCompressionNilConstructors: the documentation of
// WithCompression says: "Calling WithCompression with an empty name or nil
// constructors is a no-op." A handler configured with
// WithCompression("gzip", nil, nil) must therefore behave exactly like a
// default handler: a default client (which asks for gzipped responses) sends one
// message and must get the echoed message back, intact, exactly once.
//
// Observed: the option is not a no-op. It replaces the built-in gzip pool with
// a pool whose constructors are nil; the first message that has to be
// compressed (or decompressed) calls a nil func, the handler goroutine panics,
// net/http tears the connection down, and the message is never delivered.
func TestHuntA_WithCompressionNilConstructors(t *testing.T) {
	for _, tc := range []struct {
		name string
		opts []connect.ClientOption
	}{
		{"connect", nil},
		{"grpc", []connect.ClientOption{connect.WithGRPC()}},
		{"grpcweb", []connect.ClientOption{connect.WithGRPCWeb()}},
		{"connect-sendgzip", []connect.ClientOption{connect.WithSendGzip()}},
	} {
		t.Run(tc.name, func(t *testing.T) {
			mux := http.NewServeMux()
			mux.Handle("/ping", connect.NewUnaryHandler(
				"/ping",
				func(_ context.Context, req *connect.Request[pingv1.PingRequest]) (*connect.Response[pingv1.PingResponse], error) {
					return connect.NewResponse(&pingv1.PingResponse{Number: req.Msg.Number, Text: req.Msg.Text}), nil
				},
				connect.WithCompression("gzip", nil, nil), // documented: no-op
			))
			server := httptest.NewUnstartedServer(mux)
			server.EnableHTTP2 = true
			server.Config.ErrorLog = log.New(io.Discard, "", 0) // silence the panic trace
			server.StartTLS()
			defer server.Close()

			client := connect.NewClient[pingv1.PingRequest, pingv1.PingResponse](
				server.Client(), server.URL+"/ping", tc.opts...,
			)
			res, err := client.CallUnary(context.Background(), connect.NewRequest(&pingv1.PingRequest{Number: 42, Text: "hello"}))
			if err != nil {
				t.Fatalf("expected the message to be echoed (WithCompression with nil constructors is documented as a no-op), got error: %v", err)
			}
			if res.Msg.Number != 42 || res.Msg.Text != "hello" {
				t.Fatalf("expected (42, hello), got (%d, %q)", res.Msg.Number, res.Msg.Text)
			}
		})
	}
}

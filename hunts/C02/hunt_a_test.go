package connect_test

import (
	"context"
	"errors"
	"net/http"
	"net/http/httptest"
	"testing"

	connect "github.com/bufbuild/connect-go"
	pingv1 "github.com/bufbuild/connect-go/internal/gen/connect/ping/v1"
	"github.com/bufbuild/connect-go/internal/gen/connect/ping/v1/pingv1connect"
	"google.golang.org/protobuf/types/known/anypb"
	"google.golang.org/protobuf/types/known/durationpb"
)

// huntAInterceptor is a handler-side streaming interceptor that lets the
// handler run to completion (so the handler's response message is already on
// the wire) and then fails the RPC, e.g. because a post-condition/audit/commit
// step failed.
type huntAInterceptor struct {
	mk func() error
}

func (i *huntAInterceptor) WrapUnary(next connect.UnaryFunc) connect.UnaryFunc { return next }
func (i *huntAInterceptor) WrapStreamingClient(next connect.StreamingClientFunc) connect.StreamingClientFunc {
	return next
}
func (i *huntAInterceptor) WrapStreamingHandler(next connect.StreamingHandlerFunc) connect.StreamingHandlerFunc {
	return func(ctx context.Context, conn connect.StreamingHandlerConn) error {
		if err := next(ctx, conn); err != nil {
			return err
		}
		return i.mk()
	}
}

type huntASumServer struct {
	pingv1connect.UnimplementedPingServiceHandler
}

func (huntASumServer) Sum(_ context.Context, stream *connect.ClientStream[pingv1.SumRequest]) (*connect.Response[pingv1.SumResponse], error) {
	var sum int64
	for stream.Receive() {
		sum += stream.Msg().Number
	}
	if err := stream.Err(); err != nil {
		return nil, err
	}
	return connect.NewResponse(&pingv1.SumResponse{Sum: sum}), nil
}

// Property C02: "When a handler or interceptor returns an error ... the client
// receives an error with the same code, byte-identical message, equal details
// in the same order and metadata ... in every protocol, codec and RPC kind,
// whether or not response messages were already sent."
//
// RPC kind: client streaming. One response message is sent, then the
// interceptor returns resource_exhausted with a detail and metadata.
func TestHuntA_ClientStreamErrorAfterResponseMessage(t *testing.T) {
	detail, err := anypb.New(durationpb.New(42))
	if err != nil {
		t.Fatal(err)
	}
	mk := func() error {
		e := connect.NewError(connect.CodeResourceExhausted, errors.New("quota gone"))
		e.AddDetail(detail)
		e.Meta().Set("X-Quota", "0")
		return e
	}
	mux := http.NewServeMux()
	mux.Handle(pingv1connect.NewPingServiceHandler(
		huntASumServer{},
		connect.WithInterceptors(&huntAInterceptor{mk: mk}),
	))
	server := httptest.NewUnstartedServer(mux)
	server.EnableHTTP2 = true
	server.StartTLS()
	defer server.Close()

	for _, tc := range []struct {
		name string
		opts []connect.ClientOption
	}{
		{"connect", nil},
		{"grpc", []connect.ClientOption{connect.WithGRPC()}},
		{"grpcweb", []connect.ClientOption{connect.WithGRPCWeb()}},
	} {
		tc := tc
		t.Run(tc.name, func(t *testing.T) {
			client := pingv1connect.NewPingServiceClient(server.Client(), server.URL, tc.opts...)
			stream := client.Sum(context.Background())
			if err := stream.Send(&pingv1.SumRequest{Number: 1}); err != nil {
				t.Fatalf("send: %v", err)
			}
			res, err := stream.CloseAndReceive()
			if err == nil {
				t.Fatalf("error delivered as success: got response %v, want resource_exhausted", res.Msg)
			}
			var connectErr *connect.Error
			if !errors.As(err, &connectErr) {
				t.Fatalf("got %T %v, want *connect.Error", err, err)
			}
			if connectErr.Code() != connect.CodeResourceExhausted {
				t.Errorf("code: expected %v (what the interceptor returned), got %v (error: %v)",
					connect.CodeResourceExhausted, connectErr.Code(), err)
			}
			if connectErr.Message() != "quota gone" {
				t.Errorf("message: expected %q, got %q", "quota gone", connectErr.Message())
			}
			if len(connectErr.Details()) != 1 {
				t.Errorf("details: expected 1 detail, got %d", len(connectErr.Details()))
			}
			if got := connectErr.Meta().Get("X-Quota"); got != "0" {
				t.Errorf("metadata: expected X-Quota=0, got %q (meta %v)", got, connectErr.Meta())
			}
		})
	}
}

package connect_test

import (
	"context"
	"errors"
	"net/http"
	"net/http/httptest"
	"testing"

	connect "github.com/bufbuild/connect-go"
	pingv1 "github.com/bufbuild/connect-go/internal/gen/connect/ping/v1"
	"github.com/bufbuild/connect-go/internal/gen/connect/ping/v1/pingv1connect"
	"google.golang.org/protobuf/proto"
	"google.golang.org/protobuf/types/known/anypb"
)

type huntBServer struct {
	pingv1connect.UnimplementedPingServiceHandler
	mk func() error
}

func (s huntBServer) Fail(context.Context, *connect.Request[pingv1.FailRequest]) (*connect.Response[pingv1.FailResponse], error) {
	return nil, s.mk()
}

func (s huntBServer) CountUp(_ context.Context, _ *connect.Request[pingv1.CountUpRequest], stream *connect.ServerStream[pingv1.CountUpResponse]) error {
	if err := stream.Send(&pingv1.CountUpResponse{Number: 1}); err != nil {
		return err
	}
	return s.mk()
}

// Property C02: the client receives "the same code, byte-identical message,
// equal details in the same order and metadata ... in every protocol".
//
// The detail here is a perfectly valid Any-wrapped message whose message type
// is not linked into this binary (think of a gateway handler that forwards
// the details it got from an upstream service, or a message built with
// dynamicpb): type URL + serialized bytes. The gRPC and gRPC-Web protocols
// carry it verbatim. With the Connect protocol the handler tries to expand
// the Any with protojson, fails, and sends NO error body at all (unary) / NO
// end-of-stream message at all (streaming), so the client loses code, message,
// details and metadata.
func TestHuntB_DetailOfTypeUnknownToTheBinary(t *testing.T) {
	detail := &anypb.Any{
		TypeUrl: "type.googleapis.com/acme.billing.v1.QuotaFailure",
		Value:   []byte{0x08, 0x2a, 0x12, 0x03, 'a', 'b', 'c'}, // field 1 varint 42, field 2 "abc"
	}
	mk := func() error {
		e := connect.NewError(connect.CodeAborted, errors.New("try again"))
		e.AddDetail(detail)
		e.Meta().Set("X-Reason", "conflict")
		return e
	}
	mux := http.NewServeMux()
	mux.Handle(pingv1connect.NewPingServiceHandler(huntBServer{mk: mk}))
	server := httptest.NewUnstartedServer(mux)
	server.EnableHTTP2 = true
	server.StartTLS()
	defer server.Close()

	check := func(t *testing.T, err error) {
		t.Helper()
		if err == nil {
			t.Fatalf("expected an error, got success")
		}
		var connectErr *connect.Error
		if !errors.As(err, &connectErr) {
			t.Fatalf("got %T %v, want *connect.Error", err, err)
		}
		if connectErr.Code() != connect.CodeAborted {
			t.Errorf("code: expected %v, got %v (error: %v)", connect.CodeAborted, connectErr.Code(), err)
		}
		if connectErr.Message() != "try again" {
			t.Errorf("message: expected %q, got %q", "try again", connectErr.Message())
		}
		if len(connectErr.Details()) != 1 {
			t.Errorf("details: expected 1 detail, got %d", len(connectErr.Details()))
		} else if !proto.Equal(connectErr.Details()[0], detail) {
			t.Errorf("details: expected %v, got %v", detail, connectErr.Details()[0])
		}
		if got := connectErr.Meta().Get("X-Reason"); got != "conflict" {
			t.Errorf("metadata: expected X-Reason=conflict, got %q", got)
		}
	}

	for _, tc := range []struct {
		name string
		opts []connect.ClientOption
	}{
		{"grpc", []connect.ClientOption{connect.WithGRPC()}},
		{"grpcweb", []connect.ClientOption{connect.WithGRPCWeb()}},
		{"connect", nil},
	} {
		tc := tc
		t.Run(tc.name+"/unary", func(t *testing.T) {
			client := pingv1connect.NewPingServiceClient(server.Client(), server.URL, tc.opts...)
			_, err := client.Fail(context.Background(), connect.NewRequest(&pingv1.FailRequest{}))
			check(t, err)
		})
		t.Run(tc.name+"/serverstream", func(t *testing.T) {
			client := pingv1connect.NewPingServiceClient(server.Client(), server.URL, tc.opts...)
			stream, err := client.CountUp(context.Background(), connect.NewRequest(&pingv1.CountUpRequest{Number: 1}))
			if err != nil {
				t.Fatal(err)
			}
			defer stream.Close()
			for stream.Receive() {
			}
			check(t, stream.Err())
		})
	}
}

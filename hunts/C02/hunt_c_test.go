package connect_test

import (
	"context"
	"errors"
	"fmt"
	"net/http"
	"net/http/httptest"
	"testing"

	connect "github.com/bufbuild/connect-go"
	pingv1 "github.com/bufbuild/connect-go/internal/gen/connect/ping/v1"
	"github.com/bufbuild/connect-go/internal/gen/connect/ping/v1/pingv1connect"
)

// Property C02: "A plain Go error arrives as code unknown with its text".
//
// The handler's own downstream work (a database query, an outbound HTTP call
// with its own, shorter, timeout, a worker that was cancelled, ...) failed
// with a plain Go error that happens to wrap context.DeadlineExceeded or
// context.Canceled. The RPC's own context is alive and has no deadline at
// all. The handler returns that plain error without attaching a code. The
// client is told "deadline_exceeded" / "canceled" - codes that the handler
// never chose and that tell the caller that *its* deadline or cancellation
// ended the call - instead of "unknown".
func TestHuntC_PlainErrorWrappingContextErrorIsNotUnknown(t *testing.T) {
	for _, plain := range []error{
		fmt.Errorf("query users: %w", context.DeadlineExceeded),
		fmt.Errorf("refresh cache: worker stopped: %w", context.Canceled),
	} {
		plain := plain
		mux := http.NewServeMux()
		mux.Handle(pingv1connect.NewPingServiceHandler(huntBServer{mk: func() error { return plain }}))
		server := httptest.NewUnstartedServer(mux)
		server.EnableHTTP2 = true
		server.StartTLS()
		for _, tc := range []struct {
			name string
			opts []connect.ClientOption
		}{
			{"connect", nil},
			{"grpc", []connect.ClientOption{connect.WithGRPC()}},
			{"grpcweb", []connect.ClientOption{connect.WithGRPCWeb()}},
		} {
			client := pingv1connect.NewPingServiceClient(server.Client(), server.URL, tc.opts...)
			// No deadline, no cancellation on the RPC itself.
			_, err := client.Fail(context.Background(), connect.NewRequest(&pingv1.FailRequest{}))
			var connectErr *connect.Error
			if !errors.As(err, &connectErr) {
				t.Fatalf("%s: got %T %v, want *connect.Error", tc.name, err, err)
			}
			if connectErr.Message() != plain.Error() {
				t.Errorf("%s: message: expected %q, got %q", tc.name, plain.Error(), connectErr.Message())
			}
			if connectErr.Code() != connect.CodeUnknown {
				t.Errorf("%s: handler returned the plain Go error %q: expected code %v, got %v",
					tc.name, plain, connect.CodeUnknown, connectErr.Code())
			}
		}
		server.Close()
	}
}

package connect_test

import (
	"context"
	"errors"
	"net/http"
	"net/http/httptest"
	"strings"
	"testing"

	connect "github.com/bufbuild/connect-go"
	pingv1 "github.com/bufbuild/connect-go/internal/gen/connect/ping/v1"
	"github.com/bufbuild/connect-go/internal/gen/connect/ping/v1/pingv1connect"
)

// Property C02: the handler's error reaches the client with the same code and
// byte-identical message "in every protocol, codec and RPC kind", for all
// valid messages including long ones.
//
// Configuration: the client uses WithReadMaxBytes(64). The documentation of
// that option says: "Limits apply to each Protobuf message, not to the stream
// as a whole." The API's response messages are tiny (CountUpResponse), so 64
// is a sensible limit. The handler fails with a 300-byte message.
//
// The limit is also applied to the frame that carries the *error* (Connect's
// end-of-stream JSON, gRPC-Web's trailer block), which is not a Protobuf
// message: for streaming RPCs over Connect and gRPC-Web the handler's
// data_loss error is replaced by a client-made invalid_argument "message size
// N is larger than configured max 64". The same error arrives intact over
// gRPC (HTTP trailers) and for unary Connect calls (error body is read without
// limit), so the outcome depends on protocol and RPC kind.
func TestHuntD_ReadMaxBytesSwallowsStreamingError(t *testing.T) {
	message := strings.Repeat("m", 300)
	mk := func() error {
		e := connect.NewError(connect.CodeDataLoss, errors.New(message))
		e.Meta().Set("X-Shard", "7")
		return e
	}
	mux := http.NewServeMux()
	mux.Handle(pingv1connect.NewPingServiceHandler(huntBServer{mk: mk}))
	server := httptest.NewUnstartedServer(mux)
	server.EnableHTTP2 = true
	server.StartTLS()
	defer server.Close()

	check := func(t *testing.T, err error) {
		t.Helper()
		var connectErr *connect.Error
		if !errors.As(err, &connectErr) {
			t.Fatalf("got %T %v, want *connect.Error", err, err)
		}
		if connectErr.Code() != connect.CodeDataLoss {
			t.Errorf("code: expected %v (returned by the handler), got %v (error: %.100v)",
				connect.CodeDataLoss, connectErr.Code(), err)
		}
		if connectErr.Message() != message {
			t.Errorf("message: expected the handler's 300-byte message, got %q", connectErr.Message())
		}
		if got := connectErr.Meta().Get("X-Shard"); got != "7" {
			t.Errorf("metadata: expected X-Shard=7, got %q", got)
		}
	}
	for _, tc := range []struct {
		name string
		opts []connect.ClientOption
	}{
		{"grpc", []connect.ClientOption{connect.WithGRPC()}},
		{"connect", nil},
		{"grpcweb", []connect.ClientOption{connect.WithGRPCWeb()}},
	} {
		tc := tc
		opts := append([]connect.ClientOption{connect.WithReadMaxBytes(64)}, tc.opts...)
		client := pingv1connect.NewPingServiceClient(server.Client(), server.URL, opts...)
		t.Run(tc.name+"/unary", func(t *testing.T) {
			_, err := client.Fail(context.Background(), connect.NewRequest(&pingv1.FailRequest{}))
			check(t, err)
		})
		t.Run(tc.name+"/serverstream", func(t *testing.T) {
			stream, err := client.CountUp(context.Background(), connect.NewRequest(&pingv1.CountUpRequest{Number: 1}))
			if err != nil {
				t.Fatal(err)
			}
			defer stream.Close()
			for stream.Receive() {
			}
			check(t, stream.Err())
		})
	}
}

package connect_test

import (
	"bytes"
	"context"
	"encoding/binary"
	"io"
	"net/http"
	"net/http/httptest"
	"strings"
	"testing"

	"github.com/bufbuild/connect-go"
	pingv1 "github.com/bufbuild/connect-go/internal/gen/connect/ping/v1"
	"github.com/bufbuild/connect-go/internal/gen/connect/ping/v1/pingv1connect"
	"google.golang.org/protobuf/proto"
)

type huntAPingServer struct {
	pingv1connect.UnimplementedPingServiceHandler
}

func (huntAPingServer) Ping(
	_ context.Context,
	req *connect.Request[pingv1.PingRequest],
) (*connect.Response[pingv1.PingResponse], error) {
	res := connect.NewResponse(&pingv1.PingResponse{Number: req.Msg.Number})
	res.Trailer().Set("X-Custom-Trailer", "v")
	return res, nil
}

// TestHuntA_GRPCWebTrailerNamesLowerCase posts a conformant gRPC-Web unary
// request and decodes the response body the way a strict gRPC-Web peer does.
// PROTOCOL-WEB.md ("HTTP wire protocols", item 2) requires "lower-case
// header/trailer names" for the trailers that travel in the body's 0x80
// frame, because they are not subject to HTTP/2's automatic lower-casing.
func TestHuntA_GRPCWebTrailerNamesLowerCase(t *testing.T) {
	mux := http.NewServeMux()
	mux.Handle(pingv1connect.NewPingServiceHandler(huntAPingServer{}))
	server := httptest.NewServer(mux)
	defer server.Close()

	payload, err := proto.Marshal(&pingv1.PingRequest{Number: 42})
	if err != nil {
		t.Fatal(err)
	}
	body := &bytes.Buffer{}
	body.WriteByte(0)
	_ = binary.Write(body, binary.BigEndian, uint32(len(payload)))
	body.Write(payload)

	req, err := http.NewRequest(
		http.MethodPost,
		server.URL+"/connect.ping.v1.PingService/Ping",
		body,
	)
	if err != nil {
		t.Fatal(err)
	}
	req.Header.Set("Content-Type", "application/grpc-web+proto")
	req.Header.Set("X-Grpc-Web", "1")
	res, err := server.Client().Do(req)
	if err != nil {
		t.Fatal(err)
	}
	defer res.Body.Close()
	if res.StatusCode != http.StatusOK {
		t.Fatalf("HTTP status: expected 200, got %d", res.StatusCode)
	}
	raw, err := io.ReadAll(res.Body)
	if err != nil {
		t.Fatal(err)
	}

	// Walk the frames.
	var trailerBlock []byte
	sawTrailer := false
	for len(raw) > 0 {
		if len(raw) < 5 {
			t.Fatalf("truncated frame prefix: % x", raw)
		}
		flags := raw[0]
		size := binary.BigEndian.Uint32(raw[1:5])
		if uint32(len(raw)-5) < size {
			t.Fatalf("truncated frame: want %d bytes, have %d", size, len(raw)-5)
		}
		data := raw[5 : 5+size]
		raw = raw[5+size:]
		if sawTrailer {
			t.Fatalf("frame after the trailer frame")
		}
		if flags&0x80 != 0 {
			if flags&0x01 != 0 {
				t.Fatalf("unexpected compressed trailer frame; no grpc-encoding negotiated")
			}
			sawTrailer = true
			trailerBlock = data
		}
	}
	if !sawTrailer {
		t.Fatalf("no 0x80 trailer frame in gRPC-Web response body")
	}
	t.Logf("trailer block on the wire: %q", trailerBlock)

	statusCount := 0
	for _, line := range strings.Split(string(trailerBlock), "\r\n") {
		if line == "" {
			continue
		}
		name, _, ok := strings.Cut(line, ":")
		if !ok {
			t.Fatalf("malformed trailer line %q", line)
		}
		if name == "grpc-status" {
			statusCount++
		}
		if name != strings.ToLower(name) {
			t.Errorf(
				"gRPC-Web trailer name on the wire: expected lower-case %q (PROTOCOL-WEB.md: \"use lower-case header/trailer names\"), got %q",
				strings.ToLower(name), name,
			)
		}
	}
	if statusCount != 1 {
		t.Errorf(
			"strict gRPC-Web decoder: expected exactly one \"grpc-status\" trailer in the 0x80 frame, found %d (block %q)",
			statusCount, trailerBlock,
		)
	}
}

package connect_test

import (
	"bytes"
	"context"
	"encoding/binary"
	"encoding/json"
	"errors"
	"io"
	"net/http"
	"net/http/httptest"
	"testing"

	"github.com/bufbuild/connect-go"
	pingv1 "github.com/bufbuild/connect-go/internal/gen/connect/ping/v1"
	"github.com/bufbuild/connect-go/internal/gen/connect/ping/v1/pingv1connect"
	"google.golang.org/protobuf/proto"
	"google.golang.org/protobuf/types/known/anypb"
)

// A handler that fails with an error whose detail is an Any that this binary
// has no descriptor for - exactly what a proxy gets when it forwards the
// details of an upstream error, and a perfectly legal ErrorDetail (*anypb.Any
// is the type the ErrorDetail documentation names).
type huntBPingServer struct {
	pingv1connect.UnimplementedPingServiceHandler
}

func huntBError() error {
	err := connect.NewError(connect.CodeAborted, errors.New("upstream says no"))
	err.AddDetail(&anypb.Any{
		TypeUrl: "type.googleapis.com/acme.upstream.v1.RetryHint",
		Value:   []byte{0x08, 0x2a}, // field 1 varint 42
	})
	err.Meta().Set("X-Reason", "upstream")
	return err
}

func (huntBPingServer) Ping(
	context.Context,
	*connect.Request[pingv1.PingRequest],
) (*connect.Response[pingv1.PingResponse], error) {
	return nil, huntBError()
}

func (huntBPingServer) CountUp(
	_ context.Context,
	_ *connect.Request[pingv1.CountUpRequest],
	stream *connect.ServerStream[pingv1.CountUpResponse],
) error {
	if err := stream.Send(&pingv1.CountUpResponse{Number: 1}); err != nil {
		return err
	}
	return huntBError()
}

func huntBServer(t *testing.T) *httptest.Server {
	t.Helper()
	mux := http.NewServeMux()
	mux.Handle(pingv1connect.NewPingServiceHandler(huntBPingServer{}))
	server := httptest.NewServer(mux)
	t.Cleanup(server.Close)
	return server
}

// Property clause: "a unary Connect error is JSON under the code's HTTP
// status" and "yields the ... status, error and metadata the application
// supplied".
func TestHuntB_ConnectUnaryErrorWithOpaqueDetail(t *testing.T) {
	server := huntBServer(t)

	// Sanity: the very same handler error is representable - the gRPC protocol
	// carries it fine.
	grpcWebClient := pingv1connect.NewPingServiceClient(server.Client(), server.URL, connect.WithGRPCWeb())
	_, err := grpcWebClient.Ping(context.Background(), connect.NewRequest(&pingv1.PingRequest{}))
	if connect.CodeOf(err) != connect.CodeAborted {
		t.Fatalf("gRPC-Web sanity check: expected code aborted, got %v", err)
	}

	// Raw, strict Connect peer.
	req, _ := http.NewRequest(
		http.MethodPost,
		server.URL+"/connect.ping.v1.PingService/Ping",
		bytes.NewReader([]byte("{}")),
	)
	req.Header.Set("Content-Type", "application/json")
	res, err := server.Client().Do(req)
	if err != nil {
		t.Fatal(err)
	}
	defer res.Body.Close()
	body, _ := io.ReadAll(res.Body)
	t.Logf("HTTP %d, Content-Type %q, body %q", res.StatusCode, res.Header.Get("Content-Type"), body)
	if res.StatusCode != http.StatusConflict {
		t.Errorf("HTTP status: expected 409 (aborted), got %d", res.StatusCode)
	}
	var wire struct {
		Code    string `json:"code"`
		Message string `json:"message"`
	}
	if err := json.Unmarshal(body, &wire); err != nil {
		t.Errorf("unary Connect error body: expected a JSON error object under HTTP 409, got %q (%v)", body, err)
	} else if wire.Code != "aborted" {
		t.Errorf("unary Connect error body: expected code \"aborted\", got %q", wire.Code)
	}

	// And what the library's own client makes of it.
	client := pingv1connect.NewPingServiceClient(server.Client(), server.URL)
	_, err = client.Ping(context.Background(), connect.NewRequest(&pingv1.PingRequest{}))
	if got := connect.CodeOf(err); got != connect.CodeAborted {
		t.Errorf("Connect client: expected the handler's code aborted, got %v (%v)", got, err)
	}
}

// Property clause: "a Connect stream ends with exactly one end-of-stream
// envelope".
func TestHuntB_ConnectStreamErrorWithOpaqueDetail(t *testing.T) {
	server := huntBServer(t)

	payload, _ := proto.Marshal(&pingv1.CountUpRequest{Number: 1})
	reqBody := &bytes.Buffer{}
	reqBody.WriteByte(0)
	_ = binary.Write(reqBody, binary.BigEndian, uint32(len(payload)))
	reqBody.Write(payload)
	req, _ := http.NewRequest(
		http.MethodPost,
		server.URL+"/connect.ping.v1.PingService/CountUp",
		reqBody,
	)
	req.Header.Set("Content-Type", "application/connect+proto")
	res, err := server.Client().Do(req)
	if err != nil {
		t.Fatal(err)
	}
	defer res.Body.Close()
	raw, err := io.ReadAll(res.Body)
	if err != nil {
		t.Fatal(err)
	}
	t.Logf("HTTP %d, body % x", res.StatusCode, raw)
	messages, endStreams := 0, 0
	for len(raw) >= 5 {
		flags := raw[0]
		size := binary.BigEndian.Uint32(raw[1:5])
		raw = raw[5+size:]
		if flags&0x02 != 0 {
			endStreams++
		} else {
			messages++
		}
	}
	if messages != 1 {
		t.Errorf("expected 1 message envelope, got %d", messages)
	}
	if endStreams != 1 {
		t.Errorf(
			"Connect streaming response: expected exactly one end-of-stream envelope carrying the handler's error (aborted), got %d: the body simply ends",
			endStreams,
		)
	}
}

// The converse direction: a conformant Connect peer (written in another
// language, with its own message types) answers with an error whose detail
// type this binary does not know. Property clause: "every conformant ...
// response produced by that implementation is accepted and decoded to the
// same values".
func TestHuntB_ConnectClientReceivesOpaqueDetail(t *testing.T) {
	const errorJSON = `{"code":"aborted","message":"upstream says no","details":[{"@type":"type.googleapis.com/acme.upstream.v1.RetryHint","seconds":42}]}`
	mux := http.NewServeMux()
	mux.HandleFunc("/connect.ping.v1.PingService/Ping", func(w http.ResponseWriter, r *http.Request) {
		_, _ = io.Copy(io.Discard, r.Body)
		w.Header().Set("Content-Type", "application/json")
		w.WriteHeader(http.StatusConflict)
		_, _ = io.WriteString(w, errorJSON)
	})
	mux.HandleFunc("/connect.ping.v1.PingService/CountUp", func(w http.ResponseWriter, r *http.Request) {
		_, _ = io.Copy(io.Discard, r.Body)
		w.Header().Set("Content-Type", r.Header.Get("Content-Type"))
		w.WriteHeader(http.StatusOK)
		end := `{"error":` + errorJSON + `}`
		prefix := [5]byte{0x02}
		binary.BigEndian.PutUint32(prefix[1:], uint32(len(end)))
		_, _ = w.Write(prefix[:])
		_, _ = io.WriteString(w, end)
	})
	server := httptest.NewServer(mux)
	defer server.Close()
	client := pingv1connect.NewPingServiceClient(server.Client(), server.URL)

	_, err := client.Ping(context.Background(), connect.NewRequest(&pingv1.PingRequest{}))
	if got := connect.CodeOf(err); got != connect.CodeAborted {
		t.Errorf("unary: peer sent code aborted with message %q; client decoded code %v (%v)", "upstream says no", got, err)
	}

	stream, err := client.CountUp(context.Background(), connect.NewRequest(&pingv1.CountUpRequest{Number: 1}))
	if err != nil {
		t.Fatal(err)
	}
	for stream.Receive() {
	}
	if got := connect.CodeOf(stream.Err()); got != connect.CodeAborted {
		t.Errorf("stream: peer's end-of-stream envelope carried code aborted; client decoded code %v (%v)", got, stream.Err())
	}
	_ = stream.Close()
}

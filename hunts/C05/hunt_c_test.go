package connect_test

import (
	"context"
	"encoding/binary"
	"io"
	"net/http"
	"net/http/httptest"
	"testing"

	"github.com/bufbuild/connect-go"
	pingv1 "github.com/bufbuild/connect-go/internal/gen/connect/ping/v1"
	"github.com/bufbuild/connect-go/internal/gen/connect/ping/v1/pingv1connect"
	"google.golang.org/protobuf/proto"
)

// A conformant gRPC / gRPC-Web peer answers a unary call with
//
//	Response-Headers, one Length-Prefixed-Message, Trailers{grpc-status: 5}
//
// which the gRPC grammar (Response -> Response-Headers *Length-Prefixed-Message
// Trailers) allows. The status the peer supplied is NOT_FOUND (5) with message
// "no such thing"; the client must decode that status.
func TestHuntC_GRPCUnaryMessageThenErrorStatus(t *testing.T) {
	payload, _ := proto.Marshal(&pingv1.PingResponse{Number: 1})
	frame := func(flags byte, data []byte) []byte {
		out := make([]byte, 5, 5+len(data))
		out[0] = flags
		binary.BigEndian.PutUint32(out[1:], uint32(len(data)))
		return append(out, data...)
	}
	mux := http.NewServeMux()
	mux.HandleFunc("/connect.ping.v1.PingService/Ping", func(w http.ResponseWriter, r *http.Request) {
		_, _ = io.Copy(io.Discard, r.Body)
		contentType := r.Header.Get("Content-Type")
		w.Header().Set("Content-Type", contentType)
		switch contentType {
		case "application/grpc+proto":
			w.Header().Set("Trailer", "Grpc-Status, Grpc-Message")
			w.WriteHeader(http.StatusOK)
			_, _ = w.Write(frame(0, payload))
			w.Header().Set("Grpc-Status", "5")
			w.Header().Set("Grpc-Message", "no such thing")
		case "application/grpc-web+proto":
			w.WriteHeader(http.StatusOK)
			_, _ = w.Write(frame(0, payload))
			_, _ = w.Write(frame(0x80, []byte("grpc-status: 5\r\ngrpc-message: no such thing\r\n")))
		default:
			w.WriteHeader(http.StatusUnsupportedMediaType)
		}
	})
	server := httptest.NewUnstartedServer(mux)
	server.EnableHTTP2 = true
	server.StartTLS()
	defer server.Close()

	for name, opt := range map[string]connect.ClientOption{
		"grpc":    connect.WithGRPC(),
		"grpcweb": connect.WithGRPCWeb(),
	} {
		name, opt := name, opt
		t.Run(name, func(t *testing.T) {
			client := pingv1connect.NewPingServiceClient(server.Client(), server.URL, opt)
			_, err := client.Ping(context.Background(), connect.NewRequest(&pingv1.PingRequest{}))
			if err == nil {
				t.Fatalf("expected an error: the peer sent grpc-status 5")
			}
			if got := connect.CodeOf(err); got != connect.CodeNotFound {
				t.Errorf("peer sent grpc-status 5 (not_found) %q; client decoded code %v (%v)", "no such thing", got, err)
			}
		})
	}
}

// Same decoding path, Connect protocol, client-streaming RPC: the peer answers
// with one message envelope followed by an end-of-stream envelope that carries
// an error (legal: "Streaming-Response -> headers *Enveloped-Message
// EndStreamResponse").
func TestHuntC_ConnectClientStreamMessageThenEndStreamError(t *testing.T) {
	payload, _ := proto.Marshal(&pingv1.SumResponse{Sum: 1})
	frame := func(flags byte, data []byte) []byte {
		out := make([]byte, 5, 5+len(data))
		out[0] = flags
		binary.BigEndian.PutUint32(out[1:], uint32(len(data)))
		return append(out, data...)
	}
	mux := http.NewServeMux()
	mux.HandleFunc("/connect.ping.v1.PingService/Sum", func(w http.ResponseWriter, r *http.Request) {
		_, _ = io.Copy(io.Discard, r.Body)
		w.Header().Set("Content-Type", r.Header.Get("Content-Type"))
		w.WriteHeader(http.StatusOK)
		_, _ = w.Write(frame(0, payload))
		_, _ = w.Write(frame(2, []byte(`{"error":{"code":"not_found","message":"no such thing"}}`)))
	})
	server := httptest.NewServer(mux)
	defer server.Close()
	client := pingv1connect.NewPingServiceClient(server.Client(), server.URL)
	stream := client.Sum(context.Background())
	_ = stream.Send(&pingv1.SumRequest{Number: 1})
	_, err := stream.CloseAndReceive()
	if got := connect.CodeOf(err); got != connect.CodeNotFound {
		t.Errorf("peer's end-of-stream envelope carried code not_found; client decoded code %v (%v)", got, err)
	}
}

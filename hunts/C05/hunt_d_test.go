package connect_test

import (
	"context"
	"io"
	"net/http"
	"net/http/httptest"
	"testing"

	"github.com/bufbuild/connect-go"
	pingv1 "github.com/bufbuild/connect-go/internal/gen/connect/ping/v1"
	"github.com/bufbuild/connect-go/internal/gen/connect/ping/v1/pingv1connect"
)

// A conformant gRPC server (grpc-go does this whenever a handler sends no
// header metadata and no messages) ends a server-streaming call that produced
// zero messages with a Trailers-Only response:
//
//	Trailers-Only -> HTTP-Status Content-Type Trailers
//
// i.e. a single HEADERS frame with END_STREAM. Everything in it other than
// :status and content-type is trailing metadata. The library applies this rule
// when grpc-status is non-zero, but not when it is zero.
func TestHuntD_GRPCTrailersOnlyOKMetadata(t *testing.T) {
	mux := http.NewServeMux()
	mux.HandleFunc("/connect.ping.v1.PingService/CountUp", func(w http.ResponseWriter, r *http.Request) {
		_, _ = io.Copy(io.Discard, r.Body)
		w.Header().Set("Content-Type", r.Header.Get("Content-Type"))
		w.Header().Set("Grpc-Status", "0")
		w.Header().Set("X-Server-Trailer", "bye")
		w.WriteHeader(http.StatusOK)
	})
	server := httptest.NewUnstartedServer(mux)
	server.EnableHTTP2 = true
	server.StartTLS()
	defer server.Close()

	for name, opt := range map[string]connect.ClientOption{
		"grpc":    connect.WithGRPC(),
		"grpcweb": connect.WithGRPCWeb(),
	} {
		name, opt := name, opt
		t.Run(name, func(t *testing.T) {
			client := pingv1connect.NewPingServiceClient(server.Client(), server.URL, opt)
			stream, err := client.CountUp(context.Background(), connect.NewRequest(&pingv1.CountUpRequest{Number: 1}))
			if err != nil {
				t.Fatal(err)
			}
			for stream.Receive() {
				t.Errorf("unexpected message")
			}
			if err := stream.Err(); err != nil {
				t.Fatalf("expected a clean end of stream, got %v", err)
			}
			if got := stream.ResponseTrailer().Get("X-Server-Trailer"); got != "bye" {
				t.Errorf("trailing metadata x-server-trailer of a Trailers-Only response: expected %q in ResponseTrailer(), got %q (ResponseHeader has %q)",
					"bye", got, stream.ResponseHeader().Get("X-Server-Trailer"))
			}
			_ = stream.Close()
		})
	}
}

type huntDPingServer struct {
	pingv1connect.UnimplementedPingServiceHandler
}

func (huntDPingServer) CountUp(
	_ context.Context,
	_ *connect.Request[pingv1.CountUpRequest],
	stream *connect.ServerStream[pingv1.CountUpResponse],
) error {
	stream.ResponseHeader().Set("X-Server-Header", "hello")
	stream.ResponseTrailer().Set("X-Server-Trailer", "bye")
	return nil // zero messages
}

// The same thing with the library on both ends: its own gRPC-Web handler emits
// a Trailers-Only response when the handler sent no messages, and its own
// client then loses the distinction the application made.
func TestHuntD_GRPCWebRoundTripZeroMessagesTrailer(t *testing.T) {
	mux := http.NewServeMux()
	mux.Handle(pingv1connect.NewPingServiceHandler(huntDPingServer{}))
	server := httptest.NewServer(mux)
	defer server.Close()
	for name, opt := range map[string]connect.ClientOption{
		"connect (control)": connect.WithClientOptions(),
		"grpcweb":           connect.WithGRPCWeb(),
	} {
		name, opt := name, opt
		t.Run(name, func(t *testing.T) {
			client := pingv1connect.NewPingServiceClient(server.Client(), server.URL, opt)
			stream, err := client.CountUp(context.Background(), connect.NewRequest(&pingv1.CountUpRequest{Number: 1}))
			if err != nil {
				t.Fatal(err)
			}
			for stream.Receive() {
				t.Errorf("unexpected message")
			}
			if err := stream.Err(); err != nil {
				t.Fatalf("expected a clean end of stream, got %v", err)
			}
			if got := stream.ResponseTrailer().Get("X-Server-Trailer"); got != "bye" {
				t.Errorf("handler set trailer X-Server-Trailer=bye; client ResponseTrailer() has %q (ResponseHeader() has %q)",
					got, stream.ResponseHeader().Get("X-Server-Trailer"))
			}
			if got := stream.ResponseHeader().Get("X-Server-Header"); got != "hello" {
				t.Errorf("handler set header X-Server-Header=hello; client ResponseHeader() has %q", got)
			}
			_ = stream.Close()
		})
	}
}

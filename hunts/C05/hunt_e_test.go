package connect_test

import (
	"bytes"
	"compress/gzip"
	"context"
	"encoding/binary"
	"io"
	"net/http"
	"net/http/httptest"
	"strings"
	"testing"

	"github.com/bufbuild/connect-go"
	pingv1 "github.com/bufbuild/connect-go/internal/gen/connect/ping/v1"
	"github.com/bufbuild/connect-go/internal/gen/connect/ping/v1/pingv1connect"
	"google.golang.org/protobuf/proto"
)

type huntEPingServer struct {
	pingv1connect.UnimplementedPingServiceHandler
}

func (huntEPingServer) Ping(
	_ context.Context,
	req *connect.Request[pingv1.PingRequest],
) (*connect.Response[pingv1.PingResponse], error) {
	return connect.NewResponse(&pingv1.PingResponse{Number: req.Msg.Number, Text: req.Msg.Text}), nil
}

// A legal, if asymmetric, peer: it compresses what it sends with gzip but
// declares that it can only decode identity (for example a thin client that
// has a gzip writer but no gzip reader). grpc/doc/compression.md: the server
// must pick the response encoding from the client's grpc-accept-encoding; a
// response in another encoding is undecodable for this peer (it must fail the
// call with INTERNAL). The Connect protocol says the same for
// Accept-Encoding / Connect-Accept-Encoding.
func TestHuntE_ResponseEncodingIgnoresAcceptEncoding(t *testing.T) {
	mux := http.NewServeMux()
	mux.Handle(pingv1connect.NewPingServiceHandler(huntEPingServer{}))
	server := httptest.NewServer(mux)
	defer server.Close()

	payload, _ := proto.Marshal(&pingv1.PingRequest{Number: 7, Text: strings.Repeat("a", 256)})
	var zipped bytes.Buffer
	zw := gzip.NewWriter(&zipped)
	_, _ = zw.Write(payload)
	_ = zw.Close()
	envelope := func(flags byte, data []byte) []byte {
		out := make([]byte, 5, 5+len(data))
		out[0] = flags
		binary.BigEndian.PutUint32(out[1:], uint32(len(data)))
		return append(out, data...)
	}

	t.Run("grpcweb", func(t *testing.T) {
		req, _ := http.NewRequest(http.MethodPost,
			server.URL+"/connect.ping.v1.PingService/Ping",
			bytes.NewReader(envelope(1, zipped.Bytes())))
		req.Header.Set("Content-Type", "application/grpc-web+proto")
		req.Header.Set("Grpc-Encoding", "gzip")
		req.Header.Set("Grpc-Accept-Encoding", "identity")
		req.Header.Set("Accept-Encoding", "identity")
		res, err := server.Client().Do(req)
		if err != nil {
			t.Fatal(err)
		}
		defer res.Body.Close()
		raw, _ := io.ReadAll(res.Body)
		enc := res.Header.Get("Grpc-Encoding")
		if enc != "" && enc != "identity" {
			t.Errorf("peer sent grpc-accept-encoding: identity; response carries grpc-encoding: %q", enc)
		}
		if len(raw) < 5 {
			t.Fatalf("short body % x", raw)
		}
		if raw[0]&1 != 0 {
			t.Errorf("peer sent grpc-accept-encoding: identity; first response message is flagged compressed (flags %#x)", raw[0])
		}
	})

	t.Run("connect unary", func(t *testing.T) {
		req, _ := http.NewRequest(http.MethodPost,
			server.URL+"/connect.ping.v1.PingService/Ping",
			bytes.NewReader(zipped.Bytes()))
		req.Header.Set("Content-Type", "application/proto")
		req.Header.Set("Content-Encoding", "gzip")
		req.Header.Set("Accept-Encoding", "identity")
		res, err := server.Client().Do(req)
		if err != nil {
			t.Fatal(err)
		}
		defer res.Body.Close()
		if enc := res.Header.Get("Content-Encoding"); enc != "" && enc != "identity" {
			t.Errorf("peer sent accept-encoding: identity; response carries content-encoding: %q", enc)
		}
	})
}

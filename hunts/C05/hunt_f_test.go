package connect_test

import (
	"bytes"
	"io"
	"net/http"
	"net/http/httptest"
	"testing"

	"github.com/bufbuild/connect-go/internal/gen/connect/ping/v1/pingv1connect"
)

// A peer tries a compression the handler does not have ("br"). Both the gRPC
// compression spec and the Connect spec say what must come back: an
// Unimplemented error plus the list of supported encodings. A strict decoder
// first validates the response's own encoding header (grpc-encoding /
// connect-content-encoding -> Content-Coding, a non-empty token that must be
// "identity" or something the decoder supports) - if that header is present
// but names no algorithm the decoder has to fail the response as undecodable
// and never gets to the Unimplemented error.
func TestHuntF_EmptyEncodingHeaderOnNegotiationFailure(t *testing.T) {
	mux := http.NewServeMux()
	mux.Handle(pingv1connect.NewPingServiceHandler(huntEPingServer{}))
	server := httptest.NewServer(mux)
	defer server.Close()

	cases := []struct {
		name, path, contentType, sendHeader, responseHeader string
		body                                                []byte
	}{
		{"grpc", "/connect.ping.v1.PingService/Ping", "application/grpc", "Grpc-Encoding", "Grpc-Encoding", []byte{0, 0, 0, 0, 0}},
		{"grpcweb", "/connect.ping.v1.PingService/Ping", "application/grpc-web", "Grpc-Encoding", "Grpc-Encoding", []byte{0, 0, 0, 0, 0}},
		{"connect stream", "/connect.ping.v1.PingService/CountUp", "application/connect+proto", "Connect-Content-Encoding", "Connect-Content-Encoding", []byte{0, 0, 0, 0, 0}},
	}
	for _, tc := range cases {
		tc := tc
		t.Run(tc.name, func(t *testing.T) {
			req, _ := http.NewRequest(http.MethodPost, server.URL+tc.path, bytes.NewReader(tc.body))
			req.Header.Set("Content-Type", tc.contentType)
			req.Header.Set(tc.sendHeader, "br")
			res, err := server.Client().Do(req)
			if err != nil {
				t.Fatal(err)
			}
			defer res.Body.Close()
			_, _ = io.ReadAll(res.Body)
			if values, present := res.Header[tc.responseHeader]; present {
				for _, value := range values {
					if value == "" {
						t.Errorf("response carries %s header with an empty value: the header is present but names no algorithm (expected the header to be absent or \"identity\")", tc.responseHeader)
					}
				}
			}
		})
	}
}

package connect_test

import (
	"context"
	"errors"
	"net/http"
	"net/http/httptest"
	"testing"

	"github.com/bufbuild/connect-go"
	pingv1 "github.com/bufbuild/connect-go/internal/gen/connect/ping/v1"
	"github.com/bufbuild/connect-go/internal/gen/connect/ping/v1/pingv1connect"
)

type huntGPingServer struct {
	pingv1connect.UnimplementedPingServiceHandler
}

func (huntGPingServer) Ping(
	context.Context,
	*connect.Request[pingv1.PingRequest],
) (*connect.Response[pingv1.PingResponse], error) {
	// Error text that quotes bytes which are not valid UTF-8 (a file name, a
	// peer-supplied value, ...).
	return nil, connect.NewError(connect.CodeNotFound, errors.New("no file named \xff\xfe"))
}

func TestHuntG_GRPCErrorMessageNotUTF8(t *testing.T) {
	mux := http.NewServeMux()
	mux.Handle(pingv1connect.NewPingServiceHandler(huntGPingServer{}))
	server := httptest.NewUnstartedServer(mux)
	server.EnableHTTP2 = true
	server.StartTLS()
	defer server.Close()
	for name, opt := range map[string]connect.ClientOption{
		"connect (control)": connect.WithClientOptions(),
		"grpc":              connect.WithGRPC(),
		"grpcweb":           connect.WithGRPCWeb(),
	} {
		name, opt := name, opt
		t.Run(name, func(t *testing.T) {
			client := pingv1connect.NewPingServiceClient(server.Client(), server.URL, opt)
			_, err := client.Ping(context.Background(), connect.NewRequest(&pingv1.PingRequest{}))
			if got := connect.CodeOf(err); got != connect.CodeNotFound {
				t.Errorf("handler returned code not_found; the wire carried %v (%v)", got, err)
			}
		})
	}
}

package connect_test

import (
	"context"
	"errors"
	"net/http"
	"net/http/httptest"
	"testing"

	connect "github.com/bufbuild/connect-go"
	pingv1 "github.com/bufbuild/connect-go/internal/gen/connect/ping/v1"
	"github.com/bufbuild/connect-go/internal/gen/connect/ping/v1/pingv1connect"
)

// Property C06: "for a non-200 response that carries no valid protocol-level
// error the code is derived from the HTTP status".
//
// A unary Connect call that receives a non-200 response whose Content-Encoding
// is one the client does not know (for example an HTML error page that a proxy
// or CDN compressed with brotli or deflate) reports CodeInternal ("unknown
// encoding") whatever the HTTP status was: connectUnaryClientConn's
// validateResponse looks at Content-Encoding before it looks at the status.
// The streaming Connect client and both gRPC clients check the status first
// and so do derive the code from the status for the very same response.
func TestHuntA_UnaryConnectNon200UnknownContentEncoding(t *testing.T) {
	t.Parallel()
	cases := []struct {
		status   int
		encoding string
		want     connect.Code
	}{
		{http.StatusServiceUnavailable, "br", connect.CodeUnavailable},
		{http.StatusBadGateway, "deflate", connect.CodeUnavailable},
		{http.StatusUnauthorized, "br", connect.CodeUnauthenticated},
		{http.StatusForbidden, "zstd", connect.CodePermissionDenied},
		{http.StatusNotFound, "GZIP", connect.CodeUnimplemented},
		{http.StatusTooManyRequests, "gzip, gzip", connect.CodeUnavailable},
	}
	for _, testCase := range cases {
		testCase := testCase
		server := httptest.NewServer(http.HandlerFunc(func(w http.ResponseWriter, r *http.Request) {
			w.Header().Set("Content-Type", "text/html")
			w.Header().Set("Content-Encoding", testCase.encoding)
			w.WriteHeader(testCase.status)
			// Not a Connect error: just some bytes in an encoding we can't read.
			_, _ = w.Write([]byte("\x1b\x0a\x00\x00\x00<html>upstream down</html>"))
		}))
		client := pingv1connect.NewPingServiceClient(server.Client(), server.URL)

		// Reference: the streaming Connect client, given exactly the same
		// response, derives the code from the HTTP status.
		stream, err := client.CountUp(context.Background(), connect.NewRequest(&pingv1.CountUpRequest{Number: 1}))
		if err != nil {
			t.Fatalf("CountUp: %v", err)
		}
		for stream.Receive() {
		}
		if got := connect.CodeOf(stream.Err()); got != testCase.want {
			t.Errorf("server-stream, HTTP %d, Content-Encoding %q: expected code %v, got %v (%v)",
				testCase.status, testCase.encoding, testCase.want, got, stream.Err())
		}
		_ = stream.Close()

		_, err = client.Ping(context.Background(), connect.NewRequest(&pingv1.PingRequest{Number: 1}))
		server.Close()
		if err == nil {
			t.Errorf("unary, HTTP %d: expected an error, got success", testCase.status)
			continue
		}
		var connectErr *connect.Error
		if !errors.As(err, &connectErr) {
			t.Errorf("unary, HTTP %d: error %v is not a *connect.Error", testCase.status, err)
			continue
		}
		if got := connectErr.Code(); got != testCase.want {
			t.Errorf("unary Connect call, HTTP %d with Content-Encoding %q and no Connect error in the body: "+
				"expected the code derived from the HTTP status (%v), got %v (error: %v)",
				testCase.status, testCase.encoding, testCase.want, got, err)
		}
	}
}

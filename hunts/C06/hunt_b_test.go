package connect_test

import (
	"context"
	"errors"
	"net/http"
	"net/http/httptest"
	"os"
	"os/exec"
	"runtime"
	"strings"
	"syscall"
	"testing"

	connect "github.com/bufbuild/connect-go"
	pingv1 "github.com/bufbuild/connect-go/internal/gen/connect/ping/v1"
	"github.com/bufbuild/connect-go/internal/gen/connect/ping/v1/pingv1connect"
)

// Property C06: "For any HTTP response whatsoever - any status, headers,
// trailers and body bytes - every client call terminates without panicking and
// either succeeds or returns [a coded] error".
//
// A 200 response whose body is the five bytes 00 FF FF FF FF (an envelope
// prefix that promises a 4 GiB message and then ends) makes every enveloped
// client (Connect streaming, gRPC, gRPC-Web; any codec) reserve and clear the
// whole 4 GiB before it has received a single byte of the message:
// envelopeReader.Read calls env.Data.Grow(size) with the peer's number (the
// default client has no ReadMaxBytes). The same happens by accident for any
// 200 response that is not enveloped at all: "<html..." is flags 0x3c and a
// promised length of 0x68746d6c = 1.6 GiB.
//
// Where 4 GiB are available the call merely stalls for seconds and then
// returns invalid_argument. In a process that cannot get 4 GiB (a container, a
// small VM, a 32 bit-ish address space limit) the Go runtime aborts the whole
// process with "fatal error: out of memory" - which not even recover() can
// intercept. The test demonstrates that by running the call in a child process
// whose address space is limited to 3 GiB.
func TestHuntB_FiveByteBodyMakesClientAllocate4GiB(t *testing.T) {
	if runtime.GOOS != "linux" {
		t.Skip("uses RLIMIT_AS")
	}
	if os.Getenv("HUNT_B_CHILD") != "" {
		huntBChild(t)
		return
	}
	for _, protocol := range []string{"connect", "grpc", "grpcweb"} {
		cmd := exec.Command(os.Args[0], "-test.run=^TestHuntB_FiveByteBodyMakesClientAllocate4GiB$", "-test.v")
		cmd.Env = append(os.Environ(), "HUNT_B_CHILD="+protocol)
		out, err := cmd.CombinedOutput()
		if err != nil {
			firstLines := strings.SplitN(string(out), "\n", 12)
			if len(firstLines) > 11 {
				firstLines = firstLines[:11]
			}
			t.Errorf("%s client, 200 response with the 5-byte body 00 FF FF FF FF, process limited to 3 GiB of address space: "+
				"expected the call to return a coded error, but the whole process died (%v):\n%s",
				protocol, err, strings.Join(firstLines, "\n"))
			continue
		}
		t.Logf("%s: child survived:\n%s", protocol, out)
	}
}

func huntBChild(t *testing.T) {
	protocol := os.Getenv("HUNT_B_CHILD")
	server := httptest.NewServer(http.HandlerFunc(func(w http.ResponseWriter, r *http.Request) {
		w.Header().Set("Content-Type", r.Header.Get("Content-Type"))
		w.WriteHeader(http.StatusOK)
		_, _ = w.Write([]byte{0x00, 0xff, 0xff, 0xff, 0xff})
	}))
	defer server.Close()
	var opts []connect.ClientOption
	switch protocol {
	case "grpc":
		opts = append(opts, connect.WithGRPC())
	case "grpcweb":
		opts = append(opts, connect.WithGRPCWeb())
	}
	client := pingv1connect.NewPingServiceClient(server.Client(), server.URL, opts...)

	limit := &syscall.Rlimit{Cur: 3 << 30, Max: 3 << 30}
	if err := syscall.Setrlimit(syscall.RLIMIT_AS, limit); err != nil {
		t.Skipf("cannot limit address space: %v", err)
	}
	stream, err := client.CountUp(context.Background(), connect.NewRequest(&pingv1.CountUpRequest{Number: 1}))
	if err != nil {
		t.Fatalf("CountUp: %v", err)
	}
	for stream.Receive() {
	}
	err = stream.Err()
	var connectErr *connect.Error
	if !errors.As(err, &connectErr) || connectErr.Code() == 0 {
		t.Fatalf("expected a coded error, got %v", err)
	}
	t.Logf("call returned %v", err)
}

package connect_test

import (
	"testing"
)

// Property C07: "undecodable payloads ... reach the peer as the documented
// error codes".
//
// A JSON payload that is not valid UTF-8 cannot be decoded; the documented code
// for that is invalid_argument (gRPC status 3) and the Connect protocol
// indeed answers with it (commit 1eaa388 repaired its error body). Under gRPC
// and gRPC-Web the codec's complaint quotes the offending bytes, the handler
// then fails to marshal its own google.rpc.Status (proto3 strings must be
// UTF-8) and falls back to grpc-status 13 (internal) with the message
// "marshal protobuf status: string field contains invalid UTF-8": the peer is
// told that the *server* is broken, not that its request was invalid.
func TestHuntA_GRPCUndecodableJSONReportedAsInternal(t *testing.T) {
	svc, server := newHuntServer(t)
	client := server.Client()
	base := server.URL + "/connect.ping.v1.PingService/"
	payload := []byte("\xff\xfe") // not JSON, not UTF-8

	// Control: the Connect protocol reports the documented code.
	control := huntDo(client, base+"Ping", "application/json", nil, payload)
	if control.status != 400 {
		t.Fatalf("control (Connect unary) expected HTTP 400 invalid_argument, got %s", control)
	}

	for _, tc := range []struct{ contentType, path string }{
		{"application/grpc+json", "Ping"},
		{"application/grpc-web+json", "Ping"},
		{"application/grpc+json", "Sum"},
		{"application/grpc-web+json", "CountUp"},
	} {
		res := huntDo(client, base+tc.path, tc.contentType, nil, envelopeBytes(0, payload))
		if res.err != nil {
			t.Fatalf("%s %s: %v", tc.contentType, tc.path, res.err)
		}
		if got := grpcStatusOf(res); got != "3" {
			t.Errorf("%s %s: undecodable JSON payload %q: expected grpc-status 3 (invalid_argument), got grpc-status %q, grpc-message %q",
				tc.contentType, tc.path, payload, got, res.trailer.Get("Grpc-Message")+res.header.Get("Grpc-Message"))
		}
	}
	_ = svc
}

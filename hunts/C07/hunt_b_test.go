package connect_test

import (
	"bytes"
	"context"
	"fmt"
	"net/http"
	"net/http/httptest"
	"testing"

	"github.com/bufbuild/connect-go"
	pingv1 "github.com/bufbuild/connect-go/internal/gen/connect/ping/v1"
)

// Property C07: "For any HTTP request whatsoever, serving it terminates
// without panicking ... unknown compression ... reach[es] the peer as the
// documented error codes" - for all handler configurations.
//
// WithCompression's documentation says: "Calling WithCompression with an empty
// name or nil constructors is a no-op." It is not: the option registers a
// compression pool whose constructors are nil, the handler advertises the
// name, and the first request that names it makes ServeHTTP panic.
func TestHuntB_WithCompressionNilConstructorsPanics(t *testing.T) {
	handler := connect.NewUnaryHandler(
		"/connect.ping.v1.PingService/Ping",
		func(_ context.Context, req *connect.Request[pingv1.PingRequest]) (*connect.Response[pingv1.PingResponse], error) {
			return connect.NewResponse(&pingv1.PingResponse{Number: req.Msg.Number}), nil
		},
		connect.WithCompression("br", nil, nil), // documented as a no-op
	)

	serve := func(header http.Header, contentType string, body []byte) (rec *httptest.ResponseRecorder, panicked any) {
		req := httptest.NewRequest(http.MethodPost, "/connect.ping.v1.PingService/Ping", bytes.NewReader(body))
		req.Header.Set("Content-Type", contentType)
		for k, v := range header {
			req.Header[k] = v
		}
		rec = httptest.NewRecorder()
		defer func() { panicked = recover() }()
		handler.ServeHTTP(rec, req)
		return rec, nil
	}

	cases := []struct {
		name        string
		contentType string
		header      http.Header
		body        []byte
	}{
		// Client compresses its request with the "no-op" algorithm.
		{"connect unary, Content-Encoding: br", "application/proto", http.Header{"Content-Encoding": {"br"}}, []byte{8, 1}},
		{"grpc, Grpc-Encoding: br", "application/grpc", http.Header{"Grpc-Encoding": {"br"}}, []byte{1, 0, 0, 0, 2, 8, 1}},
		// Client merely says it would accept it (what every browser sends).
		{"connect unary, Accept-Encoding: br", "application/proto", http.Header{"Accept-Encoding": {"br"}}, []byte{8, 1}},
		{"grpc-web, Grpc-Accept-Encoding: br", "application/grpc-web", http.Header{"Grpc-Accept-Encoding": {"br"}}, []byte{0, 0, 0, 0, 2, 8, 1}},
	}
	for _, tc := range cases {
		rec, panicked := serve(tc.header, tc.contentType, tc.body)
		if panicked != nil {
			t.Errorf("%s: expected ServeHTTP to return normally (either treating \"br\" as unknown -> "+
				"unimplemented, or ignoring it) since WithCompression(name, nil, nil) is documented as a no-op; "+
				"instead ServeHTTP panicked: %v", tc.name, panicked)
			continue
		}
		t.Logf("%s: ok: status=%d header=%v body=%q", tc.name, rec.Code, rec.Header(), fmt.Sprint(rec.Body.Bytes()))
	}
}

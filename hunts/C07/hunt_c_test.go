package connect_test

import (
	"net/http"
	"net/http/httptest"
	"strings"
	"testing"

	"github.com/bufbuild/connect-go/internal/gen/connect/ping/v1/pingv1connect"
)

// Property C07, quantified over the HTTP version: serving any request "yields
// a response that is well-formed for the protocol selected by its
// Content-Type (or a bare 405/415/505 ...)", and malformed input "reach[es]
// the peer as the documented error codes".
//
// The gRPC protocol carries its status in HTTP trailers. net/http can only
// send trailers on HTTP/2 or on a chunked HTTP/1.1 response; for an HTTP/1.0
// request they are silently dropped. The handler does not check: it accepts
// "Content-Type: application/grpc" over HTTP/1.0 (only bidi streams are
// refused with 505) and answers "200 OK" without any grpc-status - for an
// undecodable payload, an invalid timeout or an unknown compression exactly as
// for a success. The error code never reaches the peer and the response is
// not a gRPC response. (The same requests over HTTP/1.1 do carry the trailers;
// gRPC-Web and Connect put the status in the body/headers and are fine.)
func TestHuntC_GRPCOverHTTP10LosesStatus(t *testing.T) {
	svc := &huntServer{log: t.Logf}
	mux := http.NewServeMux()
	mux.Handle(pingv1connect.NewPingServiceHandler(svc))
	server := httptest.NewServer(mux)
	defer server.Close()
	addr := server.Listener.Addr().String()
	const path = "/connect.ping.v1.PingService/Ping"

	// Control: HTTP/1.1 delivers the status as a chunked trailer.
	control := huntRaw(t, addr, "HTTP/1.1", path, "application/grpc", "", envelopeBytes(0, []byte{0xff}))
	if !strings.Contains(control, "Grpc-Status: 3\r\n") {
		t.Fatalf("control (HTTP/1.1) expected Grpc-Status: 3 trailer, got %q", control)
	}

	for _, tc := range []struct {
		name, extra string
		body        []byte
		want        string
	}{
		{"undecodable payload", "", envelopeBytes(0, []byte{0xff}), "Grpc-Status: 3"},
		{"invalid timeout", "Grpc-Timeout: soon\r\n", envelopeBytes(0, []byte{8, 1}), "Grpc-Status: 3"},
		{"unknown compression", "Grpc-Encoding: zzz\r\n", envelopeBytes(1, []byte{8, 1}), "Grpc-Status: 12"},
		{"valid request", "", envelopeBytes(0, []byte{8, 1}), "Grpc-Status: 0"},
	} {
		got := huntRaw(t, addr, "HTTP/1.0", path, "application/grpc", tc.extra, tc.body)
		statusLine, _, _ := strings.Cut(got, "\r\n")
		bare := strings.Contains(statusLine, " 505 ") || strings.Contains(statusLine, " 415 ") || strings.Contains(statusLine, " 405 ")
		if !bare && !strings.Contains(strings.ToLower(got), strings.ToLower(tc.want)) {
			t.Errorf("gRPC over HTTP/1.0, %s: expected either a bare 505/415 or a gRPC response carrying %q; "+
				"got a 200 response without any grpc-status: %q", tc.name, tc.want, got)
		}
	}
}

package connect_test

import (
	"testing"
)

// Property C07: "User code ... only ever receives messages that decoded
// successfully; ... undecodable payloads ... reach the peer as the documented
// error codes, never as success."
//
// The empty string is not a JSON document: the handler's own JSON codec
// rejects it, and a Connect unary call with an empty application/json body is
// answered with invalid_argument. But when the same empty payload arrives in
// an envelope (Connect streaming, gRPC, gRPC-Web with the +json codecs),
// envelopeReader.Unmarshal short-circuits on "no data" and never asks the
// codec: user code is invoked with a message that was never decoded, and the
// peer gets a success.
func TestHuntD_EmptyJSONEnvelopeBypassesCodec(t *testing.T) {
	svc, server := newHuntServer(t)
	client := server.Client()
	base := server.URL + "/connect.ping.v1.PingService/"

	// Control: same codec, same (empty) payload, unary Connect framing.
	control := huntDo(client, base+"Ping", "application/json", nil, nil)
	if control.status != 400 {
		t.Fatalf("control: empty application/json body expected 400 invalid_argument, got %s", control)
	}
	if n := svc.calls.Load(); n != 0 {
		t.Fatalf("control: user code ran %d times", n)
	}

	for _, tc := range []struct{ contentType, path string }{
		{"application/grpc+json", "Ping"},
		{"application/grpc-web+json", "Ping"},
		{"application/connect+json", "CountUp"},
		{"application/connect+json", "Sum"},
	} {
		before := svc.msgs.Load()
		res := huntDo(client, base+tc.path, tc.contentType, nil, envelopeBytes(0, nil))
		if res.err != nil {
			t.Fatalf("%s: %v", tc.contentType, res.err)
		}
		delivered := svc.msgs.Load() - before
		var rejected bool
		switch tc.contentType {
		case "application/connect+json":
			rejected = contains(res.body, `"error"`)
		default:
			rejected = grpcStatusOf(res) == "3"
		}
		if !rejected || delivered != 0 {
			t.Errorf("%s %s with a zero-length (hence undecodable) JSON message: expected invalid_argument and no message handed to user code; "+
				"got success=%v, and %d never-decoded message(s) were handed to user code; response %s",
				tc.contentType, tc.path, !rejected, delivered, res)
		}
	}
}

func contains(haystack []byte, needle string) bool {
	return len(needle) == 0 || (len(haystack) >= len(needle) && indexOf(haystack, needle) >= 0)
}

func indexOf(haystack []byte, needle string) int {
	for i := 0; i+len(needle) <= len(haystack); i++ {
		if string(haystack[i:i+len(needle)]) == needle {
			return i
		}
	}
	return -1
}

package connect_test

import (
	"testing"
)

// Property C07: "malformed framing, unknown compression ... reach the peer as
// the documented error codes, never as success."
//
// An envelope whose "compressed" flag is set although no compression was
// negotiated (no Grpc-Encoding / Connect-Content-Encoding request header) is
// a protocol error; the handler says so itself for non-empty payloads ("sent
// compressed message without Grpc-Encoding header"). With a zero-length
// payload the check is skipped: envelopeReader.Unmarshal returns early and
// the call succeeds with user code invoked.
func TestHuntE_CompressedFlagWithoutEncodingAccepted(t *testing.T) {
	svc, server := newHuntServer(t)
	client := server.Client()
	base := server.URL + "/connect.ping.v1.PingService/"

	// Control: non-empty payload with the same flag is rejected.
	control := huntDo(client, base+"Ping", "application/grpc", nil, envelopeBytes(1, []byte{8, 1}))
	if got := grpcStatusOf(control); got == "0" || got == "" {
		t.Fatalf("control: expected an error status, got %s", control)
	}
	if n := svc.calls.Load(); n != 0 {
		t.Fatalf("control: user code ran")
	}

	for _, tc := range []struct{ contentType, path string }{
		{"application/grpc", "Ping"},
		{"application/grpc-web", "Ping"},
		{"application/connect+proto", "CountUp"},
	} {
		before := svc.calls.Load()
		res := huntDo(client, base+tc.path, tc.contentType, nil, envelopeBytes(1, nil))
		if res.err != nil {
			t.Fatalf("%s: %v", tc.contentType, res.err)
		}
		ran := svc.calls.Load() - before
		var rejected bool
		if tc.contentType == "application/connect+proto" {
			rejected = contains(res.body, `"error"`)
		} else {
			status := grpcStatusOf(res)
			rejected = status != "0" && status != ""
		}
		if !rejected || ran != 0 {
			t.Errorf("%s: envelope 01 00000000 (compressed flag, no compression negotiated): expected a protocol error "+
				"and user code not run; got rejected=%v, user code ran %d time(s); response %s", tc.contentType, rejected, ran, res)
		}
	}
}

package connect_test

import (
	"testing"
)

// Property C07: "malformed framing ... reach[es] the peer as the documented
// error codes, never as success."
//
// For unary and server-streaming procedures the request must consist of
// exactly one enveloped message. The gRPC / gRPC-Web / Connect-streaming
// handlers read the first envelope and never look at what follows it: a
// truncated envelope prefix, plain garbage, or a second message after the
// first are all ignored and the call is answered as a success. (The same
// bytes at the start of the body are correctly rejected as "incomplete
// envelope", so the handler does know they are malformed.)
func TestHuntF_BytesAfterTheOnlyRequestMessageIgnored(t *testing.T) {
	svc, server := newHuntServer(t)
	client := server.Client()
	base := server.URL + "/connect.ping.v1.PingService/"
	first := envelopeBytes(0, []byte{8, 1}) // number: 1

	// Control: the garbage alone is recognised as malformed framing.
	control := huntDo(client, base+"Ping", "application/grpc", nil, []byte("xyz"))
	if got := grpcStatusOf(control); got != "3" {
		t.Fatalf("control: expected grpc-status 3 for a 3-byte body, got %s", control)
	}

	tails := []struct {
		name string
		tail []byte
	}{
		{"3 garbage bytes (incomplete envelope prefix)", []byte("xyz")},
		{"envelope promising 9 bytes but carrying 1", []byte{0, 0, 0, 0, 9, 1}},
		{"a second, undecodable message", envelopeBytes(0, []byte{0xff})},
		{"a second valid message (cardinality violation)", envelopeBytes(0, []byte{8, 2})},
	}
	for _, tc := range []struct{ contentType, path string }{
		{"application/grpc", "Ping"},
		{"application/grpc-web", "Ping"},
		{"application/grpc", "CountUp"},
		{"application/connect+proto", "CountUp"},
	} {
		for _, tail := range tails {
			before := svc.calls.Load()
			body := append(append([]byte{}, first...), tail.tail...)
			res := huntDo(client, base+tc.path, tc.contentType, nil, body)
			if res.err != nil {
				t.Fatalf("%s: %v", tc.contentType, res.err)
			}
			var success bool
			if tc.contentType == "application/connect+proto" {
				success = !contains(res.body, `"error"`)
			} else {
				success = grpcStatusOf(res) == "0"
			}
			if success {
				t.Errorf("%s %s: one message followed by %s: expected an error status (malformed framing), "+
					"got success with user code run %d time(s)", tc.contentType, tc.path, tail.name, svc.calls.Load()-before)
			}
		}
	}
}

package connect_test

import (
	"testing"
)

// Property C07: "malformed framing ... reach[es] the peer as the documented
// error codes, never as success."
//
// End-of-stream envelopes (Connect flag 0x02) and trailer envelopes (gRPC-Web
// flag 0x80) only exist in responses; a request containing one is malformed.
// The handler-side unmarshalers reuse the client-side logic, which turns such
// an envelope into errSpecialEnvelope - an error that wraps io.EOF. Handler
// streams (ClientStream.Receive/Err, BidiStream.Receive) treat anything that
// wraps io.EOF as the clean end of the request stream: the rest of the body
// is silently dropped and the RPC succeeds with a result computed from a
// prefix of what the client sent. The plain-gRPC handler rejects the very
// same envelope with "invalid envelope flags" (used as control).
func TestHuntG_ClientSentEndOfStreamEnvelopeEndsStreamCleanly(t *testing.T) {
	_, server := newHuntServer(t)
	client := server.Client()
	base := server.URL + "/connect.ping.v1.PingService/"

	msg := func(n byte) []byte { return envelopeBytes(0, []byte{8, n}) }
	build := func(special []byte) []byte {
		body := append([]byte{}, msg(1)...)
		body = append(body, special...)
		return append(body, msg(5)...) // sent after the bogus envelope; must not be ignored silently
	}
	connectEnd := envelopeBytes(0x02, []byte(`{}`))
	webTrailer := envelopeBytes(0x80, []byte("x-foo: bar\r\n"))

	control := huntDo(client, base+"Sum", "application/grpc", nil, build(webTrailer))
	if got := grpcStatusOf(control); got != "13" {
		t.Fatalf("control: plain gRPC expected grpc-status 13 (invalid envelope flags), got %s", control)
	}

	for _, tc := range []struct {
		contentType, path string
		body              []byte
	}{
		{"application/connect+proto", "Sum", build(connectEnd)},
		{"application/connect+proto", "CumSum", build(connectEnd)},
		{"application/grpc-web", "Sum", build(webTrailer)},
		{"application/grpc-web", "CumSum", build(webTrailer)},
	} {
		res := huntDo(client, base+tc.path, tc.contentType, nil, tc.body)
		if res.err != nil {
			t.Fatalf("%s: %v", tc.contentType, res.err)
		}
		var success bool
		if tc.contentType == "application/connect+proto" {
			success = !contains(res.body, `"error"`)
		} else {
			success = grpcStatusOf(res) == "0"
		}
		if success {
			t.Errorf("%s %s: request [msg 1][end-of-stream/trailer envelope][msg 5]: expected an error status "+
				"(requests may not contain such envelopes); got success, computed from msg 1 only: body %q",
				tc.contentType, tc.path, res.body)
		}
	}
}

package connect_test

import (
	"net/http"
	"strings"
	"testing"
)

// Property C07: "invalid timeouts ... reach the peer as the documented error
// codes, never as success."
//
// gRPC's grammar is  Timeout -> TimeoutValue TimeoutUnit,  TimeoutValue ->
// {positive integer as ASCII string of at most 8 digits}. grpcParseTimeout
// enforces the limit on the parsed *number* (num > 99999999), not on the
// string, so values with more than 8 digits are accepted as long as the
// surplus digits are leading zeros - up to whatever header size net/http
// tolerates. (grpc-go rejects these: "timeout string is too long". The
// Connect protocol's 10-digit limit is enforced on the string, and commit
// 336ee46 already made both parsers reject the other grammar violation that
// strconv.ParseInt tolerates, a sign.)
func TestHuntH_GRPCTimeoutLongerThanEightDigitsAccepted(t *testing.T) {
	svc, server := newHuntServer(t)
	client := server.Client()
	base := server.URL + "/connect.ping.v1.PingService/"

	control := huntDo(client, base+"Ping", "application/grpc", http.Header{"Grpc-Timeout": {"123456789S"}}, envelopeBytes(0, nil))
	if got := grpcStatusOf(control); got != "3" {
		t.Fatalf("control: 9 significant digits expected grpc-status 3, got %s", control)
	}

	for _, timeout := range []string{"000000010S", strings.Repeat("0", 1000) + "1H"} {
		for _, contentType := range []string{"application/grpc", "application/grpc-web"} {
			before := svc.calls.Load()
			res := huntDo(client, base+"Ping", contentType, http.Header{"Grpc-Timeout": {timeout}}, envelopeBytes(0, nil))
			if res.err != nil {
				t.Fatal(res.err)
			}
			shown := timeout
			if len(shown) > 20 {
				shown = shown[:8] + "..." + shown[len(shown)-4:]
			}
			if got := grpcStatusOf(res); got != "3" {
				t.Errorf("%s, Grpc-Timeout %q (%d digits, grammar allows at most 8): expected grpc-status 3 (invalid_argument) "+
					"and user code not run; got grpc-status %q, user code ran %d time(s)",
					contentType, shown, len(timeout)-1, got, svc.calls.Load()-before)
			}
		}
	}
}

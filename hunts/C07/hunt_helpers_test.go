// Shared helpers for the hunt_*_test.go demonstrations (property C07).
package connect_test

import (
	"bytes"
	"context"
	"encoding/binary"
	"fmt"
	"io"
	"net"
	"net/http"
	"net/http/httptest"
	"strings"
	"sync/atomic"
	"testing"
	"time"

	"github.com/bufbuild/connect-go"
	pingv1 "github.com/bufbuild/connect-go/internal/gen/connect/ping/v1"
	"github.com/bufbuild/connect-go/internal/gen/connect/ping/v1/pingv1connect"
)

type huntServer struct {
	pingv1connect.UnimplementedPingServiceHandler
	calls atomic.Int64 // invocations of user code
	msgs  atomic.Int64 // request messages handed to user code
	log   func(string, ...any)
}

func (s *huntServer) Ping(ctx context.Context, req *connect.Request[pingv1.PingRequest]) (*connect.Response[pingv1.PingResponse], error) {
	s.calls.Add(1)
	s.msgs.Add(1)
	s.log("Ping called: number=%d text=%q", req.Msg.Number, req.Msg.Text)
	return connect.NewResponse(&pingv1.PingResponse{Number: req.Msg.Number, Text: req.Msg.Text}), nil
}

func (s *huntServer) Sum(ctx context.Context, stream *connect.ClientStream[pingv1.SumRequest]) (*connect.Response[pingv1.SumResponse], error) {
	s.calls.Add(1)
	var sum int64
	for stream.Receive() {
		s.msgs.Add(1)
		s.log("Sum received %d", stream.Msg().Number)
		sum += stream.Msg().Number
	}
	if err := stream.Err(); err != nil {
		s.log("Sum err %v", err)
		return nil, err
	}
	return connect.NewResponse(&pingv1.SumResponse{Sum: sum}), nil
}

func (s *huntServer) CountUp(ctx context.Context, req *connect.Request[pingv1.CountUpRequest], stream *connect.ServerStream[pingv1.CountUpResponse]) error {
	s.calls.Add(1)
	s.msgs.Add(1)
	s.log("CountUp called: number=%d", req.Msg.Number)
	for i := int64(1); i <= req.Msg.Number; i++ {
		if err := stream.Send(&pingv1.CountUpResponse{Number: i}); err != nil {
			return err
		}
	}
	return nil
}

func (s *huntServer) CumSum(ctx context.Context, stream *connect.BidiStream[pingv1.CumSumRequest, pingv1.CumSumResponse]) error {
	s.calls.Add(1)
	var sum int64
	for {
		msg, err := stream.Receive()
		if err != nil {
			s.log("CumSum receive err %v", err)
			if isEOF(err) {
				return nil
			}
			return err
		}
		s.msgs.Add(1)
		sum += msg.Number
		if err := stream.Send(&pingv1.CumSumResponse{Sum: sum}); err != nil {
			return err
		}
	}
}

func isEOF(err error) bool {
	for e := err; e != nil; {
		if e == io.EOF {
			return true
		}
		u, ok := e.(interface{ Unwrap() error })
		if !ok {
			return false
		}
		e = u.Unwrap()
	}
	return false
}

func envelopeBytes(flags byte, payload []byte) []byte {
	out := make([]byte, 5+len(payload))
	out[0] = flags
	binary.BigEndian.PutUint32(out[1:5], uint32(len(payload)))
	copy(out[5:], payload)
	return out
}

type huntResult struct {
	status  int
	header  http.Header
	trailer http.Header
	body    []byte
	err     error
}

func (r huntResult) String() string {
	return fmt.Sprintf("status=%d header=%v trailer=%v body=%q err=%v", r.status, r.header, r.trailer, r.body, r.err)
}

func huntDo(client *http.Client, url, contentType string, header http.Header, body []byte) huntResult {
	req, _ := http.NewRequest(http.MethodPost, url, bytes.NewReader(body))
	for k, v := range header {
		req.Header[k] = v
	}
	if contentType != "" {
		req.Header.Set("Content-Type", contentType)
	}
	res, err := client.Do(req)
	if err != nil {
		return huntResult{err: err}
	}
	defer res.Body.Close()
	data, err := io.ReadAll(res.Body)
	return huntResult{status: res.StatusCode, header: res.Header, trailer: res.Trailer, body: data, err: err}
}

func newHuntServer(t *testing.T, opts ...connect.HandlerOption) (*huntServer, *httptest.Server) {
	t.Helper()
	svc := &huntServer{log: t.Logf}
	mux := http.NewServeMux()
	mux.Handle(pingv1connect.NewPingServiceHandler(svc, opts...))
	server := httptest.NewUnstartedServer(mux)
	server.EnableHTTP2 = true
	server.StartTLS()
	t.Cleanup(server.Close)
	return svc, server
}

// huntRaw sends one HTTP/1.x request over a fresh TCP connection and returns
// everything the server wrote before closing the connection.
func huntRaw(t *testing.T, addr, proto, path, contentType, extraHeaders string, body []byte) string {
	t.Helper()
	conn, err := net.Dial("tcp", addr)
	if err != nil {
		t.Fatal(err)
	}
	defer conn.Close()
	req := fmt.Sprintf("POST %s %s\r\nHost: x\r\nConnection: close\r\nContent-Type: %s\r\nContent-Length: %d\r\n%s\r\n",
		path, proto, contentType, len(body), extraHeaders)
	if _, err := conn.Write(append([]byte(req), body...)); err != nil {
		t.Fatal(err)
	}
	_ = conn.SetReadDeadline(time.Now().Add(5 * time.Second))
	data, _ := io.ReadAll(conn)
	return string(data)
}

// grpcStatusOf extracts grpc-status from wherever the protocol allows it:
// HTTP trailers (gRPC), HTTP headers (trailers-only) or the body's trailer
// frame (gRPC-Web).
func grpcStatusOf(r huntResult) string {
	if v := r.trailer.Get("Grpc-Status"); v != "" {
		return v
	}
	if v := r.header.Get("Grpc-Status"); v != "" {
		return v
	}
	body := r.body
	for len(body) >= 5 {
		size := int(binary.BigEndian.Uint32(body[1:5]))
		if len(body) < 5+size {
			break
		}
		if body[0]&0x80 != 0 {
			for _, line := range strings.Split(string(body[5:5+size]), "\r\n") {
				if k, v, ok := strings.Cut(line, ":"); ok && strings.EqualFold(k, "grpc-status") {
					return strings.TrimSpace(v)
				}
			}
		}
		body = body[5+size:]
	}
	return ""
}

package connect_test

import (
	"net/http"
	"testing"
)

// Property C07: serving any request "yields a response that is well-formed for
// the protocol selected by its Content-Type"; "unknown compression ...
// reach[es] the peer as the documented error code".
//
// When the request names an unknown compression, negotiateCompression returns
// "" for the response compression. NewConn only omits the response's
// encoding header when the value equals "identity", so the unimplemented
// error goes out with an *empty* Grpc-Encoding / Connect-Content-Encoding
// header. The empty string is not a content-coding in either protocol's
// grammar (gRPC: Content-Coding -> "identity" / "gzip" / "deflate" / "snappy" /
// {custom}); the well-formed response carries no such header, or "identity".
func TestHuntI_UnknownCompressionAnsweredWithEmptyEncodingHeader(t *testing.T) {
	_, server := newHuntServer(t)
	client := server.Client()
	base := server.URL + "/connect.ping.v1.PingService/"
	for _, tc := range []struct{ contentType, path, requestHeader, responseHeader string }{
		{"application/grpc", "Ping", "Grpc-Encoding", "Grpc-Encoding"},
		{"application/grpc-web", "Ping", "Grpc-Encoding", "Grpc-Encoding"},
		{"application/connect+proto", "CountUp", "Connect-Content-Encoding", "Connect-Content-Encoding"},
	} {
		res := huntDo(client, base+tc.path, tc.contentType, http.Header{tc.requestHeader: {"zstd"}}, envelopeBytes(1, []byte{1}))
		if res.err != nil {
			t.Fatal(res.err)
		}
		if values, present := res.header[tc.responseHeader]; present {
			t.Errorf("%s with unknown %s: zstd: expected the error response to carry no %s header (or \"identity\"); got %q",
				tc.contentType, tc.requestHeader, tc.responseHeader, values)
		}
	}
}

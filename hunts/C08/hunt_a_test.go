package connect_test

import (
	"bytes"
	"compress/gzip"
	"context"
	"io"
	"log"
	"net/http"
	"net/http/httptest"
	"strings"
	"sync/atomic"
	"testing"

	connect "github.com/bufbuild/connect-go"
	pingv1 "github.com/bufbuild/connect-go/internal/gen/connect/ping/v1"
	"google.golang.org/protobuf/proto"
)

// Property C08: "A handler compresses responses only with an algorithm it
// supports ... preferring the client's most-preferred mutually supported one
// ...; a request compressed with an algorithm the handler lacks is rejected as
// unimplemented, listing the supported algorithms, without running user code."
//
// WithCompression's documentation says: "Calling WithCompression with an empty
// name or nil constructors is a no-op." So a handler built with
// WithCompression("br", nil, nil) supports exactly {gzip}. In this tree the
// option is NOT a no-op: newCompressionPool never returns nil, so "br" is
// registered with a pool whose constructors are nil funcs. The handler then
// advertises br, selects br for responses, accepts br requests, and panics
// (nil func call inside sync.Pool.New) the moment it has to (de)compress.
func TestHuntA_NilConstructorsRegisterUnusableAlgorithm(t *testing.T) {
	var userRan int32
	mux := http.NewServeMux()
	mux.Handle("/t/unary", connect.NewUnaryHandler(
		"/t/unary",
		func(_ context.Context, r *connect.Request[pingv1.PingRequest]) (*connect.Response[pingv1.PingResponse], error) {
			atomic.AddInt32(&userRan, 1)
			return connect.NewResponse(&pingv1.PingResponse{Text: r.Msg.Text}), nil
		},
		connect.WithCompression("br", nil, nil), // documented as a no-op
	))
	server := httptest.NewUnstartedServer(mux)
	server.Config.ErrorLog = log.New(io.Discard, "", 0) // hide net/http's "panic serving" traces
	server.Start()
	defer server.Close()

	text := strings.Repeat("compress me ", 40)
	body, err := proto.Marshal(&pingv1.PingRequest{Text: text})
	if err != nil {
		t.Fatal(err)
	}

	t.Run("advertised_list", func(t *testing.T) {
		req, _ := http.NewRequest(http.MethodPost, server.URL+"/t/unary", bytes.NewReader(body))
		req.Header.Set("Content-Type", "application/proto")
		req.Header.Set("Accept-Encoding", "identity")
		res, err := server.Client().Do(req)
		if err != nil {
			t.Fatal(err)
		}
		defer res.Body.Close()
		if got := res.Header.Get("Accept-Encoding"); got != "gzip" {
			t.Errorf("handler supports only gzip (WithCompression(\"br\", nil, nil) is documented as a no-op): "+
				"expected it to advertise Accept-Encoding \"gzip\", got %q", got)
		}
	})

	t.Run("response_uses_most_preferred_mutually_supported", func(t *testing.T) {
		// The client can decode br and gzip and prefers br. The handler has no br
		// compressor, so the most-preferred mutually supported algorithm is gzip.
		req, _ := http.NewRequest(http.MethodPost, server.URL+"/t/unary", bytes.NewReader(body))
		req.Header.Set("Content-Type", "application/proto")
		req.Header.Set("Accept-Encoding", "br, gzip")
		res, err := server.Client().Do(req)
		if err != nil {
			t.Fatalf("expected a 200 response compressed with gzip (the only algorithm the handler can run); "+
				"the handler chose \"br\", for which it has no compressor, and the call died: %v", err)
		}
		defer res.Body.Close()
		raw, _ := io.ReadAll(res.Body)
		if enc := res.Header.Get("Content-Encoding"); enc != "gzip" {
			t.Fatalf("expected Content-Encoding gzip, got %q (status %d)", enc, res.StatusCode)
		}
		zr, err := gzip.NewReader(bytes.NewReader(raw))
		if err != nil {
			t.Fatal(err)
		}
		plain, _ := io.ReadAll(zr)
		var msg pingv1.PingResponse
		if err := proto.Unmarshal(plain, &msg); err != nil || msg.Text != text {
			t.Fatalf("response does not decompress to the original: %v", err)
		}
	})

	t.Run("request_in_lacking_algorithm_is_rejected", func(t *testing.T) {
		atomic.StoreInt32(&userRan, 0)
		req, _ := http.NewRequest(http.MethodPost, server.URL+"/t/unary", bytes.NewReader([]byte("pretend-brotli")))
		req.Header.Set("Content-Type", "application/proto")
		req.Header.Set("Content-Encoding", "br")
		res, err := server.Client().Do(req)
		if err != nil {
			t.Fatalf("expected HTTP 404 with a JSON \"unimplemented\" error listing gzip; "+
				"the handler accepted Content-Encoding br, tried to decompress with a nil constructor and the call died: %v", err)
		}
		defer res.Body.Close()
		raw, _ := io.ReadAll(res.Body)
		if res.StatusCode != http.StatusNotFound || !bytes.Contains(raw, []byte(`"unimplemented"`)) {
			t.Errorf("expected 404/unimplemented, got %d %s", res.StatusCode, raw)
		}
		if !bytes.Contains(raw, []byte("supported encodings are gzip\"")) {
			t.Errorf("expected the rejection to list exactly the supported algorithms (gzip), got %s", raw)
		}
		if n := atomic.LoadInt32(&userRan); n != 0 {
			t.Errorf("user code ran %d times for a rejected request", n)
		}
	})

	t.Run("same_over_grpc_with_connect_client", func(t *testing.T) {
		// A well-behaved connect-go client that really has a "br" implementation
		// (here: gzip under another name) and prefers it, talking gRPC-Web.
		client := connect.NewClient[pingv1.PingRequest, pingv1.PingResponse](
			server.Client(), server.URL+"/t/unary",
			connect.WithGRPCWeb(),
			connect.WithAcceptCompression("br",
				func() connect.Decompressor { return &gzip.Reader{} },
				func() connect.Compressor { return gzip.NewWriter(io.Discard) }),
		)
		res, err := client.CallUnary(context.Background(), connect.NewRequest(&pingv1.PingRequest{Text: text}))
		if err != nil {
			t.Fatalf("expected the call to succeed with a gzip-compressed response (handler supports only gzip); got %v", err)
		}
		if res.Msg.Text != text {
			t.Fatalf("echo mismatch")
		}
	})
}

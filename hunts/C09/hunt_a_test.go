package connect_test

import (
	"context"
	"errors"
	"io"
	"net/http"
	"net/http/httptest"
	"strings"
	"testing"
	"time"

	connect "github.com/bufbuild/connect-go"
	pingv1 "github.com/bufbuild/connect-go/internal/gen/connect/ping/v1"
)

// Property C09: a message larger than the client's read limit must make "that
// call fail with the documented error" (invalid_argument: message size X is
// larger than configured max N), in every protocol and at every position in a
// stream.
//
// With the gRPC protocol the client does detect the oversized message, but
// grpcClientConn.Receive then tries to read the HTTP trailers, which requires
// reading the response body to EOF (discard(call)) - so the Receive that met
// the oversized message does not return until the *server* ends the stream.
// On a long-lived server stream ("watch" style) or on a bidi stream where the
// server is waiting for the client, that is never: the call does not fail, it
// blocks. The Connect and gRPC-Web clients return the error at once.
func TestHuntA_GRPCClientOversizeReceiveBlocks(t *testing.T) {
	const (
		watchProc = "/hunt.v1.HuntService/Watch"
		echoProc  = "/hunt.v1.HuntService/Echo"
		limit     = 16
	)
	release := make(chan struct{})
	mux := http.NewServeMux()
	// A legal long-lived server stream: one event now, more later (maybe).
	mux.Handle(watchProc, connect.NewServerStreamHandler(watchProc,
		func(ctx context.Context, _ *connect.Request[pingv1.PingRequest], stream *connect.ServerStream[pingv1.PingResponse]) error {
			if err := stream.Send(&pingv1.PingResponse{Text: strings.Repeat("a", 100)}); err != nil {
				return err
			}
			select {
			case <-ctx.Done():
			case <-release:
			}
			return nil
		},
		connect.WithCompressMinBytes(1<<30), // never compress
	))
	// A legal bidi echo: answers every message, ends when the client is done.
	mux.Handle(echoProc, connect.NewBidiStreamHandler(echoProc,
		func(_ context.Context, stream *connect.BidiStream[pingv1.PingRequest, pingv1.PingResponse]) error {
			for {
				msg, err := stream.Receive()
				if errors.Is(err, io.EOF) {
					return nil
				}
				if err != nil {
					return err
				}
				if err := stream.Send(&pingv1.PingResponse{Text: msg.Text}); err != nil {
					return err
				}
			}
		},
		connect.WithCompressMinBytes(1<<30),
	))
	server := httptest.NewUnstartedServer(mux)
	server.EnableHTTP2 = true
	server.StartTLS()
	t.Cleanup(server.Close)
	t.Cleanup(func() { close(release) })

	const patience = 3 * time.Second
	checkErr := func(t *testing.T, err error) {
		t.Helper()
		if connect.CodeOf(err) != connect.CodeInvalidArgument ||
			!strings.Contains(err.Error(), "is larger than configured max 16") {
			t.Errorf("expected the documented read-limit error (invalid_argument: message size 102 is larger than configured max 16), got: %v", err)
		}
	}

	protocols := []struct {
		name string
		opts []connect.ClientOption
	}{
		{"connect", nil},
		{"grpcweb", []connect.ClientOption{connect.WithGRPCWeb()}},
		{"grpc", []connect.ClientOption{connect.WithGRPC()}},
	}
	for _, proto := range protocols {
		proto := proto
		t.Run("server_stream/"+proto.name, func(t *testing.T) {
			opts := append([]connect.ClientOption{connect.WithReadMaxBytes(limit)}, proto.opts...)
			client := connect.NewClient[pingv1.PingRequest, pingv1.PingResponse](server.Client(), server.URL+watchProc, opts...)
			ctx, cancel := context.WithCancel(context.Background())
			defer cancel()
			stream, err := client.CallServerStream(ctx, connect.NewRequest(&pingv1.PingRequest{}))
			if err != nil {
				t.Fatal(err)
			}
			done := make(chan struct{})
			var ok bool
			go func() {
				ok = stream.Receive()
				close(done)
			}()
			select {
			case <-done:
				if ok {
					t.Fatalf("a %d-byte message was delivered despite WithReadMaxBytes(%d)", 102, limit)
				}
				checkErr(t, stream.Err())
			case <-time.After(patience):
				t.Errorf("client WithReadMaxBytes(%d) received a 102-byte message on a server stream: "+
					"expected Receive to fail with the read-limit error, but after %v it is still blocked "+
					"(waiting for the server to end the stream)", limit, patience)
				cancel()
				<-done
			}
			cancel() // the server never ends this stream by itself
			_ = stream.Close()
		})
		t.Run("bidi/"+proto.name, func(t *testing.T) {
			opts := append([]connect.ClientOption{connect.WithReadMaxBytes(limit)}, proto.opts...)
			client := connect.NewClient[pingv1.PingRequest, pingv1.PingResponse](server.Client(), server.URL+echoProc, opts...)
			stream := client.CallBidiStream(context.Background())
			if err := stream.Send(&pingv1.PingRequest{Text: strings.Repeat("a", 100)}); err != nil {
				t.Fatal(err)
			}
			done := make(chan struct{})
			var (
				res *pingv1.PingResponse
				err error
			)
			go func() {
				res, err = stream.Receive()
				close(done)
			}()
			select {
			case <-done:
				if err == nil {
					t.Fatalf("a 102-byte message was delivered despite WithReadMaxBytes(%d): %d bytes of text", limit, len(res.Text))
				}
				checkErr(t, err)
			case <-time.After(patience):
				t.Errorf("client WithReadMaxBytes(%d) received a 102-byte message on a bidi stream: "+
					"expected Receive to fail with the read-limit error, but after %v it is still blocked "+
					"(it only returns once the client itself closes the request side)", limit, patience)
				_ = stream.CloseRequest()
				<-done
				t.Logf("after CloseRequest, Receive returned: %v", err)
			}
			_ = stream.CloseRequest()
			_ = stream.CloseResponse()
		})
	}
}

package connect_test

import (
	"bytes"
	"compress/gzip"
	"context"
	"errors"
	"net/http"
	"net/http/httptest"
	"strings"
	"sync/atomic"
	"testing"

	connect "github.com/bufbuild/connect-go"
	pingv1 "github.com/bufbuild/connect-go/internal/gen/connect/ping/v1"
	"github.com/bufbuild/connect-go/internal/gen/connect/ping/v1/pingv1connect"
)

// Property C09: with a read limit of N bytes on a client, nothing the server
// sends as one message may reach the application if its encoded size - on the
// wire or after decompression - exceeds N, and the server must not be able to
// make the client buffer substantially more than N bytes by sending a highly
// compressible payload.
//
// For unary calls in the Connect protocol a failed call's response message is
// the JSON error body. connectUnaryClientConn.validateResponse reads and
// decompresses that body with a connectUnaryUnmarshaler that has no
// readMaxBytes, so the limit is not applied: the whole body is buffered,
// decompressed and handed to the application inside the *connect.Error.
// (The same error sent on a Connect *streaming* call travels in the
// end-of-stream envelope and is limited; in gRPC it travels in HTTP headers.)

type huntBFailingPingServer struct {
	pingv1connect.UnimplementedPingServiceHandler

	text string
}

func (s *huntBFailingPingServer) Ping(context.Context, *connect.Request[pingv1.PingRequest]) (*connect.Response[pingv1.PingResponse], error) {
	return nil, connect.NewError(connect.CodeResourceExhausted, errors.New(s.text))
}

func TestHuntB_ConnectUnaryErrorBodyIgnoresReadMaxBytes(t *testing.T) {
	const limit = 1024
	t.Run("plain_connect_handler", func(t *testing.T) {
		// An ordinary connect-go handler returning an ordinary (if verbose) error.
		const errorSize = 5 * 1024 * 1024
		mux := http.NewServeMux()
		mux.Handle(pingv1connect.NewPingServiceHandler(
			&huntBFailingPingServer{text: strings.Repeat("x", errorSize)},
			connect.WithCompressMinBytes(1<<30), // uncompressed on the wire
		))
		server := httptest.NewServer(mux)
		t.Cleanup(server.Close)
		client := pingv1connect.NewPingServiceClient(server.Client(), server.URL, connect.WithReadMaxBytes(limit))
		_, err := client.Ping(context.Background(), connect.NewRequest(&pingv1.PingRequest{}))
		if err == nil {
			t.Fatal("expected an error")
		}
		var connectErr *connect.Error
		if !errors.As(err, &connectErr) {
			t.Fatalf("not a *connect.Error: %v", err)
		}
		if got := len(connectErr.Message()); got > limit {
			t.Errorf("client WithReadMaxBytes(%d): the server's response body was %d+ bytes on the wire; "+
				"expected the call to fail with \"message size ... is larger than configured max %d\" "+
				"and at most ~%d bytes to be buffered, but all of it was read and %d bytes were delivered "+
				"to the application in the error (code %v)",
				limit, errorSize, limit, limit, got, connectErr.Code())
		}
	})
	t.Run("gzip_bomb", func(t *testing.T) {
		// A hostile (or just different) server: wire size <= N, decompressed >> N.
		const errorSize = 16 * 1024 * 1024
		var body bytes.Buffer
		gzipWriter := gzip.NewWriter(&body)
		_, _ = gzipWriter.Write([]byte(`{"code":"resource_exhausted","message":"`))
		_, _ = gzipWriter.Write(bytes.Repeat([]byte("x"), errorSize))
		_, _ = gzipWriter.Write([]byte(`"}`))
		_ = gzipWriter.Close()
		var wireSize int64
		server := httptest.NewServer(http.HandlerFunc(func(w http.ResponseWriter, r *http.Request) {
			w.Header().Set("Content-Type", "application/json")
			w.Header().Set("Content-Encoding", "gzip")
			w.WriteHeader(http.StatusTooManyRequests)
			n, _ := w.Write(body.Bytes())
			atomic.StoreInt64(&wireSize, int64(n))
		}))
		t.Cleanup(server.Close)
		const bombLimit = 32 * 1024
		if body.Len() > bombLimit {
			t.Fatalf("test setup: compressed body is %d bytes, want <= %d", body.Len(), bombLimit)
		}
		client := pingv1connect.NewPingServiceClient(server.Client(), server.URL, connect.WithReadMaxBytes(bombLimit))
		_, err := client.Ping(context.Background(), connect.NewRequest(&pingv1.PingRequest{}))
		if err == nil {
			t.Fatal("expected an error")
		}
		var connectErr *connect.Error
		if !errors.As(err, &connectErr) {
			t.Fatalf("not a *connect.Error: %v", err)
		}
		if got := len(connectErr.Message()); got > bombLimit {
			t.Errorf("client WithReadMaxBytes(%d): a %d-byte gzip response body inflated to %d+ bytes; "+
				"expected decompression to stop at the limit and the call to fail with "+
				"\"message size ... is larger than configured max %d\", but the client inflated and buffered "+
				"all of it and delivered %d bytes to the application in the error (code %v)",
				bombLimit, atomic.LoadInt64(&wireSize), errorSize, bombLimit, got, connectErr.Code())
		}
	})
}

package connect_test

import (
	"context"
	"net/http"
	"net/http/httptest"
	"strings"
	"testing"

	connect "github.com/bufbuild/connect-go"
	pingv1 "github.com/bufbuild/connect-go/internal/gen/connect/ping/v1"
	"google.golang.org/protobuf/proto"
)

// Property C09: "... while every message of at most N bytes is accepted. This
// holds at every position in a stream, in every protocol ..." (and
// WithReadMaxBytes documents: "Limits apply to each Protobuf message").
//
// envelopeReader.Read applies readMaxBytes to *every* envelope, including the
// ones that are not messages: the Connect end-of-stream envelope (JSON with
// trailers and error) and the gRPC-Web trailers envelope. So a call on which
// every message is well below N still fails with "message size X is larger
// than configured max N" as soon as the trailing metadata block is larger than
// N - in the Connect (streaming) and gRPC-Web protocols only; the very same
// call succeeds with gRPC (HTTP trailers) and with Connect unary (headers).
func TestHuntC_TrailersCountedAgainstReadMaxBytes(t *testing.T) {
	const (
		unaryProc  = "/hunt.v1.HuntService/Unary"
		streamProc = "/hunt.v1.HuntService/ServerStream"
		limit      = 64
	)
	trailerValue := strings.Repeat("t", 200) // legal metadata, 200 bytes
	mux := http.NewServeMux()
	mux.Handle(unaryProc, connect.NewUnaryHandler(unaryProc,
		func(_ context.Context, req *connect.Request[pingv1.PingRequest]) (*connect.Response[pingv1.PingResponse], error) {
			res := connect.NewResponse(&pingv1.PingResponse{Text: req.Msg.Text})
			res.Trailer().Set("X-Audit", trailerValue)
			return res, nil
		},
		connect.WithCompressMinBytes(1<<30),
	))
	mux.Handle(streamProc, connect.NewServerStreamHandler(streamProc,
		func(_ context.Context, req *connect.Request[pingv1.PingRequest], stream *connect.ServerStream[pingv1.PingResponse]) error {
			stream.ResponseTrailer().Set("X-Audit", trailerValue)
			for i := 0; i < 3; i++ {
				if err := stream.Send(&pingv1.PingResponse{Text: req.Msg.Text}); err != nil {
					return err
				}
			}
			return nil
		},
		connect.WithCompressMinBytes(1<<30),
	))
	server := httptest.NewUnstartedServer(mux)
	server.EnableHTTP2 = true
	server.StartTLS()
	t.Cleanup(server.Close)

	request := &pingv1.PingRequest{Text: "hello"}
	messageSize := proto.Size(&pingv1.PingResponse{Text: request.Text})
	if messageSize > limit {
		t.Fatalf("test setup: message is %d bytes", messageSize)
	}
	protocols := []struct {
		name string
		opts []connect.ClientOption
	}{
		{"grpc", []connect.ClientOption{connect.WithGRPC()}}, // control: passes
		{"connect", nil},
		{"grpcweb", []connect.ClientOption{connect.WithGRPCWeb()}},
	}
	for _, proto := range protocols {
		proto := proto
		t.Run("unary/"+proto.name, func(t *testing.T) {
			opts := append([]connect.ClientOption{connect.WithReadMaxBytes(limit)}, proto.opts...)
			client := connect.NewClient[pingv1.PingRequest, pingv1.PingResponse](server.Client(), server.URL+unaryProc, opts...)
			res, err := client.CallUnary(context.Background(), connect.NewRequest(request))
			if err != nil {
				t.Fatalf("client WithReadMaxBytes(%d): the only message of this call is %d bytes, "+
					"so it must be accepted; instead the call failed: %v", limit, messageSize, err)
			}
			if res.Msg.Text != request.Text || res.Trailer().Get("X-Audit") != trailerValue {
				t.Errorf("unexpected response %v / trailers %v", res.Msg, res.Trailer())
			}
		})
		t.Run("server_stream/"+proto.name, func(t *testing.T) {
			opts := append([]connect.ClientOption{connect.WithReadMaxBytes(limit)}, proto.opts...)
			client := connect.NewClient[pingv1.PingRequest, pingv1.PingResponse](server.Client(), server.URL+streamProc, opts...)
			stream, err := client.CallServerStream(context.Background(), connect.NewRequest(request))
			if err != nil {
				t.Fatal(err)
			}
			defer stream.Close()
			count := 0
			for stream.Receive() {
				count++
			}
			if err := stream.Err(); err != nil {
				t.Fatalf("client WithReadMaxBytes(%d): all 3 messages of this stream are %d bytes each, "+
					"so the call must succeed; instead, after %d messages, it failed: %v",
					limit, messageSize, count, err)
			}
			if count != 3 || stream.ResponseTrailer().Get("X-Audit") != trailerValue {
				t.Errorf("got %d messages, trailers %v", count, stream.ResponseTrailer())
			}
		})
	}
}

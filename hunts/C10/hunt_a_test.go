package connect_test

import (
	"context"
	"fmt"
	"net/http"
	"net/http/httptest"
	"strconv"
	"sync"
	"testing"
	"time"

	connect "github.com/bufbuild/connect-go"
	pingv1 "github.com/bufbuild/connect-go/internal/gen/connect/ping/v1"
	"github.com/bufbuild/connect-go/internal/gen/connect/ping/v1/pingv1connect"
	"google.golang.org/protobuf/proto"
)

// Finding A: the timeout header is computed when the client conn is
// constructed (protocolClient.NewConn), but the HTTP request - and with it the
// header - is only sent on the first Send/CloseRequest (duplexHTTPCall is
// lazy). Whatever time passes in between is silently added to the deadline the
// handler gets: the timeout sent to the server is LONGER than the time
// remaining and the handler's deadline is later than the caller's.

// huntASentTimeout decodes the timeout header of an outgoing request.
func huntASentTimeout(header http.Header) (time.Duration, bool, error) {
	if v := header.Get("Connect-Timeout-Ms"); v != "" {
		n, err := strconv.ParseInt(v, 10, 64)
		return time.Duration(n) * time.Millisecond, true, err
	}
	if v := header.Get("Grpc-Timeout"); v != "" {
		units := map[byte]time.Duration{
			'n': time.Nanosecond, 'u': time.Microsecond, 'm': time.Millisecond,
			'S': time.Second, 'M': time.Minute, 'H': time.Hour,
		}
		unit, ok := units[v[len(v)-1]]
		if !ok {
			return 0, true, fmt.Errorf("bad unit in %q", v)
		}
		n, err := strconv.ParseInt(v[:len(v)-1], 10, 64)
		return time.Duration(n) * unit, true, err
	}
	return 0, false, nil
}

// huntARecorder is an HTTPClient that notes, at the moment the request is
// actually handed to the transport, the timeout in the header and the time
// really remaining on the request's context.
type huntARecorder struct {
	inner connect.HTTPClient

	mu        sync.Mutex
	sent      time.Duration
	hasSent   bool
	remaining time.Duration
	calls     int
}

func (r *huntARecorder) Do(request *http.Request) (*http.Response, error) {
	deadline, _ := request.Context().Deadline()
	remaining := time.Until(deadline)
	sent, has, err := huntASentTimeout(request.Header)
	if err != nil {
		return nil, err
	}
	r.mu.Lock()
	r.sent, r.hasSent, r.remaining = sent, has, remaining
	r.calls++
	r.mu.Unlock()
	return r.inner.Do(request)
}

type huntAServer struct {
	pingv1connect.UnimplementedPingServiceHandler

	mu       sync.Mutex
	deadline time.Time
	has      bool
}

func (s *huntAServer) note(ctx context.Context) {
	deadline, ok := ctx.Deadline()
	s.mu.Lock()
	s.deadline, s.has = deadline, ok
	s.mu.Unlock()
}

func (s *huntAServer) Ping(ctx context.Context, req *connect.Request[pingv1.PingRequest]) (*connect.Response[pingv1.PingResponse], error) {
	s.note(ctx)
	return connect.NewResponse(&pingv1.PingResponse{}), nil
}

func (s *huntAServer) Sum(ctx context.Context, stream *connect.ClientStream[pingv1.SumRequest]) (*connect.Response[pingv1.SumResponse], error) {
	s.note(ctx)
	for stream.Receive() {
	}
	return connect.NewResponse(&pingv1.SumResponse{}), stream.Err()
}

func (s *huntAServer) CumSum(ctx context.Context, stream *connect.BidiStream[pingv1.CumSumRequest, pingv1.CumSumResponse]) error {
	s.note(ctx)
	for {
		if _, err := stream.Receive(); err != nil {
			return nil
		}
	}
}

func TestHuntA_StreamTimeoutGoesStaleBeforeRequestIsSent(t *testing.T) {
	const (
		timeout = 3 * time.Second
		idle    = 700 * time.Millisecond // time between creating the stream and first Send
		slack   = 150 * time.Millisecond // generous allowance for scheduling + transit
	)
	impl := &huntAServer{}
	mux := http.NewServeMux()
	mux.Handle(pingv1connect.NewPingServiceHandler(impl))
	server := httptest.NewUnstartedServer(mux)
	server.EnableHTTP2 = true
	server.StartTLS()
	defer server.Close()

	protocols := []struct {
		name string
		opts []connect.ClientOption
	}{
		{"connect", nil},
		{"grpc", []connect.ClientOption{connect.WithGRPC()}},
		{"grpcweb", []connect.ClientOption{connect.WithGRPCWeb()}},
	}
	check := func(t *testing.T, recorder *huntARecorder, clientDeadline time.Time) {
		t.Helper()
		recorder.mu.Lock()
		sent, hasSent, remaining, calls := recorder.sent, recorder.hasSent, recorder.remaining, recorder.calls
		recorder.mu.Unlock()
		if calls != 1 {
			t.Fatalf("expected exactly one HTTP request, got %d", calls)
		}
		if !hasSent {
			t.Fatalf("no timeout header sent although the call has a deadline")
		}
		// A repaired library still computes the header a few microseconds
		// before the request leaves, so allow for that (and much more).
		if sent > remaining+slack {
			t.Errorf("timeout sent to the server is LONGER than the time remaining: "+
				"header says %v, but when the request was handed to the HTTP client only %v were left on the call's context "+
				"(extended by %v; property: never longer than the time remaining)",
				sent, remaining, sent-remaining)
		}
		impl.mu.Lock()
		handlerDeadline, has := impl.deadline, impl.has
		impl.mu.Unlock()
		if !has {
			t.Fatalf("handler context has no deadline")
		}
		if late := handlerDeadline.Sub(clientDeadline); late > slack {
			t.Errorf("handler's deadline is %v LATER than the caller's deadline (expected: not later, give or take transit time < %v)",
				late, slack)
		}
	}
	for _, protocol := range protocols {
		protocol := protocol
		t.Run(protocol.name+"/client_stream", func(t *testing.T) {
			recorder := &huntARecorder{inner: server.Client()}
			client := pingv1connect.NewPingServiceClient(recorder, server.URL, protocol.opts...)
			ctx, cancel := context.WithTimeout(context.Background(), timeout)
			defer cancel()
			clientDeadline, _ := ctx.Deadline()
			stream := client.Sum(ctx)
			stream.RequestHeader().Set("X-Custom", "prepared-before-first-send")
			time.Sleep(idle) // e.g. the caller computes the first message
			if err := stream.Send(&pingv1.SumRequest{Number: 1}); err != nil {
				t.Fatalf("send: %v", err)
			}
			if _, err := stream.CloseAndReceive(); err != nil {
				t.Fatalf("close and receive: %v", err)
			}
			check(t, recorder, clientDeadline)
		})
		t.Run(protocol.name+"/bidi_stream", func(t *testing.T) {
			recorder := &huntARecorder{inner: server.Client()}
			client := pingv1connect.NewPingServiceClient(recorder, server.URL, protocol.opts...)
			ctx, cancel := context.WithTimeout(context.Background(), timeout)
			defer cancel()
			clientDeadline, _ := ctx.Deadline()
			stream := client.CumSum(ctx)
			time.Sleep(idle)
			if err := stream.Send(&pingv1.CumSumRequest{Number: 1}); err != nil {
				t.Fatalf("send: %v", err)
			}
			if err := stream.CloseRequest(); err != nil {
				t.Fatalf("close request: %v", err)
			}
			for {
				if _, err := stream.Receive(); err != nil {
					break
				}
			}
			_ = stream.CloseResponse()
			check(t, recorder, clientDeadline)
		})
		// Same root cause on the unary path: the header is written before the
		// message is marshalled and compressed, so a slow (but perfectly legal)
		// codec makes the header stale by the time the request leaves.
		t.Run(protocol.name+"/unary_slow_codec", func(t *testing.T) {
			recorder := &huntARecorder{inner: server.Client()}
			opts := append([]connect.ClientOption{connect.WithCodec(huntASlowCodec{delay: idle})}, protocol.opts...)
			client := pingv1connect.NewPingServiceClient(recorder, server.URL, opts...)
			ctx, cancel := context.WithTimeout(context.Background(), timeout)
			defer cancel()
			clientDeadline, _ := ctx.Deadline()
			if _, err := client.Ping(ctx, connect.NewRequest(&pingv1.PingRequest{Number: 1})); err != nil {
				t.Fatalf("ping: %v", err)
			}
			check(t, recorder, clientDeadline)
		})
	}
}

// huntASlowCodec is the binary protobuf codec, except that marshalling takes a
// while (think: a big message).
type huntASlowCodec struct{ delay time.Duration }

func (huntASlowCodec) Name() string { return "proto" }

func (c huntASlowCodec) Marshal(message any) ([]byte, error) {
	time.Sleep(c.delay)
	return proto.Marshal(message.(proto.Message))
}

func (huntASlowCodec) Unmarshal(data []byte, message any) error {
	return proto.Unmarshal(data, message.(proto.Message))
}

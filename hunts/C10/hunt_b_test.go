package connect_test

import (
	"context"
	"errors"
	"net/http"
	"net/http/httptest"
	"sync"
	"sync/atomic"
	"testing"
	"time"

	connect "github.com/bufbuild/connect-go"
	pingv1 "github.com/bufbuild/connect-go/internal/gen/connect/ping/v1"
	"github.com/bufbuild/connect-go/internal/gen/connect/ping/v1/pingv1connect"
)

// Finding B: with the Connect protocol, a call whose deadline is less than one
// millisecond away is sent with NO Connect-Timeout-Ms header at all
// (connectClient.NewConn: millis := until/ms; header only `if millis > 0`).
// "No timeout" is longer than any time remaining, so the timeout is extended
// (to infinity) and the handler's context has no deadline although the client
// call has one. The property allows the header to be shorter than the time
// remaining by up to 1ms, so "0" would have been right; gRPC sends "…n"/"0n".

type huntBProbe struct {
	mu      sync.Mutex
	results []huntBResult
}

type huntBResult struct {
	remaining time.Duration // left on the call's context when the request was handed to the HTTP client
	header    []string      // Connect-Timeout-Ms values in that request
}

var errHuntBStop = errors.New("hunt: request inspected, not sent")

func (p *huntBProbe) Do(request *http.Request) (*http.Response, error) {
	deadline, _ := request.Context().Deadline()
	result := huntBResult{
		remaining: time.Until(deadline),
		header:    request.Header.Values("Connect-Timeout-Ms"),
	}
	p.mu.Lock()
	p.results = append(p.results, result)
	p.mu.Unlock()
	return nil, errHuntBStop
}

func TestHuntB_ConnectSubMillisecondDeadlineSentAsNoTimeout(t *testing.T) {
	const attempts = 200
	probe := &huntBProbe{}
	client := pingv1connect.NewPingServiceClient(probe, "http://hunt.invalid")
	for i := 0; i < attempts; i++ {
		ctx, cancel := context.WithTimeout(context.Background(), 900*time.Microsecond)
		_, _ = client.Ping(ctx, connect.NewRequest(&pingv1.PingRequest{}))
		cancel()
	}
	var live, violations int
	var example huntBResult
	for _, result := range probe.results {
		if result.remaining <= 0 {
			continue // deadline passed before the request left: says nothing
		}
		live++
		if len(result.header) == 0 {
			if violations == 0 {
				example = result
			}
			violations++
		}
	}
	if live == 0 {
		t.Skip("machine too slow: the deadline always passed before the request was issued")
	}
	if violations > 0 {
		t.Errorf("%d of %d Connect calls that still had time left (e.g. %v) were sent WITHOUT any Connect-Timeout-Ms header; "+
			"expected a timeout not longer than the time remaining and at most 1ms shorter (i.e. \"0\"), "+
			"never 'no timeout', which extends the deadline indefinitely",
			violations, live, example.remaining)
	}
}

// The same thing end to end: the handler runs, and its context has no deadline
// although every single client call had one.
func TestHuntB_HandlerSeesNoDeadlineForSubMillisecondCall(t *testing.T) {
	const attempts = 300
	var ran, withoutDeadline int64
	impl := &pluggablePingServer{
		ping: func(ctx context.Context, _ *connect.Request[pingv1.PingRequest]) (*connect.Response[pingv1.PingResponse], error) {
			atomic.AddInt64(&ran, 1)
			if _, ok := ctx.Deadline(); !ok {
				atomic.AddInt64(&withoutDeadline, 1)
			}
			return connect.NewResponse(&pingv1.PingResponse{}), nil
		},
	}
	mux := http.NewServeMux()
	mux.Handle(pingv1connect.NewPingServiceHandler(impl))
	server := httptest.NewServer(mux)
	defer server.Close()
	client := pingv1connect.NewPingServiceClient(server.Client(), server.URL)
	// Warm the connection up so that a round trip fits into a millisecond.
	_, _ = client.Ping(context.Background(), connect.NewRequest(&pingv1.PingRequest{}))
	atomic.StoreInt64(&ran, 0)
	atomic.StoreInt64(&withoutDeadline, 0)
	for i := 0; i < attempts; i++ {
		ctx, cancel := context.WithTimeout(context.Background(), 950*time.Microsecond)
		_, _ = client.Ping(ctx, connect.NewRequest(&pingv1.PingRequest{}))
		cancel()
	}
	time.Sleep(50 * time.Millisecond) // let straggling handlers finish
	if n := atomic.LoadInt64(&withoutDeadline); n > 0 {
		t.Errorf("every one of the %d client calls had a deadline (950µs), yet %d of the %d handler invocations ran with a context WITHOUT deadline; "+
			"expected the handler's context to get the corresponding deadline",
			attempts, n, atomic.LoadInt64(&ran))
	} else if atomic.LoadInt64(&ran) == 0 {
		t.Skip("machine too slow: no request reached the handler in time")
	}
}

package connect_test

import (
	"bytes"
	"context"
	"io"
	"net/http"
	"net/http/httptest"
	"strings"
	"sync/atomic"
	"testing"
	"time"

	connect "github.com/bufbuild/connect-go"
	pingv1 "github.com/bufbuild/connect-go/internal/gen/connect/ping/v1"
	"github.com/bufbuild/connect-go/internal/gen/connect/ping/v1/pingv1connect"
)

// Finding C: the gRPC grammar is `TimeoutValue = 1*8DIGIT`, but
// grpcParseTimeout only checks the numeric VALUE (num > 99999999), not the
// number of digits. A Grpc-Timeout with more than 8 digits is accepted (and
// user code runs) as long as the surplus digits are leading zeros. The Connect
// side of the same library does check the length ("00000000005" is rejected),
// and grpc-go rejects these as "timeout string is too long".

type huntCOutcome struct {
	handlerRan  bool
	hadDeadline bool
	remaining   time.Duration
	status      int
	grpcStatus  string
	body        string
}

func huntCCall(t *testing.T, contentType, headerKey, headerValue string, body []byte) huntCOutcome {
	t.Helper()
	var ran, had int32
	var remaining int64
	impl := &pluggablePingServer{
		ping: func(ctx context.Context, _ *connect.Request[pingv1.PingRequest]) (*connect.Response[pingv1.PingResponse], error) {
			atomic.StoreInt32(&ran, 1)
			if deadline, ok := ctx.Deadline(); ok {
				atomic.StoreInt32(&had, 1)
				atomic.StoreInt64(&remaining, int64(time.Until(deadline)))
			}
			return connect.NewResponse(&pingv1.PingResponse{}), nil
		},
	}
	mux := http.NewServeMux()
	mux.Handle(pingv1connect.NewPingServiceHandler(impl))
	server := httptest.NewUnstartedServer(mux)
	server.EnableHTTP2 = true
	server.StartTLS()
	defer server.Close()

	request, err := http.NewRequest(
		http.MethodPost,
		server.URL+"/"+pingv1connect.PingServiceName+"/Ping",
		bytes.NewReader(body),
	)
	if err != nil {
		t.Fatal(err)
	}
	request.Header.Set("Content-Type", contentType)
	request.Header.Set("Te", "trailers")
	request.Header[headerKey] = []string{headerValue} // present, possibly empty
	response, err := server.Client().Do(request)
	if err != nil {
		t.Fatal(err)
	}
	defer response.Body.Close()
	data, _ := io.ReadAll(response.Body)
	grpcStatus := response.Header.Get("Grpc-Status")
	if grpcStatus == "" {
		grpcStatus = response.Trailer.Get("Grpc-Status")
	}
	if index := strings.Index(string(data), "Grpc-Status: "); grpcStatus == "" && index >= 0 {
		// gRPC-Web carries the trailers in the body.
		rest := string(data)[index+len("Grpc-Status: "):]
		if end := strings.IndexAny(rest, "\r\n"); end >= 0 {
			rest = rest[:end]
		}
		grpcStatus = rest
	}
	return huntCOutcome{
		handlerRan:  atomic.LoadInt32(&ran) == 1,
		hadDeadline: atomic.LoadInt32(&had) == 1,
		remaining:   time.Duration(atomic.LoadInt64(&remaining)),
		status:      response.StatusCode,
		grpcStatus:  grpcStatus,
		body:        string(data),
	}
}

var huntCEmptyGRPCMessage = []byte{0, 0, 0, 0, 0} // one uncompressed, zero-length envelope

func TestHuntC_GRPCTimeoutWithMoreThanEightDigitsAccepted(t *testing.T) {
	for _, value := range []string{
		"000000001S",                   // 9 digits
		"0000000000000000000000001H",   // 25 digits
		"099999999m",                   // 9 digits, value at the 8-digit maximum
		"000000000000000000000000000n", // 27 digits, zero
	} {
		value := value
		t.Run(value, func(t *testing.T) {
			for _, contentType := range []string{"application/grpc", "application/grpc-web"} {
				outcome := huntCCall(t, contentType, "Grpc-Timeout", value, huntCEmptyGRPCMessage)
				if outcome.handlerRan || outcome.grpcStatus != "3" {
					t.Errorf("%s: Grpc-Timeout %q has more than the 8 digits the grammar allows: expected rejection as invalid_argument (grpc-status 3) without running user code; "+
						"got grpc-status %q, handler ran = %v (deadline = %v, %v remaining)",
						contentType, value, outcome.grpcStatus, outcome.handlerRan, outcome.hadDeadline, outcome.remaining)
				}
			}
		})
	}
}

// Sanity checks that the harness recognises a proper rejection and a proper
// acceptance (these pass).
func TestHuntC_HarnessSanity(t *testing.T) {
	if outcome := huntCCall(t, "application/grpc", "Grpc-Timeout", "123456789S", huntCEmptyGRPCMessage); outcome.handlerRan || outcome.grpcStatus != "3" {
		t.Errorf("123456789S: got %+v", outcome)
	}
	if outcome := huntCCall(t, "application/grpc", "Grpc-Timeout", "00000001S", huntCEmptyGRPCMessage); !outcome.handlerRan || !outcome.hadDeadline || outcome.grpcStatus != "0" {
		t.Errorf("00000001S: got %+v", outcome)
	}
	if outcome := huntCCall(t, "application/json", "Connect-Timeout-Ms", "00000000005", []byte("{}")); outcome.handlerRan || outcome.status != http.StatusBadRequest {
		t.Errorf("00000000005: got %+v", outcome)
	}
}

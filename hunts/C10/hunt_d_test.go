package connect_test

import (
	"net/http"
	"testing"
)

// Finding D: a timeout header that is present but empty ("Grpc-Timeout:" /
// "Connect-Timeout-Ms:") has an empty number (and, for gRPC, no unit). It is
// malformed - the grammars demand at least one digit - yet it is treated like
// an absent header: user code runs, without deadline. grpc-go rejects it
// ("timeout string is too short").
//
// (huntCCall and huntCEmptyGRPCMessage live in hunt_c_test.go.)

func TestHuntD_EmptyTimeoutHeaderTreatedAsAbsent(t *testing.T) {
	t.Run("grpc", func(t *testing.T) {
		for _, contentType := range []string{"application/grpc", "application/grpc-web"} {
			outcome := huntCCall(t, contentType, "Grpc-Timeout", "", huntCEmptyGRPCMessage)
			if outcome.handlerRan || outcome.grpcStatus != "3" {
				t.Errorf("%s: an empty Grpc-Timeout (no digits, no unit) is malformed: expected invalid_argument (grpc-status 3) without running user code; "+
					"got grpc-status %q, handler ran = %v, handler had deadline = %v",
					contentType, outcome.grpcStatus, outcome.handlerRan, outcome.hadDeadline)
			}
		}
	})
	t.Run("connect", func(t *testing.T) {
		outcome := huntCCall(t, "application/json", "Connect-Timeout-Ms", "", []byte("{}"))
		if outcome.handlerRan || outcome.status != http.StatusBadRequest {
			t.Errorf("an empty Connect-Timeout-Ms (empty number) is malformed: expected invalid_argument (HTTP 400) without running user code; "+
				"got HTTP %d %s, handler ran = %v, handler had deadline = %v",
				outcome.status, outcome.body, outcome.handlerRan, outcome.hadDeadline)
		}
	})
}

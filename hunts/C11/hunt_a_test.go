package connect_test

import (
	"context"
	"errors"
	"io"
	"net/http"
	"net/http/httptest"
	"reflect"
	"testing"

	connect "github.com/bufbuild/connect-go"
	pingv1 "github.com/bufbuild/connect-go/internal/gen/connect/ping/v1"
	"github.com/bufbuild/connect-go/internal/gen/connect/ping/v1/pingv1connect"
)

type huntATrailerServer struct {
	pingv1connect.UnimplementedPingServiceHandler
	fail bool
}

func (s *huntATrailerServer) CumSum(
	_ context.Context,
	stream *connect.BidiStream[pingv1.CumSumRequest, pingv1.CumSumResponse],
) error {
	stream.ResponseHeader()["X-Hdr"] = []string{"h1", "h2"}
	stream.ResponseTrailer()["X-Trl"] = []string{"t1", "t2"}
	stream.ResponseTrailer()["X-Trl-Bin"] = []string{connect.EncodeBinaryHeader([]byte{0, 1, 2})}
	for {
		_, err := stream.Receive()
		if errors.Is(err, io.EOF) {
			break
		}
		if err != nil {
			return err
		}
		if err := stream.Send(&pingv1.CumSumResponse{Sum: 1}); err != nil {
			return err
		}
	}
	if s.fail {
		err := connect.NewError(connect.CodeAborted, errors.New("boom"))
		err.Meta()["X-Meta"] = []string{"m1", "m2"}
		return err
	}
	return nil
}

// TestHuntATrailersDuplicatedBySecondReceive: a client that calls Receive once
// more after the stream has ended (a legal call: it just reports the end of
// the stream again) must still observe the trailers the handler set, with the
// values unchanged. Instead every further Receive appends another copy of all
// trailer values to ResponseTrailer() (and to the error's metadata).
func TestHuntATrailersDuplicatedBySecondReceive(t *testing.T) {
	protocols := []struct {
		name string
		opts []connect.ClientOption
	}{
		{"connect", nil},
		{"grpc", []connect.ClientOption{connect.WithGRPC()}},
		{"grpcweb", []connect.ClientOption{connect.WithGRPCWeb()}},
	}
	for _, proto := range protocols {
		for _, fail := range []bool{false, true} {
			name := proto.name + "/success"
			if fail {
				name = proto.name + "/error-after-messages"
			}
			t.Run(name, func(t *testing.T) {
				mux := http.NewServeMux()
				mux.Handle(pingv1connect.NewPingServiceHandler(&huntATrailerServer{fail: fail}))
				server := httptest.NewUnstartedServer(mux)
				server.EnableHTTP2 = true
				server.StartTLS()
				defer server.Close()
				client := pingv1connect.NewPingServiceClient(server.Client(), server.URL, proto.opts...)

				stream := client.CumSum(context.Background())
				if err := stream.Send(&pingv1.CumSumRequest{Number: 1}); err != nil {
					t.Fatalf("send: %v", err)
				}
				if err := stream.CloseRequest(); err != nil {
					t.Fatalf("close request: %v", err)
				}
				if _, err := stream.Receive(); err != nil {
					t.Fatalf("first receive: expected a message, got %v", err)
				}
				_, endErr := stream.Receive()
				if endErr == nil {
					t.Fatalf("second receive: expected the end of the stream")
				}
				wantTrailer := []string{"t1", "t2"}
				wantBin := []string{connect.EncodeBinaryHeader([]byte{0, 1, 2})}
				if got := stream.ResponseTrailer()["X-Trl"]; !reflect.DeepEqual(got, wantTrailer) {
					t.Fatalf("after end of stream: trailer X-Trl: expected %q, got %q", wantTrailer, got)
				}
				// The stream is over; asking again is harmless and reports the end again.
				_, againErr := stream.Receive()
				if againErr == nil {
					t.Fatalf("third receive: expected the end of the stream again")
				}
				if got := stream.ResponseTrailer()["X-Trl"]; !reflect.DeepEqual(got, wantTrailer) {
					t.Errorf("after one more Receive: trailer X-Trl: expected the handler's values %q unchanged, got %q", wantTrailer, got)
				}
				if got := stream.ResponseTrailer()["X-Trl-Bin"]; !reflect.DeepEqual(got, wantBin) {
					t.Errorf("after one more Receive: trailer X-Trl-Bin: expected the handler's values %q unchanged, got %q", wantBin, got)
				}
				if fail {
					var connectErr *connect.Error
					if !errors.As(againErr, &connectErr) {
						t.Fatalf("expected *connect.Error, got %v", againErr)
					}
					if got, want := connectErr.Meta()["X-Meta"], []string{"m1", "m2"}; !reflect.DeepEqual(got, want) {
						t.Errorf("after one more Receive: error metadata X-Meta: expected %q unchanged, got %q", want, got)
					}
					if got := connectErr.Meta()["X-Trl"]; !reflect.DeepEqual(got, wantTrailer) {
						t.Errorf("after one more Receive: error metadata X-Trl: expected %q unchanged, got %q", wantTrailer, got)
					}
				}
				_ = stream.CloseResponse()
			})
		}
	}
}

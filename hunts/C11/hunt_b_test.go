package connect_test

import (
	"context"
	"errors"
	"net/http"
	"net/http/httptest"
	"reflect"
	"testing"

	connect "github.com/bufbuild/connect-go"
	pingv1 "github.com/bufbuild/connect-go/internal/gen/connect/ping/v1"
	"github.com/bufbuild/connect-go/internal/gen/connect/ping/v1/pingv1connect"
)

type huntBServer struct {
	pingv1connect.UnimplementedPingServiceHandler
	makeErr func() *connect.Error
}

func (s *huntBServer) Ping(context.Context, *connect.Request[pingv1.PingRequest]) (*connect.Response[pingv1.PingResponse], error) {
	return nil, s.makeErr()
}

func (s *huntBServer) CountUp(_ context.Context, _ *connect.Request[pingv1.CountUpRequest], stream *connect.ServerStream[pingv1.CountUpResponse]) error {
	if err := stream.Send(&pingv1.CountUpResponse{Number: 1}); err != nil {
		return err
	}
	return s.makeErr()
}

func huntBRun(t *testing.T, makeErr func() *connect.Error) {
	protocols := []struct {
		name string
		opts []connect.ClientOption
	}{
		{"connect", nil},
		{"grpc", []connect.ClientOption{connect.WithGRPC()}},
		{"grpcweb", []connect.ClientOption{connect.WithGRPCWeb()}},
	}
	want := []string{"m1", "m2"}
	wantBin := []string{connect.EncodeBinaryHeader([]byte{0, 0xff})}
	check := func(t *testing.T, err error) {
		t.Helper()
		if err == nil {
			t.Fatalf("expected the call to fail")
		}
		var connectErr *connect.Error
		if !errors.As(err, &connectErr) {
			t.Fatalf("expected *connect.Error, got %T %v", err, err)
		}
		if got := connectErr.Meta()["X-Meta"]; !reflect.DeepEqual(got, want) {
			t.Errorf("error %q: metadata X-Meta set by the handler: expected %q, got %q (all metadata: %v)", connectErr, want, got, connectErr.Meta())
		}
		if got := connectErr.Meta()["X-Meta-Bin"]; !reflect.DeepEqual(got, wantBin) {
			t.Errorf("error %q: metadata X-Meta-Bin set by the handler: expected %q, got %q", connectErr, wantBin, got)
		}
	}
	for _, proto := range protocols {
		mux := http.NewServeMux()
		mux.Handle(pingv1connect.NewPingServiceHandler(&huntBServer{makeErr: func() *connect.Error {
			err := makeErr()
			err.Meta()["X-Meta"] = want
			err.Meta()["X-Meta-Bin"] = wantBin
			return err
		}}))
		server := httptest.NewUnstartedServer(mux)
		server.EnableHTTP2 = true
		server.StartTLS()
		defer server.Close()
		client := pingv1connect.NewPingServiceClient(server.Client(), server.URL, proto.opts...)
		t.Run(proto.name+"/unary/error-before-first-message", func(t *testing.T) {
			_, err := client.Ping(context.Background(), connect.NewRequest(&pingv1.PingRequest{}))
			check(t, err)
		})
		t.Run(proto.name+"/server-stream/error-after-messages", func(t *testing.T) {
			stream, err := client.CountUp(context.Background(), connect.NewRequest(&pingv1.CountUpRequest{Number: 1}))
			if err != nil {
				t.Fatal(err)
			}
			defer stream.Close()
			for stream.Receive() {
			}
			check(t, stream.Err())
		})
	}
}

// A handler fails with an error whose text is not valid UTF-8 (error texts
// routinely quote bytes supplied by a peer) and attaches metadata to it. The
// client must find that metadata on the error it gets. Over gRPC and gRPC-Web
// grpcErrorToTrailer gives up when the Status message cannot be marshalled and
// returns before it has copied the error's metadata into the trailers, so the
// client sees none of it (Connect is fine since "fix: Connect error bodies
// survive messages that are not valid UTF-8").
func TestHuntBErrorMetadataLostWithNonUTF8Message(t *testing.T) {
	huntBRun(t, func() *connect.Error {
		return connect.NewError(connect.CodeInvalidArgument, errors.New("bad name \"\xff\xfe\""))
	})
}

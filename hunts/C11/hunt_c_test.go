package connect_test

import (
	"context"
	"errors"
	"net/http"
	"net/http/httptest"
	"reflect"
	"testing"

	connect "github.com/bufbuild/connect-go"
	pingv1 "github.com/bufbuild/connect-go/internal/gen/connect/ping/v1"
	"github.com/bufbuild/connect-go/internal/gen/connect/ping/v1/pingv1connect"
	"google.golang.org/protobuf/types/known/anypb"
)

type huntCServer struct {
	pingv1connect.UnimplementedPingServiceHandler
	makeErr func() *connect.Error
}

func (s *huntCServer) Ping(context.Context, *connect.Request[pingv1.PingRequest]) (*connect.Response[pingv1.PingResponse], error) {
	return nil, s.makeErr()
}

func (s *huntCServer) CountUp(_ context.Context, _ *connect.Request[pingv1.CountUpRequest], stream *connect.ServerStream[pingv1.CountUpResponse]) error {
	stream.ResponseTrailer()["X-Trl"] = []string{"t1", "t2"}
	if err := stream.Send(&pingv1.CountUpResponse{Number: 1}); err != nil {
		return err
	}
	return s.makeErr()
}

func huntCRun(t *testing.T, makeErr func() *connect.Error) {
	protocols := []struct {
		name string
		opts []connect.ClientOption
	}{
		{"connect", nil},
		{"grpc", []connect.ClientOption{connect.WithGRPC()}},
		{"grpcweb", []connect.ClientOption{connect.WithGRPCWeb()}},
	}
	want := []string{"m1", "m2"}
	wantBin := []string{connect.EncodeBinaryHeader([]byte{0, 0xff})}
	check := func(t *testing.T, err error) {
		t.Helper()
		if err == nil {
			t.Fatalf("expected the call to fail")
		}
		var connectErr *connect.Error
		if !errors.As(err, &connectErr) {
			t.Fatalf("expected *connect.Error, got %T %v", err, err)
		}
		if got := connectErr.Meta()["X-Meta"]; !reflect.DeepEqual(got, want) {
			t.Errorf("error %q: metadata X-Meta set by the handler: expected %q, got %q (all metadata: %v)", connectErr, want, got, connectErr.Meta())
		}
		if got := connectErr.Meta()["X-Meta-Bin"]; !reflect.DeepEqual(got, wantBin) {
			t.Errorf("error %q: metadata X-Meta-Bin set by the handler: expected %q, got %q", connectErr, wantBin, got)
		}
	}
	for _, proto := range protocols {
		mux := http.NewServeMux()
		mux.Handle(pingv1connect.NewPingServiceHandler(&huntCServer{makeErr: func() *connect.Error {
			err := makeErr()
			err.Meta()["X-Meta"] = want
			err.Meta()["X-Meta-Bin"] = wantBin
			return err
		}}))
		server := httptest.NewUnstartedServer(mux)
		server.EnableHTTP2 = true
		server.StartTLS()
		defer server.Close()
		client := pingv1connect.NewPingServiceClient(server.Client(), server.URL, proto.opts...)
		t.Run(proto.name+"/unary/error-before-first-message", func(t *testing.T) {
			_, err := client.Ping(context.Background(), connect.NewRequest(&pingv1.PingRequest{}))
			check(t, err)
		})
		t.Run(proto.name+"/server-stream/error-after-messages", func(t *testing.T) {
			stream, err := client.CountUp(context.Background(), connect.NewRequest(&pingv1.CountUpRequest{Number: 1}))
			if err != nil {
				t.Fatal(err)
			}
			defer stream.Close()
			for stream.Receive() {
			}
			check(t, stream.Err())
			var connectErr *connect.Error
			if errors.As(stream.Err(), &connectErr) {
				if got, want := connectErr.Meta()["X-Trl"], []string{"t1", "t2"}; !reflect.DeepEqual(got, want) {
					t.Errorf("error %q: trailer X-Trl set by the handler: expected %q in the error's metadata, got %q", connectErr, want, got)
				}
			}
		})
	}
}

// A handler fails with an error carrying a detail whose message type is not
// linked into the binary (legal for google.protobuf.Any, e.g. a detail relayed
// from an upstream service; gRPC and gRPC-Web carry it fine) and attaches
// metadata to it. Over the Connect protocol the error body is protojson, which
// cannot render an Any of unknown type:
//   - unary: the handler has already sent status and headers (with the
//     metadata) when marshalling fails, the body stays empty, and the client's
//     fallback for "body is not a JSON error" builds an error WITHOUT the
//     headers it has just received;
//   - streaming: the end-of-stream message is never written, so the error's
//     metadata and the handler's trailers are never sent at all.
func TestHuntCErrorMetadataLostWithUnlinkedDetail(t *testing.T) {
	huntCRun(t, func() *connect.Error {
		err := connect.NewError(connect.CodeInvalidArgument, errors.New("bad name"))
		err.AddDetail(&anypb.Any{TypeUrl: "type.googleapis.com/acme.upstream.v1.Reason", Value: []byte{0x08, 0x01}})
		return err
	})
}

// The same loss seen from the client alone: the server below answers exactly
// as a connect-go handler does whose binary links acme.upstream.v1.Reason (a
// Connect unary error: status 400, application/json, the error's metadata as
// HTTP headers, the detail rendered by protojson). The client's binary does
// not link that type, so protojson cannot parse the detail; the client then
// falls back to an error built from the HTTP status alone and drops the
// response headers it holds.
func TestHuntCClientDropsHeadersWhenDetailTypeUnknown(t *testing.T) {
	server := httptest.NewUnstartedServer(http.HandlerFunc(func(w http.ResponseWriter, r *http.Request) {
		w.Header()["X-Meta"] = []string{"m1", "m2"}
		w.Header()["Trailer-X-Trl"] = []string{"t1"}
		w.Header().Set("Content-Type", "application/json")
		w.WriteHeader(http.StatusBadRequest)
		_, _ = w.Write([]byte(`{"code":"invalid_argument","message":"bad name","details":[{"@type":"type.googleapis.com/acme.upstream.v1.Reason","reason":1}]}`))
	}))
	server.EnableHTTP2 = true
	server.StartTLS()
	defer server.Close()
	client := pingv1connect.NewPingServiceClient(server.Client(), server.URL)
	_, err := client.Ping(context.Background(), connect.NewRequest(&pingv1.PingRequest{}))
	var connectErr *connect.Error
	if !errors.As(err, &connectErr) {
		t.Fatalf("expected *connect.Error, got %T %v", err, err)
	}
	if got, want := connectErr.Meta()["X-Meta"], []string{"m1", "m2"}; !reflect.DeepEqual(got, want) {
		t.Errorf("error %q: response header X-Meta: expected %q in the error's metadata, got %q (all metadata: %v)", connectErr, want, got, connectErr.Meta())
	}
	if got, want := connectErr.Meta()["X-Trl"], []string{"t1"}; !reflect.DeepEqual(got, want) {
		t.Errorf("error %q: response trailer X-Trl: expected %q in the error's metadata, got %q", connectErr, want, got)
	}
}

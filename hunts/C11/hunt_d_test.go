package connect_test

import (
	"context"
	"errors"
	"net/http"
	"net/http/httptest"
	"reflect"
	"testing"

	connect "github.com/bufbuild/connect-go"
	pingv1 "github.com/bufbuild/connect-go/internal/gen/connect/ping/v1"
	"github.com/bufbuild/connect-go/internal/gen/connect/ping/v1/pingv1connect"
)

type huntDServer struct {
	pingv1connect.UnimplementedPingServiceHandler
}

// Valid header names outside every protocol-reserved prefix; the first one is
// what a handler naturally attaches to an Unauthenticated error.
var huntDKeys = []string{"Www-Authenticate", "Cache-Control", "If-Match", "Pragma", "X-Plain"}

func (s *huntDServer) Ping(context.Context, *connect.Request[pingv1.PingRequest]) (*connect.Response[pingv1.PingResponse], error) {
	err := connect.NewError(connect.CodeUnauthenticated, errors.New("who are you"))
	for _, k := range huntDKeys {
		err.Meta()[k] = []string{"v1", "v2"}
	}
	return nil, err
}

// TestHuntDUnaryErrorMetadataDroppedOverGRPC: a unary handler fails before any
// message and attaches metadata to the error. Error.Meta documents: "Metadata
// attached to errors returned by unary handlers is always sent as HTTP
// headers, regardless of the protocol." Over gRPC the handler conn instead
// routes the error's metadata into HTTP trailers (grpcErrorToTrailer +
// http.TrailerPrefix) although no header has been written yet; net/http
// refuses to emit trailers named Www-Authenticate, Cache-Control, If-*, ... so
// those entries silently vanish. Connect and gRPC-Web deliver all of them.
func TestHuntDUnaryErrorMetadataDroppedOverGRPC(t *testing.T) {
	protocols := []struct {
		name string
		opts []connect.ClientOption
	}{
		{"connect", nil},
		{"grpc", []connect.ClientOption{connect.WithGRPC()}},
		{"grpcweb", []connect.ClientOption{connect.WithGRPCWeb()}},
	}
	mux := http.NewServeMux()
	mux.Handle(pingv1connect.NewPingServiceHandler(&huntDServer{}))
	server := httptest.NewUnstartedServer(mux)
	server.EnableHTTP2 = true
	server.StartTLS()
	defer server.Close()
	for _, proto := range protocols {
		t.Run(proto.name, func(t *testing.T) {
			client := pingv1connect.NewPingServiceClient(server.Client(), server.URL, proto.opts...)
			_, err := client.Ping(context.Background(), connect.NewRequest(&pingv1.PingRequest{}))
			var connectErr *connect.Error
			if !errors.As(err, &connectErr) {
				t.Fatalf("expected *connect.Error, got %T %v", err, err)
			}
			for _, k := range huntDKeys {
				if got, want := connectErr.Meta()[k], []string{"v1", "v2"}; !reflect.DeepEqual(got, want) {
					t.Errorf("error metadata %s set by the handler: expected %q, got %q", k, want, got)
				}
			}
		})
	}
}

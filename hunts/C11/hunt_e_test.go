package connect_test

import (
	"context"
	"errors"
	"net/http"
	"net/http/httptest"
	"reflect"
	"testing"

	connect "github.com/bufbuild/connect-go"
	pingv1 "github.com/bufbuild/connect-go/internal/gen/connect/ping/v1"
	"github.com/bufbuild/connect-go/internal/gen/connect/ping/v1/pingv1connect"
)

type huntEServer struct {
	pingv1connect.UnimplementedPingServiceHandler
}

func (s *huntEServer) Sum(_ context.Context, stream *connect.ClientStream[pingv1.SumRequest]) (*connect.Response[pingv1.SumResponse], error) {
	for stream.Receive() {
	}
	res := connect.NewResponse(&pingv1.SumResponse{Sum: 42})
	res.Header()["X-Hdr"] = []string{"h1", "h2"}
	res.Trailer()["X-Trl"] = []string{"t1", "t2"}
	return res, nil
}

// huntEInterceptor is a handler-side interceptor that fails the call after
// the wrapped handler has already sent its response message (say, because
// committing an audit record failed), attaching metadata to the error.
type huntEInterceptor struct{}

func (huntEInterceptor) WrapUnary(next connect.UnaryFunc) connect.UnaryFunc { return next }
func (huntEInterceptor) WrapStreamingClient(next connect.StreamingClientFunc) connect.StreamingClientFunc {
	return next
}
func (huntEInterceptor) WrapStreamingHandler(next connect.StreamingHandlerFunc) connect.StreamingHandlerFunc {
	return func(ctx context.Context, conn connect.StreamingHandlerConn) error {
		if err := next(ctx, conn); err != nil {
			return err
		}
		err := connect.NewError(connect.CodeAborted, errors.New("commit failed"))
		err.Meta()["X-Meta"] = []string{"m1", "m2"}
		err.Meta()["X-Meta-Bin"] = []string{connect.EncodeBinaryHeader([]byte{0, 0xff})}
		return err
	}
}

// TestHuntEClientStreamErrorAfterMessageLosesMetadata covers the cell
// {client-stream} x {error after messages}: the handler side sends the single
// response message and then fails with an error carrying metadata. The
// client's CloseAndReceive must report a failure whose metadata contains
// everything the handler side set. Instead receiveUnaryResponse re-wraps the
// server's error in a fresh CodeUnknown *Error that has no metadata at all.
func TestHuntEClientStreamErrorAfterMessageLosesMetadata(t *testing.T) {
	protocols := []struct {
		name string
		opts []connect.ClientOption
	}{
		{"connect", nil},
		{"grpc", []connect.ClientOption{connect.WithGRPC()}},
		{"grpcweb", []connect.ClientOption{connect.WithGRPCWeb()}},
	}
	mux := http.NewServeMux()
	mux.Handle(pingv1connect.NewPingServiceHandler(&huntEServer{}, connect.WithInterceptors(huntEInterceptor{})))
	server := httptest.NewUnstartedServer(mux)
	server.EnableHTTP2 = true
	server.StartTLS()
	defer server.Close()
	for _, proto := range protocols {
		t.Run(proto.name, func(t *testing.T) {
			client := pingv1connect.NewPingServiceClient(server.Client(), server.URL, proto.opts...)
			stream := client.Sum(context.Background())
			if err := stream.Send(&pingv1.SumRequest{Number: 1}); err != nil {
				t.Fatalf("send: %v", err)
			}
			_, err := stream.CloseAndReceive()
			if err == nil {
				t.Fatalf("expected the call to fail")
			}
			var connectErr *connect.Error
			if !errors.As(err, &connectErr) {
				t.Fatalf("expected *connect.Error, got %T %v", err, err)
			}
			meta := connectErr.Meta()
			for key, want := range map[string][]string{
				"X-Meta":     {"m1", "m2"},
				"X-Meta-Bin": {connect.EncodeBinaryHeader([]byte{0, 0xff})},
				"X-Hdr":      {"h1", "h2"},
				"X-Trl":      {"t1", "t2"},
			} {
				if got := meta[key]; !reflect.DeepEqual(got, want) {
					t.Errorf("error %q: metadata %s set on the handler side: expected %q, got %q (all metadata: %v)", err, key, want, got, meta)
				}
			}
			if connectErr.Code() != connect.CodeAborted {
				t.Logf("(also: code is %v, handler sent %v)", connectErr.Code(), connect.CodeAborted)
			}
		})
	}
}

package connect_test

import (
	"context"
	"errors"
	"io"
	"net/http"
	"net/http/httptest"
	"sync"
	"testing"

	"github.com/bufbuild/connect-go"
	pingv1 "github.com/bufbuild/connect-go/internal/gen/connect/ping/v1"
	"github.com/bufbuild/connect-go/internal/gen/connect/ping/v1/pingv1connect"
)

// huntAServer echoes a per-call trailer, so that each call has its own
// metadata.
type huntAServer struct {
	pingv1connect.UnimplementedPingServiceHandler
}

func (huntAServer) CumSum(
	_ context.Context,
	stream *connect.BidiStream[pingv1.CumSumRequest, pingv1.CumSumResponse],
) error {
	stream.ResponseTrailer().Set("X-Call", stream.RequestHeader().Get("X-Call"))
	var sum int64
	for {
		msg, err := stream.Receive()
		if errors.Is(err, io.EOF) {
			return nil
		}
		if err != nil {
			return err
		}
		sum += msg.Number
		if err := stream.Send(&pingv1.CumSumResponse{Sum: sum}); err != nil {
			return err
		}
	}
}

func huntANewServer(t *testing.T) *httptest.Server {
	t.Helper()
	mux := http.NewServeMux()
	mux.Handle(pingv1connect.NewPingServiceHandler(huntAServer{}))
	server := httptest.NewUnstartedServer(mux)
	server.EnableHTTP2 = true
	server.StartTLS()
	t.Cleanup(server.Close)
	return server
}

// huntAEndOfStream runs one complete bidi call and returns the error with
// which Receive reported the (clean) end of the stream.
func huntAEndOfStream(t *testing.T, client pingv1connect.PingServiceClient, call string) *connect.Error {
	t.Helper()
	stream := client.CumSum(context.Background())
	stream.RequestHeader().Set("X-Call", call)
	if err := stream.Send(&pingv1.CumSumRequest{Number: 1}); err != nil {
		t.Fatalf("%s: send: %v", call, err)
	}
	if _, err := stream.Receive(); err != nil {
		t.Fatalf("%s: receive: %v", call, err)
	}
	if err := stream.CloseRequest(); err != nil {
		t.Fatalf("%s: close request: %v", call, err)
	}
	_, err := stream.Receive()
	if !errors.Is(err, io.EOF) {
		t.Fatalf("%s: expected the stream to end with io.EOF, got %v", call, err)
	}
	if got := stream.ResponseTrailer().Get("X-Call"); got != call {
		t.Fatalf("%s: trailer X-Call = %q", call, got)
	}
	_ = stream.CloseResponse()
	var connectErr *connect.Error
	if !errors.As(err, &connectErr) {
		t.Fatalf("%s: end-of-stream error %v is not a *connect.Error", call, err)
	}
	return connectErr
}

// TestHuntA_EndOfStreamErrorSharedBetweenCalls is deterministic: the error
// value that Receive hands to user code at the end of a Connect (or gRPC-Web)
// stream is one package-level *Error, shared by every call of every client in
// the process. Metadata that one call's user attaches to "its" error shows up
// on the error of a different call.
func TestHuntA_EndOfStreamErrorSharedBetweenCalls(t *testing.T) {
	server := huntANewServer(t)
	for _, tc := range []struct {
		name string
		opts []connect.ClientOption
	}{
		{"connect", nil},
		{"grpcweb", []connect.ClientOption{connect.WithGRPCWeb()}},
	} {
		tc := tc
		t.Run(tc.name, func(t *testing.T) {
			// Two distinct clients even: the state is shared process-wide.
			clientOne := pingv1connect.NewPingServiceClient(server.Client(), server.URL, tc.opts...)
			clientTwo := pingv1connect.NewPingServiceClient(server.Client(), server.URL, tc.opts...)

			errOne := huntAEndOfStream(t, clientOne, "call-one")
			// The user of call one annotates the error it was handed (for
			// example before passing it up to a logging layer). Error.Meta is
			// documented as "allows the error to carry additional information".
			errOne.Meta().Set("X-Seen-By", "call-one")

			errTwo := huntAEndOfStream(t, clientTwo, "call-two")
			if got := errTwo.Meta().Get("X-Seen-By"); got != "" {
				t.Errorf("expected call two's end-of-stream error to carry no metadata of "+
					"call one, but its Meta() has X-Seen-By=%q (errOne==errTwo: %v): "+
					"the error value of one call shows up in another",
					got, errOne == errTwo)
			}
		})
	}
}

// TestHuntA_EndOfStreamErrorRace shows the same defect as an unsynchronised
// memory access inside the library: G goroutines each run their own call on a
// shared client and merely *read* the metadata of the error they were handed.
// Error.Meta lazily allocates e.meta, and e is the shared package-level error,
// so `go test -race` reports a data race in (*Error).Meta. Without -race the
// test still fails on the pointer identity.
func TestHuntA_EndOfStreamErrorRace(t *testing.T) {
	server := huntANewServer(t)
	client := pingv1connect.NewPingServiceClient(server.Client(), server.URL)
	const goroutines = 8
	errs := make([]*connect.Error, goroutines)
	var wg sync.WaitGroup
	for g := 0; g < goroutines; g++ {
		g := g
		wg.Add(1)
		go func() {
			defer wg.Done()
			connectErr := huntAEndOfStream(t, client, "call")
			_ = connectErr.Meta() // read-only use by the caller
			errs[g] = connectErr
		}()
	}
	wg.Wait()
	for g := 1; g < goroutines; g++ {
		if errs[g] != nil && errs[g] == errs[0] {
			t.Fatalf("expected every call to get its own error value, but goroutines 0 and %d "+
				"were handed the very same *connect.Error (%p): concurrent use of it (for "+
				"example Meta(), which writes e.meta lazily) is an unsynchronised memory access",
				g, errs[g])
		}
	}
}

package connect_test

import (
	"bytes"
	"context"
	"fmt"
	"net/http"
	"net/http/httptest"
	"strings"
	"testing"

	"github.com/bufbuild/connect-go"
	pingv1 "github.com/bufbuild/connect-go/internal/gen/connect/ping/v1"
	"github.com/bufbuild/connect-go/internal/gen/connect/ping/v1/pingv1connect"
	"google.golang.org/protobuf/proto"
)

// huntBFrame is an already-serialised message, as used by proxies, fan-out
// servers and caches that do not want to re-encode a payload for every call.
type huntBFrame struct {
	Data []byte
}

// huntBRawCodec is a pass-through codec: Marshal returns the frame's bytes as
// they are (there is nothing to encode), Unmarshal copies the wire bytes into
// the frame. Nothing in the Codec documentation forbids Marshal from returning
// a slice that the message (or the codec) still refers to.
type huntBRawCodec struct{}

func (huntBRawCodec) Name() string { return "proto" }

func (huntBRawCodec) Marshal(message any) ([]byte, error) {
	frame, ok := message.(*huntBFrame)
	if !ok {
		return nil, fmt.Errorf("unexpected message type %T", message)
	}
	return frame.Data, nil
}

func (huntBRawCodec) Unmarshal(data []byte, message any) error {
	frame, ok := message.(*huntBFrame)
	if !ok {
		return fmt.Errorf("unexpected message type %T", message)
	}
	frame.Data = append([]byte(nil), data...) // well-behaved: copies
	return nil
}

type huntBServer struct {
	pingv1connect.UnimplementedPingServiceHandler
}

func (huntBServer) Ping(
	_ context.Context,
	req *connect.Request[pingv1.PingRequest],
) (*connect.Response[pingv1.PingResponse], error) {
	// The response is as long as the request but consists of the call's own
	// marker, so that it is recognisable wherever it turns up.
	marker := fmt.Sprintf("<response-to-call-%d>", req.Msg.Number)
	text := strings.Repeat(marker, len(req.Msg.Text)/len(marker)+1)[:len(req.Msg.Text)]
	return connect.NewResponse(&pingv1.PingResponse{Number: req.Msg.Number, Text: text}), nil
}

// TestHuntB_SentMessageOverwrittenByOtherCall: the client takes the byte
// slice returned by Codec.Marshal, wraps it in a bytes.Buffer and *puts it
// into its buffer pool* once the message is written (envelopeWriter.Marshal,
// connectUnaryMarshaler.Marshal). The next call that needs a buffer - to read
// a response, to compress, ... - gets that very array and writes its own data
// into it. With a codec whose Marshal output is still referenced by the
// message, the message the user passed to call one is overwritten with the
// payload of call two.
func TestHuntB_SentMessageOverwrittenByOtherCall(t *testing.T) {
	mux := http.NewServeMux()
	mux.Handle(pingv1connect.NewPingServiceHandler(huntBServer{}))
	server := httptest.NewServer(mux)
	t.Cleanup(server.Close)

	for _, tc := range []struct {
		name string
		opts []connect.ClientOption
	}{
		{"connect", nil},
		{"grpcweb", []connect.ClientOption{connect.WithGRPCWeb()}},
	} {
		tc := tc
		t.Run(tc.name, func(t *testing.T) {
			opts := append([]connect.ClientOption{connect.WithCodec(huntBRawCodec{})}, tc.opts...)
			client := connect.NewClient[huntBFrame, huntBFrame](
				server.Client(),
				server.URL+"/connect.ping.v1.PingService/Ping",
				opts...,
			)
			// sync.Pool gives no guarantees about which buffer comes back, so
			// try a few times; in practice the first attempt shows it.
			const attempts = 50
			for attempt := 0; attempt < attempts; attempt++ {
				number := int64(attempt * 2)
				payloadOne, err := proto.Marshal(&pingv1.PingRequest{
					Number: number,
					Text:   strings.Repeat("call-one-request.", 200),
				})
				if err != nil {
					t.Fatal(err)
				}
				pristine := append([]byte(nil), payloadOne...)
				messageOne := &huntBFrame{Data: payloadOne}

				// Call one completes before anything else happens.
				if _, err := client.CallUnary(context.Background(), connect.NewRequest(messageOne)); err != nil {
					t.Fatalf("call one: %v", err)
				}
				afterOwnCall := append([]byte(nil), messageOne.Data...)

				// Call two: a different message, on the same client.
				payloadTwo, err := proto.Marshal(&pingv1.PingRequest{
					Number: number + 1,
					Text:   strings.Repeat("call-two-request.", 200),
				})
				if err != nil {
					t.Fatal(err)
				}
				if _, err := client.CallUnary(context.Background(), connect.NewRequest(&huntBFrame{Data: payloadTwo})); err != nil {
					t.Fatalf("call two: %v", err)
				}

				markerTwo := []byte(fmt.Sprintf("<response-to-call-%d>", number+1))
				if bytes.Contains(messageOne.Data, markerTwo) {
					t.Fatalf("attempt %d: expected the message passed to call one to stay intact "+
						"(%.40q...), but after call two ran it contains call two's response: %.60q... "+
						"(intact right after its own call: %v)",
						attempt, pristine, messageOne.Data, bytes.Equal(afterOwnCall, pristine))
				}
				if !bytes.Equal(messageOne.Data, pristine) {
					t.Fatalf("attempt %d: expected the message passed to call one to stay intact "+
						"(%.40q...), but it now reads %.60q...", attempt, pristine, messageOne.Data)
				}
			}
		})
	}
}

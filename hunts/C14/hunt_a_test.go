package connect_test

import (
	"context"
	"net/http"
	"net/http/httptest"
	"testing"
	"time"

	connect "github.com/bufbuild/connect-go"
	pingv1 "github.com/bufbuild/connect-go/internal/gen/connect/ping/v1"
	"github.com/bufbuild/connect-go/internal/gen/connect/ping/v1/pingv1connect"
)

// Property C14: "every API call returns in bounded time".
//
// Program: bidi stream over HTTP/2; the client does Send, Receive,
// CloseRequest, CloseResponse (request side first, then response side). The
// handler is the ordinary "answer each message, drain until end-of-request,
// return nil" handler, which terminates as soon as the client closes its side.
// The client is configured with WithReadMaxBytes, and the handler's (perfectly
// legal) response message is larger than that, so Receive has an error to
// report.
//
// With the Connect and gRPC-Web protocols Receive reports the error right
// away. With the gRPC protocol Receive never returns: after the failed
// unmarshal it tries to read the HTTP trailers, which means reading the
// response body to its end, which only comes once the handler returns, which
// only happens once the client closes the request side - which this client
// does after Receive.
func TestHuntA_GRPCReceiveErrorBlocksUntilHandlerEnds(t *testing.T) {
	mux := http.NewServeMux()
	mux.Handle(pingv1connect.NewPingServiceHandler(pingServer{}))
	server := httptest.NewUnstartedServer(mux)
	server.EnableHTTP2 = true
	server.StartTLS()
	defer server.Close()

	run := func(t *testing.T, opts ...connect.ClientOption) {
		t.Helper()
		opts = append(opts, connect.WithReadMaxBytes(1))
		client := pingv1connect.NewPingServiceClient(server.Client(), server.URL, opts...)
		ctx, cancel := context.WithCancel(context.Background())
		defer cancel()
		stream := client.CumSum(ctx)
		if err := stream.Send(&pingv1.CumSumRequest{Number: 1 << 40}); err != nil {
			t.Fatalf("Send: %v", err)
		}
		type result struct {
			err error
		}
		done := make(chan result, 1)
		go func() {
			_, err := stream.Receive()
			done <- result{err}
		}()
		select {
		case res := <-done:
			if res.err == nil {
				t.Fatalf("expected Receive to report the over-sized message, got nil")
			}
			t.Logf("Receive returned: %v", res.err)
		case <-time.After(3 * time.Second):
			t.Errorf("expected Receive to return (with an error about the over-sized message) " +
				"in bounded time; it is still blocked after 3s, waiting for the handler to end, " +
				"while the handler waits for this client to close the request side")
			// Cancelling would not help (see hunt_b_test.go); closing the request
			// side lets the handler end, which lets Receive return.
			_ = stream.CloseRequest()
			select {
			case res := <-done:
				t.Logf("Receive returned only after CloseRequest: %v", res.err)
			case <-time.After(3 * time.Second):
				t.Logf("Receive still blocked even after CloseRequest")
			}
		}
		if err := stream.CloseRequest(); err != nil {
			t.Logf("CloseRequest: %v", err)
		}
		_ = stream.CloseResponse()
	}
	t.Run("connect", func(t *testing.T) { run(t) })
	t.Run("grpcweb", func(t *testing.T) { run(t, connect.WithGRPCWeb()) })
	t.Run("grpc", func(t *testing.T) { run(t, connect.WithGRPC()) })
}

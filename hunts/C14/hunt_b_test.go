package connect_test

import (
	"context"
	"errors"
	"io"
	"net/http"
	"net/http/httptest"
	"runtime"
	"strings"
	"testing"
	"time"

	connect "github.com/bufbuild/connect-go"
	pingv1 "github.com/bufbuild/connect-go/internal/gen/connect/ping/v1"
	"github.com/bufbuild/connect-go/internal/gen/connect/ping/v1/pingv1connect"
)

// Property C14: for a client program that "finishes ... by cancelling its
// context", "every API call returns in bounded time ... and afterwards no
// goroutine started by the library remains".
//
// All three tests use a bidi stream over HTTP/2 against the ordinary "answer
// every message, drain until end-of-request, return nil" handler, and a client
// that starts with Send, Receive (so the response headers have arrived) and
// then finishes by cancelling its context without having closed the request
// side.
//
// What goes wrong: once http.Client.Do has returned the response, the only
// goroutine of net/http's HTTP/2 transport that still looks at the request's
// context is the one that copies the request body - and that one is parked
// inside Read on the library's io.Pipe, which nothing closes on cancellation.
// So the cancellation is never acted upon: no RST_STREAM goes out, the
// response body read is not interrupted, the handler is not told.

type huntBServer struct {
	pingv1connect.UnimplementedPingServiceHandler
	exited chan struct{}
}

func (s *huntBServer) CumSum(
	ctx context.Context,
	stream *connect.BidiStream[pingv1.CumSumRequest, pingv1.CumSumResponse],
) error {
	defer func() { s.exited <- struct{}{} }()
	var sum int64
	for {
		msg, err := stream.Receive()
		if errors.Is(err, io.EOF) {
			return nil
		} else if err != nil {
			return err
		}
		sum += msg.Number
		if err := stream.Send(&pingv1.CumSumResponse{Sum: sum}); err != nil {
			return err
		}
	}
}

func huntBSetup(t *testing.T) (*httptest.Server, *huntBServer) {
	t.Helper()
	impl := &huntBServer{exited: make(chan struct{}, 16)}
	mux := http.NewServeMux()
	mux.Handle(pingv1connect.NewPingServiceHandler(impl))
	server := httptest.NewUnstartedServer(mux)
	server.EnableHTTP2 = true
	server.StartTLS()
	t.Cleanup(server.Close)
	return server, impl
}

var huntBProtocols = []struct {
	name string
	opts []connect.ClientOption
}{
	{"connect", nil},
	{"grpc", []connect.ClientOption{connect.WithGRPC()}},
	{"grpcweb", []connect.ClientOption{connect.WithGRPCWeb()}},
}

// A Receive that is blocked when the context is cancelled stays blocked.
func TestHuntB_CancelDoesNotReleaseBlockedReceive(t *testing.T) {
	server, _ := huntBSetup(t)
	for _, proto := range huntBProtocols {
		proto := proto
		t.Run(proto.name, func(t *testing.T) {
			client := pingv1connect.NewPingServiceClient(server.Client(), server.URL, proto.opts...)
			ctx, cancel := context.WithCancel(context.Background())
			defer cancel()
			stream := client.CumSum(ctx)
			if err := stream.Send(&pingv1.CumSumRequest{Number: 7}); err != nil {
				t.Fatalf("Send: %v", err)
			}
			if _, err := stream.Receive(); err != nil {
				t.Fatalf("first Receive: %v", err)
			}
			done := make(chan error, 1)
			go func() {
				_, err := stream.Receive()
				done <- err
			}()
			time.Sleep(100 * time.Millisecond) // let Receive block in the body read
			cancel()
			select {
			case err := <-done:
				if code := connect.CodeOf(err); err == nil || code != connect.CodeCanceled {
					t.Errorf("expected code canceled from Receive after cancel, got %v", err)
				}
			case <-time.After(3 * time.Second):
				t.Errorf("expected the blocked Receive to return (code canceled) in bounded time after " +
					"the client cancelled its context; 3s after cancel it is still blocked")
				// Unblock everything so that the test binary can finish.
				_ = stream.CloseRequest()
				select {
				case err := <-done:
					t.Logf("Receive returned only after CloseRequest: %v", err)
				case <-time.After(3 * time.Second):
					t.Logf("Receive still blocked even after CloseRequest")
				}
			}
			_ = stream.CloseRequest()
			_ = stream.CloseResponse()
		})
	}
}

// The purely sequential program Send, Receive, cancel, CloseResponse never
// gets out of CloseResponse.
func TestHuntB_CloseResponseAfterCancelBlocks(t *testing.T) {
	server, _ := huntBSetup(t)
	for _, proto := range huntBProtocols {
		proto := proto
		t.Run(proto.name, func(t *testing.T) {
			client := pingv1connect.NewPingServiceClient(server.Client(), server.URL, proto.opts...)
			ctx, cancel := context.WithCancel(context.Background())
			defer cancel()
			stream := client.CumSum(ctx)
			if err := stream.Send(&pingv1.CumSumRequest{Number: 7}); err != nil {
				t.Fatalf("Send: %v", err)
			}
			if _, err := stream.Receive(); err != nil {
				t.Fatalf("first Receive: %v", err)
			}
			cancel()
			done := make(chan error, 1)
			go func() { done <- stream.CloseResponse() }()
			select {
			case err := <-done:
				t.Logf("CloseResponse returned: %v", err)
			case <-time.After(3 * time.Second):
				t.Errorf("expected CloseResponse, called after the client cancelled its context, to " +
					"return in bounded time; 3s later it is still blocked draining the response body")
				_ = stream.CloseRequest() // let the test binary finish
				select {
				case err := <-done:
					t.Logf("CloseResponse returned only after CloseRequest: %v", err)
				case <-time.After(3 * time.Second):
					t.Logf("CloseResponse still blocked even after CloseRequest")
				}
			}
		})
	}
}

// A client that finishes by cancelling (and nothing else) leaves the call
// running for ever: the handler is never released and the transport's
// goroutine stays parked on the library's request-body pipe.
func TestHuntB_CancelAloneReleasesNothing(t *testing.T) {
	server, impl := huntBSetup(t)
	for _, proto := range huntBProtocols {
		proto := proto
		t.Run(proto.name, func(t *testing.T) {
			client := pingv1connect.NewPingServiceClient(server.Client(), server.URL, proto.opts...)
			ctx, cancel := context.WithCancel(context.Background())
			defer cancel()
			stream := client.CumSum(ctx)
			if err := stream.Send(&pingv1.CumSumRequest{Number: 7}); err != nil {
				t.Fatalf("Send: %v", err)
			}
			if _, err := stream.Receive(); err != nil {
				t.Fatalf("first Receive: %v", err)
			}
			cancel() // the client is finished
			select {
			case <-impl.exited:
			case <-time.After(3 * time.Second):
				buf := make([]byte, 1<<20)
				buf = buf[:runtime.Stack(buf, true)]
				parked := strings.Count(string(buf), "io.(*pipe).read")
				t.Errorf("expected the call to be torn down after the client cancelled its context "+
					"(handler released, no goroutine left behind); 3s after cancel the handler is still "+
					"waiting in Receive and %d goroutine(s) are parked in io.(*pipe).read on the "+
					"library's request-body pipe", parked)
				_ = stream.CloseRequest() // let the test binary finish
				select {
				case <-impl.exited:
					t.Logf("handler was released only by CloseRequest")
				case <-time.After(3 * time.Second):
					t.Logf("handler still running even after CloseRequest")
				}
			}
		})
	}
}

package connect_test

import (
	"context"
	"net/http"
	"net/http/httptest"
	"testing"
	"time"

	connect "github.com/bufbuild/connect-go"
	pingv1 "github.com/bufbuild/connect-go/internal/gen/connect/ping/v1"
	"github.com/bufbuild/connect-go/internal/gen/connect/ping/v1/pingv1connect"
)

// huntLingerMiddleware is plain net/http middleware: it lets the wrapped
// handler run to completion (so the response message has been written and
// flushed), and then lingers until the request context ends. With gRPC over
// HTTP/2 the trailers only go out when the outermost handler returns, so from
// the client's point of view the call is "response message received, status not
// yet known".
func huntLingerMiddleware(next http.Handler, lingering chan<- struct{}) http.Handler {
	return http.HandlerFunc(func(w http.ResponseWriter, r *http.Request) {
		next.ServeHTTP(w, r)
		select {
		case lingering <- struct{}{}:
		default:
		}
		select {
		case <-r.Context().Done():
		case <-time.After(5 * time.Second):
		}
	})
}

// huntLingerInterceptor is a handler-side interceptor that, for streaming
// handlers, lingers after the wrapped implementation has returned (response
// message sent and flushed) until the handler's context ends. The protocol's
// end of stream (gRPC trailers, gRPC-Web trailer block, Connect end-of-stream
// message) is only written after it returns.
type huntLingerInterceptor struct {
	lingering chan<- struct{}
}

func (i huntLingerInterceptor) WrapUnary(next connect.UnaryFunc) connect.UnaryFunc { return next }
func (i huntLingerInterceptor) WrapStreamingClient(next connect.StreamingClientFunc) connect.StreamingClientFunc {
	return next
}
func (i huntLingerInterceptor) WrapStreamingHandler(next connect.StreamingHandlerFunc) connect.StreamingHandlerFunc {
	return func(ctx context.Context, conn connect.StreamingHandlerConn) error {
		err := next(ctx, conn)
		select {
		case i.lingering <- struct{}{}:
		default:
		}
		select {
		case <-ctx.Done():
		case <-time.After(5 * time.Second):
		}
		return err
	}
}

func huntCtx(expiry bool, lingering <-chan struct{}) (context.Context, context.CancelFunc, connect.Code) {
	if expiry {
		ctx, cancel := context.WithTimeout(context.Background(), 300*time.Millisecond)
		return ctx, cancel, connect.CodeDeadlineExceeded
	}
	ctx, cancel := context.WithCancel(context.Background())
	go func() {
		select {
		case <-lingering:
			time.Sleep(50 * time.Millisecond)
		case <-time.After(3 * time.Second):
		}
		cancel()
	}()
	return ctx, cancel, connect.CodeCanceled
}

// C15: a unary or client-streaming call whose context is cancelled / expires
// after the response message arrived but before the end of the stream (gRPC
// trailers, gRPC-Web trailer block, Connect end-of-stream message) must fail
// with canceled / deadline_exceeded. It fails with code unknown instead.
func TestHuntC15CancelBetweenResponseMessageAndEndOfStream(t *testing.T) {
	t.Parallel()
	for _, expiry := range []bool{false, true} {
		expiry := expiry
		suffix := "cancel"
		if expiry {
			suffix = "deadline"
		}
		t.Run("unary/grpc/"+suffix, func(t *testing.T) {
			t.Parallel()
			lingering := make(chan struct{}, 1)
			mux := http.NewServeMux()
			mux.Handle(pingv1connect.NewPingServiceHandler(pingServer{}))
			server := httptest.NewUnstartedServer(huntLingerMiddleware(mux, lingering))
			server.EnableHTTP2 = true
			server.StartTLS()
			defer server.Close()
			client := pingv1connect.NewPingServiceClient(server.Client(), server.URL, connect.WithGRPC())
			ctx, cancel, want := huntCtx(expiry, lingering)
			defer cancel()
			_, err := client.Ping(ctx, connect.NewRequest(&pingv1.PingRequest{Number: 42}))
			if err == nil {
				t.Fatalf("expected the call to fail with %v, but it succeeded", want)
			}
			if got := connect.CodeOf(err); got != want {
				t.Fatalf("context ended (%v) while the unary call was receiving: expected code %v, got code %v (error: %v)",
					ctx.Err(), want, got, err)
			}
		})
		for _, proto := range []struct {
			name string
			opts []connect.ClientOption
		}{
			{"connect", nil},
			{"grpc", []connect.ClientOption{connect.WithGRPC()}},
			{"grpcweb", []connect.ClientOption{connect.WithGRPCWeb()}},
		} {
			proto := proto
			t.Run("clientstream/"+proto.name+"/"+suffix, func(t *testing.T) {
				t.Parallel()
				lingering := make(chan struct{}, 1)
				mux := http.NewServeMux()
				mux.Handle(pingv1connect.NewPingServiceHandler(
					pingServer{},
					connect.WithInterceptors(huntLingerInterceptor{lingering: lingering}),
				))
				server := httptest.NewUnstartedServer(mux)
				server.EnableHTTP2 = true
				server.StartTLS()
				defer server.Close()
				client := pingv1connect.NewPingServiceClient(server.Client(), server.URL, proto.opts...)
				ctx, cancel, want := huntCtx(expiry, lingering)
				defer cancel()
				stream := client.Sum(ctx)
				if err := stream.Send(&pingv1.SumRequest{Number: 1}); err != nil {
					t.Fatalf("send: %v", err)
				}
				_, err := stream.CloseAndReceive()
				if err == nil {
					t.Fatalf("expected CloseAndReceive to fail with %v, but it succeeded", want)
				}
				if got := connect.CodeOf(err); got != want {
					t.Fatalf("context ended (%v) while CloseAndReceive was receiving: expected code %v, got code %v (error: %v)",
						ctx.Err(), want, got, err)
				}
			})
		}
	}
}

package connect_test

import (
	"context"
	"errors"
	"io"
	"fmt"
	"net/http"
	"net/http/httptest"
	"testing"
	"time"

	connect "github.com/bufbuild/connect-go"
	pingv1 "github.com/bufbuild/connect-go/internal/gen/connect/ping/v1"
	"github.com/bufbuild/connect-go/internal/gen/connect/ping/v1/pingv1connect"
)

// C15: bidi stream over HTTP/2. One goroutine is blocked in Receive when the
// context is cancelled / expires; another goroutine then calls Send (legal:
// one sender and one receiver may run concurrently). Send notices the finished
// context and reports canceled / deadline_exceeded, but in doing so connect-go
// closes the read side of its own request-body pipe; net/http's HTTP/2
// transport then aborts the stream with io.ErrClosedPipe, which the blocked
// Receive reports as invalid_argument "protocol error: incomplete envelope".
type huntBServer struct {
	pingv1connect.UnimplementedPingServiceHandler
	handlerCtxErr chan error
}

func (s *huntBServer) CumSum(ctx context.Context, stream *connect.BidiStream[pingv1.CumSumRequest, pingv1.CumSumResponse]) error {
	// Answer the first message, then keep reading without answering.
	first := true
	for {
		msg, err := stream.Receive()
		if err != nil {
			break
		}
		if first {
			first = false
			if err := stream.Send(&pingv1.CumSumResponse{Sum: msg.Number}); err != nil {
				break
			}
		}
	}
	select {
	case <-ctx.Done():
	case <-time.After(3 * time.Second):
	}
	s.handlerCtxErr <- ctx.Err()
	return ctx.Err()
}

func TestHuntC15BlockedReceiveWokenByConcurrentSend(t *testing.T) {
	for _, p := range []struct {
		name string
		opts []connect.ClientOption
	}{
		{"connect", nil},
		{"grpc", []connect.ClientOption{connect.WithGRPC()}},
		{"grpcweb", []connect.ClientOption{connect.WithGRPCWeb()}},
	} {
		for _, expiry := range []bool{false, true} {
			p, expiry := p, expiry
			t.Run(fmt.Sprintf("%s/expiry=%v", p.name, expiry), func(t *testing.T) {
				srv := &huntBServer{handlerCtxErr: make(chan error, 1)}
				mux := http.NewServeMux()
				mux.Handle(pingv1connect.NewPingServiceHandler(srv))
				server := httptest.NewUnstartedServer(mux)
				server.EnableHTTP2 = true
				server.StartTLS()
				defer func() { server.CloseClientConnections(); go server.Close() }()
				client := pingv1connect.NewPingServiceClient(server.Client(), server.URL, p.opts...)
				want := connect.CodeCanceled
				var ctx context.Context
				var cancel context.CancelFunc
				if expiry {
					want = connect.CodeDeadlineExceeded
					ctx, cancel = context.WithTimeout(context.Background(), 200*time.Millisecond)
				} else {
					ctx, cancel = context.WithCancel(context.Background())
					time.AfterFunc(200*time.Millisecond, cancel)
				}
				defer cancel()
				stream := client.CumSum(ctx)
				if err := stream.Send(&pingv1.CumSumRequest{Number: 1}); err != nil {
					t.Fatal(err)
				}
				if _, err := stream.Receive(); err != nil {
					t.Fatal(err)
				}
				recv := make(chan error, 1)
				go func() {
					_, err := stream.Receive()
					recv <- err
				}()
				<-ctx.Done()
				time.Sleep(50 * time.Millisecond)
				sendErr := stream.Send(&pingv1.CumSumRequest{Number: 2})
				t.Logf("send after cancel: %v", sendErr)
				if connect.CodeOf(sendErr) != want && !errors.Is(sendErr, io.EOF) {
					t.Errorf("Send after the context ended: expected code %v, got %v", want, sendErr)
				}
				select {
				case err := <-recv:
					if connect.CodeOf(err) != want {
						t.Errorf("Receive that was blocked when the context ended: expected code %v, got code %v (error: %v)", want, connect.CodeOf(err), err)
					} else {
						t.Logf("receive: %v", err)
					}
				case <-time.After(3 * time.Second):
					t.Errorf("Receive that was blocked when the context ended never returned, even after Send noticed the cancellation")
				}
				_, err := stream.Receive()
				t.Logf("receive after: %v", err)
				if connect.CodeOf(err) != want {
					t.Errorf("Receive after the context ended: expected code %v, got code %v (error: %v)", want, connect.CodeOf(err), err)
				}
			})
		}
	}
}

package connect_test

import (
	"context"
	"fmt"
	"net/http"
	"net/http/httptest"
	"testing"
	"time"

	connect "github.com/bufbuild/connect-go"
	pingv1 "github.com/bufbuild/connect-go/internal/gen/connect/ping/v1"
	"github.com/bufbuild/connect-go/internal/gen/connect/ping/v1/pingv1connect"
)

type huntCServer struct {
	pingv1connect.UnimplementedPingServiceHandler
	handlerCtxDone chan struct{}
}

func (s *huntCServer) CumSum(ctx context.Context, stream *connect.BidiStream[pingv1.CumSumRequest, pingv1.CumSumResponse]) error {
	go func() {
		<-ctx.Done()
		close(s.handlerCtxDone)
	}()
	// Answer the first message, then wait for more messages.
	first := true
	for {
		msg, err := stream.Receive()
		if err != nil {
			return err
		}
		if first {
			first = false
			if err := stream.Send(&pingv1.CumSumResponse{Sum: msg.Number}); err != nil {
				return err
			}
		}
	}
}

// C15 (quantifier: "during a blocked ... Receive", bidi, HTTP/2): the client
// has exchanged one message each way, leaves the request side open and blocks
// in Receive. The context is then cancelled / expires. Expected: Receive fails
// with canceled / deadline_exceeded and the handler's context is cancelled.
// Observed: nothing happens at all - Receive stays blocked and the handler's
// context is never cancelled, because after the response headers have arrived
// nobody watches the context: net/http's HTTP/2 transport is parked in
// Read on connect-go's request-body pipe, and duplexHTTPCall only looks at
// ctx.Err() at the start of Read/Write.
func TestHuntC15BlockedBidiReceiveIgnoresContext(t *testing.T) {
	for _, p := range []struct {
		name string
		opts []connect.ClientOption
	}{
		{"connect", nil},
		{"grpc", []connect.ClientOption{connect.WithGRPC()}},
		{"grpcweb", []connect.ClientOption{connect.WithGRPCWeb()}},
	} {
		for _, expiry := range []bool{false, true} {
			p, expiry := p, expiry
			t.Run(fmt.Sprintf("%s/expiry=%v", p.name, expiry), func(t *testing.T) {
				t.Parallel()
				srv := &huntCServer{handlerCtxDone: make(chan struct{})}
				mux := http.NewServeMux()
				mux.Handle(pingv1connect.NewPingServiceHandler(srv))
				server := httptest.NewUnstartedServer(mux)
				server.EnableHTTP2 = true
				server.StartTLS()
				defer func() { server.CloseClientConnections(); go server.Close() }()
				client := pingv1connect.NewPingServiceClient(server.Client(), server.URL, p.opts...)
				want := connect.CodeCanceled
				var ctx context.Context
				var cancel context.CancelFunc
				if expiry {
					want = connect.CodeDeadlineExceeded
					ctx, cancel = context.WithTimeout(context.Background(), 200*time.Millisecond)
				} else {
					ctx, cancel = context.WithCancel(context.Background())
					time.AfterFunc(200*time.Millisecond, cancel)
				}
				defer cancel()
				stream := client.CumSum(ctx)
				if err := stream.Send(&pingv1.CumSumRequest{Number: 1}); err != nil {
					t.Fatal(err)
				}
				if _, err := stream.Receive(); err != nil {
					t.Fatal(err)
				}
				recv := make(chan error, 1)
				go func() {
					_, err := stream.Receive()
					recv <- err
				}()
				<-ctx.Done()
				select {
				case <-srv.handlerCtxDone:
				case <-time.After(2 * time.Second):
					t.Errorf("the call's context ended (%v) 2s ago while Receive was blocked: expected the handler's context to be cancelled, but it is still live", ctx.Err())
				}
				select {
				case err := <-recv:
					if connect.CodeOf(err) != want {
						t.Errorf("blocked Receive: expected code %v, got code %v (error: %v)", want, connect.CodeOf(err), err)
					}
				case <-time.After(2 * time.Second):
					t.Errorf("the call's context ended (%v) seconds ago: expected the blocked Receive to fail with %v, but it is still blocked", ctx.Err(), want)
				}
			})
		}
	}
}

package connect_test

import (
	"context"
	"fmt"
	"net/http"
	"net/http/httptest"
	"testing"
	"time"

	connect "github.com/bufbuild/connect-go"
	pingv1 "github.com/bufbuild/connect-go/internal/gen/connect/ping/v1"
	"github.com/bufbuild/connect-go/internal/gen/connect/ping/v1/pingv1connect"
)

type huntDServer struct {
	pingv1connect.UnimplementedPingServiceHandler
}

func (huntDServer) CountUp(ctx context.Context, req *connect.Request[pingv1.CountUpRequest], stream *connect.ServerStream[pingv1.CountUpResponse]) error {
	for i := int64(1); i <= req.Msg.Number; i++ {
		if err := stream.Send(&pingv1.CountUpResponse{Number: i}); err != nil {
			return err
		}
	}
	<-ctx.Done() // not finished until the call is cancelled / expires
	return ctx.Err()
}

func (huntDServer) CumSum(ctx context.Context, stream *connect.BidiStream[pingv1.CumSumRequest, pingv1.CumSumResponse]) error {
	for {
		msg, err := stream.Receive()
		if err != nil {
			break
		}
		if err := stream.Send(&pingv1.CumSumResponse{Sum: msg.Number}); err != nil {
			break
		}
	}
	<-ctx.Done()
	return ctx.Err()
}

// C15: "every operation on that call that fails afterwards fails with code
// canceled or deadline_exceeded". CloseResponse (BidiStreamForClient) and
// Close (ServerStreamForClient) are operations on the call, but
// duplexHTTPCall.CloseRead neither consults the stored error nor the context:
// it drains http.Response.Body directly and reports whatever the transport
// says with code unknown.
func TestHuntC15CloseResponseAfterCancellation(t *testing.T) {
	protos := []struct {
		name string
		opts []connect.ClientOption
	}{
		{"connect", nil},
		{"grpc", []connect.ClientOption{connect.WithGRPC()}},
		{"grpcweb", []connect.ClientOption{connect.WithGRPCWeb()}},
	}
	for _, p := range protos {
		for _, expiry := range []bool{false, true} {
			p, expiry := p, expiry
			newCtx := func() (context.Context, context.CancelFunc, connect.Code) {
				if expiry {
					ctx, cancel := context.WithTimeout(context.Background(), 150*time.Millisecond)
					return ctx, cancel, connect.CodeDeadlineExceeded
				}
				ctx, cancel := context.WithCancel(context.Background())
				time.AfterFunc(150*time.Millisecond, cancel)
				return ctx, cancel, connect.CodeCanceled
			}
			newClient := func(t *testing.T, h2 bool) pingv1connect.PingServiceClient {
				mux := http.NewServeMux()
				mux.Handle(pingv1connect.NewPingServiceHandler(huntDServer{}))
				server := httptest.NewUnstartedServer(mux)
				server.EnableHTTP2 = h2
				server.StartTLS()
				t.Cleanup(func() { server.CloseClientConnections(); go server.Close() })
				return pingv1connect.NewPingServiceClient(server.Client(), server.URL, p.opts...)
			}
			// HTTP/2, bidi: the context ends between two operations; the next Send
			// and Receive report it correctly, CloseResponse does not.
			t.Run(fmt.Sprintf("h2/bidi/%s/expiry=%v", p.name, expiry), func(t *testing.T) {
				t.Parallel()
				client := newClient(t, true)
				ctx, cancel, want := newCtx()
				defer cancel()
				stream := client.CumSum(ctx)
				if err := stream.Send(&pingv1.CumSumRequest{Number: 1}); err != nil {
					t.Fatal(err)
				}
				if _, err := stream.Receive(); err != nil {
					t.Fatal(err)
				}
				<-ctx.Done()
				time.Sleep(20 * time.Millisecond)
				sendErr := stream.Send(&pingv1.CumSumRequest{Number: 2})
				_, recvErr := stream.Receive()
				t.Logf("Send: %v; Receive: %v", sendErr, recvErr)
				if err := stream.CloseRequest(); err != nil && connect.CodeOf(err) != want {
					t.Errorf("CloseRequest after the context ended: expected nil or code %v, got code %v (error: %v)", want, connect.CodeOf(err), err)
				}
				if err := stream.CloseResponse(); err != nil && connect.CodeOf(err) != want {
					t.Errorf("CloseResponse after the context ended (%v): expected nil or code %v, got code %v (error: %v)", ctx.Err(), want, connect.CodeOf(err), err)
				}
			})
			// HTTP/1.1, server stream: the context ends during a blocked Receive,
			// which reports it correctly; Close afterwards does not.
			t.Run(fmt.Sprintf("h1/serverstream/%s/expiry=%v", p.name, expiry), func(t *testing.T) {
				t.Parallel()
				client := newClient(t, false)
				ctx, cancel, want := newCtx()
				defer cancel()
				stream, err := client.CountUp(ctx, connect.NewRequest(&pingv1.CountUpRequest{Number: 2}))
				if err != nil {
					t.Fatal(err)
				}
				for stream.Receive() {
				}
				t.Logf("Receive: %v", stream.Err())
				if got := connect.CodeOf(stream.Err()); got != want {
					t.Errorf("Receive: expected code %v, got %v (error: %v)", want, got, stream.Err())
				}
				if err := stream.Close(); err != nil && connect.CodeOf(err) != want {
					t.Errorf("Close after the context ended (%v): expected nil or code %v, got code %v (error: %v)", ctx.Err(), want, connect.CodeOf(err), err)
				}
			})
		}
	}
}

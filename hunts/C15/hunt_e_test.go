package connect_test

import (
	"context"
	"errors"
	"fmt"
	"net/http"
	"net/http/httptest"
	"testing"
	"time"

	connect "github.com/bufbuild/connect-go"
	pingv1 "github.com/bufbuild/connect-go/internal/gen/connect/ping/v1"
	"github.com/bufbuild/connect-go/internal/gen/connect/ping/v1/pingv1connect"
)

var errHuntECause = errors.New("user gave up")

type huntEServer struct {
	pingv1connect.UnimplementedPingServiceHandler
}

func (huntEServer) Ping(ctx context.Context, _ *connect.Request[pingv1.PingRequest]) (*connect.Response[pingv1.PingResponse], error) {
	<-ctx.Done()
	return nil, ctx.Err()
}

func (huntEServer) Sum(ctx context.Context, stream *connect.ClientStream[pingv1.SumRequest]) (*connect.Response[pingv1.SumResponse], error) {
	for stream.Receive() {
	}
	<-ctx.Done()
	return nil, ctx.Err()
}

func (huntEServer) CountUp(ctx context.Context, req *connect.Request[pingv1.CountUpRequest], stream *connect.ServerStream[pingv1.CountUpResponse]) error {
	for i := int64(1); i <= req.Msg.Number; i++ {
		if err := stream.Send(&pingv1.CountUpResponse{Number: i}); err != nil {
			return err
		}
	}
	<-ctx.Done()
	return ctx.Err()
}

// C15: the call's context is cancelled (context.WithCancelCause) or expires
// (context.WithTimeoutCause) with a cause attached. ctx.Err() is still
// context.Canceled / context.DeadlineExceeded, so the call must fail with
// canceled / deadline_exceeded. net/http's transport (Go >= 1.23 for
// HTTP/1.1, and for every protocol version when the context is already done
// on entry to RoundTrip) reports context.Cause(ctx), i.e. the user's cause,
// which does not wrap the context error. connect-go classifies only by
// errors.Is(err, context.Canceled/DeadlineExceeded) on the transport's error
// and never looks at its own ctx.Err(), so the call fails with unavailable or
// invalid_argument.
func TestHuntC15CancellationWithCause(t *testing.T) {
	protos := []struct {
		name string
		opts []connect.ClientOption
	}{
		{"connect", nil},
		{"grpc", []connect.ClientOption{connect.WithGRPC()}},
		{"grpcweb", []connect.ClientOption{connect.WithGRPCWeb()}},
	}
	for _, h2 := range []bool{false, true} {
		for _, p := range protos {
			for _, expiry := range []bool{false, true} {
				h2, p, expiry := h2, p, expiry
				name := fmt.Sprintf("h2=%v/%s/expiry=%v", h2, p.name, expiry)
				want := connect.CodeCanceled
				if expiry {
					want = connect.CodeDeadlineExceeded
				}
				newCtx := func(after time.Duration) (context.Context, func()) {
					if expiry {
						return context.WithTimeoutCause(context.Background(), after, errHuntECause)
					}
					ctx, cancel := context.WithCancelCause(context.Background())
					if after == 0 {
						cancel(errHuntECause)
					} else {
						time.AfterFunc(after, func() { cancel(errHuntECause) })
					}
					return ctx, func() { cancel(nil) }
				}
				newClient := func(t *testing.T) pingv1connect.PingServiceClient {
					mux := http.NewServeMux()
					mux.Handle(pingv1connect.NewPingServiceHandler(huntEServer{}))
					server := httptest.NewUnstartedServer(mux)
					server.EnableHTTP2 = h2
					server.StartTLS()
					t.Cleanup(func() { server.CloseClientConnections(); go server.Close() })
					return pingv1connect.NewPingServiceClient(server.Client(), server.URL, p.opts...)
				}
				check := func(t *testing.T, ctx context.Context, op string, err error) {
					t.Helper()
					if err == nil {
						t.Errorf("%s: expected code %v, but it succeeded", op, want)
					} else if got := connect.CodeOf(err); got != want {
						t.Errorf("%s with ctx.Err()=%v (cause %q): expected code %v, got code %v (error: %v)",
							op, ctx.Err(), context.Cause(ctx), want, got, err)
					}
				}
				// Context already done before the call; client stream that goes
				// straight to CloseAndReceive (no Send to notice ctx.Err() first).
				t.Run(name+"/before/clientstream", func(t *testing.T) {
					t.Parallel()
					client := newClient(t)
					ctx, cancel := newCtx(0)
					defer cancel()
					<-ctx.Done()
					_, err := client.Sum(ctx).CloseAndReceive()
					check(t, ctx, "CloseAndReceive", err)
				})
				if h2 {
					continue // the rest needs the HTTP/1.1 transport's use of context.Cause
				}
				t.Run(name+"/waiting/unary", func(t *testing.T) {
					t.Parallel()
					client := newClient(t)
					ctx, cancel := newCtx(150 * time.Millisecond)
					defer cancel()
					_, err := client.Ping(ctx, connect.NewRequest(&pingv1.PingRequest{}))
					check(t, ctx, "unary call", err)
				})
				t.Run(name+"/receiving/serverstream", func(t *testing.T) {
					t.Parallel()
					client := newClient(t)
					ctx, cancel := newCtx(150 * time.Millisecond)
					defer cancel()
					stream, err := client.CountUp(ctx, connect.NewRequest(&pingv1.CountUpRequest{Number: 2}))
					if err != nil {
						t.Fatal(err)
					}
					for stream.Receive() {
					}
					check(t, ctx, "blocked Receive", stream.Err())
				})
			}
		}
	}
}

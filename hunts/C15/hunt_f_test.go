package connect_test

import (
	"context"
	"fmt"
	"net/http"
	"net/http/httptest"
	"strings"
	"testing"
	"time"

	connect "github.com/bufbuild/connect-go"
	pingv1 "github.com/bufbuild/connect-go/internal/gen/connect/ping/v1"
	"github.com/bufbuild/connect-go/internal/gen/connect/ping/v1/pingv1connect"
)

func huntFContext(expiry bool, started <-chan struct{}) (context.Context, context.CancelFunc, connect.Code) {
	if expiry {
		ctx, cancel := context.WithTimeout(context.Background(), 200*time.Millisecond)
		return ctx, cancel, connect.CodeDeadlineExceeded
	}
	ctx, cancel := context.WithCancel(context.Background())
	go func() {
		select {
		case <-started:
			time.Sleep(50 * time.Millisecond)
		case <-time.After(2 * time.Second):
		}
		cancel()
	}()
	return ctx, cancel, connect.CodeCanceled
}

// C15, Connect protocol, unary: the context is cancelled / expires while the
// client is receiving an *error* response whose JSON body has not arrived
// completely (the server has not finished). connectUnaryClientConn's
// validateResponse reads that body straight from http.Response.Body, discards
// the read error and falls back to the code implied by the HTTP status, so the
// cancelled call fails with e.g. unavailable (retryable!) instead of canceled.
func TestHuntC15ConnectUnaryErrorBodyInterrupted(t *testing.T) {
	for _, h2 := range []bool{true, false} {
		for _, expiry := range []bool{false, true} {
			h2, expiry := h2, expiry
			t.Run(fmt.Sprintf("h2=%v/expiry=%v", h2, expiry), func(t *testing.T) {
				t.Parallel()
				started := make(chan struct{}, 1)
				server := httptest.NewUnstartedServer(http.HandlerFunc(func(w http.ResponseWriter, r *http.Request) {
					w.Header().Set("Content-Type", "application/json")
					w.WriteHeader(http.StatusServiceUnavailable)
					// First part of a perfectly valid Connect error body...
					_, _ = w.Write([]byte(`{"code":"unavailable","message":"try again l`))
					w.(http.Flusher).Flush()
					started <- struct{}{}
					// ...the rest is still on its way when the client gives up.
					select {
					case <-r.Context().Done():
					case <-time.After(3 * time.Second):
					}
				}))
				server.EnableHTTP2 = h2
				server.StartTLS()
				defer server.Close()
				client := pingv1connect.NewPingServiceClient(server.Client(), server.URL)
				ctx, cancel, want := huntFContext(expiry, started)
				defer cancel()
				_, err := client.Ping(ctx, connect.NewRequest(&pingv1.PingRequest{}))
				if err == nil {
					t.Fatalf("expected code %v, but the call succeeded", want)
				}
				if got := connect.CodeOf(err); got != want {
					t.Errorf("context ended (%v) while receiving the response: expected code %v, got code %v (error: %v)", ctx.Err(), want, got, err)
				}
			})
		}
	}
}

// C15, Connect protocol, unary, client with WithReadMaxBytes: the context is
// cancelled / expires while the client is receiving a response that exceeds the
// limit. The read error (already correctly coded canceled/deadline_exceeded by
// duplexHTTPCall.Read) is re-wrapped in a new invalid_argument error.
func TestHuntC15ConnectUnaryReadMaxBytesDrainInterrupted(t *testing.T) {
	for _, h2 := range []bool{true, false} {
		for _, expiry := range []bool{false, true} {
			h2, expiry := h2, expiry
			t.Run(fmt.Sprintf("h2=%v/expiry=%v", h2, expiry), func(t *testing.T) {
				t.Parallel()
				started := make(chan struct{}, 1)
				server := httptest.NewUnstartedServer(http.HandlerFunc(func(w http.ResponseWriter, r *http.Request) {
					w.Header().Set("Content-Type", "application/proto")
					w.WriteHeader(http.StatusOK)
					_, _ = w.Write([]byte(strings.Repeat("a", 2000)))
					w.(http.Flusher).Flush()
					started <- struct{}{}
					select {
					case <-r.Context().Done():
					case <-time.After(3 * time.Second):
					}
				}))
				server.EnableHTTP2 = h2
				server.StartTLS()
				defer server.Close()
				client := pingv1connect.NewPingServiceClient(server.Client(), server.URL, connect.WithReadMaxBytes(1000))
				ctx, cancel, want := huntFContext(expiry, started)
				defer cancel()
				_, err := client.Ping(ctx, connect.NewRequest(&pingv1.PingRequest{}))
				if err == nil {
					t.Fatalf("expected code %v, but the call succeeded", want)
				}
				if got := connect.CodeOf(err); got != want {
					t.Errorf("context ended (%v) while receiving the response: expected code %v, got code %v (error: %v)", ctx.Err(), want, got, err)
				}
			})
		}
	}
}

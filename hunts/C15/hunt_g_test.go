package connect_test

import (
	"context"
	"fmt"
	"net/http"
	"net/http/httptest"
	"testing"
	"time"

	connect "github.com/bufbuild/connect-go"
	pingv1 "github.com/bufbuild/connect-go/internal/gen/connect/ping/v1"
	"github.com/bufbuild/connect-go/internal/gen/connect/ping/v1/pingv1connect"
)

type huntGResult struct {
	op     string
	err    error
	ctxErr error
}

type huntGServer struct {
	pingv1connect.UnimplementedPingServiceHandler
	results chan huntGResult
}

func (s *huntGServer) CumSum(ctx context.Context, stream *connect.BidiStream[pingv1.CumSumRequest, pingv1.CumSumResponse]) error {
	if _, err := stream.Receive(); err != nil {
		return err
	}
	if err := stream.Send(&pingv1.CumSumResponse{Sum: 1}); err != nil {
		return err
	}
	// Blocked in Receive when the client's context ends.
	_, err := stream.Receive()
	s.results <- huntGResult{"handler Receive (blocked when the call's context ended)", err, ctx.Err()}
	<-ctx.Done()
	// Send after the context ended; repeat until the failure surfaces.
	err = nil
	for i := 0; i < 100000 && err == nil; i++ {
		err = stream.Send(&pingv1.CumSumResponse{Sum: 1})
	}
	s.results <- huntGResult{"handler Send (after the call's context ended)", err, ctx.Err()}
	return ctx.Err()
}

// C15, handler side ("surface as canceled / deadline_exceeded everywhere";
// "every operation on that call that fails afterwards"): once the client's
// context has been cancelled / has expired and the handler's context is
// cancelled, the handler's own Receive and Send on that call fail with
// invalid_argument ("protocol error: incomplete envelope: stream error ...
// CANCEL") and unknown ("http2: stream closed"), not with canceled /
// deadline_exceeded. A handler that simply returns the error it got from
// Receive therefore reports a client-side cancellation as invalid_argument to
// interceptors, logs and metrics.
func TestHuntC15HandlerSideOperationsAfterCancellation(t *testing.T) {
	for _, p := range []struct {
		name string
		opts []connect.ClientOption
	}{
		{"connect", nil},
		{"grpc", []connect.ClientOption{connect.WithGRPC()}},
		{"grpcweb", []connect.ClientOption{connect.WithGRPCWeb()}},
	} {
		for _, expiry := range []bool{false, true} {
			p, expiry := p, expiry
			t.Run(fmt.Sprintf("%s/expiry=%v", p.name, expiry), func(t *testing.T) {
				t.Parallel()
				srv := &huntGServer{results: make(chan huntGResult, 4)}
				mux := http.NewServeMux()
				mux.Handle(pingv1connect.NewPingServiceHandler(srv))
				server := httptest.NewUnstartedServer(mux)
				server.EnableHTTP2 = true
				server.StartTLS()
				defer func() { server.CloseClientConnections(); go server.Close() }()
				client := pingv1connect.NewPingServiceClient(server.Client(), server.URL, p.opts...)
				want := connect.CodeCanceled
				var ctx context.Context
				var cancel context.CancelFunc
				if expiry {
					want = connect.CodeDeadlineExceeded
					ctx, cancel = context.WithTimeout(context.Background(), 200*time.Millisecond)
				} else {
					ctx, cancel = context.WithCancel(context.Background())
					time.AfterFunc(200*time.Millisecond, cancel)
				}
				defer cancel()
				stream := client.CumSum(ctx)
				if err := stream.Send(&pingv1.CumSumRequest{Number: 1}); err != nil {
					t.Fatal(err)
				}
				if _, err := stream.Receive(); err != nil {
					t.Fatal(err)
				}
				<-ctx.Done()
				// The next Send notices the finished context and resets the stream.
				_ = stream.Send(&pingv1.CumSumRequest{Number: 2})
				for i := 0; i < 2; i++ {
					select {
					case res := <-srv.results:
						if res.err == nil {
							t.Errorf("%s: expected code %v, got success", res.op, want)
						} else if got := connect.CodeOf(res.err); got != connect.CodeCanceled && got != connect.CodeDeadlineExceeded {
							// On the handler side either classification is accepted here: the
							// handler's context may report canceled (stream reset by the
							// client) even when the client's context expired.
							t.Errorf("%s: expected code canceled or deadline_exceeded (client: %v), got code %v (error: %v; handler ctx.Err()=%v)", res.op, want, got, res.err, res.ctxErr)
						}
					case <-time.After(3 * time.Second):
						t.Fatalf("handler did not report")
					}
				}
			})
		}
	}
}

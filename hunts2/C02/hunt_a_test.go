package connect_test

// Finding A (property C02): an error that a handler received from a unary
// Connect client call and returns to its own caller - the ordinary way to
// pass a backend's failure on - does not reach the caller over unary Connect
// as soon as the error body differs in size from the backend's: the error's
// metadata contains the backend response's Content-Length (connect-go itself
// put it there), the handler side copies every metadata key into its own HTTP
// response headers, and net/http then refuses the error body ("wrote more than
// the declared Content-Length"). The caller is left with the code guessed from
// the HTTP status, the HTTP status text as message, no details, no metadata.

import (
	"bytes"
	"compress/gzip"
	"context"
	"errors"
	"fmt"
	"net/http"
	"net/http/httptest"
	"testing"

	"github.com/bufbuild/connect-go"
	pingv1 "github.com/bufbuild/connect-go/internal/gen/connect/ping/v1"
	"github.com/bufbuild/connect-go/internal/gen/connect/ping/v1/pingv1connect"
	"google.golang.org/protobuf/types/known/anypb"
)

const (
	huntABackendMessage = "quota exhausted for project \"p\""
	huntABackendMetaKey = "X-Quota-Reset"
	huntABackendMetaVal = "120"
	huntAProxyMetaKey   = "X-Forwarded-By"
	huntAProxyMetaVal   = "frontend-7"
)

// huntABackend fails every Ping with resource_exhausted, one detail and one
// metadata pair.
type huntABackend struct {
	pingv1connect.UnimplementedPingServiceHandler
}

func (huntABackend) Ping(context.Context, *connect.Request[pingv1.PingRequest]) (*connect.Response[pingv1.PingResponse], error) {
	err := connect.NewError(connect.CodeResourceExhausted, errors.New(huntABackendMessage))
	detail, anyErr := anypb.New(&pingv1.PingRequest{Number: 1, Text: "backend detail"})
	if anyErr != nil {
		return nil, anyErr
	}
	err.AddDetail(detail)
	err.Meta().Set(huntABackendMetaKey, huntABackendMetaVal)
	return nil, err
}

// huntAFrontend calls the backend and hands the backend's error to its own
// caller. With annotate it first adds a detail and a metadata pair, both
// through the exported API of *connect.Error.
type huntAFrontend struct {
	pingv1connect.UnimplementedPingServiceHandler

	backend  pingv1connect.PingServiceClient
	annotate bool
}

func (f *huntAFrontend) Ping(ctx context.Context, req *connect.Request[pingv1.PingRequest]) (*connect.Response[pingv1.PingResponse], error) {
	res, err := f.backend.Ping(ctx, connect.NewRequest(req.Msg))
	if err == nil {
		return res, nil
	}
	var connectErr *connect.Error
	if f.annotate && errors.As(err, &connectErr) {
		detail, anyErr := anypb.New(&pingv1.PingRequest{Number: 2, Text: "frontend detail"})
		if anyErr != nil {
			return nil, anyErr
		}
		connectErr.AddDetail(detail)
		connectErr.Meta().Set(huntAProxyMetaKey, huntAProxyMetaVal)
	}
	return nil, err
}

func huntAStart(tb testing.TB, handler http.Handler, useHTTP2 bool) *httptest.Server {
	tb.Helper()
	server := httptest.NewUnstartedServer(handler)
	if useHTTP2 {
		server.EnableHTTP2 = true
		server.StartTLS()
	} else {
		server.Start()
	}
	tb.Cleanup(server.Close)
	return server
}

func huntACheck(t *testing.T, err error, wantDetails []string, wantMeta map[string]string) {
	t.Helper()
	if err == nil {
		t.Fatalf("the handler returned an error, the client got success")
	}
	var connectErr *connect.Error
	if !errors.As(err, &connectErr) {
		t.Fatalf("client error %v (%T) is not a *connect.Error", err, err)
	}
	if got, want := connectErr.Code(), connect.CodeResourceExhausted; got != want {
		t.Errorf("code: the handler returned %v, the client received %v", want, got)
	}
	if got, want := connectErr.Message(), huntABackendMessage; got != want {
		t.Errorf("message: the handler returned %q, the client received %q", want, got)
	}
	if got, want := len(connectErr.Details()), len(wantDetails); got != want {
		t.Errorf("details: the handler returned %d, the client received %d", want, got)
	} else {
		for i, detail := range connectErr.Details() {
			var msg pingv1.PingRequest
			if unmarshalErr := detail.UnmarshalTo(&msg); unmarshalErr != nil {
				t.Errorf("detail %d: %v", i, unmarshalErr)
			} else if msg.Text != wantDetails[i] {
				t.Errorf("detail %d: the handler returned %q, the client received %q", i, wantDetails[i], msg.Text)
			}
		}
	}
	for key, want := range wantMeta {
		if got := connectErr.Meta().Values(key); len(got) != 1 || got[0] != want {
			t.Errorf("metadata %s: the handler attached %q, the client received %q", key, want, got)
		}
	}
}

func TestHuntAForwardedErrorUnaryConnect(t *testing.T) {
	for _, useHTTP2 := range []bool{false, true} {
		useHTTP2 := useHTTP2
		t.Run(fmt.Sprintf("annotated/http2=%v", useHTTP2), func(t *testing.T) {
			// Both hops are connect-go, unary Connect, default options. The frontend
			// handler adds one detail and one metadata pair to the backend's error
			// before returning it.
			backendMux := http.NewServeMux()
			backendMux.Handle(pingv1connect.NewPingServiceHandler(huntABackend{}))
			backend := huntAStart(t, backendMux, useHTTP2)

			frontendMux := http.NewServeMux()
			frontendMux.Handle(pingv1connect.NewPingServiceHandler(&huntAFrontend{
				backend:  pingv1connect.NewPingServiceClient(backend.Client(), backend.URL),
				annotate: true,
			}))
			frontend := huntAStart(t, frontendMux, useHTTP2)

			client := pingv1connect.NewPingServiceClient(frontend.Client(), frontend.URL)
			_, err := client.Ping(context.Background(), connect.NewRequest(&pingv1.PingRequest{}))
			huntACheck(t, err,
				[]string{"backend detail", "frontend detail"},
				map[string]string{huntABackendMetaKey: huntABackendMetaVal, huntAProxyMetaKey: huntAProxyMetaVal},
			)
		})
		t.Run(fmt.Sprintf("untouched/http2=%v", useHTTP2), func(t *testing.T) {
			// The frontend returns the backend's error exactly as received. The
			// backend is another implementation of the Connect protocol: its error
			// body is the same JSON object, laid out with whitespace - legal, and
			// not the byte count connect-go produces for it.
			body := "{\n  \"code\": \"resource_exhausted\",\n  \"message\": \"quota exhausted for project \\\"p\\\"\"\n}\n"
			backend := huntAStart(t, http.HandlerFunc(func(w http.ResponseWriter, r *http.Request) {
				w.Header().Set("Content-Type", "application/json")
				w.Header().Set(huntABackendMetaKey, huntABackendMetaVal)
				w.Header().Set("Content-Length", fmt.Sprint(len(body)))
				w.WriteHeader(http.StatusTooManyRequests)
				_, _ = w.Write([]byte(body))
			}), useHTTP2)

			frontendMux := http.NewServeMux()
			frontendMux.Handle(pingv1connect.NewPingServiceHandler(&huntAFrontend{
				backend: pingv1connect.NewPingServiceClient(backend.Client(), backend.URL),
			}))
			frontend := huntAStart(t, frontendMux, useHTTP2)

			client := pingv1connect.NewPingServiceClient(frontend.Client(), frontend.URL)
			_, err := client.Ping(context.Background(), connect.NewRequest(&pingv1.PingRequest{}))
			huntACheck(t, err, nil, map[string]string{huntABackendMetaKey: huntABackendMetaVal})
		})
		t.Run(fmt.Sprintf("untouched-gzip/http2=%v", useHTTP2), func(t *testing.T) {
			// As above, but the other implementation gzips its error body (the
			// connect-go client decodes that). No Content-Length this time: the
			// frontend's response inherits "Content-Encoding: gzip" from the error's
			// metadata and carries an uncompressed body.
			var compressed bytes.Buffer
			zipper := gzip.NewWriter(&compressed)
			_, _ = zipper.Write([]byte(`{"code":"resource_exhausted","message":"quota exhausted for project \"p\""}`))
			_ = zipper.Close()
			backend := huntAStart(t, http.HandlerFunc(func(w http.ResponseWriter, r *http.Request) {
				w.Header().Set("Content-Type", "application/json")
				w.Header().Set("Content-Encoding", "gzip")
				w.Header().Set(huntABackendMetaKey, huntABackendMetaVal)
				w.WriteHeader(http.StatusTooManyRequests)
				if flusher, ok := w.(http.Flusher); ok {
					flusher.Flush() // chunked / no content-length
				}
				_, _ = w.Write(compressed.Bytes())
			}), useHTTP2)

			// Sanity: called directly, the backend's error is understood.
			_, directErr := pingv1connect.NewPingServiceClient(backend.Client(), backend.URL).
				Ping(context.Background(), connect.NewRequest(&pingv1.PingRequest{}))
			if connect.CodeOf(directErr) != connect.CodeResourceExhausted {
				t.Fatalf("direct call to the backend: got %v, want resource_exhausted", directErr)
			}

			frontendMux := http.NewServeMux()
			frontendMux.Handle(pingv1connect.NewPingServiceHandler(&huntAFrontend{
				backend: pingv1connect.NewPingServiceClient(backend.Client(), backend.URL),
			}))
			frontend := huntAStart(t, frontendMux, useHTTP2)

			client := pingv1connect.NewPingServiceClient(frontend.Client(), frontend.URL)
			_, err := client.Ping(context.Background(), connect.NewRequest(&pingv1.PingRequest{}))
			huntACheck(t, err, nil, map[string]string{huntABackendMetaKey: huntABackendMetaVal})
		})
	}
}

package connect_test

import (
	"bytes"
	"context"
	"crypto/tls"
	"encoding/binary"
	"errors"
	"fmt"
	"io"
	"net"
	"net/http"
	"net/http/httptest"
	"testing"
	"time"

	"github.com/bufbuild/connect-go"
	pingv1 "github.com/bufbuild/connect-go/internal/gen/connect/ping/v1"
	"github.com/bufbuild/connect-go/internal/gen/connect/ping/v1/pingv1connect"
	"google.golang.org/protobuf/proto"
)

// huntAServer is a bidi handler that tolerates a bad message (it records the
// error and keeps reading), as a handler that wants to skip undecodable
// messages would.
type huntAServer struct {
	pingv1connect.UnimplementedPingServiceHandler
	results chan []string
}

func (s *huntAServer) CumSum(
	_ context.Context,
	stream *connect.BidiStream[pingv1.CumSumRequest, pingv1.CumSumResponse],
) error {
	var seen []string
	defer func() { s.results <- seen }()
	for i := 0; i < 4; i++ {
		msg, err := stream.Receive()
		switch {
		case err == nil:
			seen = append(seen, "msg")
			_ = msg
		case errors.Is(err, io.EOF):
			seen = append(seen, "EOF")
			return nil
		default:
			seen = append(seen, "error:"+connect.CodeOf(err).String())
		}
	}
	return nil
}

// TestHuntA_HandlerSeesCleanEndAfterTruncatedRequest: the request body stops
// in the middle of the second message (the HTTP/2 stream itself ends cleanly).
// The handler must never be told that the client finished sending (an error
// wrapping io.EOF); every Receive after the truncation has to keep failing.
func TestHuntA_HandlerSeesCleanEndAfterTruncatedRequest(t *testing.T) {
	for _, limit := range []int{0, 50} {
		limit := limit
		t.Run(fmt.Sprintf("readMaxBytes=%d", limit), func(t *testing.T) {
			huntATruncatedRequest(t, limit)
		})
	}
}

func huntATruncatedRequest(t *testing.T, readMaxBytes int) {
	t.Helper()
	for _, protocol := range []string{"application/connect+proto", "application/grpc+proto", "application/grpc-web+proto"} {
		t.Run(protocol, func(t *testing.T) {
			impl := &huntAServer{results: make(chan []string, 1)}
			mux := http.NewServeMux()
			var options []connect.HandlerOption
			if readMaxBytes > 0 {
				// Second variant: the truncated message is also larger than the read
				// limit, which takes the "discard the payload" branch.
				options = append(options, connect.WithReadMaxBytes(readMaxBytes))
			}
			mux.Handle(pingv1connect.NewPingServiceHandler(impl, options...))
			server := httptest.NewUnstartedServer(mux)
			server.EnableHTTP2 = true
			server.StartTLS()
			defer server.Close()

			payload, err := proto.Marshal(&pingv1.CumSumRequest{Number: 42})
			if err != nil {
				t.Fatal(err)
			}
			var body bytes.Buffer
			writeEnvelope := func(data []byte, declared int) {
				prefix := [5]byte{}
				binary.BigEndian.PutUint32(prefix[1:], uint32(declared))
				body.Write(prefix[:])
				body.Write(data)
			}
			writeEnvelope(payload, len(payload)) // message 1, complete
			writeEnvelope(payload[:1], 100)      // message 2: 100 bytes promised, 1 sent

			client := &http.Client{Transport: &http.Transport{
				TLSClientConfig:   &tls.Config{InsecureSkipVerify: true}, //nolint:gosec
				ForceAttemptHTTP2: true,
			}}
			req, err := http.NewRequest(
				http.MethodPost,
				server.URL+"/connect.ping.v1.PingService/CumSum",
				// hide the length: the HTTP/2 stream just ends
				io.MultiReader(&body),
			)
			if err != nil {
				t.Fatal(err)
			}
			req.Header.Set("Content-Type", protocol)
			req.Header.Set("Te", "trailers")
			res, err := client.Do(req)
			if err != nil {
				t.Fatal(err)
			}
			_, _ = io.Copy(io.Discard, res.Body)
			res.Body.Close()

			seen := <-impl.results
			t.Logf("handler saw: %v", seen)
			sawError := false
			for _, event := range seen {
				if event != "msg" && event != "EOF" {
					sawError = true
				}
				if event == "EOF" && sawError {
					t.Fatalf("request body stopped in the middle of message 2: "+
						"expected every Receive from then on to fail, but the handler was told "+
						"the client finished sending cleanly (io.EOF); handler saw %v", seen)
				}
			}
			if !sawError {
				t.Fatalf("expected the truncated message to be reported as an error, handler saw %v", seen)
			}
		})
	}
}

// huntAInterceptor plays a streaming handler (or an interceptor) that works on
// the StreamingHandlerConn directly and keeps reading after an error.
type huntAInterceptor struct{ results chan []string }

func (i huntAInterceptor) WrapUnary(next connect.UnaryFunc) connect.UnaryFunc { return next }
func (i huntAInterceptor) WrapStreamingClient(next connect.StreamingClientFunc) connect.StreamingClientFunc {
	return next
}
func (i huntAInterceptor) WrapStreamingHandler(connect.StreamingHandlerFunc) connect.StreamingHandlerFunc {
	return func(_ context.Context, conn connect.StreamingHandlerConn) error {
		var seen []string
		for k := 0; k < 3; k++ {
			var msg pingv1.SumRequest
			err := conn.Receive(&msg)
			switch {
			case err == nil:
				seen = append(seen, "msg")
			case errors.Is(err, io.EOF):
				seen = append(seen, "EOF")
			default:
				seen = append(seen, "error:"+connect.CodeOf(err).String())
			}
		}
		i.results <- seen
		return nil
	}
}

// TestHuntA_HTTP1FailedBodyThenCleanEnd: over HTTP/1.1 the request declares
// Content-Length 100 and the connection is shut down after 13 bytes, in the
// middle of the second message: the request body FAILED (net/http reports
// io.ErrUnexpectedEOF). The Receive after the failing one nevertheless reports
// a clean end of the request stream.
func TestHuntA_HTTP1FailedBodyThenCleanEnd(t *testing.T) {
	interceptor := huntAInterceptor{results: make(chan []string, 1)}
	mux := http.NewServeMux()
	mux.Handle(pingv1connect.NewPingServiceHandler(
		pingv1connect.UnimplementedPingServiceHandler{},
		connect.WithInterceptors(interceptor),
	))
	server := httptest.NewServer(mux)
	defer server.Close()
	conn, err := net.Dial("tcp", server.Listener.Addr().String())
	if err != nil {
		t.Fatal(err)
	}
	defer conn.Close()
	fmt.Fprintf(conn, "POST /connect.ping.v1.PingService/Sum HTTP/1.1\r\nHost: x\r\n"+
		"Content-Type: application/connect+proto\r\nContent-Length: 100\r\n\r\n")
	// message 1 complete ({number: 1}), message 2 promises 50 bytes and has 1
	_, _ = conn.Write([]byte{0, 0, 0, 0, 2, 8, 1, 0, 0, 0, 0, 50, 8})
	_ = conn.(*net.TCPConn).CloseWrite()
	var seen []string
	select {
	case seen = <-interceptor.results:
	case <-time.After(5 * time.Second):
		t.Fatal("handler did not finish")
	}
	t.Logf("handler saw: %v", seen)
	if len(seen) != 3 || seen[0] != "msg" || seen[1] == "msg" || seen[1] == "EOF" {
		t.Fatalf("setup: expected a message and then an error, handler saw %v", seen)
	}
	if seen[2] == "EOF" {
		t.Fatalf("request body failed in the middle of message 2 (connection closed after 13 of 100 "+
			"declared bytes): expected the following Receive to fail too, but it reported a clean end of "+
			"the request stream (io.EOF); handler saw %v", seen)
	}
}

package connect_test

// Finding A: a handler that returns an error it received from a connect-go
// client (the usual gateway / proxy pattern) answers with the upstream
// response's protocol headers - Content-Type, Content-Length, ... - copied
// into its own response, because Error.Meta() on the client side is the whole
// upstream header block and the handler side merges Meta() verbatim into the
// HTTP headers (Connect unary, gRPC-Web trailers-only).

import (
	"bytes"
	"context"
	"encoding/json"
	"errors"
	"fmt"
	"io"
	"net/http"
	"net/http/httptest"
	"strconv"
	"testing"

	"github.com/bufbuild/connect-go"
	pingv1 "github.com/bufbuild/connect-go/internal/gen/connect/ping/v1"
	"github.com/bufbuild/connect-go/internal/gen/connect/ping/v1/pingv1connect"
)

// huntGateway forwards Ping to a backend and hands the backend's outcome back
// unchanged.
type huntGateway struct {
	pingv1connect.UnimplementedPingServiceHandler
	backend pingv1connect.PingServiceClient
}

func (g huntGateway) Ping(ctx context.Context, req *connect.Request[pingv1.PingRequest]) (*connect.Response[pingv1.PingResponse], error) {
	res, err := g.backend.Ping(ctx, connect.NewRequest(req.Msg))
	if err != nil {
		return nil, err // the backend's *connect.Error, as received
	}
	return connect.NewResponse(res.Msg), nil
}

// huntBackendConnectError is a spec-conformant Connect server that fails every
// unary call with failed_precondition. (Its JSON has a space after the colons,
// as protojson output of another binary may have - still valid JSON.)
func huntBackendConnectError() http.Handler {
	return http.HandlerFunc(func(w http.ResponseWriter, r *http.Request) {
		_, _ = io.Copy(io.Discard, r.Body)
		body := `{"code": "failed_precondition", "message": "backend says no"}`
		w.Header().Set("Content-Type", "application/json")
		w.Header().Set("Content-Length", strconv.Itoa(len(body)))
		w.WriteHeader(http.StatusPreconditionFailed)
		_, _ = io.WriteString(w, body)
	})
}

func huntNewGateway(t *testing.T) *httptest.Server {
	t.Helper()
	backend := httptest.NewServer(huntBackendConnectError())
	t.Cleanup(backend.Close)
	mux := http.NewServeMux()
	mux.Handle(pingv1connect.NewPingServiceHandler(huntGateway{
		backend: pingv1connect.NewPingServiceClient(backend.Client(), backend.URL),
	}))
	gateway := httptest.NewServer(mux)
	t.Cleanup(gateway.Close)
	return gateway
}

// An independent gRPC-Web peer calls the gateway. The answer must be HTTP 200
// with one Content-Type (the request's), one grpc-status, and a body that can
// be read to its end.
func TestHuntA_GRPCWebGatewayError(t *testing.T) {
	gateway := huntNewGateway(t)
	const contentType = "application/grpc-web+proto"
	req, err := http.NewRequest(
		http.MethodPost,
		gateway.URL+"/connect.ping.v1.PingService/Ping",
		bytes.NewReader([]byte{0, 0, 0, 0, 0}), // one empty message
	)
	if err != nil {
		t.Fatal(err)
	}
	req.Header.Set("Content-Type", contentType)
	res, err := gateway.Client().Do(req)
	if err != nil {
		t.Fatalf("gRPC-Web call: %v", err)
	}
	defer res.Body.Close()
	t.Logf("response: %s %v", res.Status, res.Header)
	if res.StatusCode != http.StatusOK {
		t.Errorf("HTTP status: expected 200, got %d", res.StatusCode)
	}
	if got := res.Header.Values("Grpc-Status"); len(got) != 1 || got[0] != "9" {
		t.Errorf("grpc-status: expected exactly [9], got %q", got)
	}
	if got := res.Header.Values("Content-Type"); len(got) != 1 || got[0] != contentType {
		t.Errorf("Content-Type: expected exactly the request's [%q], got %q (the second one is the backend's)", contentType, got)
	}
	body, readErr := io.ReadAll(res.Body)
	if readErr != nil {
		t.Errorf(
			"reading the body-less trailers-only response: expected a clean end, got %v after %d bytes (Content-Length %q was copied from the backend's response)",
			readErr, len(body), res.Header.Get("Content-Length"),
		)
	}
}

// An independent Connect peer calls the gateway. The answer must be the
// error as JSON under HTTP 412.
func TestHuntA_ConnectUnaryGatewayError(t *testing.T) {
	gateway := huntNewGateway(t)
	req, err := http.NewRequest(
		http.MethodPost,
		gateway.URL+"/connect.ping.v1.PingService/Ping",
		bytes.NewReader([]byte(`{}`)),
	)
	if err != nil {
		t.Fatal(err)
	}
	req.Header.Set("Content-Type", "application/json")
	res, err := gateway.Client().Do(req)
	if err != nil {
		t.Fatalf("Connect call: %v", err)
	}
	defer res.Body.Close()
	t.Logf("response: %s %v", res.Status, res.Header)
	if res.StatusCode != http.StatusPreconditionFailed {
		t.Errorf("HTTP status: expected 412, got %d", res.StatusCode)
	}
	body, readErr := io.ReadAll(res.Body)
	if readErr != nil {
		t.Errorf("reading the error body: expected a clean end, got %v after %q", readErr, body)
	}
	var wire struct {
		Code    string `json:"code"`
		Message string `json:"message"`
	}
	if err := json.Unmarshal(body, &wire); err != nil {
		t.Fatalf(
			"error body: expected the JSON of failed_precondition/%q, got %q which does not parse: %v (declared Content-Length %s is the backend's)",
			"backend says no", body, err, res.Header.Get("Content-Length"),
		)
	}
	if wire.Code != "failed_precondition" || wire.Message != "backend says no" {
		t.Errorf("error: expected failed_precondition/backend says no, got %+v", wire)
	}
}

// For reference: what connect-go's own client makes of the two answers.
func TestHuntA_OwnClientThroughGateway(t *testing.T) {
	gateway := huntNewGateway(t)
	for _, opt := range []connect.ClientOption{connect.WithProtoJSON(), connect.WithGRPCWeb()} {
		client := pingv1connect.NewPingServiceClient(gateway.Client(), gateway.URL, opt)
		_, err := client.Ping(context.Background(), connect.NewRequest(&pingv1.PingRequest{}))
		var connectErr *connect.Error
		if !errors.As(err, &connectErr) {
			t.Fatalf("expected a *connect.Error, got %v", err)
		}
		if connectErr.Code() != connect.CodeFailedPrecondition || connectErr.Message() != "backend says no" {
			t.Errorf("%T: expected failed_precondition: backend says no, got %v", opt, fmt.Sprint(err))
		}
	}
}

package connect_test

// Finding B: the 5-byte envelope prefix has a 32-bit length, but a message of
// 4 GiB or more is framed anyway: the length silently wraps (len mod 2^32) and
// the rest of the payload follows as if it were further envelopes. Send
// reports success.

import (
	"bytes"
	"context"
	"encoding/binary"
	"io"
	"net/http"
	"testing"

	"github.com/bufbuild/connect-go"
	pingv1 "github.com/bufbuild/connect-go/internal/gen/connect/ping/v1"
)

// huntBlobCodec stands for any codec whose output can exceed 4 GiB (raw bytes,
// JSON, a file-transfer format...). The backing array is never touched by the
// test's producer, so the allocation stays virtual.
type huntBlobCodec struct{ size int }

func (huntBlobCodec) Name() string                  { return "blob" }
func (c huntBlobCodec) Marshal(any) ([]byte, error) { return make([]byte, c.size), nil }
func (huntBlobCodec) Unmarshal([]byte, any) error   { return nil }

// huntFramePeer is the server end: it reads the request body as a strict
// peer would, one envelope at a time, and records what it saw.
type huntFramePeer struct {
	declared   uint32 // length in the first prefix
	afterFirst int64  // bytes that follow the first envelope
}

func (p *huntFramePeer) Do(req *http.Request) (*http.Response, error) {
	var prefix [5]byte
	if _, err := io.ReadFull(req.Body, prefix[:]); err != nil {
		return nil, err
	}
	p.declared = binary.BigEndian.Uint32(prefix[1:])
	if _, err := io.CopyN(io.Discard, req.Body, int64(p.declared)); err != nil {
		return nil, err
	}
	p.afterFirst, _ = io.Copy(io.Discard, req.Body)
	_ = req.Body.Close()
	header := make(http.Header)
	header.Set("Content-Type", req.Header.Get("Content-Type"))
	header.Set("Grpc-Status", "0")
	return &http.Response{
		Status: "200 OK", StatusCode: http.StatusOK,
		Proto: "HTTP/2.0", ProtoMajor: 2,
		Header:  header,
		Body:    io.NopCloser(bytes.NewReader(nil)),
		Request: req,
	}, nil
}

func TestHuntB_EnvelopeLengthWraps(t *testing.T) {
	if testing.Short() {
		t.Skip("pushes 4 GiB through an in-memory pipe")
	}
	const size = 1<<32 + 7
	for _, protocol := range []struct {
		name string
		opt  connect.ClientOption
	}{
		{"grpc", connect.WithGRPC()},
		{"connect", connect.WithClientOptions()},
	} {
		protocol := protocol
		t.Run(protocol.name, func(t *testing.T) {
			peer := &huntFramePeer{}
			client := connect.NewClient[pingv1.SumRequest, pingv1.SumResponse](
				peer,
				"http://peer.invalid/connect.ping.v1.PingService/Sum",
				connect.WithCodec(huntBlobCodec{size: size}),
				protocol.opt,
			)
			stream := client.CallClientStream(context.Background())
			sendErr := stream.Send(&pingv1.SumRequest{})
			_, _ = stream.CloseAndReceive()
			if sendErr != nil {
				t.Logf("Send refused the message: %v", sendErr)
				return // fine: a message that cannot be framed must be refused
			}
			if int64(peer.declared) != size || peer.afterFirst != 0 {
				t.Fatalf(
					"Send of a %d-byte message returned nil, but the peer read an envelope that declares %d bytes, followed by %d more bytes that are not part of any announced envelope; expected an error from Send (the protocols cannot frame more than 2^32-1 bytes) or a correct frame",
					size, peer.declared, peer.afterFirst,
				)
			}
		})
	}
}

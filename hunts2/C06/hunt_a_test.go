package connect_test

import (
	"compress/gzip"
	"context"
	"crypto/rand"
	"errors"
	"io"
	"net/http"
	"net/http/httptest"
	"strings"
	"testing"
	"time"

	connect "github.com/bufbuild/connect-go"
	pingv1 "github.com/bufbuild/connect-go/internal/gen/connect/ping/v1"
	"github.com/bufbuild/connect-go/internal/gen/connect/ping/v1/pingv1connect"
)

// huntARejectingTransport answers every request with a fixed response without
// reading the request body: it closes the body (as http.RoundTripper requires)
// and returns the response a little later. Rate limiters, auth middleware and
// caches implemented as RoundTrippers behave like this, and so does net/http's
// own HTTP/2 transport when the server answers and resets the stream before
// the request body has been sent (see TestHuntA_EarlyResponseOverHTTP2).
type huntARejectingTransport struct {
	status      int
	contentType string
	body        string
}

func (rt huntARejectingTransport) RoundTrip(req *http.Request) (*http.Response, error) {
	_ = req.Body.Close()
	time.Sleep(20 * time.Millisecond) // the response takes a moment to arrive
	return &http.Response{
		Status:     http.StatusText(rt.status),
		StatusCode: rt.status,
		Proto:      "HTTP/1.1",
		ProtoMajor: 1,
		ProtoMinor: 1,
		Header:     http.Header{"Content-Type": []string{rt.contentType}},
		Body:       io.NopCloser(strings.NewReader(rt.body)),
		Request:    req,
	}, nil
}

// A non-200 response without a Connect error must be reported with the code
// derived from the HTTP status (401 -> unauthenticated), and one with a
// Connect error with that error's code - whether or not the peer bothered to
// read the request body first.
func TestHuntA_EarlyResponseUnaryConnect(t *testing.T) {
	cases := []struct {
		name string
		rt   huntARejectingTransport
		opts []connect.ClientOption
		want connect.Code
	}{
		{
			name: "connect/401 plain text",
			rt:   huntARejectingTransport{status: 401, contentType: "text/plain", body: "Unauthorized"},
			want: connect.CodeUnauthenticated,
		},
		{
			name: "connect/503 empty",
			rt:   huntARejectingTransport{status: 503, contentType: "text/html", body: ""},
			want: connect.CodeUnavailable,
		},
		{
			name: "connect/403 with Connect error body",
			rt:   huntARejectingTransport{status: 403, contentType: "application/json", body: `{"code":"permission_denied","message":"no"}`},
			want: connect.CodePermissionDenied,
		},
		{
			// Control: the same response through the gRPC protocol is reported correctly.
			name: "grpc/401 plain text (control)",
			rt:   huntARejectingTransport{status: 401, contentType: "text/plain", body: "Unauthorized"},
			opts: []connect.ClientOption{connect.WithGRPC()},
			want: connect.CodeUnauthenticated,
		},
	}
	for _, tc := range cases {
		tc := tc
		t.Run(tc.name, func(t *testing.T) {
			client := connect.NewClient[pingv1.PingRequest, pingv1.PingResponse](
				&http.Client{Transport: tc.rt},
				"http://example.com/ping.v1.PingService/Ping",
				tc.opts...,
			)
			_, err := client.CallUnary(context.Background(), connect.NewRequest(&pingv1.PingRequest{Text: "hello"}))
			if err == nil {
				t.Fatalf("expected an error for HTTP status %d, call succeeded", tc.rt.status)
			}
			var connectErr *connect.Error
			if !errors.As(err, &connectErr) {
				t.Fatalf("error %v (%T) is not a *connect.Error", err, err)
			}
			if connectErr.Code() != tc.want {
				t.Errorf("HTTP %d (body %q): expected code %v derived from the response, got %v (error: %v; wraps io.EOF: %v)",
					tc.rt.status, tc.rt.body, tc.want, connectErr.Code(), err, errors.Is(err, io.EOF))
			}
		})
	}
}

// The same over the wire, with net/http on both ends: an HTTP/2 server whose
// middleware rejects the request with 401 without reading the body. The
// request message is larger than the HTTP/2 flow-control window, so the
// client's transport is still sending it when the response and the
// RST_STREAM(NO_ERROR) that Go's server sends after it arrive; the transport
// then closes the request body. It's a race between two goroutines of the
// client, so it's tried a number of times.
func TestHuntA_EarlyResponseOverHTTP2(t *testing.T) {
	server := httptest.NewUnstartedServer(http.HandlerFunc(func(w http.ResponseWriter, r *http.Request) {
		http.Error(w, "Unauthorized", http.StatusUnauthorized)
	}))
	server.EnableHTTP2 = true
	server.StartTLS()
	defer server.Close()

	payload := make([]byte, 8*1024*1024)
	_, _ = rand.Read(payload)
	text := strings.ToValidUTF8(string(payload), "x")

	const attempts = 30
	wrong := 0
	var example error
	for i := 0; i < attempts; i++ {
		client := connect.NewClient[pingv1.PingRequest, pingv1.PingResponse](
			server.Client(),
			server.URL+"/ping.v1.PingService/Ping",
		)
		_, err := client.CallUnary(context.Background(), connect.NewRequest(&pingv1.PingRequest{Text: text}))
		if err == nil {
			t.Fatalf("expected an error for HTTP status 401, call succeeded")
		}
		if connect.CodeOf(err) != connect.CodeUnauthenticated {
			wrong++
			example = err
		}
	}
	if wrong > 0 {
		t.Errorf("HTTP 401 without a Connect error: expected code %v (derived from the HTTP status) every time, but %d of %d calls returned another code, for example %v: %v",
			connect.CodeUnauthenticated, wrong, attempts, connect.CodeOf(example), example)
	}
}

// And with connect-go's own handler as the peer: the client sends with a
// compression the handler doesn't know, which the handler refuses (HTTP 404,
// Connect error "unimplemented") before reading the request body.
func TestHuntA_EarlyRejectionByConnectHandler(t *testing.T) {
	mux := http.NewServeMux()
	mux.Handle(pingv1connect.NewPingServiceHandler(pingv1connect.UnimplementedPingServiceHandler{}))
	server := httptest.NewUnstartedServer(mux)
	server.EnableHTTP2 = true
	server.StartTLS()
	defer server.Close()

	payload := make([]byte, 8*1024*1024)
	_, _ = rand.Read(payload)
	text := strings.ToValidUTF8(string(payload), "x")

	const attempts = 20
	wrong := 0
	var example error
	for i := 0; i < attempts; i++ {
		client := pingv1connect.NewPingServiceClient(
			server.Client(),
			server.URL,
			connect.WithAcceptCompression(
				"huntzip",
				func() connect.Decompressor { return &gzip.Reader{} },
				func() connect.Compressor { return gzip.NewWriter(io.Discard) },
			),
			connect.WithSendCompression("huntzip"),
		)
		_, err := client.Ping(context.Background(), connect.NewRequest(&pingv1.PingRequest{Text: text}))
		if err == nil {
			t.Fatalf("expected an error, call succeeded")
		}
		if connect.CodeOf(err) != connect.CodeUnimplemented {
			wrong++
			example = err
		}
	}
	if wrong > 0 {
		t.Errorf("handler answered HTTP 404 with Connect error \"unimplemented\": expected code %v every time, but %d of %d calls returned another code, for example %v: %v",
			connect.CodeUnimplemented, wrong, attempts, connect.CodeOf(example), example)
	}
}

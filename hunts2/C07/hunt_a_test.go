package connect_test

import (
	"bytes"
	"context"
	"encoding/binary"
	"encoding/json"
	"io"
	"net/http"
	"net/http/httptest"
	"sync/atomic"
	"testing"

	connect "github.com/bufbuild/connect-go"
	pingv1 "github.com/bufbuild/connect-go/internal/gen/connect/ping/v1"
	"github.com/bufbuild/connect-go/internal/gen/connect/ping/v1/pingv1connect"
)

// huntAStrictJSON is a user-supplied Codec of the most ordinary kind: JSON by
// way of encoding/json, with unknown fields refused. encoding/json offers
// DisallowUnknownFields on its Decoder only, and a Decoder reports input that
// holds no value at all (nothing but white space) as io.EOF. Nothing in the
// Codec contract forbids that.
type huntAStrictJSON struct{}

func (huntAStrictJSON) Name() string { return "strictjson" }

func (huntAStrictJSON) Marshal(message any) ([]byte, error) { return json.Marshal(message) }

func (huntAStrictJSON) Unmarshal(data []byte, message any) error {
	decoder := json.NewDecoder(bytes.NewReader(data))
	decoder.DisallowUnknownFields()
	return decoder.Decode(message)
}

func huntAEnvelope(payload string) []byte {
	out := make([]byte, 5, 5+len(payload))
	binary.BigEndian.PutUint32(out[1:], uint32(len(payload)))
	return append(out, payload...)
}

type huntAServer struct {
	pingv1connect.UnimplementedPingServiceHandler
	ran     atomic.Int32
	numbers atomic.Int64
}

func (s *huntAServer) Ping(_ context.Context, req *connect.Request[pingv1.PingRequest]) (*connect.Response[pingv1.PingResponse], error) {
	s.ran.Add(1)
	return connect.NewResponse(&pingv1.PingResponse{Number: req.Msg.Number}), nil
}

func (s *huntAServer) CountUp(_ context.Context, req *connect.Request[pingv1.CountUpRequest], stream *connect.ServerStream[pingv1.CountUpResponse]) error {
	s.ran.Add(1)
	return stream.Send(&pingv1.CountUpResponse{Number: req.Msg.Number})
}

func (s *huntAServer) Sum(_ context.Context, stream *connect.ClientStream[pingv1.SumRequest]) (*connect.Response[pingv1.SumResponse], error) {
	s.ran.Add(1)
	var sum int64
	for stream.Receive() {
		sum += stream.Msg().Number
	}
	if err := stream.Err(); err != nil {
		return nil, err
	}
	s.numbers.Store(sum)
	return connect.NewResponse(&pingv1.SumResponse{Sum: sum}), nil
}

// TestHuntA: a payload the codec cannot decode is taken for the clean end of
// the request when the codec's error happens to wrap io.EOF. Everything that
// follows it - further messages, arbitrary garbage - is ignored and the call
// succeeds.
func TestHuntA(t *testing.T) {
	t.Parallel()
	service := &huntAServer{}
	mux := http.NewServeMux()
	mux.Handle(pingv1connect.NewPingServiceHandler(service, connect.WithCodec(huntAStrictJSON{})))
	server := httptest.NewServer(mux)
	t.Cleanup(server.Close)

	// Sanity: the codec refuses the payload.
	if err := (huntAStrictJSON{}).Unmarshal([]byte(" "), &pingv1.SumRequest{}); err == nil {
		t.Fatal("codec accepted a payload without a value")
	}

	post := func(t *testing.T, procedure, contentType string, body []byte) (*http.Response, []byte) {
		t.Helper()
		request, err := http.NewRequest(http.MethodPost, server.URL+"/"+pingv1connect.PingServiceName+"/"+procedure, bytes.NewReader(body))
		if err != nil {
			t.Fatal(err)
		}
		request.Header.Set("Content-Type", contentType)
		response, err := server.Client().Do(request)
		if err != nil {
			t.Fatal(err)
		}
		defer response.Body.Close()
		data, err := io.ReadAll(response.Body)
		if err != nil {
			t.Fatal(err)
		}
		return response, data
	}
	undecodable := huntAEnvelope(" ") // one byte, not a JSON value
	garbage := []byte("\xff\xfe\xfd garbage that is not an envelope")

	for _, protocol := range []struct{ name, contentType string }{
		{"grpc", "application/grpc+strictjson"},
		{"grpcweb", "application/grpc-web+strictjson"},
		{"connect", "application/connect+strictjson"},
	} {
		protocol := protocol
		// outcome reports what the peer is told: "success" or "error ...".
		outcome := func(response *http.Response, body []byte) string {
			grpcStatus := func(status string) string {
				if status == "0" {
					return "success"
				}
				return "error (grpc-status " + status + ")"
			}
			switch protocol.name {
			case "grpc":
				if status := response.Trailer.Get("Grpc-Status"); status != "" {
					return grpcStatus(status)
				}
				return grpcStatus(response.Header.Get("Grpc-Status"))
			case "grpcweb":
				if status := response.Header.Get("Grpc-Status"); status != "" {
					return grpcStatus(status)
				}
				if bytes.Contains(body, []byte("Grpc-Status: 0\r\n")) {
					return "success"
				}
				return "error (in the trailer frame)"
			default:
				if bytes.Contains(body, []byte(`"error"`)) {
					return "error (in the end-of-stream message)"
				}
				return "success" // end-of-stream message without an error
			}
		}
		t.Run(protocol.name+"/control_builtin_json", func(t *testing.T) {
			// The very same request in the built-in JSON codec, whose error for
			// the payload does not wrap io.EOF, is refused as it should be.
			before := service.ran.Load()
			body := append(append(huntAEnvelope(`{"number":7}`), undecodable...), garbage...)
			builtin := protocol.contentType[:len(protocol.contentType)-len("strictjson")] + "json"
			response, data := post(t, "CountUp", builtin, body)
			if ran := service.ran.Load() - before; ran != 0 || outcome(response, data) == "success" {
				t.Fatalf("control failed: handler ran %d time(s), outcome %q", ran, outcome(response, data))
			}
		})
		t.Run(protocol.name+"/server_stream", func(t *testing.T) {
			before := service.ran.Load()
			body := append(append(huntAEnvelope(`{"number":7}`), undecodable...), garbage...)
			response, data := post(t, "CountUp", protocol.contentType, body)
			got := outcome(response, data)
			if ran := service.ran.Load() - before; ran != 0 || got == "success" {
				t.Errorf("request = one message, one undecodable payload, then garbage: "+
					"expected a rejection without running the handler; handler ran %d time(s), outcome %q, body %q", ran, got, data)
			}
		})
		if protocol.name != "connect" { // unary Connect has no envelopes
			t.Run(protocol.name+"/unary", func(t *testing.T) {
				before := service.ran.Load()
				body := append(append(huntAEnvelope(`{"number":7}`), undecodable...), garbage...)
				response, data := post(t, "Ping", protocol.contentType, body)
				got := outcome(response, data)
				if ran := service.ran.Load() - before; ran != 0 || got == "success" {
					t.Errorf("request = one message, one undecodable payload, then garbage: "+
						"expected a rejection without running the handler; handler ran %d time(s), outcome %q, body %q", ran, got, data)
				}
			})
		}
		t.Run(protocol.name+"/client_stream", func(t *testing.T) {
			body := append(append(huntAEnvelope(`{"number":7}`), undecodable...), huntAEnvelope(`{"number":35}`)...)
			response, data := post(t, "Sum", protocol.contentType, body)
			if got := outcome(response, data); got == "success" {
				t.Errorf("request = message 7, one undecodable payload, message 35: "+
					"expected the undecodable payload to fail the call; got success with sum %d, body %q", service.numbers.Load(), data)
			}
		})
	}
}

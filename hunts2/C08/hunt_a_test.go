package connect_test

import (
	"compress/flate"
	"context"
	"errors"
	"io"
	"net/http"
	"net/http/httptest"
	"strings"
	"sync/atomic"
	"testing"
	"time"

	connect "github.com/bufbuild/connect-go"
	pingv1 "github.com/bufbuild/connect-go/internal/gen/connect/ping/v1"
)

// huntAFlateReader adapts compress/flate to connect.Decompressor.
type huntAFlateReader struct{ r io.ReadCloser }

func (d *huntAFlateReader) Read(p []byte) (int, error) { return d.r.Read(p) }
func (d *huntAFlateReader) Close() error               { return d.r.Close() }
func (d *huntAFlateReader) Reset(r io.Reader) error {
	if resetter, ok := d.r.(flate.Resetter); ok {
		return resetter.Reset(r, nil)
	}
	return errors.New("flate reader cannot be reset")
}

// TestHuntA_UnaryConnectCompressionRejectionReachesCaller
//
// Property C08: "a request compressed with an algorithm the handler lacks is
// rejected as unimplemented, listing the supported algorithms, without running
// user code."
//
// A unary Connect client compresses its request with "deflate", which the
// handler does not have. The handler answers at once (HTTP 404, JSON error
// "unimplemented: unknown compression "deflate": supported encodings are
// gzip") without reading the request body. Every such call must fail with
// CodeUnimplemented and name the supported algorithms.
//
// Observed: in a fraction of the calls (HTTP/2; 1-10% on the machine this was
// written on) CallUnary returns "unknown: write message: EOF" instead. The
// handler's answer arrives before net/http has taken the request body from the
// pipe, net/http closes the pipe, the body write fails with io.EOF, and
// connectUnaryClientConn.Send records that write failure with
// duplexCall.SetError - after which Receive reports the recorded error rather
// than the response that the server did send.
func TestHuntA_UnaryConnectCompressionRejectionReachesCaller(t *testing.T) {
	var handlerRan int32
	mux := http.NewServeMux()
	mux.Handle("/hunt.v1.Hunt/Ping", connect.NewUnaryHandler(
		"/hunt.v1.Hunt/Ping",
		func(_ context.Context, r *connect.Request[pingv1.PingRequest]) (*connect.Response[pingv1.PingResponse], error) {
			atomic.AddInt32(&handlerRan, 1)
			return connect.NewResponse(&pingv1.PingResponse{Text: r.Msg.Text}), nil
		},
	)) // the handler supports gzip only
	server := httptest.NewUnstartedServer(mux)
	server.EnableHTTP2 = true
	server.StartTLS()
	defer server.Close()

	client := connect.NewClient[pingv1.PingRequest, pingv1.PingResponse](
		server.Client(),
		server.URL+"/hunt.v1.Hunt/Ping",
		connect.WithAcceptCompression(
			"deflate",
			func() connect.Decompressor {
				return &huntAFlateReader{r: flate.NewReader(strings.NewReader(""))}
			},
			func() connect.Compressor {
				w, _ := flate.NewWriter(io.Discard, flate.BestSpeed)
				return w
			},
		),
		connect.WithSendCompression("deflate"),
	)

	const calls = 2000
	wrong := 0
	var firstWrong error
	for i := 0; i < calls; i++ {
		_, err := client.CallUnary(
			context.Background(),
			connect.NewRequest(&pingv1.PingRequest{Text: strings.Repeat("ping", 16)}),
		)
		if err == nil {
			t.Fatalf("call %d: succeeded, although the handler has no deflate", i)
		}
		if connect.CodeOf(err) == connect.CodeUnimplemented &&
			strings.Contains(err.Error(), "supported encodings are gzip") {
			continue
		}
		wrong++
		if firstWrong == nil {
			firstWrong = err
		}
	}
	if n := atomic.LoadInt32(&handlerRan); n != 0 {
		t.Errorf("user code ran %d times for requests in a compression the handler lacks", n)
	}
	if wrong > 0 {
		t.Fatalf(
			"%d of %d calls compressed with an algorithm the handler lacks: expected every one to fail with "+
				"code unimplemented and a message listing the supported encodings (the handler sent exactly that); "+
				"got instead, first: %q (code %v)",
			wrong, calls, firstWrong, connect.CodeOf(firstWrong),
		)
	}
}

// huntAEarlyResponder is an http.RoundTripper that behaves like net/http's
// transports do when the server answers before the request body has been
// taken: it closes the request body unread and returns the server's response.
// (http.RoundTripper: "RoundTrip must always close the body ... but depending
// on the implementation may do so in a separate goroutine even after RoundTrip
// returns.") The response is produced by the real connect handler.
type huntAEarlyResponder struct{ handler http.Handler }

func (rt huntAEarlyResponder) RoundTrip(req *http.Request) (*http.Response, error) {
	_ = req.Body.Close() // unread: the handler refuses on the headers alone
	// The caller's goroutine is blocked writing the body into the pipe; give it
	// time to see the closed pipe before the response is handed over. (Without
	// the pause the two goroutines race, as they do with net/http's HTTP/2
	// transport in the test above.)
	time.Sleep(100 * time.Millisecond)
	serverSide := req.Clone(req.Context())
	serverSide.Body = http.NoBody
	recorder := httptest.NewRecorder()
	rt.handler.ServeHTTP(recorder, serverSide)
	response := recorder.Result()
	response.Request = req
	return response, nil
}

// TestHuntA_Deterministic is the same defect with the race decided: the
// transport gives up the request body unread, and the handler's refusal reaches
// the client a moment later.
func TestHuntA_Deterministic(t *testing.T) {
	var handlerRan int32
	handler := connect.NewUnaryHandler(
		"/hunt.v1.Hunt/Ping",
		func(_ context.Context, r *connect.Request[pingv1.PingRequest]) (*connect.Response[pingv1.PingResponse], error) {
			atomic.AddInt32(&handlerRan, 1)
			return connect.NewResponse(&pingv1.PingResponse{Text: r.Msg.Text}), nil
		},
	)
	client := connect.NewClient[pingv1.PingRequest, pingv1.PingResponse](
		&http.Client{Transport: huntAEarlyResponder{handler: handler}},
		"http://hunt.invalid/hunt.v1.Hunt/Ping",
		connect.WithAcceptCompression(
			"deflate",
			func() connect.Decompressor {
				return &huntAFlateReader{r: flate.NewReader(strings.NewReader(""))}
			},
			func() connect.Compressor {
				w, _ := flate.NewWriter(io.Discard, flate.BestSpeed)
				return w
			},
		),
		connect.WithSendCompression("deflate"),
	)
	_, err := client.CallUnary(
		context.Background(),
		connect.NewRequest(&pingv1.PingRequest{Text: strings.Repeat("ping", 16)}),
	)
	if n := atomic.LoadInt32(&handlerRan); n != 0 {
		t.Errorf("user code ran for a request in a compression the handler lacks")
	}
	if err == nil {
		t.Fatalf("call succeeded, although the handler has no deflate")
	}
	if connect.CodeOf(err) != connect.CodeUnimplemented ||
		!strings.Contains(err.Error(), "supported encodings are gzip") {
		t.Fatalf(
			"request compressed with an algorithm the handler lacks: expected the handler's refusal "+
				"(code unimplemented, listing the supported encodings: gzip); got %q (code %v)",
			err, connect.CodeOf(err),
		)
	}
}

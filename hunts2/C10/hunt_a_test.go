package connect_test

import (
	"context"
	"io"
	"net/http"
	"net/http/httptest"
	"sync/atomic"
	"testing"
	"time"

	"github.com/bufbuild/connect-go"
	pingv1 "github.com/bufbuild/connect-go/internal/gen/connect/ping/v1"
)

// huntATimeoutRT replaces the timeout header of every request with a fixed
// (malformed) value, the way a non-connect-go peer or a broken proxy would.
//
// With slowBody set it also fixes the order of two events that race in real
// life: the server's answer arrives before the request body has been written
// (a slow uplink, a large message, an unlucky schedule). It then does what
// net/http's transports do in that situation - it stops reading the request
// body and closes it.
type huntATimeoutRT struct {
	next     http.RoundTripper
	name     string
	value    string
	slowBody bool
}

func (r *huntATimeoutRT) RoundTrip(req *http.Request) (*http.Response, error) {
	req.Header[r.name] = []string{r.value}
	if !r.slowBody {
		return r.next.RoundTrip(req)
	}
	pipeReader, pipeWriter := io.Pipe()
	onWire := req.Clone(req.Context())
	onWire.Body = pipeReader // nothing of the body has reached the wire yet
	response, err := r.next.RoundTrip(onWire)
	_ = req.Body.Close()
	_ = pipeWriter.Close()
	// Let the goroutine blocked in Send notice before the answer is handed
	// over (otherwise it is a toss-up which of the two goroutines records
	// "the" error of the call first).
	time.Sleep(20 * time.Millisecond)
	return response, err
}

// Property C10: "a malformed [timeout] ... is rejected as invalid_argument
// without running user code."
//
// The handler rejects a malformed Connect-Timeout-Ms before it reads the
// request body. For a unary Connect call, net/http then closes the request
// body under the client's feet; the client's Send sees "write message: EOF",
// and since commit e45a5c4 it records that as the call's error. The server's
// invalid_argument answer is never read: the caller gets "unknown: write
// message: EOF". gRPC and gRPC-Web clients (and Connect streaming clients)
// report invalid_argument for the very same rejection.
//
// With real transports the outcome is a race (TestHuntA_SmallMessagesRace:
// 6-20% of the calls show "unknown" on this machine, and nearly all of them
// when the message is larger than the HTTP/2 flow-control window). This test
// pins the order "answer arrives before the body is written" in the
// RoundTripper, so it fails every time.
func TestHuntA_MalformedTimeoutRejectionReportedAsUnknown(t *testing.T) {
	var ran int32
	mux := http.NewServeMux()
	mux.Handle("/u", connect.NewUnaryHandler("/u", func(ctx context.Context, r *connect.Request[pingv1.PingRequest]) (*connect.Response[pingv1.PingResponse], error) {
		atomic.AddInt32(&ran, 1)
		return connect.NewResponse(&pingv1.PingResponse{}), nil
	}))
	server := httptest.NewUnstartedServer(mux)
	server.EnableHTTP2 = true
	server.StartTLS()
	defer server.Close()

	for _, tc := range []struct {
		proto  string
		opts   []connect.ClientOption
		header string
		value  string
	}{
		{"grpc", []connect.ClientOption{connect.WithGRPC()}, "Grpc-Timeout", "5s"},
		{"grpcweb", []connect.ClientOption{connect.WithGRPCWeb()}, "Grpc-Timeout", "5s"},
		{"connect", nil, "Connect-Timeout-Ms", "5s"},
		{"connect", nil, "Connect-Timeout-Ms", "12345678901"},
		{"connect", nil, "Connect-Timeout-Ms", ""},
	} {
		httpClient := &http.Client{Transport: &huntATimeoutRT{
			next:     server.Client().Transport,
			name:     tc.header,
			value:    tc.value,
			slowBody: true,
		}}
		client := connect.NewClient[pingv1.PingRequest, pingv1.PingResponse](httpClient, server.URL+"/u", tc.opts...)
		_, err := client.CallUnary(context.Background(), connect.NewRequest(&pingv1.PingRequest{Text: "hello"}))
		if got := connect.CodeOf(err); got != connect.CodeInvalidArgument {
			t.Errorf("%s, %s: %q: the handler rejects the malformed timeout as invalid_argument, but the call reports %v (%v)",
				tc.proto, tc.header, tc.value, got, err)
		}
	}
	if n := atomic.LoadInt32(&ran); n != 0 {
		t.Errorf("user code ran %d times", n)
	}
}

// The same with ordinary small messages: a race, so count.
func TestHuntA_SmallMessagesRace(t *testing.T) {
	mux := http.NewServeMux()
	mux.Handle("/u", connect.NewUnaryHandler("/u", func(ctx context.Context, r *connect.Request[pingv1.PingRequest]) (*connect.Response[pingv1.PingResponse], error) {
		return connect.NewResponse(&pingv1.PingResponse{}), nil
	}))
	server := httptest.NewUnstartedServer(mux)
	server.EnableHTTP2 = true
	server.StartTLS()
	defer server.Close()
	httpClient := &http.Client{Transport: &huntATimeoutRT{
		next:  server.Client().Transport,
		name:  "Connect-Timeout-Ms",
		value: "5s",
	}}
	client := connect.NewClient[pingv1.PingRequest, pingv1.PingResponse](httpClient, server.URL+"/u")
	const calls = 2000
	wrong := 0
	var sample error
	for i := 0; i < calls; i++ {
		_, err := client.CallUnary(context.Background(), connect.NewRequest(&pingv1.PingRequest{Text: "hello"}))
		if connect.CodeOf(err) != connect.CodeInvalidArgument {
			wrong++
			sample = err
		}
	}
	if wrong > 0 {
		t.Errorf("%d of %d calls with a malformed Connect-Timeout-Ms were not reported as invalid_argument, e.g. %v", wrong, calls, sample)
	}
}

package connect_test

import (
	"context"
	"errors"
	"fmt"
	"io"
	"net/http"
	"net/http/httptest"
	"sync"
	"testing"
	"time"

	"github.com/bufbuild/connect-go"
	pingv1 "github.com/bufbuild/connect-go/internal/gen/connect/ping/v1"
)

// Property C10: "Every grammatical timeout a peer sends is honoured exactly
// ... and a malformed one ... is rejected as invalid_argument without running
// user code."
//
// A request may carry the timeout field on more than one line (a proxy that
// adds its own instead of replacing the caller's, a peer with a bug). HTTP
// (RFC 9110, 5.3) defines such a message as equivalent to one line with the
// values joined by ", " - which is not a timeout in either grammar. The
// handlers look only at the first line:
//
//   - [5S, banana]: the malformed timeout is not rejected, user code runs;
//   - [3600S, 1S]: the peer asked for one second and the handler's context
//     gets an hour - a timeout the peer sent is extended;
//   - ["5S, banana"] on ONE line is rejected, so the outcome depends on how an
//     intermediary happens to fold the field.
//
// (grpc-go looks at every grpc-timeout line and fails the call if any of them
// is malformed.)
func TestHuntB_RepeatedTimeoutHeader(t *testing.T) {
	rec := &sweepRec{}
	server := sweepServer(t, rec)
	for _, tc := range []struct {
		proto  string
		opts   []connect.ClientOption
		header string
		hour   string
		second string
	}{
		{"connect", nil, "Connect-Timeout-Ms", "3600000", "1000"},
		{"grpc", []connect.ClientOption{connect.WithGRPC()}, "Grpc-Timeout", "3600S", "1S"},
		{"grpcweb", []connect.ClientOption{connect.WithGRPCWeb()}, "Grpc-Timeout", "3600S", "1S"},
	} {
		for _, kind := range []string{"u", "c", "s", "b"} {
			// One grammatical and one malformed value.
			rec.reset()
			transport := &overrideRT{next: server.Client().Transport, fn: func(h http.Header) {
				h[tc.header] = []string{tc.hour, "banana"}
			}}
			err := sweepCall(context.Background(), &http.Client{Transport: transport}, server.URL, kind, tc.opts...)
			if rec.ran != 0 || connect.CodeOf(err) != connect.CodeInvalidArgument {
				t.Errorf("%s/%s: %s sent as two lines [%s, banana]: want invalid_argument and no user code; got err=%v, handler ran %d time(s)",
					tc.proto, kind, tc.header, tc.hour, err, rec.ran)
			}
			// Two grammatical values: whatever the handler makes of them, its
			// deadline must not be later than a timeout the peer sent.
			rec.reset()
			transport = &overrideRT{next: server.Client().Transport, fn: func(h http.Header) {
				h[tc.header] = []string{tc.hour, tc.second}
			}}
			start := time.Now()
			err = sweepCall(context.Background(), &http.Client{Transport: transport}, server.URL, kind, tc.opts...)
			if rec.ran != 0 {
				if remaining := rec.deadline.Sub(start); !rec.has || remaining > 2*time.Second {
					t.Errorf("%s/%s: %s sent as two lines [%s, %s]: the handler ran with deadline in %v (has deadline: %v), later than the 1s the peer sent (err=%v)",
						tc.proto, kind, tc.header, tc.hour, tc.second, remaining, rec.has, err)
				}
			}
		}
	}
}

// --- helpers ---

type sweepRec struct {
	mu       sync.Mutex
	ran      int
	deadline time.Time
	has      bool
	at       time.Time
}

func (r *sweepRec) note(ctx context.Context) {
	r.mu.Lock()
	defer r.mu.Unlock()
	r.ran++
	r.at = time.Now()
	r.deadline, r.has = ctx.Deadline()
}

func (r *sweepRec) reset() {
	r.mu.Lock()
	defer r.mu.Unlock()
	r.ran = 0
	r.has = false
}

type overrideRT struct {
	next http.RoundTripper
	fn   func(http.Header)
	seen http.Header
}

func (o *overrideRT) RoundTrip(req *http.Request) (*http.Response, error) {
	o.seen = req.Header.Clone()
	if o.fn != nil {
		o.fn(req.Header)
	}
	return o.next.RoundTrip(req)
}

func sweepServer(t *testing.T, rec *sweepRec) *httptest.Server {
	mux := http.NewServeMux()
	mux.Handle("/u", connect.NewUnaryHandler("/u", func(ctx context.Context, r *connect.Request[pingv1.PingRequest]) (*connect.Response[pingv1.PingResponse], error) {
		rec.note(ctx)
		return connect.NewResponse(&pingv1.PingResponse{}), nil
	}))
	mux.Handle("/c", connect.NewClientStreamHandler("/c", func(ctx context.Context, s *connect.ClientStream[pingv1.SumRequest]) (*connect.Response[pingv1.SumResponse], error) {
		rec.note(ctx)
		for s.Receive() {
		}
		return connect.NewResponse(&pingv1.SumResponse{}), nil
	}))
	mux.Handle("/s", connect.NewServerStreamHandler("/s", func(ctx context.Context, r *connect.Request[pingv1.CountUpRequest], s *connect.ServerStream[pingv1.CountUpResponse]) error {
		rec.note(ctx)
		return s.Send(&pingv1.CountUpResponse{})
	}))
	mux.Handle("/b", connect.NewBidiStreamHandler("/b", func(ctx context.Context, s *connect.BidiStream[pingv1.CumSumRequest, pingv1.CumSumResponse]) error {
		rec.note(ctx)
		for {
			_, err := s.Receive()
			if err != nil {
				break
			}
		}
		return s.Send(&pingv1.CumSumResponse{})
	}))
	server := httptest.NewUnstartedServer(mux)
	server.EnableHTTP2 = true
	server.StartTLS()
	t.Cleanup(server.Close)
	return server
}

// run one call of the given kind, return error
func sweepCall(ctx context.Context, hc connect.HTTPClient, url, kind string, opts ...connect.ClientOption) error {
	switch kind {
	case "u":
		c := connect.NewClient[pingv1.PingRequest, pingv1.PingResponse](hc, url+"/u", opts...)
		_, err := c.CallUnary(ctx, connect.NewRequest(&pingv1.PingRequest{}))
		return err
	case "c":
		c := connect.NewClient[pingv1.SumRequest, pingv1.SumResponse](hc, url+"/c", opts...)
		s := c.CallClientStream(ctx)
		_ = s.Send(&pingv1.SumRequest{})
		_, err := s.CloseAndReceive()
		return err
	case "s":
		c := connect.NewClient[pingv1.CountUpRequest, pingv1.CountUpResponse](hc, url+"/s", opts...)
		s, err := c.CallServerStream(ctx, connect.NewRequest(&pingv1.CountUpRequest{}))
		if err != nil {
			return err
		}
		for s.Receive() {
		}
		err = s.Err()
		_ = s.Close()
		return err
	case "b":
		c := connect.NewClient[pingv1.CumSumRequest, pingv1.CumSumResponse](hc, url+"/b", opts...)
		s := c.CallBidiStream(ctx)
		_ = s.Send(&pingv1.CumSumRequest{})
		_ = s.CloseRequest()
		var err error
		for {
			_, err = s.Receive()
			if err != nil {
				break
			}
		}
		_ = s.CloseResponse()
		if errors.Is(err, io.EOF) {
			return nil
		}
		return err
	}
	return fmt.Errorf("bad kind")
}

package connect_test

import (
	"context"
	"errors"
	"fmt"
	"net/http"
	"sync"
	"testing"

	connect "github.com/bufbuild/connect-go"
	pingv1 "github.com/bufbuild/connect-go/internal/gen/connect/ping/v1"
	"github.com/bufbuild/connect-go/internal/gen/connect/ping/v1/pingv1connect"
)

// Property C13: "no message, header, error or compressed payload of one call
// ever shows up in another"; "Values handed to user code - messages, headers,
// error text - stay intact while and after other calls run."
//
// A Client whose construction failed (WithSendCompression documents that "the
// client will return errors at runtime") hands the one *Error stored in
// Client.err to every call of every goroutine, for all RPC kinds. An
// *Error is a mutable value - callers annotate it with Meta() and AddDetail() -
// so what one call's caller writes on "its" error shows up on the error of
// every other call, earlier and later ones alike.
func TestHuntA_ClientConstructionErrorIsSharedBetweenCalls(t *testing.T) {
	t.Parallel()
	// A legal, documented misconfiguration: the send compression was never
	// registered. Every call fails at run time with code unknown.
	client := pingv1connect.NewPingServiceClient(
		http.DefaultClient,
		"http://localhost:1",
		connect.WithSendCompression("zstd"),
	)
	call := func(kind string) *connect.Error {
		t.Helper()
		var err error
		switch kind {
		case "unary":
			_, err = client.Ping(context.Background(), connect.NewRequest(&pingv1.PingRequest{}))
		case "server":
			_, err = client.CountUp(context.Background(), connect.NewRequest(&pingv1.CountUpRequest{}))
		case "client":
			err = client.Sum(context.Background()).Send(&pingv1.SumRequest{})
		case "bidi":
			_, err = client.CumSum(context.Background()).Receive()
		}
		var connectErr *connect.Error
		if !errors.As(err, &connectErr) {
			t.Fatalf("%s call: expected a *connect.Error, got %v", kind, err)
		}
		return connectErr
	}

	// Call 1 fails; its caller annotates the error it was handed, as a retry
	// or logging wrapper would.
	first := call("unary")
	if got := first.Meta().Get("X-Call-Id"); got != "" {
		t.Fatalf("fresh error already carries X-Call-Id=%q", got)
	}
	first.Meta().Set("X-Call-Id", "call-1")

	// The same for every RPC kind (the generated client has one connect.Client
	// per procedure, so the sharing is per procedure). Alone, each call yields
	// an error without metadata.
	for _, kind := range []string{"server", "client", "bidi"} {
		call(kind).Meta().Set("X-Call-Id", "call-1")
	}
	for i, kind := range []string{"unary", "server", "client", "bidi"} {
		first := first
		if kind != "unary" {
			first = call(kind)
		}
		other := call(kind)
		if got := other.Meta().Get("X-Call-Id"); got != "" {
			t.Errorf("%s call #%d: expected an error of its own without metadata "+
				"(what the call produces alone), but it carries X-Call-Id=%q written on "+
				"the error of an earlier %s call (same *Error object: %v)", kind, i+2, got, kind, other == first)
		}
		// ... and what the later call's caller does reaches back into the value
		// call 1 was handed.
		other.Meta().Set("X-Call-Id", fmt.Sprintf("call-%d", i+2))
		if got := first.Meta().Get("X-Call-Id"); got != "call-1" {
			t.Errorf("error handed to call 1 did not stay intact: X-Call-Id is now %q, "+
				"overwritten through the error of %s call #%d", got, kind, i+2)
		}
		first.Meta().Set("X-Call-Id", "call-1")
	}
}

// The same defect seen from concurrency: G goroutines each make one failing
// call on the shared client and tag the error they got with their own id.
// Each must read back its own id; with the shared object they read each
// other's (and `go test -race` reports the unsynchronised writes to
// Error.meta, which can also abort the process with "concurrent map writes").
func TestHuntA_ClientConstructionErrorConcurrent(t *testing.T) {
	client := connect.NewClient[pingv1.PingRequest, pingv1.PingResponse](
		http.DefaultClient,
		"http://localhost:1/connect.ping.v1.PingService/Ping",
		connect.WithSendCompression("zstd"), // never registered: "errors at runtime"
	)
	const goroutines = 8
	errs := make([]*connect.Error, goroutines)
	var wg sync.WaitGroup
	for g := 0; g < goroutines; g++ {
		wg.Add(1)
		go func(g int) {
			defer wg.Done()
			_, err := client.CallUnary(context.Background(), connect.NewRequest(&pingv1.PingRequest{Number: int64(g)}))
			errors.As(err, &errs[g])
		}(g)
	}
	wg.Wait()
	seen := make(map[*connect.Error]int)
	for g, e := range errs {
		if e == nil {
			t.Fatalf("goroutine %d: expected a *connect.Error", g)
		}
		if prev, ok := seen[e]; ok {
			t.Errorf("calls of goroutines %d and %d were handed the very same mutable *Error %p; "+
				"expected every call to get an error of its own", prev, g, e)
			continue
		}
		seen[e] = g
	}
}

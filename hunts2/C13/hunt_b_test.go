package connect_test

import (
	"context"
	"errors"
	"io"
	"net/http"
	"net/http/httptest"
	"testing"

	connect "github.com/bufbuild/connect-go"
	pingv1 "github.com/bufbuild/connect-go/internal/gen/connect/ping/v1"
	"github.com/bufbuild/connect-go/internal/gen/connect/ping/v1/pingv1connect"
)

type earlyOKServer struct {
	pingv1connect.UnimplementedPingServiceHandler
}

// CumSum answers the first message and finishes successfully without waiting
// for the client to close its side - perfectly legal for a bidi handler.
func (earlyOKServer) CumSum(_ context.Context, stream *connect.BidiStream[pingv1.CumSumRequest, pingv1.CumSumResponse]) error {
	msg, err := stream.Receive()
	if err != nil {
		return err
	}
	return stream.Send(&pingv1.CumSumResponse{Sum: msg.Number})
}

// Property C13: "one bidirectional stream may be sent on and received from
// concurrently" and "each call's result is what the same call would produce
// alone".
//
// One bidi call, a sender goroutine and a receiver goroutine. The handler
// answers the first message and returns nil. The receiver reads the answer,
// reads the clean end of the stream and closes the response side. Whatever the
// sender is doing meanwhile, that is a call that succeeded: CloseResponse has
// nothing to report, and reports nothing when the sender happens to have
// closed the request side first. When the request side is still open, though,
// the receiver's last Receive tears the request body down behind net/http's
// back (duplexHTTPCall.SetError closes the read end of the pipe), the
// transport takes that for a failed request, fails the response body with it,
// and CloseResponse returns "unknown: io: read/write on closed pipe" for a
// call in which nothing went wrong.
func TestHuntB_CloseResponseFailsOnSuccessfulBidiCallWhileSenderActive(t *testing.T) {
	mux := http.NewServeMux()
	mux.Handle(pingv1connect.NewPingServiceHandler(earlyOKServer{}))
	server := httptest.NewUnstartedServer(mux)
	server.EnableHTTP2 = true
	server.StartTLS()
	defer server.Close()

	for _, tc := range []struct {
		name string
		opts []connect.ClientOption
	}{
		{"connect", nil},
		{"grpcweb", []connect.ClientOption{connect.WithGRPCWeb()}},
		{"grpc", []connect.ClientOption{connect.WithGRPC()}},
	} {
		tc := tc
		t.Run(tc.name, func(t *testing.T) {
			client := pingv1connect.NewPingServiceClient(server.Client(), server.URL, tc.opts...)
			const calls = 400
			// Control: the same call with the other interleaving - the sender closes
			// the request side before the receiver reaches the end of the stream -
			// never reports anything from CloseResponse.
			for i := 0; i < calls; i++ {
				stream := client.CumSum(context.Background())
				if err := stream.Send(&pingv1.CumSumRequest{Number: int64(i)}); err != nil {
					t.Fatalf("control call %d: Send: %v", i, err)
				}
				if err := stream.CloseRequest(); err != nil {
					t.Fatalf("control call %d: CloseRequest: %v", i, err)
				}
				if msg, err := stream.Receive(); err != nil || msg.Sum != int64(i) {
					t.Fatalf("control call %d: Receive: %v, %v", i, msg, err)
				}
				if _, err := stream.Receive(); !errors.Is(err, io.EOF) {
					t.Fatalf("control call %d: expected the clean end of the stream, got %v", i, err)
				}
				if err := stream.CloseResponse(); err != nil {
					t.Fatalf("control call %d: CloseResponse: %v", i, err)
				}
			}
			spurious := 0
			var sample error
			for i := 0; i < calls; i++ {
				stream := client.CumSum(context.Background())
				senderDone := make(chan struct{})
				firstSent := make(chan struct{})
				stop := make(chan struct{})
				go func() { // the sender: keeps the request side open until told to stop
					defer close(senderDone)
					if err := stream.Send(&pingv1.CumSumRequest{Number: int64(i)}); err != nil {
						t.Errorf("call %d: first Send: %v", i, err)
					}
					close(firstSent)
					<-stop
					_ = stream.CloseRequest()
				}()
				<-firstSent
				// the receiver
				msg, err := stream.Receive()
				if err != nil || msg.Sum != int64(i) {
					t.Fatalf("call %d: Receive: got %v, %v; expected sum %d", i, msg, err, i)
				}
				if _, err := stream.Receive(); !errors.Is(err, io.EOF) {
					t.Fatalf("call %d: expected the clean end of the stream, got %v", i, err)
				}
				if err := stream.CloseResponse(); err != nil {
					spurious++
					sample = err
				}
				close(stop)
				<-senderDone
			}
			if spurious > 0 {
				t.Errorf("%d of %d successful bidi calls: CloseResponse, called after Receive reported the clean "+
					"end of the stream and while the sender had not yet closed the request side, returned %q; "+
					"expected nil, which is what the same call returns when the sender closes first",
					spurious, calls, sample)
			}
		})
	}
}

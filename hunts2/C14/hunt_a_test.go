package connect_test

import (
	"context"
	"net/http"
	"net/http/httptest"
	"testing"
	"time"

	"github.com/bufbuild/connect-go"
	pingv1 "github.com/bufbuild/connect-go/internal/gen/connect/ping/v1"
	"github.com/bufbuild/connect-go/internal/gen/connect/ping/v1/pingv1connect"
)

// Finding A: a bidi (or client) stream whose FIRST Send fails before anything
// is written - here because the message cannot be marshalled (a proto3 string
// with invalid UTF-8) - never starts the HTTP request, so the response side
// waits for a response that nobody asked for. Receive then blocks forever and
// ignores the cancellation of the call's context.
func TestHuntA_ReceiveAfterFailedFirstSendNeverReturns(t *testing.T) {
	mux := http.NewServeMux()
	mux.Handle(pingv1connect.NewPingServiceHandler(pingServer{}))
	server := httptest.NewUnstartedServer(mux)
	server.EnableHTTP2 = true
	server.StartTLS()
	defer server.Close()

	for _, tc := range []struct {
		name string
		opts []connect.ClientOption
	}{
		{"connect", nil},
		{"grpc", []connect.ClientOption{connect.WithGRPC()}},
		{"grpcweb", []connect.ClientOption{connect.WithGRPCWeb()}},
	} {
		tc := tc
		t.Run(tc.name, func(t *testing.T) {
			ctx, cancel := context.WithCancel(context.Background())
			defer cancel()
			// The request side is started first, as the property demands.
			// (CumSumRequest has no string field, so go through the generic client
			// with a message type that has one.)
			generic := connect.NewClient[pingv1.PingRequest, pingv1.PingResponse](
				server.Client(),
				server.URL+"/connect.ping.v1.PingService/CumSum",
				tc.opts...,
			)
			bidi := generic.CallBidiStream(ctx)
			sendErr := bidi.Send(&pingv1.PingRequest{Text: "\xff\xfe invalid utf-8"})
			if sendErr == nil {
				t.Fatalf("setup: expected Send of an unmarshallable message to fail")
			}
			t.Logf("first Send failed as expected: %v", sendErr)

			received := make(chan error, 1)
			go func() {
				_, err := bidi.Receive()
				received <- err
			}()
			select {
			case err := <-received:
				t.Logf("Receive returned: %v", err)
				return
			case <-time.After(500 * time.Millisecond):
			}
			// Not back yet: finish the call the second legal way, by cancelling.
			cancel()
			select {
			case err := <-received:
				t.Logf("Receive returned after cancel: %v", err)
			case <-time.After(2 * time.Second):
				t.Fatalf("expected Receive to return in bounded time (at the latest once the "+
					"context is cancelled) after the first Send failed with %q; "+
					"it is still blocked 2s after cancel: the request was never started, so "+
					"responseReady is never closed", sendErr)
			}
		})
	}
}

package connect_test

import (
	"context"
	"fmt"
	"net/http"
	"net/http/httptest"
	"testing"
	"time"

	"github.com/bufbuild/connect-go"
	pingv1 "github.com/bufbuild/connect-go/internal/gen/connect/ping/v1"
	"github.com/bufbuild/connect-go/internal/gen/connect/ping/v1/pingv1connect"
)

// Finding B: NewClient validates the URL with url.ParseRequestURI, but the
// request is built with http.NewRequestWithContext, which uses url.Parse. A URL
// that the first accepts and the second rejects (a '#' after the query,
// followed by a bad escape: ParseRequestURI leaves the raw query unchecked,
// Parse splits off the fragment and unescapes it) makes
// http.NewRequestWithContext return (nil, err) in newDuplexHTTPCall, which
// dereferences the nil request (request.Header = header) before it looks at
// err. Every call made with that client panics in the caller's goroutine
// instead of returning an error. (And if the nil dereference is repaired, the
// "can't construct a request" branch behind it exhausts sendRequestOnce without
// ever closing responseReady, so Receive / CloseResponse / CallUnary would block
// forever.)
func TestHuntB_URLAcceptedByNewClientMakesEveryCallPanic(t *testing.T) {
	mux := http.NewServeMux()
	mux.Handle(pingv1connect.NewPingServiceHandler(pingServer{}))
	server := httptest.NewUnstartedServer(mux)
	server.EnableHTTP2 = true
	server.StartTLS()
	defer server.Close()

	badURL := server.URL + "/connect.ping.v1.PingService/Ping?x#%zz"

	type outcome struct {
		err      error
		panicked any
	}
	for _, tc := range []struct {
		name string
		opts []connect.ClientOption
	}{
		{"connect", nil},
		{"grpc", []connect.ClientOption{connect.WithGRPC()}},
		{"grpcweb", []connect.ClientOption{connect.WithGRPCWeb()}},
	} {
		tc := tc
		t.Run(tc.name+"/unary", func(t *testing.T) {
			client := connect.NewClient[pingv1.PingRequest, pingv1.PingResponse](
				server.Client(), badURL, tc.opts...,
			)
			ctx, cancel := context.WithTimeout(context.Background(), 300*time.Millisecond)
			defer cancel()
			done := make(chan outcome, 1)
			go func() {
				var out outcome
				defer func() {
					out.panicked = recover()
					done <- out
				}()
				_, out.err = client.CallUnary(ctx, connect.NewRequest(&pingv1.PingRequest{Number: 1}))
			}()
			select {
			case out := <-done:
				if out.panicked != nil {
					t.Fatalf("expected CallUnary to return an error for URL %q (accepted by NewClient); "+
						"it panicked instead: %v", badURL, out.panicked)
				}
				if out.err == nil {
					t.Fatalf("expected an error for URL %q, got success", badURL)
				}
				t.Logf("CallUnary returned: %v", out.err)
			case <-time.After(3 * time.Second):
				t.Fatalf("expected CallUnary to return an error in bounded time for URL %q "+
					"(accepted by NewClient; context deadline 300ms); it is still blocked after 3s", badURL)
			}
		})
		t.Run(tc.name+"/bidi", func(t *testing.T) {
			client := connect.NewClient[pingv1.CumSumRequest, pingv1.CumSumResponse](
				server.Client(), badURL, tc.opts...,
			)
			ctx, cancel := context.WithCancel(context.Background())
			defer cancel()
			done := make(chan outcome, 1)
			go func() {
				var out outcome
				defer func() {
					out.panicked = recover()
					done <- out
				}()
				stream := client.CallBidiStream(ctx)
				sendErr := stream.Send(&pingv1.CumSumRequest{Number: 1})
				closeErr := stream.CloseRequest()
				_, recvErr := stream.Receive()
				out.err = fmt.Errorf("send=%v closeRequest=%v receive=%v closeResponse=%v",
					sendErr, closeErr, recvErr, stream.CloseResponse())
			}()
			var out outcome
			select {
			case out = <-done:
			case <-time.After(500 * time.Millisecond):
				cancel() // the other legal way to finish
				select {
				case out = <-done:
				case <-time.After(2 * time.Second):
					t.Fatalf("expected Send/CloseRequest/Receive/CloseResponse to return in bounded time "+
						"for URL %q; still blocked 2s after the context was cancelled", badURL)
				}
			}
			if out.panicked != nil {
				t.Fatalf("expected the bidi call to report an error for URL %q (accepted by NewClient); "+
					"it panicked instead: %v", badURL, out.panicked)
			}
			t.Logf("bidi call: %v", out.err)
		})
	}
}

package connect_test

import (
	"context"
	"net/http"
	"net/http/httptest"
	"runtime"
	"strings"
	"testing"
	"time"

	"github.com/bufbuild/connect-go"
	pingv1 "github.com/bufbuild/connect-go/internal/gen/connect/ping/v1"
	"github.com/bufbuild/connect-go/internal/gen/connect/ping/v1/pingv1connect"
)

func libraryGoroutines() string {
	buf := make([]byte, 1<<20)
	buf = buf[:runtime.Stack(buf, true)]
	var found []string
	for _, g := range strings.Split(string(buf), "\n\n") {
		if strings.Contains(g, "connect-go.(*duplexHTTPCall).makeRequest") ||
			strings.Contains(g, "connect-go.(*duplexHTTPCall).watchContext") {
			found = append(found, g)
		}
	}
	return strings.Join(found, "\n\n")
}

func waitNoLibraryGoroutines(limit time.Duration) string {
	deadline := time.Now().Add(limit)
	for {
		left := libraryGoroutines()
		if left == "" || time.Now().After(deadline) {
			return left
		}
		time.Sleep(20 * time.Millisecond)
	}
}

// Finding C: HTTP/1.1, request side open and idle, response headers not yet
// received, and the caller finishes by cancelling the context.
//
// The library only starts watching the context once HTTPClient.Do has returned
// (duplexHTTPCall.makeRequest starts watchContext after it has a response). On
// HTTP/1.1 a client-streaming handler produces no response headers until it is
// done, so Do is still in flight. When the context is cancelled, net/http's
// HTTP/1 transport tears down the connection and then waits for its write
// loop - which is blocked reading connect's request-body pipe, and nobody
// closes that pipe. Do never returns: the makeRequest goroutine (and the
// pipe, and net/http's writer) stay behind for good.
func TestHuntC_HTTP1CancelBeforeResponseLeaksRequestGoroutine(t *testing.T) {
	if left := waitNoLibraryGoroutines(2 * time.Second); left != "" {
		t.Fatalf("setup: library goroutines from another test are still around:\n%s", left)
	}
	mux := http.NewServeMux()
	mux.Handle(pingv1connect.NewPingServiceHandler(pingServer{}))
	server := httptest.NewServer(mux) // plain HTTP/1.1: fine for client streaming
	defer server.Close()

	for _, tc := range []struct {
		name string
		opts []connect.ClientOption
	}{
		{"connect", nil},
		{"grpc", []connect.ClientOption{connect.WithGRPC()}},
		{"grpcweb", []connect.ClientOption{connect.WithGRPCWeb()}},
	} {
		tc := tc
		t.Run(tc.name, func(t *testing.T) {
			client := pingv1connect.NewPingServiceClient(server.Client(), server.URL, tc.opts...)
			ctx, cancel := context.WithCancel(context.Background())
			defer cancel()
			stream := client.Sum(ctx) // client streaming: the handler reads until end-of-request
			if err := stream.Send(&pingv1.SumRequest{Number: 1}); err != nil {
				t.Fatalf("setup: Send: %v", err)
			}
			time.Sleep(100 * time.Millisecond) // let the request reach the handler
			cancel()                           // the client finishes by cancelling its context
			if left := waitNoLibraryGoroutines(3 * time.Second); left != "" {
				// Closing the request side is what releases it: do that so that the
				// next subtest starts clean.
				_, _ = stream.CloseAndReceive()
				waitNoLibraryGoroutines(2 * time.Second)
				t.Fatalf("expected no goroutine started by the library to remain after the client "+
					"finished the call by cancelling its context; 3s later still running:\n%s", left)
			}
		})
	}
}

// The same defect seen from the API: on a bidi call that (unknown to the
// caller) runs over HTTP/1.1, Receive after the cancellation never returns.
// (Without the cancellation it doesn't either: Handler.ServeHTTP answers 505
// without "Connection: close", so net/http's server swallows the open request
// body before it sends the status line.)
func TestHuntC_HTTP1BidiReceiveIgnoresCancellation(t *testing.T) {
	mux := http.NewServeMux()
	mux.Handle(pingv1connect.NewPingServiceHandler(pingServer{}))
	server := httptest.NewServer(mux)
	defer server.Close()

	client := pingv1connect.NewPingServiceClient(server.Client(), server.URL)
	ctx, cancel := context.WithCancel(context.Background())
	defer cancel()
	stream := client.CumSum(ctx)
	if err := stream.Send(&pingv1.CumSumRequest{Number: 1}); err != nil {
		t.Logf("Send: %v", err)
	}
	received := make(chan error, 1)
	go func() {
		_, err := stream.Receive()
		received <- err
	}()
	select {
	case err := <-received:
		t.Logf("Receive returned without cancellation: %v", err)
		return
	case <-time.After(time.Second):
		t.Logf("Receive still blocked after 1s although the server refused the call at once (505)")
	}
	cancel()
	select {
	case err := <-received:
		t.Logf("Receive returned after cancel: %v", err)
	case <-time.After(3 * time.Second):
		t.Errorf("expected Receive to return in bounded time once the context is cancelled; " +
			"still blocked 3s after cancel")
		// Unblock the goroutine so that the test binary can finish.
		_ = stream.CloseRequest()
		<-received
	}
}

package connect_test

import (
	"context"
	"io"
	"net/http"
	"net/http/httptest"
	"sync"
	"sync/atomic"
	"testing"
	"time"

	"github.com/bufbuild/connect-go"
	pingv1 "github.com/bufbuild/connect-go/internal/gen/connect/ping/v1"
	"github.com/bufbuild/connect-go/internal/gen/connect/ping/v1/pingv1connect"
)

type huntDBody struct {
	io.ReadCloser
	closed *atomic.Bool
}

func (b *huntDBody) Close() error {
	b.closed.Store(true)
	return b.ReadCloser.Close()
}

// huntDClient is a legal HTTPClient: it delegates to *http.Client and only
// records whether the response body it hands out is ever closed.
type huntDClient struct {
	inner  *http.Client
	mu     sync.Mutex
	bodies []*atomic.Bool
}

func (c *huntDClient) Do(r *http.Request) (*http.Response, error) {
	resp, err := c.inner.Do(r)
	if resp != nil && resp.Body != nil {
		flag := &atomic.Bool{}
		c.mu.Lock()
		c.bodies = append(c.bodies, flag)
		c.mu.Unlock()
		resp.Body = &huntDBody{ReadCloser: resp.Body, closed: flag}
	}
	return resp, err
}

// Finding D: a client that finishes a call by cancelling its context (the
// second of the two ways the property allows) leaves the HTTP response body
// unclosed. duplexHTTPCall.watchContext notices the cancellation and fails the
// call (SetError), every later Send/Receive returns the cancellation error -
// but nothing ever calls response.Body.Close(): only CloseRead does, and a
// client that is done after cancel never calls it.
func TestHuntD_CancelFinishedCallNeverClosesResponseBody(t *testing.T) {
	mux := http.NewServeMux()
	mux.Handle(pingv1connect.NewPingServiceHandler(pingServer{}))
	server := httptest.NewUnstartedServer(mux)
	server.EnableHTTP2 = true
	server.StartTLS()
	defer server.Close()

	for _, tc := range []struct {
		name string
		opts []connect.ClientOption
	}{
		{"connect", nil},
		{"grpc", []connect.ClientOption{connect.WithGRPC()}},
		{"grpcweb", []connect.ClientOption{connect.WithGRPCWeb()}},
	} {
		tc := tc
		t.Run(tc.name, func(t *testing.T) {
			httpClient := &huntDClient{inner: server.Client()}
			client := pingv1connect.NewPingServiceClient(httpClient, server.URL, tc.opts...)
			ctx, cancel := context.WithCancel(context.Background())
			defer cancel()
			stream := client.CumSum(ctx)
			if err := stream.Send(&pingv1.CumSumRequest{Number: 1}); err != nil {
				t.Fatalf("setup: Send: %v", err)
			}
			if _, err := stream.Receive(); err != nil {
				t.Fatalf("setup: Receive: %v", err)
			}
			cancel() // the client finishes by cancelling its context
			// Even let it observe the outcome on both sides.
			sendErr := stream.Send(&pingv1.CumSumRequest{Number: 1})
			_, recvErr := stream.Receive()
			t.Logf("after cancel: Send: %v; Receive: %v", sendErr, recvErr)

			deadline := time.Now().Add(2 * time.Second)
			for {
				httpClient.mu.Lock()
				n, open := len(httpClient.bodies), 0
				for _, b := range httpClient.bodies {
					if !b.Load() {
						open++
					}
				}
				httpClient.mu.Unlock()
				if n != 1 {
					t.Fatalf("setup: expected exactly one HTTP response, got %d", n)
				}
				if open == 0 {
					return
				}
				if time.Now().After(deadline) {
					t.Fatalf("expected the HTTP response body to have been closed after the client finished "+
						"the call by cancelling its context; 2s later Body.Close has still not been called "+
						"(library goroutines left: %q)", libraryGoroutines())
				}
				time.Sleep(20 * time.Millisecond)
			}
		})
	}
}

package connect_test

import (
	"context"
	"net/http"
	"net/http/httptest"
	"testing"
	"time"

	"github.com/bufbuild/connect-go"
	pingv1 "github.com/bufbuild/connect-go/internal/gen/connect/ping/v1"
	"github.com/bufbuild/connect-go/internal/gen/connect/ping/v1/pingv1connect"
)

// Finding E: a bidi call that (unknown to the caller) ends up on HTTP/1.1.
// Handler.ServeHTTP refuses it at once with 505 - the user's handler never
// runs, so the "handler" has certainly terminated - but it does so without
// reading the request body and without "Connection: close". net/http's HTTP/1
// server therefore tries to swallow the rest of the still-open chunked request
// body (up to 256 KiB) BEFORE it writes the status line. The client's first
// Receive waits for response headers that will not be sent until the client
// closes its request side - which the legal bidi program Send, Receive,
// CloseRequest, CloseResponse only does after Receive has returned. Receive
// blocks for as long as the context lives (and, by finding C, even longer).
func TestHuntE_BidiOverHTTP1ReceiveBlocksAlthoughServerRefusedAtOnce(t *testing.T) {
	mux := http.NewServeMux()
	mux.Handle(pingv1connect.NewPingServiceHandler(pingServer{}))
	server := httptest.NewServer(mux) // plain HTTP/1.1
	defer server.Close()

	for _, tc := range []struct {
		name string
		opts []connect.ClientOption
	}{
		{"connect", nil},
		{"grpc", []connect.ClientOption{connect.WithGRPC()}},
		{"grpcweb", []connect.ClientOption{connect.WithGRPCWeb()}},
	} {
		tc := tc
		t.Run(tc.name, func(t *testing.T) {
			client := pingv1connect.NewPingServiceClient(server.Client(), server.URL, tc.opts...)
			stream := client.CumSum(context.Background())
			if err := stream.Send(&pingv1.CumSumRequest{Number: 1}); err != nil {
				t.Logf("Send: %v", err)
			}
			received := make(chan error, 1)
			go func() {
				_, err := stream.Receive()
				received <- err
			}()
			select {
			case err := <-received:
				if err == nil {
					t.Fatalf("expected an error: bidi needs HTTP/2")
				}
				t.Logf("Receive returned: %v", err)
				_ = stream.CloseRequest()
				_ = stream.CloseResponse()
			case <-time.After(3 * time.Second):
				// Closing the request side is what finally lets the server answer.
				_ = stream.CloseRequest()
				err := <-received
				_ = stream.CloseResponse()
				t.Fatalf("expected Receive to report in bounded time that the HTTP/1.1 server refused the "+
					"bidi call (ServeHTTP returned 505 immediately); it was still blocked after 3s and only "+
					"returned once the request side was closed (%v)", err)
			}
		})
	}
}

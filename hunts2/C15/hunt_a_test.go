package connect_test

import (
	"context"
	"io"
	"net/http"
	"net/http/httptest"
	"testing"
	"time"

	connect "github.com/bufbuild/connect-go"
	pingv1 "github.com/bufbuild/connect-go/internal/gen/connect/ping/v1"
	"github.com/bufbuild/connect-go/internal/gen/connect/ping/v1/pingv1connect"
)

// Property C15: a unary Connect call whose context ends WHILE RECEIVING must
// fail with canceled / deadline_exceeded. Here the part of the response being
// received is the body of a non-200 response (the place where unary Connect
// carries its errors): the server has sent the status line, the headers and
// the first bytes of the body, and the rest has not arrived yet when the
// context ends.
func TestHuntA_UnaryConnectErrorBodyInterruptedByContext(t *testing.T) {
	for _, useHTTP2 := range []bool{false, true} {
		for _, kind := range []string{"cancel", "deadline"} {
			useHTTP2, kind := useHTTP2, kind
			name := "http1/" + kind
			if useHTTP2 {
				name = "http2/" + kind
			}
			t.Run(name, func(t *testing.T) {
				flushed := make(chan struct{}, 1)
				release := make(chan struct{})
				mux := http.NewServeMux()
				mux.HandleFunc("/", func(w http.ResponseWriter, r *http.Request) {
					_, _ = io.Copy(io.Discard, r.Body) // the request is received in full
					w.Header().Set("Content-Type", "application/json")
					w.WriteHeader(http.StatusServiceUnavailable)
					_, _ = w.Write([]byte(`{"code":"unavailable","message":"the rest of this body never`))
					w.(http.Flusher).Flush()
					select {
					case flushed <- struct{}{}:
					default:
					}
					// Deliberately not watching r.Context(): a handler that returns
					// when the client goes away lets net/http end the response
					// cleanly, and over HTTP/1.1 that end can still reach the client.
					<-release
				})
				server := httptest.NewUnstartedServer(mux)
				server.EnableHTTP2 = useHTTP2
				server.StartTLS()
				defer server.Close()
				defer close(release)

				client := pingv1connect.NewPingServiceClient(server.Client(), server.URL)
				// Whether the wrong code shows depends on which of two goroutines
				// records its error first (see HUNT.md): about every other attempt.
				const attempts = 15
				want := connect.CodeCanceled
				if kind == "deadline" {
					want = connect.CodeDeadlineExceeded
				}
				wrong := 0
				var firstWrong error
				for attempt := 0; attempt < attempts; attempt++ {
					var (
						ctx    context.Context
						cancel context.CancelFunc
					)
					if kind == "cancel" {
						ctx, cancel = context.WithCancel(context.Background())
						go func() {
							<-flushed
							time.Sleep(50 * time.Millisecond) // let the client get the headers and start on the body
							cancel()
						}()
					} else {
						ctx, cancel = context.WithTimeout(context.Background(), 150*time.Millisecond)
					}
					_, err := client.Ping(ctx, connect.NewRequest(&pingv1.PingRequest{Number: 1}))
					if err == nil {
						t.Fatalf("call succeeded; expected code %v", want)
					}
					if ctx.Err() == nil {
						t.Fatalf("test is broken: call returned %v before the context ended", err)
					}
					if got := connect.CodeOf(err); got != want {
						wrong++
						if firstWrong == nil {
							firstWrong = err
						}
					}
					cancel()
				}
				if wrong > 0 {
					t.Errorf("context ended while the body of the response was being received: expected code %v every time, "+
						"got another code in %d of %d attempts, first: %v (error: %v)",
						want, wrong, attempts, connect.CodeOf(firstWrong), firstWrong)
				}
			})
		}
	}
}

package connect_test

import (
	"context"
	"net/http"
	"net/http/httptest"
	"strings"
	"testing"
	"time"

	connect "github.com/bufbuild/connect-go"
	pingv1 "github.com/bufbuild/connect-go/internal/gen/connect/ping/v1"
	"github.com/bufbuild/connect-go/internal/gen/connect/ping/v1/pingv1connect"
)

// slowToFail is a legal HTTPClient: it hands the request to a plain
// *http.Client and, when that fails, spends a moment (logging, metrics, a
// retry decision...) before reporting the failure.
type slowToFail struct {
	inner *http.Client
	delay time.Duration
}

func (s slowToFail) Do(r *http.Request) (*http.Response, error) {
	response, err := s.inner.Do(r)
	if err != nil {
		time.Sleep(s.delay)
	}
	return response, err
}

// Property C15: the context ends WHILE SENDING (the Send of a unary Connect
// call is blocked in the middle of a large message, because the server is not
// reading). The Send itself may fail with the stream-closed error wrapping
// io.EOF, but the call must then report canceled / deadline_exceeded.
func TestHuntB_UnaryConnectSendInterruptedByContext(t *testing.T) {
	for _, useHTTP2 := range []bool{false, true} {
		for _, kind := range []string{"cancel", "deadline"} {
			for _, delay := range []time.Duration{0, 20 * time.Millisecond} {
				useHTTP2, kind, delay := useHTTP2, kind, delay
				name := "http1/" + kind
				if useHTTP2 {
					name = "http2/" + kind
				}
				if delay > 0 {
					name += "/slow-to-fail-client"
				} else {
					name += "/plain-http-client"
				}
				t.Run(name, func(t *testing.T) {
					started := make(chan struct{}, 1)
					release := make(chan struct{})
					mux := http.NewServeMux()
					mux.HandleFunc("/", func(w http.ResponseWriter, r *http.Request) {
						// A server that is slow to get to the request body.
						started <- struct{}{}
						<-release
					})
					server := httptest.NewUnstartedServer(mux)
					server.EnableHTTP2 = useHTTP2
					server.StartTLS()
					defer server.Close()
					defer close(release)

					var httpClient connect.HTTPClient = server.Client()
					if delay > 0 {
						httpClient = slowToFail{inner: server.Client(), delay: delay}
					}
					client := pingv1connect.NewPingServiceClient(httpClient, server.URL)
					var (
						ctx    context.Context
						cancel context.CancelFunc
						want   connect.Code
					)
					if kind == "cancel" {
						ctx, cancel = context.WithCancel(context.Background())
						want = connect.CodeCanceled
						go func() {
							<-started
							time.Sleep(100 * time.Millisecond) // the Send is now stuck in the middle of the message
							cancel()
						}()
					} else {
						ctx, cancel = context.WithTimeout(context.Background(), 300*time.Millisecond)
						want = connect.CodeDeadlineExceeded
					}
					defer cancel()

					request := connect.NewRequest(&pingv1.PingRequest{Text: strings.Repeat("x", 16<<20)})
					_, err := client.Ping(ctx, request)
					if err == nil {
						t.Fatalf("call succeeded; expected code %v", want)
					}
					if ctx.Err() == nil {
						t.Fatalf("test is broken: call returned %v before the context ended", err)
					}
					if got := connect.CodeOf(err); got != want {
						t.Errorf("context ended (%v) while the request was being sent: expected code %v, got %v (error: %v)",
							ctx.Err(), want, got, err)
					}
				})
			}
		}
	}
}

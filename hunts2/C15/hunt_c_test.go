package connect_test

import (
	"context"
	"net/http"
	"net/http/httptest"
	"strings"
	"testing"
	"time"

	connect "github.com/bufbuild/connect-go"
	pingv1 "github.com/bufbuild/connect-go/internal/gen/connect/ping/v1"
	"github.com/bufbuild/connect-go/internal/gen/connect/ping/v1/pingv1connect"
)

// Property C15: the context ends WHILE RECEIVING the (200) response of a unary
// Connect call made by a client with a read limit. The part of the response
// received so far is already over the limit, the client is reading on to
// learn the total size, and that read is what the end of the context
// interrupts. The Receive fails after the context has ended, so it must fail
// with canceled / deadline_exceeded - as the streaming and gRPC readers do in
// the very same situation (envelopeReader.Read hands the coded error through).
func TestHuntC_UnaryConnectOversizeResponseInterruptedByContext(t *testing.T) {
	for _, useHTTP2 := range []bool{false, true} {
		for _, kind := range []string{"cancel", "deadline"} {
			useHTTP2, kind := useHTTP2, kind
			name := "http1/" + kind
			if useHTTP2 {
				name = "http2/" + kind
			}
			t.Run(name, func(t *testing.T) {
				flushed := make(chan struct{}, 1)
				release := make(chan struct{})
				mux := http.NewServeMux()
				mux.HandleFunc("/", func(w http.ResponseWriter, r *http.Request) {
					w.Header().Set("Content-Type", "application/proto")
					w.WriteHeader(http.StatusOK)
					_, _ = w.Write([]byte(strings.Repeat("x", 4096))) // the message goes on...
					w.(http.Flusher).Flush()
					flushed <- struct{}{}
					// Deliberately not watching r.Context(): a handler that returns
					// when the client goes away lets net/http end the response
					// cleanly, and over HTTP/1.1 that end can still reach the client.
					<-release
				})
				server := httptest.NewUnstartedServer(mux)
				server.EnableHTTP2 = useHTTP2
				server.StartTLS()
				defer server.Close()
				defer close(release)

				client := pingv1connect.NewPingServiceClient(
					server.Client(), server.URL, connect.WithReadMaxBytes(1024),
				)
				var (
					ctx    context.Context
					cancel context.CancelFunc
					want   connect.Code
				)
				if kind == "cancel" {
					ctx, cancel = context.WithCancel(context.Background())
					want = connect.CodeCanceled
					go func() {
						<-flushed
						time.Sleep(50 * time.Millisecond)
						cancel()
					}()
				} else {
					ctx, cancel = context.WithTimeout(context.Background(), 300*time.Millisecond)
					want = connect.CodeDeadlineExceeded
				}
				defer cancel()

				_, err := client.Ping(ctx, connect.NewRequest(&pingv1.PingRequest{Number: 1}))
				if err == nil {
					t.Fatalf("call succeeded; expected code %v", want)
				}
				if ctx.Err() == nil {
					t.Fatalf("test is broken: call returned %v before the context ended", err)
				}
				if got := connect.CodeOf(err); got != want {
					t.Errorf("context ended (%v) while the response was being received: expected code %v, got %v (error: %v)",
						ctx.Err(), want, got, err)
				}
			})
		}
	}
}

package connect_test

import (
	"context"
	"errors"
	"io"
	"net/http"
	"net/http/httptest"
	"testing"
	"time"

	connect "github.com/bufbuild/connect-go"
	pingv1 "github.com/bufbuild/connect-go/internal/gen/connect/ping/v1"
	"github.com/bufbuild/connect-go/internal/gen/connect/ping/v1/pingv1connect"
)

type huntDResult struct {
	receiveErr error
	ctxErr     error
}

type huntDServer struct {
	pingv1connect.UnimplementedPingServiceHandler
	results chan huntDResult
}

func (s *huntDServer) CumSum(ctx context.Context, stream *connect.BidiStream[pingv1.CumSumRequest, pingv1.CumSumResponse]) error {
	for {
		_, err := stream.Receive()
		if err != nil {
			// give net/http a moment to cancel the context too
			select {
			case <-ctx.Done():
			case <-time.After(2 * time.Second):
			}
			s.results <- huntDResult{receiveErr: err, ctxErr: ctx.Err()}
			return err
		}
		if err := stream.Send(&pingv1.CumSumResponse{Sum: 1}); err != nil {
			return err
		}
	}
}

func (s *huntDServer) Sum(ctx context.Context, stream *connect.ClientStream[pingv1.SumRequest]) (*connect.Response[pingv1.SumResponse], error) {
	for stream.Receive() {
	}
	select {
	case <-ctx.Done():
	case <-time.After(2 * time.Second):
	}
	s.results <- huntDResult{receiveErr: stream.Err(), ctxErr: ctx.Err()}
	if err := stream.Err(); err != nil {
		return nil, err
	}
	return connect.NewResponse(&pingv1.SumResponse{}), nil
}

// Property C15, handler side: the client's context ends while the handler is
// blocked in Receive. The handler's context is cancelled (good), but the
// Receive - an operation on that call which fails after the cancellation -
// must fail with canceled / deadline_exceeded too, not with a code that blames
// the peer's framing.
func TestHuntD_HandlerReceiveInterruptedByClientContext(t *testing.T) {
	protocols := map[string][]connect.ClientOption{
		"connect": nil,
		"grpc":    {connect.WithGRPC()},
		"grpcweb": {connect.WithGRPCWeb()},
	}
	for protoName, opts := range protocols {
		for _, rpc := range []string{"bidi", "clientstream"} {
			for _, kind := range []string{"cancel", "deadline"} {
				protoName, opts, rpc, kind := protoName, opts, rpc, kind
				t.Run(protoName+"/"+rpc+"/"+kind, func(t *testing.T) {
					impl := &huntDServer{results: make(chan huntDResult, 1)}
					mux := http.NewServeMux()
					mux.Handle(pingv1connect.NewPingServiceHandler(impl))
					server := httptest.NewUnstartedServer(mux)
					server.EnableHTTP2 = true
					server.StartTLS()
					defer server.Close()
					client := pingv1connect.NewPingServiceClient(server.Client(), server.URL, opts...)

					var (
						ctx    context.Context
						cancel context.CancelFunc
						want   connect.Code
					)
					if kind == "cancel" {
						ctx, cancel = context.WithCancel(context.Background())
						want = connect.CodeCanceled
					} else {
						ctx, cancel = context.WithTimeout(context.Background(), 300*time.Millisecond)
						want = connect.CodeDeadlineExceeded
					}
					defer cancel()

					if rpc == "bidi" {
						stream := client.CumSum(ctx)
						if err := stream.Send(&pingv1.CumSumRequest{Number: 1}); err != nil {
							t.Fatal(err)
						}
						if _, err := stream.Receive(); err != nil {
							t.Fatal(err)
						}
						// The handler is now blocked in its second Receive.
						if kind == "cancel" {
							cancel()
						}
						_, err := stream.Receive()
						if connect.CodeOf(err) != want {
							t.Errorf("client Receive: expected %v, got %v", want, err)
						}
					} else {
						stream := client.Sum(ctx)
						if err := stream.Send(&pingv1.SumRequest{Number: 1}); err != nil {
							t.Fatal(err)
						}
						time.Sleep(50 * time.Millisecond) // the handler is now blocked in its second Receive
						if kind == "cancel" {
							cancel()
						} else {
							<-ctx.Done()
						}
						err := stream.Send(&pingv1.SumRequest{Number: 1})
						if err == nil || (connect.CodeOf(err) != want && !errors.Is(err, io.EOF)) {
							t.Errorf("client Send: expected %v or io.EOF, got %v", want, err)
						}
					}

					select {
					case result := <-impl.results:
						if result.ctxErr == nil {
							t.Errorf("handler's context was not cancelled")
						}
						got := connect.CodeOf(result.receiveErr)
						if got != connect.CodeCanceled && got != connect.CodeDeadlineExceeded {
							t.Errorf("client's context ended (%v) while the handler was blocked in Receive; handler's context: %v; "+
								"expected the handler's Receive to fail with canceled or deadline_exceeded, got %v (error: %v)",
								ctx.Err(), result.ctxErr, got, result.receiveErr)
						}
					case <-time.After(5 * time.Second):
						t.Fatal("handler did not finish")
					}
				})
			}
		}
	}
}

type huntDSendServer struct {
	pingv1connect.UnimplementedPingServiceHandler
	results chan huntDResult
}

func (s *huntDSendServer) CountUp(ctx context.Context, _ *connect.Request[pingv1.CountUpRequest], stream *connect.ServerStream[pingv1.CountUpResponse]) error {
	if err := stream.Send(&pingv1.CountUpResponse{Number: 1}); err != nil {
		return err
	}
	select {
	case <-ctx.Done():
	case <-time.After(2 * time.Second):
	}
	// The handler has not looked at its context (or lost the race against
	// it) and goes on sending: net/http buffers a little, then Send fails.
	for i := 0; i < 10000; i++ {
		if err := stream.Send(&pingv1.CountUpResponse{Number: 1}); err != nil {
			s.results <- huntDResult{receiveErr: err, ctxErr: ctx.Err()}
			return err
		}
	}
	s.results <- huntDResult{ctxErr: ctx.Err()}
	return nil
}

// Same as above for the other direction: the handler's Send that fails
// because the client's context ended.
func TestHuntD_HandlerSendAfterClientContextEnded(t *testing.T) {
	protocols := map[string][]connect.ClientOption{
		"connect": nil,
		"grpc":    {connect.WithGRPC()},
		"grpcweb": {connect.WithGRPCWeb()},
	}
	for protoName, opts := range protocols {
		for _, kind := range []string{"cancel", "deadline"} {
			protoName, opts, kind := protoName, opts, kind
			t.Run(protoName+"/"+kind, func(t *testing.T) {
				impl := &huntDSendServer{results: make(chan huntDResult, 1)}
				mux := http.NewServeMux()
				mux.Handle(pingv1connect.NewPingServiceHandler(impl))
				server := httptest.NewUnstartedServer(mux)
				server.EnableHTTP2 = true
				server.StartTLS()
				defer server.Close()
				client := pingv1connect.NewPingServiceClient(server.Client(), server.URL, opts...)

				var (
					ctx    context.Context
					cancel context.CancelFunc
				)
				if kind == "cancel" {
					ctx, cancel = context.WithCancel(context.Background())
				} else {
					ctx, cancel = context.WithTimeout(context.Background(), 300*time.Millisecond)
				}
				defer cancel()
				stream, err := client.CountUp(ctx, connect.NewRequest(&pingv1.CountUpRequest{Number: 1}))
				if err != nil {
					t.Fatal(err)
				}
				if !stream.Receive() {
					t.Fatal(stream.Err())
				}
				if kind == "cancel" {
					cancel()
				}
				select {
				case result := <-impl.results:
					if result.ctxErr == nil {
						t.Errorf("handler's context was not cancelled")
					}
					if result.receiveErr == nil {
						t.Fatalf("handler's Sends all succeeded")
					}
					got := connect.CodeOf(result.receiveErr)
					if got != connect.CodeCanceled && got != connect.CodeDeadlineExceeded {
						t.Errorf("client's context ended; handler's context: %v; expected the handler's failing Send to fail "+
							"with canceled or deadline_exceeded, got %v (error: %v)", result.ctxErr, got, result.receiveErr)
					}
				case <-time.After(10 * time.Second):
					t.Fatal("handler did not finish")
				}
			})
		}
	}
}

package connect_test

import (
	"context"
	"net/http"
	"net/http/httptest"
	"testing"

	connect "github.com/bufbuild/connect-go"
	pingv1 "github.com/bufbuild/connect-go/internal/gen/connect/ping/v1"
	"github.com/bufbuild/connect-go/internal/gen/connect/ping/v1/pingv1connect"
)

// statusRecorder is the classic logging / metrics middleware: it wraps the
// ResponseWriter to remember the status code. Like most such wrappers it
// implements exactly http.ResponseWriter - http.Flusher is an optional
// interface, and connect-go itself treats it as optional
// (flushResponseWriter: "if f, ok := w.(http.Flusher); ok").
type huntAStatusRecorder struct {
	w      http.ResponseWriter
	status int
}

func (r *huntAStatusRecorder) Header() http.Header         { return r.w.Header() }
func (r *huntAStatusRecorder) Write(b []byte) (int, error) { return r.w.Write(b) }
func (r *huntAStatusRecorder) WriteHeader(status int) {
	r.status = status
	r.w.WriteHeader(status)
}

type huntAPingServer struct {
	pingv1connect.UnimplementedPingServiceHandler
}

func (huntAPingServer) Ping(_ context.Context, req *connect.Request[pingv1.PingRequest]) (*connect.Response[pingv1.PingResponse], error) {
	return connect.NewResponse(&pingv1.PingResponse{Number: req.Msg.Number, Text: req.Msg.Text}), nil
}

func (huntAPingServer) CountUp(_ context.Context, req *connect.Request[pingv1.CountUpRequest], stream *connect.ServerStream[pingv1.CountUpResponse]) error {
	for i := int64(1); i <= req.Msg.Number; i++ {
		if err := stream.Send(&pingv1.CountUpResponse{Number: i}); err != nil {
			return err
		}
	}
	return nil
}

func (huntAPingServer) Sum(_ context.Context, stream *connect.ClientStream[pingv1.SumRequest]) (*connect.Response[pingv1.SumResponse], error) {
	var sum int64
	for stream.Receive() {
		sum += stream.Msg().Number
	}
	if stream.Err() != nil {
		return nil, stream.Err()
	}
	return connect.NewResponse(&pingv1.SumResponse{Sum: sum}), nil
}

// C01, gRPC protocol x HTTP/1.1 x {unary, client, server streaming}: the
// messages a handler sends must reach the client, followed by a clean end of
// stream. connect-go serves gRPC over HTTP/1.1 (chunked body + HTTP/1.1
// trailers; it only refuses HTTP/1.0), and the same calls succeed when the
// ResponseWriter happens to be an http.Flusher (control below). Behind a
// wrapper that is only an http.ResponseWriter the handler's grpc-status
// trailers are lost for every successful response that fits net/http's write
// buffer, and the client reports a failed call although the handler sent the
// message(s) and returned nil.
func TestHuntA_GRPCOverHTTP1WithoutFlusherLosesTheResponse(t *testing.T) {
	mux := http.NewServeMux()
	mux.Handle(pingv1connect.NewPingServiceHandler(huntAPingServer{}))

	run := func(t *testing.T, handler http.Handler, h2 bool) {
		t.Helper()
		server := httptest.NewUnstartedServer(handler)
		server.EnableHTTP2 = h2
		server.StartTLS()
		defer server.Close()
		client := pingv1connect.NewPingServiceClient(server.Client(), server.URL, connect.WithGRPC())

		// unary
		res, err := client.Ping(context.Background(), connect.NewRequest(&pingv1.PingRequest{Number: 42, Text: "hello"}))
		if err != nil {
			t.Errorf("unary: the handler sent PingResponse{42, hello} and returned nil; expected the client to receive it, got error: %v", err)
		} else if res.Msg.Number != 42 || res.Msg.Text != "hello" {
			t.Errorf("unary: got %v", res.Msg)
		}

		// server streaming
		stream, err := client.CountUp(context.Background(), connect.NewRequest(&pingv1.CountUpRequest{Number: 3}))
		if err != nil {
			t.Fatalf("server stream: %v", err)
		}
		var got []int64
		for stream.Receive() {
			got = append(got, stream.Msg().Number)
		}
		if err := stream.Err(); err != nil {
			t.Errorf("server stream: the handler sent 1,2,3 and returned nil; expected 3 messages and a clean end of stream, got %v and then error: %v", got, err)
		} else if len(got) != 3 {
			t.Errorf("server stream: got %v", got)
		}
		_ = stream.Close()

		// client streaming
		sum := client.Sum(context.Background())
		for i := int64(1); i <= 3; i++ {
			if err := sum.Send(&pingv1.SumRequest{Number: i}); err != nil {
				t.Errorf("client stream send: %v", err)
			}
		}
		sumRes, err := sum.CloseAndReceive()
		if err != nil {
			t.Errorf("client stream: the handler received 1,2,3, sent SumResponse{6} and returned nil; expected the client to receive it, got error: %v", err)
		} else if sumRes.Msg.Sum != 6 {
			t.Errorf("client stream: got %v", sumRes.Msg)
		}
	}

	withoutFlusher := http.HandlerFunc(func(w http.ResponseWriter, r *http.Request) {
		mux.ServeHTTP(&huntAStatusRecorder{w: w}, r)
	})
	// What a repair inside grpcHandlerConn would amount to: announce the
	// trailers gRPC always sends before the header is written, so that
	// net/http keeps the HTTP/1.1 response chunked and sends them.
	withoutFlusherButDeclared := http.HandlerFunc(func(w http.ResponseWriter, r *http.Request) {
		w.Header().Set("Trailer", "Grpc-Status, Grpc-Message, Grpc-Status-Details-Bin")
		mux.ServeHTTP(&huntAStatusRecorder{w: w}, r)
	})

	t.Run("control/http1.1/flusher", func(t *testing.T) { run(t, mux, false) })
	t.Run("control/http2/no-flusher", func(t *testing.T) { run(t, withoutFlusher, true) })
	t.Run("control/http1.1/no-flusher/trailers-declared", func(t *testing.T) { run(t, withoutFlusherButDeclared, false) })
	t.Run("http1.1/no-flusher", func(t *testing.T) { run(t, withoutFlusher, false) })
}

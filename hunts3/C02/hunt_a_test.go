package connect_test

import (
	"context"
	"errors"
	"net/http"
	"net/http/httptest"
	"strings"
	"sync"
	"testing"
	"time"

	connect "github.com/bufbuild/connect-go"
	pingv1 "github.com/bufbuild/connect-go/internal/gen/connect/ping/v1"
	"github.com/bufbuild/connect-go/internal/gen/connect/ping/v1/pingv1connect"
	"google.golang.org/protobuf/types/known/anypb"
	"google.golang.org/protobuf/types/known/durationpb"
)

// huntAUploadServer rejects an upload after looking at its first message.
type huntAUploadServer struct {
	pingv1connect.UnimplementedPingServiceHandler
	text string
}

func (s *huntAUploadServer) Sum(
	_ context.Context,
	stream *connect.ClientStream[pingv1.SumRequest],
) (*connect.Response[pingv1.SumResponse], error) {
	stream.Receive() // the first message is all the handler needs to see
	err := connect.NewError(connect.CodeResourceExhausted, errors.New(s.text))
	detail, _ := anypb.New(durationpb.New(7 * time.Second))
	err.AddDetail(detail)
	err.Meta().Set("X-Quota", "exceeded")
	return nil, err
}

// huntAIncompressible returns n bytes of ASCII that gzip cannot shrink much.
func huntAIncompressible(n int) string {
	var b strings.Builder
	x := uint64(88172645463325252)
	for b.Len() < n {
		x ^= x << 13
		x ^= x >> 7
		x ^= x << 17
		b.WriteByte("0123456789abcdefghijklmnopqrstuvwxyzABCDEFGHIJKLMNOPQRSTUVWXYZ-_"[x&63])
	}
	return b.String()
}

// huntAResponseSeen tells the test when the HTTP client has handed the
// response to connect-go.
type huntAResponseSeen struct {
	http.RoundTripper
	once sync.Once
	seen chan struct{}
}

func (r *huntAResponseSeen) RoundTrip(req *http.Request) (*http.Response, error) {
	res, err := r.RoundTripper.RoundTrip(req)
	r.once.Do(func() { close(r.seen) })
	return res, err
}

// TestHuntAHandlerErrorLostOnHTTP1Upload: over HTTP/1.1 a client-streaming
// handler returns an error after the first message, while the client goes on
// uploading. net/http's HTTP/1.1 server sends the answer once 256 KiB more of
// the request have come in, and is through with the request then. The HTTP
// client hands that answer to connect-go - but Send keeps accepting messages
// (about 100 000 of them here) instead of reporting io.EOF, as its
// documentation promises "if the server returns an error", and as it does
// over HTTP/2. The caller therefore keeps uploading into a request nobody
// reads, the server closes the connection, the client's transport fails its
// write and throws away whatever part of the response it had not read yet.
// CloseAndReceive then reports a transport failure, and the handler's error
// - code, message, details and metadata - is gone, although it had reached
// the client long before.
func TestHuntAHandlerErrorLostOnHTTP1Upload(t *testing.T) {
	t.Parallel()
	for _, tc := range []struct {
		name string
		opts []connect.ClientOption
		text string
	}{
		// gRPC carries the error in HTTP trailers, which net/http sends in a
		// segment of their own after the (flushed) headers.
		{"grpc", []connect.ClientOption{connect.WithGRPC()}, "quota exceeded"},
		// Connect carries it in the body; it is lost as soon as it does not
		// fit the 4 KiB the transport buffered along with the headers.
		{"connect", nil, "quota exceeded: " + huntAIncompressible(64*1024)},
	} {
		tc := tc
		t.Run(tc.name, func(t *testing.T) {
			mux := http.NewServeMux()
			mux.Handle(pingv1connect.NewPingServiceHandler(&huntAUploadServer{text: tc.text}))
			server := httptest.NewServer(mux) // HTTP/1.1
			defer server.Close()
			seen := &huntAResponseSeen{RoundTripper: server.Client().Transport, seen: make(chan struct{})}
			client := pingv1connect.NewPingServiceClient(&http.Client{Transport: seen}, server.URL, tc.opts...)

			stream := client.Sum(context.Background())
			if err := stream.Send(&pingv1.SumRequest{Number: 1}); err != nil {
				t.Fatalf("first Send: %v", err)
			}
			// An uploader goes on for as long as Send lets it. (net/http's
			// HTTP/1.1 server answers once the handler has returned and 256 KiB
			// more of the request have come in.)
			sendsAfterAnswer := 0
			var sendErr error
			for i := 0; i < 2_000_000; i++ { // at most ~30 MiB on the wire
				answered := false
				select {
				case <-seen.seen:
					answered = true
				default:
				}
				if sendErr = stream.Send(&pingv1.SumRequest{Number: int64(1) << 62}); sendErr != nil {
					break
				}
				if answered {
					sendsAfterAnswer++
				}
			}
			t.Logf("Send accepted %d more messages after the HTTP client had returned the server's answer; then: %v", sendsAfterAnswer, sendErr)
			_, err := stream.CloseAndReceive()
			var connectErr *connect.Error
			if !errors.As(err, &connectErr) {
				t.Fatalf("expected the handler's error, got %v", err)
			}
			if connectErr.Code() != connect.CodeResourceExhausted ||
				connectErr.Message() != tc.text ||
				len(connectErr.Details()) != 1 ||
				connectErr.Meta().Get("X-Quota") != "exceeded" {
				msg := connectErr.Message()
				if len(msg) > 200 {
					msg = msg[:200] + "..."
				}
				t.Fatalf("handler returned resource_exhausted %q with 1 detail and X-Quota metadata; "+
					"client got code=%v message=%q details=%d X-Quota=%q (Send had accepted %d more messages after the answer arrived)",
					tc.text[:14], connectErr.Code(), msg, len(connectErr.Details()), connectErr.Meta().Get("X-Quota"), sendsAfterAnswer)
			}
		})
	}
}

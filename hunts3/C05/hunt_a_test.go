package connect_test

import (
	"context"
	"net/http"
	"net/http/httptest"
	"testing"

	connect "github.com/bufbuild/connect-go"
	pingv1 "github.com/bufbuild/connect-go/internal/gen/connect/ping/v1"
	"github.com/bufbuild/connect-go/internal/gen/connect/ping/v1/pingv1connect"
)

type huntABackend struct {
	pingv1connect.UnimplementedPingServiceHandler
}

func (huntABackend) Ping(_ context.Context, req *connect.Request[pingv1.PingRequest]) (*connect.Response[pingv1.PingResponse], error) {
	res := connect.NewResponse(&pingv1.PingResponse{Number: req.Msg.Number, Text: req.Msg.Text})
	res.Header().Set("X-Backend", "yes")
	return res, nil
}

type huntAGateway struct {
	pingv1connect.UnimplementedPingServiceHandler
	backend pingv1connect.PingServiceClient
}

func (g huntAGateway) Ping(ctx context.Context, req *connect.Request[pingv1.PingRequest]) (*connect.Response[pingv1.PingResponse], error) {
	return g.backend.Ping(ctx, connect.NewRequest(req.Msg))
}

func huntAServe(t *testing.T, svc pingv1connect.PingServiceHandler) *httptest.Server {
	t.Helper()
	mux := http.NewServeMux()
	mux.Handle(pingv1connect.NewPingServiceHandler(svc))
	server := httptest.NewUnstartedServer(mux)
	server.EnableHTTP2 = true
	server.StartTLS()
	t.Cleanup(server.Close)
	return server
}

func TestHuntAForwardedResponse(t *testing.T) {
	backend := huntAServe(t, huntABackend{})
	for _, bc := range []struct {
		name string
		opts []connect.ClientOption
	}{
		{"backend=connect", nil},
		{"backend=grpc", []connect.ClientOption{connect.WithGRPC()}},
		{"backend=grpcweb", []connect.ClientOption{connect.WithGRPCWeb()}},
	} {
		gateway := huntAServe(t, huntAGateway{backend: pingv1connect.NewPingServiceClient(backend.Client(), backend.URL, bc.opts...)})
		for _, fc := range []struct {
			name string
			opts []connect.ClientOption
		}{
			{"front=connect", nil},
			{"front=connect+json", []connect.ClientOption{connect.WithProtoJSON()}},
			{"front=grpc", []connect.ClientOption{connect.WithGRPC()}},
			{"front=grpcweb", []connect.ClientOption{connect.WithGRPCWeb()}},
		} {
			t.Run(bc.name+"/"+fc.name, func(t *testing.T) {
				client := pingv1connect.NewPingServiceClient(gateway.Client(), gateway.URL, fc.opts...)
				res, err := client.Ping(context.Background(), connect.NewRequest(&pingv1.PingRequest{Number: 42, Text: "hello"}))
				if err != nil {
					t.Fatalf("gateway returned the backend's response (number 42, text hello, X-Backend: yes); expected the caller to receive it, got error: %v", err)
				}
				if res.Msg.Number != 42 || res.Msg.Text != "hello" {
					t.Fatalf("expected message {42 hello}, got %v", res.Msg)
				}
				if got := res.Header().Values("Content-Type"); len(got) != 1 {
					t.Errorf("expected exactly one Content-Type on the gateway's response, got %q", got)
				}
				if got := res.Header().Get("X-Backend"); got != "yes" {
					t.Errorf("expected X-Backend: yes, got %q", got)
				}
			})
		}
	}
}

package connect_test

import (
	"context"
	"net/http"
	"net/http/httptest"
	"sync"
	"testing"

	connect "github.com/bufbuild/connect-go"
	pingv1 "github.com/bufbuild/connect-go/internal/gen/connect/ping/v1"
	"github.com/bufbuild/connect-go/internal/gen/connect/ping/v1/pingv1connect"
)

type huntBBackend struct {
	pingv1connect.UnimplementedPingServiceHandler
}

func (huntBBackend) CountUp(_ context.Context, req *connect.Request[pingv1.CountUpRequest], stream *connect.ServerStream[pingv1.CountUpResponse]) error {
	for i := int64(1); i <= req.Msg.Number; i++ {
		if err := stream.Send(&pingv1.CountUpResponse{Number: i}); err != nil {
			return err
		}
	}
	return nil
}

// huntBGateway passes the request it was handed on to a backend, and copies
// the backend's stream to its caller.
type huntBGateway struct {
	pingv1connect.UnimplementedPingServiceHandler
	backend pingv1connect.PingServiceClient
}

func (g huntBGateway) CountUp(ctx context.Context, req *connect.Request[pingv1.CountUpRequest], stream *connect.ServerStream[pingv1.CountUpResponse]) error {
	upstream, err := g.backend.CountUp(ctx, req)
	if err != nil {
		return err
	}
	defer upstream.Close()
	for upstream.Receive() {
		if err := stream.Send(upstream.Msg()); err != nil {
			return err
		}
	}
	return upstream.Err()
}

func TestHuntBForwardedRequest(t *testing.T) {
	var (
		mu   sync.Mutex
		seen []http.Header
	)
	backendMux := http.NewServeMux()
	path, handler := pingv1connect.NewPingServiceHandler(huntBBackend{})
	backendMux.Handle(path, http.HandlerFunc(func(w http.ResponseWriter, r *http.Request) {
		mu.Lock()
		seen = append(seen, r.Header.Clone())
		mu.Unlock()
		handler.ServeHTTP(w, r)
	}))
	backend := httptest.NewUnstartedServer(backendMux)
	backend.EnableHTTP2 = true
	backend.StartTLS()
	defer backend.Close()

	protocols := []struct {
		name string
		opts []connect.ClientOption
	}{
		{"connect", nil},
		{"grpc", []connect.ClientOption{connect.WithGRPC()}},
		{"grpcweb", []connect.ClientOption{connect.WithGRPCWeb()}},
	}
	for _, back := range protocols {
		gatewayMux := http.NewServeMux()
		gatewayMux.Handle(pingv1connect.NewPingServiceHandler(huntBGateway{
			backend: pingv1connect.NewPingServiceClient(backend.Client(), backend.URL, back.opts...),
		}))
		gateway := httptest.NewUnstartedServer(gatewayMux)
		gateway.EnableHTTP2 = true
		gateway.StartTLS()
		defer gateway.Close()
		for _, front := range protocols {
			t.Run("front="+front.name+"/backend="+back.name, func(t *testing.T) {
				mu.Lock()
				seen = nil
				mu.Unlock()
				client := pingv1connect.NewPingServiceClient(gateway.Client(), gateway.URL, front.opts...)
				stream, err := client.CountUp(context.Background(), connect.NewRequest(&pingv1.CountUpRequest{Number: 3}))
				if err != nil {
					t.Fatal(err)
				}
				defer stream.Close()
				var got []int64
				for stream.Receive() {
					got = append(got, stream.Msg().Number)
				}
				mu.Lock()
				defer mu.Unlock()
				for _, header := range seen {
					for _, key := range []string{"Content-Type", "Te", "User-Agent", "Accept-Encoding"} {
						if values := header.Values(key); len(values) > 1 {
							t.Errorf("request written by the gateway's client: expected one %s field, got %q", key, values)
						}
					}
				}
				if err := stream.Err(); err != nil {
					t.Fatalf("gateway forwards the call to a backend that answers 1, 2, 3: expected the caller to receive them, got %v and error: %v", got, err)
				}
				if len(got) != 3 {
					t.Fatalf("expected 3 messages, got %v", got)
				}
			})
		}
	}
}

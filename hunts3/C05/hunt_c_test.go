package connect_test

import (
	"context"
	"fmt"
	"io"
	"net/http"
	"net/http/httptest"
	"sync/atomic"
	"testing"

	connect "github.com/bufbuild/connect-go"
	pingv1 "github.com/bufbuild/connect-go/internal/gen/connect/ping/v1"
	"github.com/bufbuild/connect-go/internal/gen/connect/ping/v1/pingv1connect"
	"google.golang.org/protobuf/proto"
)

// huntCCodec is binary protobuf, except that it cannot marshal a PingRequest
// whose text is "unsendable" - and says so with an error that wraps io.EOF
// (its source of bytes ran dry, say).
type huntCCodec struct{}

func (huntCCodec) Name() string { return "proto" }
func (huntCCodec) Marshal(m any) ([]byte, error) {
	if req, ok := m.(*pingv1.PingRequest); ok && req.Text == "unsendable" {
		return nil, fmt.Errorf("cannot encode: %w", io.EOF)
	}
	return proto.Marshal(m.(proto.Message))
}
func (huntCCodec) Unmarshal(b []byte, m any) error { return proto.Unmarshal(b, m.(proto.Message)) }

type huntCServer struct {
	pingv1connect.UnimplementedPingServiceHandler
	ran atomic.Int32
}

func (s *huntCServer) Ping(_ context.Context, req *connect.Request[pingv1.PingRequest]) (*connect.Response[pingv1.PingResponse], error) {
	s.ran.Add(1)
	return connect.NewResponse(&pingv1.PingResponse{Number: req.Msg.Number, Text: req.Msg.Text}), nil
}

func TestHuntCUnmarshallableEOF(t *testing.T) {
	svc := &huntCServer{}
	mux := http.NewServeMux()
	mux.Handle(pingv1connect.NewPingServiceHandler(svc))
	server := httptest.NewUnstartedServer(mux)
	server.EnableHTTP2 = true
	server.StartTLS()
	defer server.Close()
	client := pingv1connect.NewPingServiceClient(server.Client(), server.URL, connect.WithCodec(huntCCodec{}))
	res, err := client.Ping(context.Background(), connect.NewRequest(&pingv1.PingRequest{Number: 42, Text: "unsendable"}))
	if err == nil {
		t.Errorf("the request message {42 unsendable} could not be marshalled: expected the call to fail, got response %v", res.Msg)
	} else {
		t.Logf("call error: %v", err)
	}
	if n := svc.ran.Load(); n != 0 {
		t.Errorf("the request message was never put on the wire: expected the handler not to run, it ran %d time(s) (with the zero message)", n)
	}
}

package connect_test

import (
	"context"
	"errors"
	"io"
	"net/http"
	"net/http/httptest"
	"strings"
	"testing"
	"time"

	"github.com/bufbuild/connect-go"
	pingv1 "github.com/bufbuild/connect-go/internal/gen/connect/ping/v1"
)

// Property C06: for any HTTP response whatsoever, every client call
// terminates and either succeeds or returns a coded non-OK error; for a
// non-200 response without a protocol-level error the code comes from the
// HTTP status.
//
// The response here is an ordinary early rejection over HTTP/2: status 412,
// a few headers, a short body, sent (flushed) as soon as the request headers
// arrive. Like many servers and middlewares, this one then drains what is
// left of the request body before it returns, which is when the response
// stream ends.
//
// net/http's HTTP/2 transport stops uploading the request body as soon as it
// sees a status above 299, and tells the server so (RST_STREAM) only when the
// response body is closed or has ended. connect-go has the error in hand (it
// is derived from the status alone) but, before closing the response body,
// tries to read it to its end - an end that the server will not send before
// it has seen the end of the request, which the transport will not send any
// more. Without a deadline on the context the call never returns.
func earlyRejectingServer(t *testing.T, status int) *httptest.Server {
	t.Helper()
	server := httptest.NewUnstartedServer(http.HandlerFunc(func(w http.ResponseWriter, r *http.Request) {
		w.Header().Set("Content-Type", "text/plain")
		w.WriteHeader(status)
		_, _ = io.WriteString(w, "precondition failed\n")
		w.(http.Flusher).Flush()
		// Drain the request, as handlers commonly do, then finish.
		_, _ = io.Copy(io.Discard, r.Body)
	}))
	server.EnableHTTP2 = true
	server.StartTLS()
	t.Cleanup(server.Close)
	return server
}

func protocolOptions(withConnect bool) map[string][]connect.ClientOption {
	options := map[string][]connect.ClientOption{
		"grpc":    {connect.WithGRPC()},
		"grpcweb": {connect.WithGRPCWeb()},
	}
	if withConnect {
		options["connect"] = nil
	}
	return options
}

type callResult struct {
	err error
}

func expectCodedWithin(t *testing.T, what string, cancel context.CancelFunc, results <-chan callResult, want connect.Code) {
	t.Helper()
	select {
	case res := <-results:
		var connectErr *connect.Error
		if !errors.As(res.err, &connectErr) {
			t.Fatalf("%s: expected a *connect.Error with code %v, got %T: %v", what, want, res.err, res.err)
		}
		if connectErr.Code() != want {
			t.Fatalf("%s: expected code %v (from HTTP status 412), got %v: %v", what, want, connectErr.Code(), res.err)
		}
	case <-time.After(5 * time.Second):
		// Let the test end: cancelling is the only thing that frees the call.
		cancel()
		select {
		case res := <-results:
			t.Fatalf("%s: expected the call to return a %v error once the server had answered 412; "+
				"it was still blocked 5s later and returned only after its context was cancelled (with: %v)",
				what, want, res.err)
		case <-time.After(5 * time.Second):
			t.Fatalf("%s: expected the call to return a %v error once the server had answered 412; "+
				"it was still blocked 5s later, and 5s after its context was cancelled", what, want)
		}
	}
}

func TestHuntA_UnaryCallNeverReturnsAfterEarlyNon200(t *testing.T) {
	server := earlyRejectingServer(t, http.StatusPreconditionFailed)
	// (Not the Connect protocol here: a unary Connect client has to read the
	// body of a non-200 response to its end, to look for the error in it, so
	// there the wait is not of connect-go's choosing. See HUNT.md.)
	for name, opts := range protocolOptions(false) {
		name, opts := name, opts
		t.Run(name, func(t *testing.T) {
			want := connect.CodeUnknown // gRPC's mapping of 412
			client := connect.NewClient[pingv1.PingRequest, pingv1.PingResponse](
				server.Client(),
				server.URL+"/connect.ping.v1.PingService/Ping",
				opts...,
			)
			// Larger than the server's HTTP/2 receive window, so that the answer
			// arrives while the request body is still being uploaded.
			request := connect.NewRequest(&pingv1.PingRequest{Text: strings.Repeat("x", 8<<20)})
			ctx, cancel := context.WithCancel(context.Background()) // no deadline
			defer cancel()
			results := make(chan callResult, 1)
			go func() {
				_, err := client.CallUnary(ctx, request)
				results <- callResult{err}
			}()
			expectCodedWithin(t, "CallUnary", cancel, results, want)
		})
	}
}

func TestHuntA_ClientStreamNeverReturnsAfterEarlyNon200(t *testing.T) {
	server := earlyRejectingServer(t, http.StatusPreconditionFailed)
	for name, opts := range protocolOptions(true) {
		name, opts := name, opts
		t.Run(name, func(t *testing.T) {
			want := connect.CodeFailedPrecondition // Connect's mapping of 412
			if name != "connect" {
				want = connect.CodeUnknown // gRPC's mapping of 412
			}
			client := connect.NewClient[pingv1.PingRequest, pingv1.PingResponse](
				server.Client(),
				server.URL+"/connect.ping.v1.PingService/Sum",
				opts...,
			)
			ctx, cancel := context.WithCancel(context.Background()) // no deadline
			defer cancel()
			results := make(chan callResult, 1)
			go func() {
				stream := client.CallClientStream(ctx)
				// Small messages, until the library says that the server has
				// answered (Send fails with an error wrapping io.EOF).
				for i := 0; i < 1000; i++ {
					if err := stream.Send(&pingv1.PingRequest{Number: 1}); err != nil {
						break
					}
					time.Sleep(5 * time.Millisecond)
				}
				_, err := stream.CloseAndReceive()
				results <- callResult{err}
			}()
			expectCodedWithin(t, "CloseAndReceive", cancel, results, want)
		})
	}
}

package connect_test

import (
	"bufio"
	"context"
	"errors"
	"fmt"
	"io"
	"net"
	"net/http"
	"net/http/httptest"
	"strings"
	"sync/atomic"
	"testing"
	"time"

	"github.com/bufbuild/connect-go"
	pingv1 "github.com/bufbuild/connect-go/internal/gen/connect/ping/v1"
	"github.com/bufbuild/connect-go/internal/gen/connect/ping/v1/pingv1connect"
)

// Property C07: "For any HTTP request whatsoever, serving it terminates ... and
// yields a response that is well-formed for the protocol selected by its
// Content-Type ... invalid timeouts ... reach the peer as the documented error
// codes".
//
// The request here is an ordinary HTTP/1.1 POST that announces its body with
// "Expect: 100-continue" (RFC 7231 section 5.1.1): the client holds the body
// back until the server says "100 Continue" or answers with a final status,
// and once it has a final status it does not send the body at all. Go's own
// http.Transport works like that (ExpectContinueTimeout, 1s in
// http.DefaultTransport), and so does curl for bodies over 1 MiB.
//
// When the handler rejects such a request before reading the body (invalid
// timeout, unknown compression - everything ServeHTTP checks up front), the
// protocol's Close writes the rejection and then calls request.Body.Close()
// itself. On an HTTP/1.1 server that call reads the unread body from the
// connection (up to 256 KiB, net/http's "early close"), without sending
// "100 Continue" - and the body is not coming:
//
//   - gRPC: Close has flushed "HTTP/1.1 200 OK" by then, but grpc-status lives
//     in the HTTP trailers, which net/http writes when the handler returns. The
//     client has its final status, sends no body and waits for the rest of the
//     response; the handler waits for the body. Nobody moves until the client
//     gives up: serving does not terminate and the rejection never arrives.
//   - Connect (unary and streaming): nothing has been flushed, so the server
//     sends neither "100 Continue" nor a final status (RFC 7231 says it MUST
//     send one of the two) until the client loses patience and sends the body
//     anyway.
type huntAPingServer struct {
	pingv1connect.UnimplementedPingServiceHandler
	ran *atomic.Int32
}

func (s huntAPingServer) Ping(_ context.Context, req *connect.Request[pingv1.PingRequest]) (*connect.Response[pingv1.PingResponse], error) {
	s.ran.Add(1)
	return connect.NewResponse(&pingv1.PingResponse{Number: req.Msg.Number}), nil
}

// Sum turns every caller away without looking at the request stream, the way
// an authorization check does.
func (s huntAPingServer) Sum(context.Context, *connect.ClientStream[pingv1.SumRequest]) (*connect.Response[pingv1.SumResponse], error) {
	return nil, connect.NewError(connect.CodePermissionDenied, errors.New("not for you"))
}

type huntAHeaderClient struct {
	client *http.Client
	header http.Header
}

func (c huntAHeaderClient) Do(req *http.Request) (*http.Response, error) {
	for key, values := range c.header {
		req.Header[key] = values
	}
	return c.client.Do(req)
}

// huntAReadResponse reads from conn until the HTTP/1.1 response is complete
// (headers, and a chunked body up to and including its trailers) or the
// deadline passes. It returns what it has read and whether it was complete.
func huntAReadResponse(conn net.Conn, patience time.Duration) (string, bool) {
	_ = conn.SetReadDeadline(time.Now().Add(patience))
	reader := bufio.NewReader(conn)
	var raw strings.Builder
	tee := io.TeeReader(reader, &raw)
	response, err := http.ReadResponse(bufio.NewReader(tee), nil)
	if err != nil {
		return raw.String(), false
	}
	if _, err := io.Copy(io.Discard, response.Body); err != nil {
		return raw.String(), false
	}
	return raw.String(), true
}

func TestHuntA_ExpectContinueRejectionNeverCompletes(t *testing.T) {
	var ran atomic.Int32
	mux := http.NewServeMux()
	mux.Handle(pingv1connect.NewPingServiceHandler(huntAPingServer{ran: &ran}))
	server := httptest.NewServer(mux) // HTTP/1.1
	t.Cleanup(func() {
		server.Close()
		if n := ran.Load(); n != 0 {
			t.Errorf("Ping's user code ran %d times for requests that must be rejected", n)
		}
	})

	const patience = 3 * time.Second

	// A client that does what "Expect: 100-continue" is for: no body until the
	// server has said something.
	rawRequest := func(method, contentType, extraHeader string, bodyLen int) string {
		return fmt.Sprintf(
			"POST /connect.ping.v1.PingService/%s HTTP/1.1\r\n"+
				"Host: example\r\n"+
				"Content-Type: %s\r\n"+
				"%s\r\n"+
				"Expect: 100-continue\r\n"+
				"Content-Length: %d\r\n"+
				"\r\n",
			method, contentType, extraHeader, bodyLen,
		)
	}
	for _, testcase := range []struct {
		name, method, contentType, header, mustContain string
	}{
		{"grpc_invalid_timeout", "Ping", "application/grpc", "Grpc-Timeout: zz", "Grpc-Status: 3"},
		{"grpc_unknown_compression", "Ping", "application/grpc", "Grpc-Encoding: br", "Grpc-Status: 12"},
		{"grpc_user_code_rejects_unread_stream", "Sum", "application/grpc", "X-Nothing: wrong", "Grpc-Status: 7"},
		{"grpcweb_invalid_timeout", "Ping", "application/grpc-web", "Grpc-Timeout: zz", "Grpc-Status: 3"},
		{"connect_unary_invalid_timeout", "Ping", "application/proto", "Connect-Timeout-Ms: zz", "invalid_argument"},
		{"connect_unary_unknown_compression", "Ping", "application/proto", "Content-Encoding: br", "unimplemented"},
		{"connect_stream_unknown_compression", "Sum", "application/connect+proto", "Connect-Content-Encoding: br", "unimplemented"},
	} {
		testcase := testcase
		t.Run("raw/"+testcase.name, func(t *testing.T) {
			t.Parallel()
			conn, err := net.Dial("tcp", server.Listener.Addr().String())
			if err != nil {
				t.Fatal(err)
			}
			defer conn.Close()
			if _, err := conn.Write([]byte(rawRequest(testcase.method, testcase.contentType, testcase.header, 7))); err != nil {
				t.Fatal(err)
			}
			got, complete := huntAReadResponse(conn, patience)
			if !complete || !strings.Contains(got, testcase.mustContain) {
				t.Errorf(
					"request with %q and Expect: 100-continue, body withheld as the expectation allows:\n"+
						"expected a complete response carrying %q (the handler rejects the request without needing the body),\n"+
						"got after %v: complete=%v, bytes on the wire: %q",
					testcase.header, testcase.mustContain, patience, complete, got,
				)
			}
		})
	}

	// The same thing with connect-go's own client on a stock Go transport.
	t.Run("client/grpc_invalid_timeout", func(t *testing.T) {
		t.Parallel()
		transport := &http.Transport{ExpectContinueTimeout: time.Second} // as in http.DefaultTransport
		defer transport.CloseIdleConnections()
		client := pingv1connect.NewPingServiceClient(
			huntAHeaderClient{
				client: &http.Client{Transport: transport},
				header: http.Header{
					"Expect":       []string{"100-continue"},
					"Grpc-Timeout": []string{"zz"}, // overrides whatever the client computed
				},
			},
			server.URL,
			connect.WithGRPC(),
		)
		ctx, cancel := context.WithTimeout(context.Background(), patience)
		defer cancel()
		start := time.Now()
		_, err := client.Ping(ctx, connect.NewRequest(&pingv1.PingRequest{Number: 1}))
		if code := connect.CodeOf(err); code != connect.CodeInvalidArgument {
			t.Errorf(
				"gRPC over HTTP/1.1, invalid Grpc-Timeout, Expect: 100-continue on a stock http.Transport:\n"+
					"expected the handler's rejection (invalid_argument) to reach the client,\n"+
					"got %v after %v (the call only ended because the caller's own context ran out)",
				err, time.Since(start).Round(time.Millisecond),
			)
		}
	})
}

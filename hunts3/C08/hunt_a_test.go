package connect_test

import (
	"bytes"
	"compress/zlib"
	"context"
	"errors"
	"io"
	"net/http"
	"net/http/httptest"
	"testing"

	connect "github.com/bufbuild/connect-go"
	pingv1 "github.com/bufbuild/connect-go/internal/gen/connect/ping/v1"
)

// A zlib Decompressor for the hunt ("zl" is an algorithm only the backend hop
// knows; the gateway's own handler and the downstream client only have gzip).
type huntAZlibReader struct{ r io.ReadCloser }

func (d *huntAZlibReader) Read(p []byte) (int, error) {
	if d.r == nil {
		return 0, errors.New("zlib: not ready")
	}
	return d.r.Read(p)
}

func (d *huntAZlibReader) Close() error {
	if d.r == nil {
		return nil
	}
	return d.r.Close()
}

func (d *huntAZlibReader) Reset(r io.Reader) error {
	if d.r == nil {
		zr, err := zlib.NewReader(r)
		if err != nil {
			return err
		}
		d.r = zr
		return nil
	}
	return d.r.(zlib.Resetter).Reset(r, nil)
}

func huntAZlib() (func() connect.Decompressor, func() connect.Compressor) {
	return func() connect.Decompressor { return &huntAZlibReader{} },
		func() connect.Compressor { return zlib.NewWriter(io.Discard) }
}

type huntADropAccept struct{}

func (huntADropAccept) WrapUnary(next connect.UnaryFunc) connect.UnaryFunc {
	return func(ctx context.Context, req connect.AnyRequest) (connect.AnyResponse, error) {
		if req.Spec().IsClient {
			// "Please don't compress the response": a legal request.
			req.Header().Del("Grpc-Accept-Encoding")
		}
		return next(ctx, req)
	}
}
func (huntADropAccept) WrapStreamingClient(next connect.StreamingClientFunc) connect.StreamingClientFunc {
	return next
}
func (huntADropAccept) WrapStreamingHandler(next connect.StreamingHandlerFunc) connect.StreamingHandlerFunc {
	return next
}

// A gateway handler that passes a backend's error on (return nil, err) answers
// a gRPC-Web call with the *backend hop's* Grpc-Encoding: an algorithm the
// gateway handler does not support and the downstream client neither used nor
// advertised. connect-go's own client refuses such a response ("unknown
// encoding"), so the real error is lost.
func TestHuntA_ForwardedErrorNamesForeignEncoding(t *testing.T) {
	newD, newC := huntAZlib()

	// Backend: supports zl, always fails with not_found.
	backendMux := http.NewServeMux()
	backendMux.Handle("/t.T/Ping", connect.NewUnaryHandler("/t.T/Ping",
		func(ctx context.Context, r *connect.Request[pingv1.PingRequest]) (*connect.Response[pingv1.PingResponse], error) {
			return nil, connect.NewError(connect.CodeNotFound, errors.New("no such thing"))
		},
		connect.WithCompression("zl", newD, newC),
	))
	backend := httptest.NewUnstartedServer(backendMux)
	backend.EnableHTTP2 = true
	backend.StartTLS()
	defer backend.Close()

	// Gateway: talks gRPC to the backend, preferring zl on that hop. Its own
	// handler supports gzip only (the default).
	backendClient := connect.NewClient[pingv1.PingRequest, pingv1.PingResponse](
		backend.Client(), backend.URL+"/t.T/Ping",
		connect.WithGRPC(),
		connect.WithAcceptCompression("zl", newD, newC),
	)
	userCodeRan := 0
	gatewayMux := http.NewServeMux()
	gatewayMux.Handle("/t.T/Ping", connect.NewUnaryHandler("/t.T/Ping",
		func(ctx context.Context, r *connect.Request[pingv1.PingRequest]) (*connect.Response[pingv1.PingResponse], error) {
			userCodeRan++
			res, err := backendClient.CallUnary(ctx, connect.NewRequest(r.Msg))
			if err != nil {
				return nil, err // pass the backend's error on
			}
			return connect.NewResponse(res.Msg), nil
		},
	))
	gateway := httptest.NewServer(gatewayMux)
	defer gateway.Close()

	// (1) On the wire: a gRPC-Web client that advertises no compression at all.
	body := []byte{0, 0, 0, 0, 0} // one empty, uncompressed message
	req, err := http.NewRequest(http.MethodPost, gateway.URL+"/t.T/Ping", bytes.NewReader(body))
	if err != nil {
		t.Fatal(err)
	}
	req.Header.Set("Content-Type", "application/grpc-web+proto")
	req.Header.Set("Accept-Encoding", "identity")
	res, err := gateway.Client().Do(req)
	if err != nil {
		t.Fatal(err)
	}
	_, _ = io.Copy(io.Discard, res.Body)
	res.Body.Close()
	if got := res.Header.Values("Grpc-Encoding"); len(got) != 0 {
		t.Errorf("request used no compression and advertised none, and the handler supports only gzip: "+
			"expected no Grpc-Encoding on the response, got %q (grpc-status %q, Grpc-Accept-Encoding %q)",
			got, res.Header.Get("Grpc-Status"), res.Header.Values("Grpc-Accept-Encoding"))
	}

	// (2) Through connect-go's own gRPC-Web client, asking for an uncompressed
	// response: the backend's not_found should arrive.
	client := connect.NewClient[pingv1.PingRequest, pingv1.PingResponse](
		gateway.Client(), gateway.URL+"/t.T/Ping",
		connect.WithGRPCWeb(),
		connect.WithInterceptors(huntADropAccept{}),
	)
	_, err = client.CallUnary(context.Background(), connect.NewRequest(&pingv1.PingRequest{}))
	if connect.CodeOf(err) != connect.CodeNotFound {
		t.Errorf("expected the backend's not_found to reach the client, got: %v", err)
	}
	if userCodeRan != 2 {
		t.Errorf("gateway handler ran %d times, expected 2", userCodeRan)
	}
}

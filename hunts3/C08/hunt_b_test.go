package connect_test

import (
	"compress/zlib"
	"context"
	"errors"
	"io"
	"net/http"
	"net/http/httptest"
	"testing"

	connect "github.com/bufbuild/connect-go"
	pingv1 "github.com/bufbuild/connect-go/internal/gen/connect/ping/v1"
)

// The gRPC (and gRPC-Web) client writes Grpc-Encoding into the caller's header
// map when it has a send compression, and never takes it out when it has
// none. A Request that went through a compressing client (or that arrived at a
// handler from a compressing peer and is passed on) therefore makes a client
// WITHOUT send compression claim a compression it neither uses nor knows:
//   - a handler that lacks the algorithm rejects the (uncompressed) call as
//     unimplemented;
//   - a handler that has it answers in it, as negotiated, and the client cannot
//     decode the response.
func TestHuntB_StaleGrpcEncodingOnResentRequest(t *testing.T) {
	newD := func() connect.Decompressor { return &huntBZlibReader{} }
	newC := func() connect.Compressor { return zlib.NewWriter(io.Discard) }
	echo := func(ctx context.Context, r *connect.Request[pingv1.PingRequest]) (*connect.Response[pingv1.PingResponse], error) {
		return connect.NewResponse(&pingv1.PingResponse{Text: r.Msg.Text}), nil
	}
	newServer := func(opts ...connect.HandlerOption) *httptest.Server {
		mux := http.NewServeMux()
		mux.Handle("/t.T/Ping", connect.NewUnaryHandler("/t.T/Ping", echo, opts...))
		server := httptest.NewUnstartedServer(mux)
		server.EnableHTTP2 = true
		server.StartTLS()
		t.Cleanup(server.Close)
		return server
	}
	withZl := newServer(connect.WithCompression("zl", newD, newC))
	gzipOnly := newServer()

	for _, protocol := range []struct {
		name string
		opt  connect.ClientOption
	}{{"grpc", connect.WithGRPC()}, {"grpcweb", connect.WithGRPCWeb()}} {
		// A compresses its requests with zl; B and C use the defaults: no send
		// compression, gzip accepted.
		clientA := connect.NewClient[pingv1.PingRequest, pingv1.PingResponse](
			withZl.Client(), withZl.URL+"/t.T/Ping", protocol.opt,
			connect.WithAcceptCompression("zl", newD, newC),
			connect.WithSendCompression("zl"),
		)
		clientB := connect.NewClient[pingv1.PingRequest, pingv1.PingResponse](
			gzipOnly.Client(), gzipOnly.URL+"/t.T/Ping", protocol.opt)
		clientC := connect.NewClient[pingv1.PingRequest, pingv1.PingResponse](
			withZl.Client(), withZl.URL+"/t.T/Ping", protocol.opt)

		req := connect.NewRequest(&pingv1.PingRequest{Text: "fan-out"})
		if _, err := clientA.CallUnary(context.Background(), req); err != nil {
			t.Fatalf("%s: client A: %v", protocol.name, err)
		}
		// Same Request, next backend.
		res, err := clientB.CallUnary(context.Background(), req)
		if err != nil {
			t.Errorf("%s: client B sends uncompressed messages to a gzip-only handler; expected success, got: %v (request header Grpc-Encoding=%q)",
				protocol.name, err, req.Header().Values("Grpc-Encoding"))
		} else if res.Msg.Text != "fan-out" {
			t.Errorf("%s: client B: wrong answer %q", protocol.name, res.Msg.Text)
		}
		req2 := connect.NewRequest(&pingv1.PingRequest{Text: "fan-out"})
		if _, err := clientA.CallUnary(context.Background(), req2); err != nil {
			t.Fatalf("%s: client A: %v", protocol.name, err)
		}
		res, err = clientC.CallUnary(context.Background(), req2)
		if err != nil {
			t.Errorf("%s: client C accepts gzip only and used no compression; expected a response it can decode, got: %v (request header Grpc-Encoding=%q)",
				protocol.name, err, req2.Header().Values("Grpc-Encoding"))
		} else if res.Msg.Text != "fan-out" {
			t.Errorf("%s: client C: wrong answer %q", protocol.name, res.Msg.Text)
		}
	}
}

// "zl": an algorithm that only some of the parties know.
type huntBZlibReader struct{ r io.ReadCloser }

func (d *huntBZlibReader) Read(p []byte) (int, error) {
	if d.r == nil {
		return 0, errors.New("zlib: not ready")
	}
	return d.r.Read(p)
}

func (d *huntBZlibReader) Close() error {
	if d.r == nil {
		return nil
	}
	return d.r.Close()
}

func (d *huntBZlibReader) Reset(r io.Reader) error {
	if d.r == nil {
		zr, err := zlib.NewReader(r)
		if err != nil {
			return err
		}
		d.r = zr
		return nil
	}
	return d.r.(zlib.Resetter).Reset(r, nil)
}

package connect_test

// BORDERLINE finding (see HUNT.md): a malformed timeout header is not reported
// as invalid_argument when the same request also names a request compression
// the handler does not know. Handler.ServeHTTP parses the timeout first, keeps
// the error aside, and then builds the connection - whose own failure path
// (compression negotiation) answers the call and returns before the timeout
// error is ever looked at.

import (
	"bytes"
	"context"
	"encoding/binary"
	"io"
	"net/http"
	"net/http/httptest"
	"regexp"
	"strings"
	"sync/atomic"
	"testing"

	connect "github.com/bufbuild/connect-go"
	pingv1 "github.com/bufbuild/connect-go/internal/gen/connect/ping/v1"
	"github.com/bufbuild/connect-go/internal/gen/connect/ping/v1/pingv1connect"
)

type huntAServer struct {
	pingv1connect.UnimplementedPingServiceHandler
	ran atomic.Int32
}

func (s *huntAServer) Ping(
	_ context.Context,
	_ *connect.Request[pingv1.PingRequest],
) (*connect.Response[pingv1.PingResponse], error) {
	s.ran.Add(1)
	return connect.NewResponse(&pingv1.PingResponse{}), nil
}

func TestHuntA_MalformedTimeoutLosesToUnknownCompression(t *testing.T) {
	srv := &huntAServer{}
	mux := http.NewServeMux()
	mux.Handle(pingv1connect.NewPingServiceHandler(srv))
	server := httptest.NewUnstartedServer(mux)
	server.EnableHTTP2 = true
	server.StartTLS()
	defer server.Close()

	codeRE := regexp.MustCompile(`"code":"([a-z_]+)"`)
	cases := []struct {
		name, contentType, timeoutHeader, timeout, encodingHeader string
		body                                                      []byte
		code                                                      func(*http.Response, []byte) string
	}{
		{
			name: "connect unary", contentType: "application/proto",
			timeoutHeader: "Connect-Timeout-Ms", timeout: "10s", encodingHeader: "Content-Encoding",
			code: func(_ *http.Response, body []byte) string {
				if m := codeRE.FindSubmatch(body); m != nil {
					return string(m[1])
				}
				return "?"
			},
		},
		{
			name: "grpc unary", contentType: "application/grpc",
			timeoutHeader: "Grpc-Timeout", timeout: "10", encodingHeader: "Grpc-Encoding",
			body: []byte{0, 0, 0, 0, 0},
			code: func(res *http.Response, _ []byte) string {
				if v := res.Header.Get("Grpc-Status"); v != "" {
					return "grpc-status " + v
				}
				return "grpc-status " + res.Trailer.Get("Grpc-Status")
			},
		},
		{
			name: "grpc-web unary", contentType: "application/grpc-web",
			timeoutHeader: "Grpc-Timeout", timeout: "123456789S", encodingHeader: "Grpc-Encoding",
			body: []byte{0, 0, 0, 0, 0},
			code: func(res *http.Response, body []byte) string {
				if v := res.Header.Get("Grpc-Status"); v != "" {
					return "grpc-status " + v
				}
				for len(body) >= 5 {
					size := binary.BigEndian.Uint32(body[1:5])
					if body[0]&0x80 != 0 {
						for _, line := range strings.Split(string(body[5:5+size]), "\r\n") {
							if strings.HasPrefix(strings.ToLower(line), "grpc-status:") {
								return "grpc-status " + strings.TrimSpace(line[len("grpc-status:"):])
							}
						}
					}
					body = body[5+size:]
				}
				return "?"
			},
		},
	}
	for _, tc := range cases {
		tc := tc
		t.Run(tc.name, func(t *testing.T) {
			for _, encoding := range []string{"", "zstd"} {
				request, err := http.NewRequest(
					http.MethodPost,
					server.URL+"/"+pingv1connect.PingServiceName+"/Ping",
					bytes.NewReader(tc.body),
				)
				if err != nil {
					t.Fatal(err)
				}
				request.Header.Set("Content-Type", tc.contentType)
				request.Header.Set(tc.timeoutHeader, tc.timeout) // malformed
				if encoding != "" {
					request.Header.Set(tc.encodingHeader, encoding) // not registered
				}
				srv.ran.Store(0)
				response, err := server.Client().Do(request)
				if err != nil {
					t.Fatal(err)
				}
				body, _ := io.ReadAll(response.Body)
				response.Body.Close()
				got := tc.code(response, body)
				if srv.ran.Load() != 0 {
					t.Errorf("encoding %q: user code ran on a request with malformed timeout %q", encoding, tc.timeout)
				}
				if got != "invalid_argument" && got != "grpc-status 3" {
					t.Errorf(
						"malformed %s %q with request encoding %q: expected the call to be rejected as invalid_argument (grpc-status 3), got %s (HTTP %d)",
						tc.timeoutHeader, tc.timeout, encoding, got, response.StatusCode,
					)
				}
			}
		})
	}
}

package connect_test

// Finding A: a User-Agent header that the client attaches to a unary or
// server-streaming call never reaches the handler; on client-streaming and
// bidi calls it does.

import (
	"context"
	"net/http"
	"net/http/httptest"
	"sync"
	"testing"

	connect "github.com/bufbuild/connect-go"
	pingv1 "github.com/bufbuild/connect-go/internal/gen/connect/ping/v1"
)

func TestHuntA_ClientUserAgentNotVisibleToHandler(t *testing.T) {
	const attached = "my-app/1.0"
	protocols := []struct {
		name string
		opts []connect.ClientOption
	}{
		{"connect", nil},
		{"grpc", []connect.ClientOption{connect.WithGRPC()}},
		{"grpcweb", []connect.ClientOption{connect.WithGRPCWeb()}},
	}
	var mu sync.Mutex
	seen := map[string]http.Header{}
	record := func(path string, h http.Header) {
		mu.Lock()
		defer mu.Unlock()
		seen[path] = h.Clone()
	}
	mux := http.NewServeMux()
	mux.Handle("/unary", connect.NewUnaryHandler("/unary",
		func(_ context.Context, r *connect.Request[pingv1.PingRequest]) (*connect.Response[pingv1.PingResponse], error) {
			record("/unary", r.Header())
			return connect.NewResponse(&pingv1.PingResponse{}), nil
		}))
	mux.Handle("/server", connect.NewServerStreamHandler("/server",
		func(_ context.Context, r *connect.Request[pingv1.CountUpRequest], _ *connect.ServerStream[pingv1.CountUpResponse]) error {
			record("/server", r.Header())
			return nil
		}))
	mux.Handle("/client", connect.NewClientStreamHandler("/client",
		func(_ context.Context, s *connect.ClientStream[pingv1.SumRequest]) (*connect.Response[pingv1.SumResponse], error) {
			record("/client", s.RequestHeader())
			return connect.NewResponse(&pingv1.SumResponse{}), nil
		}))
	mux.Handle("/bidi", connect.NewBidiStreamHandler("/bidi",
		func(_ context.Context, s *connect.BidiStream[pingv1.CumSumRequest, pingv1.CumSumResponse]) error {
			record("/bidi", s.RequestHeader())
			return nil
		}))
	server := httptest.NewUnstartedServer(mux)
	server.EnableHTTP2 = true
	server.StartTLS()
	defer server.Close()

	check := func(t *testing.T, path string) {
		t.Helper()
		mu.Lock()
		got := seen[path]
		mu.Unlock()
		if got.Get("X-Control") != "control" {
			t.Fatalf("%s: control header X-Control did not arrive: %v", path, got)
		}
		for _, v := range got["User-Agent"] {
			if v == attached {
				return
			}
		}
		t.Errorf("%s: client attached User-Agent %q (next to X-Control, which arrived); "+
			"expected the handler to see it, but the handler saw User-Agent = %q",
			path, attached, got["User-Agent"])
	}

	for _, proto := range protocols {
		proto := proto
		t.Run(proto.name+"/unary", func(t *testing.T) {
			client := connect.NewClient[pingv1.PingRequest, pingv1.PingResponse](server.Client(), server.URL+"/unary", proto.opts...)
			req := connect.NewRequest(&pingv1.PingRequest{})
			req.Header().Set("User-Agent", attached)
			req.Header().Set("X-Control", "control")
			if _, err := client.CallUnary(context.Background(), req); err != nil {
				t.Fatal(err)
			}
			check(t, "/unary")
		})
		t.Run(proto.name+"/server_stream", func(t *testing.T) {
			client := connect.NewClient[pingv1.CountUpRequest, pingv1.CountUpResponse](server.Client(), server.URL+"/server", proto.opts...)
			req := connect.NewRequest(&pingv1.CountUpRequest{})
			req.Header().Set("User-Agent", attached)
			req.Header().Set("X-Control", "control")
			stream, err := client.CallServerStream(context.Background(), req)
			if err != nil {
				t.Fatal(err)
			}
			for stream.Receive() {
			}
			if err := stream.Err(); err != nil {
				t.Fatal(err)
			}
			_ = stream.Close()
			check(t, "/server")
		})
		// For contrast: the same header on the other two RPC kinds arrives.
		t.Run(proto.name+"/client_stream(contrast)", func(t *testing.T) {
			client := connect.NewClient[pingv1.SumRequest, pingv1.SumResponse](server.Client(), server.URL+"/client", proto.opts...)
			stream := client.CallClientStream(context.Background())
			stream.RequestHeader().Set("User-Agent", attached)
			stream.RequestHeader().Set("X-Control", "control")
			if _, err := stream.CloseAndReceive(); err != nil {
				t.Fatal(err)
			}
			check(t, "/client")
		})
		t.Run(proto.name+"/bidi(contrast)", func(t *testing.T) {
			client := connect.NewClient[pingv1.CumSumRequest, pingv1.CumSumResponse](server.Client(), server.URL+"/bidi", proto.opts...)
			stream := client.CallBidiStream(context.Background())
			stream.RequestHeader().Set("User-Agent", attached)
			stream.RequestHeader().Set("X-Control", "control")
			if err := stream.CloseRequest(); err != nil {
				t.Fatal(err)
			}
			if _, err := stream.Receive(); err == nil {
				t.Fatal("expected end of stream")
			}
			_ = stream.CloseResponse()
			check(t, "/bidi")
		})
	}
}

package connect_test

// Finding B: a failed unary Connect call whose error body the client cannot
// decode (here: it is longer than the client's read limit) is reported with an
// error that carries none of the response's headers, although they arrived
// intact and the caller of CallUnary has no other way to see them.

import (
	"context"
	"errors"
	"net/http"
	"net/http/httptest"
	"reflect"
	"strings"
	"testing"

	connect "github.com/bufbuild/connect-go"
	pingv1 "github.com/bufbuild/connect-go/internal/gen/connect/ping/v1"
)

func TestHuntB_UnaryConnectErrorWithUndecodableBodyLosesMetadata(t *testing.T) {
	wantMeta := http.Header{
		"X-Meta":     {"a", "b, c", ""},
		"X-Meta-Bin": {connect.EncodeBinaryHeader([]byte{0, 1, 254, 255})},
	}
	mux := http.NewServeMux()
	mux.Handle("/unary", connect.NewUnaryHandler("/unary",
		func(_ context.Context, _ *connect.Request[pingv1.PingRequest]) (*connect.Response[pingv1.PingResponse], error) {
			err := connect.NewError(connect.CodeAborted, errors.New(strings.Repeat("x", 500)))
			for k, v := range wantMeta {
				err.Meta()[k] = v
			}
			return nil, err
		}))
	server := httptest.NewServer(mux)
	defer server.Close()

	call := func(opts ...connect.ClientOption) *connect.Error {
		client := connect.NewClient[pingv1.PingRequest, pingv1.PingResponse](server.Client(), server.URL+"/unary", opts...)
		_, err := client.CallUnary(context.Background(), connect.NewRequest(&pingv1.PingRequest{}))
		var connectErr *connect.Error
		if !errors.As(err, &connectErr) {
			t.Fatalf("expected a *connect.Error, got %v", err)
		}
		return connectErr
	}

	// Control: without a read limit everything arrives.
	control := call()
	for k, v := range wantMeta {
		if !reflect.DeepEqual(control.Meta()[k], v) {
			t.Fatalf("control: metadata %q = %q, want %q", k, control.Meta()[k], v)
		}
	}

	// The handler's error body is ~520 bytes; the client reads at most 100.
	limited := call(connect.WithReadMaxBytes(100))
	for k, v := range wantMeta {
		if got := limited.Meta()[k]; !reflect.DeepEqual(got, v) {
			t.Errorf("handler failed the call with metadata %q = %q; expected it in the error's metadata "+
				"(the HTTP headers arrived, only the body is over the read limit), got %q; error = %q, all metadata = %v",
				k, v, got, limited.Error(), limited.Meta())
		}
	}
}

package connect_test

// Finding C: error metadata under some ordinary end-to-end header names
// (Allow, Date, User-Agent) is silently dropped by the handler side in every
// protocol, while the same names set as response headers are delivered.

import (
	"context"
	"errors"
	"net/http"
	"net/http/httptest"
	"reflect"
	"testing"

	connect "github.com/bufbuild/connect-go"
	pingv1 "github.com/bufbuild/connect-go/internal/gen/connect/ping/v1"
)

func TestHuntC_ErrorMetadataUnderOrdinaryNamesDropped(t *testing.T) {
	names := []string{"Allow", "User-Agent", "X-Control"}
	mux := http.NewServeMux()
	mux.Handle("/unary", connect.NewUnaryHandler("/unary",
		func(_ context.Context, _ *connect.Request[pingv1.PingRequest]) (*connect.Response[pingv1.PingResponse], error) {
			err := connect.NewError(connect.CodeFailedPrecondition, errors.New("no"))
			for _, name := range names {
				err.Meta()[name] = []string{"m1", "m2"}
			}
			return nil, err
		}))
	mux.Handle("/server", connect.NewServerStreamHandler("/server",
		func(_ context.Context, _ *connect.Request[pingv1.CountUpRequest], stream *connect.ServerStream[pingv1.CountUpResponse]) error {
			// For contrast: the same names as plain response headers.
			for _, name := range names {
				stream.ResponseHeader()[name] = []string{"h1", "h2"}
			}
			if err := stream.Send(&pingv1.CountUpResponse{}); err != nil {
				return err
			}
			err := connect.NewError(connect.CodeFailedPrecondition, errors.New("no"))
			for _, name := range names {
				err.Meta()[name] = []string{"m1", "m2"}
			}
			return err
		}))
	server := httptest.NewUnstartedServer(mux)
	server.EnableHTTP2 = true
	server.StartTLS()
	defer server.Close()

	for _, proto := range []struct {
		name string
		opts []connect.ClientOption
	}{
		{"connect", nil},
		{"grpc", []connect.ClientOption{connect.WithGRPC()}},
		{"grpcweb", []connect.ClientOption{connect.WithGRPCWeb()}},
	} {
		proto := proto
		t.Run(proto.name+"/unary", func(t *testing.T) {
			client := connect.NewClient[pingv1.PingRequest, pingv1.PingResponse](server.Client(), server.URL+"/unary", proto.opts...)
			_, err := client.CallUnary(context.Background(), connect.NewRequest(&pingv1.PingRequest{}))
			var connectErr *connect.Error
			if !errors.As(err, &connectErr) || connectErr.Code() != connect.CodeFailedPrecondition {
				t.Fatalf("unexpected result: %v", err)
			}
			for _, name := range names {
				want := []string{"m1", "m2"}
				if got := connectErr.Meta()[name]; !reflect.DeepEqual(got, want) {
					t.Errorf("handler returned an error with metadata %q = %q; expected it in the client's error metadata, got %q",
						name, want, got)
				}
			}
		})
		t.Run(proto.name+"/server_stream", func(t *testing.T) {
			client := connect.NewClient[pingv1.CountUpRequest, pingv1.CountUpResponse](server.Client(), server.URL+"/server", proto.opts...)
			stream, err := client.CallServerStream(context.Background(), connect.NewRequest(&pingv1.CountUpRequest{}))
			if err != nil {
				t.Fatal(err)
			}
			for stream.Receive() {
			}
			var connectErr *connect.Error
			if !errors.As(stream.Err(), &connectErr) || connectErr.Code() != connect.CodeFailedPrecondition {
				t.Fatalf("unexpected result: %v", stream.Err())
			}
			for _, name := range names {
				// The response headers under these names arrive...
				if got := stream.ResponseHeader()[name]; !reflect.DeepEqual(got, []string{"h1", "h2"}) {
					t.Errorf("response header %q = %q, want [h1 h2]", name, got)
				}
				// ...and so they are in the error's metadata, but the error's own
				// values under the same names are not.
				want := []string{"h1", "h2", "m1", "m2"}
				if got := connectErr.Meta()[name]; !reflect.DeepEqual(got, want) {
					t.Errorf("handler set response header %q = [h1 h2] and returned an error with metadata %q = [m1 m2]; "+
						"expected the client's error metadata to hold %q, got %q", name, name, want, got)
				}
			}
			_ = stream.Close()
		})
	}
}

package connect

import (
	"context"
	"net/http"
	"net/http/httptest"
	"sync"
	"testing"

	pingv1 "github.com/bufbuild/connect-go/internal/gen/connect/ping/v1"
)

// Property C13: "the library performs no unsynchronised memory access" under
// arbitrary concurrency on a shared Handler.
//
// A unary handler whose user function is itself free of data races - it hands
// every call the same, never-modified *Response (a cached answer) - is
// nevertheless made to race by the library: NewUnaryHandler reads the
// response's metadata through the lazily initialising accessors
// Response.Header() and Response.Trailer() (handler.go:76-77), which WRITE the
// header / trailer fields of the Response when they are nil. Two concurrent
// calls therefore write the same two words without synchronisation.
//
// The deterministic half of the test shows the write (the library modifies a
// value it was only given to read); run with -race, the concurrent half makes
// the race detector report the write/write race inside connect.(*Response).Header
// on every run.
func TestHuntA_SharedResponseIsWrittenByUnaryHandler(t *testing.T) {
	cached := NewResponse(&pingv1.PingResponse{Number: 42, Text: "cached"})
	if cached.header != nil || cached.trailer != nil {
		t.Fatal("precondition: a new Response has no header / trailer maps")
	}
	mux := http.NewServeMux()
	mux.Handle("/t/Unary", NewUnaryHandler("/t/Unary", func(
		_ context.Context, _ *Request[pingv1.PingRequest],
	) (*Response[pingv1.PingResponse], error) {
		return cached, nil // read-only use of a shared value: race-free user code
	}))
	server := httptest.NewServer(mux)
	defer server.Close()
	client := NewClient[pingv1.PingRequest, pingv1.PingResponse](server.Client(), server.URL+"/t/Unary")

	// Concurrent half: only reads in user code, yet -race reports a data race
	// whose both sides are in the library (handler.go:76 -> connect.go:199).
	var wg sync.WaitGroup
	for g := 0; g < 8; g++ {
		wg.Add(1)
		go func() {
			defer wg.Done()
			res, err := client.CallUnary(context.Background(), NewRequest(&pingv1.PingRequest{}))
			if err != nil || res.Msg.Text != "cached" {
				t.Errorf("call failed: %v", err)
			}
		}()
	}
	wg.Wait()

	// Deterministic half.
	if cached.header != nil || cached.trailer != nil {
		t.Errorf("expected: the library only reads the *Response a handler returns "+
			"(as NewClientStreamHandler does), so that handlers may return one shared value to concurrent calls; "+
			"got: NewUnaryHandler wrote to it without synchronisation (header initialised: %v, trailer initialised: %v)",
			cached.header != nil, cached.trailer != nil)
	}
}

package connect_test

import (
	"context"
	"errors"
	"net/http"
	"net/http/httptest"
	"testing"

	connect "github.com/bufbuild/connect-go"
	pingv1 "github.com/bufbuild/connect-go/internal/gen/connect/ping/v1"
)

// Property C13, last sentence: "Values handed to user code - messages,
// headers, error text - stay intact while and after other calls run."
//
// BORDERLINE (same stream, no second goroutine needed): on a Connect-protocol
// stream that the server ended with an error, every further Receive returns
// the SAME *Error object again and first replaces its metadata map
// (protocol_connect.go:522, serverErr.meta = cc.responseHeader.Clone()).
// Whatever user code did with the error it was handed by the first Receive -
// here: annotate it through Meta(), as interceptors and error-reporting code
// do - is gone after the next Receive, and a goroutine still reading the first
// error's Meta() races with the receiving goroutine. The gRPC and gRPC-Web
// clients do not do this (they leave the error they handed out alone).
func TestHuntB_ConnectEndStreamErrorRestampedByLaterReceive(t *testing.T) {
	mux := http.NewServeMux()
	mux.Handle("/t/Bidi", connect.NewBidiStreamHandler("/t/Bidi", func(
		_ context.Context, _ *connect.BidiStream[pingv1.PingRequest, pingv1.PingResponse],
	) error {
		return connect.NewError(connect.CodeAborted, errors.New("boom"))
	}))
	server := httptest.NewUnstartedServer(mux)
	server.EnableHTTP2 = true
	server.StartTLS()
	defer server.Close()

	for _, tc := range []struct {
		name string
		opts []connect.ClientOption
	}{
		{"connect", nil},
		{"grpc", []connect.ClientOption{connect.WithGRPC()}},
		{"grpcweb", []connect.ClientOption{connect.WithGRPCWeb()}},
	} {
		client := connect.NewClient[pingv1.PingRequest, pingv1.PingResponse](server.Client(), server.URL+"/t/Bidi", tc.opts...)
		stream := client.CallBidiStream(context.Background())
		_ = stream.Send(&pingv1.PingRequest{})
		_, err := stream.Receive()
		var first *connect.Error
		if !errors.As(err, &first) || first.Code() != connect.CodeAborted {
			t.Fatalf("%s: first Receive: want the server's error, got %v", tc.name, err)
		}
		first.Meta().Set("X-Note", "seen by the reporter") // user code annotates the error it was handed
		_, _ = stream.Receive()                           // a Receive past the end of the stream
		if got := first.Meta().Get("X-Note"); got != "seen by the reporter" {
			t.Errorf("%s: expected: the error handed out by the first Receive stays as user code left it; "+
				"got: a later Receive on the stream replaced its metadata (X-Note = %q)", tc.name, got)
		}
		_ = stream.CloseRequest()
		_ = stream.CloseResponse()
	}
}

package connect_test

import (
	"context"
	"errors"
	"io"
	"net/http"
	"net/http/httptest"
	"testing"
	"time"

	connect "github.com/bufbuild/connect-go"
	pingv1 "github.com/bufbuild/connect-go/internal/gen/connect/ping/v1"
	"github.com/bufbuild/connect-go/internal/gen/connect/ping/v1/pingv1connect"
)

// Property C15: once the call's context is cancelled (or its deadline has
// passed), every operation on the call that fails afterwards fails with
// canceled (deadline_exceeded), "never another code"; the only tolerated
// alternative is a Send *interrupted in mid-write*, which may return the
// stream-closed error wrapping io.EOF.
//
// A Send (or a unary call) that starts AFTER the context has ended, with a
// message the codec cannot marshal (here: a proto3 string holding invalid
// UTF-8 - the kind of message rounds 1 and 2 already used), reports code
// "internal" instead: Send marshals (and compresses) before anything looks at
// the context.

type huntAEcho struct {
	pingv1connect.UnimplementedPingServiceHandler
}

func (huntAEcho) Ping(ctx context.Context, req *connect.Request[pingv1.PingRequest]) (*connect.Response[pingv1.PingResponse], error) {
	return connect.NewResponse(&pingv1.PingResponse{Number: req.Msg.Number}), nil
}

func (huntAEcho) CumSum(ctx context.Context, stream *connect.BidiStream[pingv1.CumSumRequest, pingv1.CumSumResponse]) error {
	for {
		msg, err := stream.Receive()
		if errors.Is(err, io.EOF) {
			return nil
		}
		if err != nil {
			return err
		}
		if err := stream.Send(&pingv1.CumSumResponse{Sum: msg.Number}); err != nil {
			return err
		}
	}
}

func TestHuntA_UnsendableMessageAfterContextEnded(t *testing.T) {
	mux := http.NewServeMux()
	mux.Handle(pingv1connect.NewPingServiceHandler(huntAEcho{}))
	server := httptest.NewUnstartedServer(mux)
	server.EnableHTTP2 = true
	server.StartTLS()
	defer server.Close()

	unsendable := &pingv1.PingRequest{Number: 1, Text: "\xff\xfe"} // invalid UTF-8: proto.Marshal refuses it

	protocols := []struct {
		name string
		opts []connect.ClientOption
	}{
		{"connect", nil},
		{"grpc", []connect.ClientOption{connect.WithGRPC()}},
		{"grpcweb", []connect.ClientOption{connect.WithGRPCWeb()}},
	}
	ends := []struct {
		name string
		want connect.Code
		mk   func() (ctx context.Context, end func(), cleanup func())
	}{
		{"cancel", connect.CodeCanceled, func() (context.Context, func(), func()) {
			ctx, cancel := context.WithCancel(context.Background())
			return ctx, cancel, cancel
		}},
		{"deadline", connect.CodeDeadlineExceeded, func() (context.Context, func(), func()) {
			ctx, cancel := context.WithTimeout(context.Background(), 200*time.Millisecond)
			return ctx, func() { <-ctx.Done() }, cancel
		}},
	}
	for _, proto := range protocols {
		for _, end := range ends {
			proto, end := proto, end
			t.Run(proto.name+"/"+end.name+"/unary_before_the_call", func(t *testing.T) {
				client := pingv1connect.NewPingServiceClient(server.Client(), server.URL, proto.opts...)
				ctx, finish, cleanup := end.mk()
				defer cleanup()
				finish() // the context has ended before the call is made
				_, err := client.Ping(ctx, connect.NewRequest(unsendable))
				if err == nil {
					t.Fatalf("unary call on an ended context succeeded")
				}
				if got := connect.CodeOf(err); got != end.want {
					t.Errorf("unary call made after the context ended (%v): want code %v, got code %v (%v)",
						ctx.Err(), end.want, got, err)
				}
			})
			t.Run(proto.name+"/"+end.name+"/bidi_between_two_sends", func(t *testing.T) {
				// PingRequest and CumSumRequest are wire compatible (field 1, int64).
				client := connect.NewClient[pingv1.PingRequest, pingv1.CumSumResponse](
					server.Client(),
					server.URL+"/connect.ping.v1.PingService/CumSum",
					proto.opts...,
				)
				ctx, finish, cleanup := end.mk()
				defer cleanup()
				stream := client.CallBidiStream(ctx)
				if err := stream.Send(&pingv1.PingRequest{Number: 7}); err != nil {
					t.Fatalf("first Send: %v", err)
				}
				if res, err := stream.Receive(); err != nil || res.Sum != 7 {
					t.Fatalf("first Receive: %v, %v", res, err)
				}
				finish() // the handler is still running, waiting for the next message
				time.Sleep(20 * time.Millisecond)
				err := stream.Send(unsendable) // starts after the context ended: not "interrupted in mid-write"
				if err == nil {
					t.Fatalf("Send on an ended context succeeded")
				}
				if got := connect.CodeOf(err); got != end.want {
					t.Errorf("Send begun after the context ended (%v): want code %v, got code %v (%v)",
						ctx.Err(), end.want, got, err)
				}
				// For comparison: a sendable message at the same point gets the right code.
				if err := stream.Send(&pingv1.PingRequest{Number: 1}); connect.CodeOf(err) != end.want {
					t.Errorf("sendable message after the context ended: want code %v, got %v", end.want, err)
				}
				if _, err := stream.Receive(); connect.CodeOf(err) != end.want {
					t.Errorf("Receive after the context ended: want code %v, got %v", end.want, err)
				}
			})
		}
	}
}

package connect_test

// Finding A (property C02): over HTTP/1.x, a handler/interceptor error that is
// returned while one of the client's Sends is still in flight is lost.
//
// Fix 1add792 made duplexHTTPCall.Write return io.EOF for Sends that *begin*
// after an HTTP/1.x server has answered. A Send that is already blocked in the
// request pipe when the answer arrives is not covered: it stays blocked until
// net/http's server gives up on the connection (about 500 ms later), the
// client transport's write then fails, the transport closes the connection,
// and whatever part of the answer has not been read yet is gone. For gRPC the
// status always travels in the HTTP trailers, which the server writes after
// the first flush: it is lost unless the trailers happen to arrive in the same
// read as the response headers (observed: lost about 3 times out of 4). For
// Connect the error is lost whenever the end-of-stream message does not fit
// the transport's 4 KiB read buffer (observed: every time). gRPC-Web answers
// of this kind are trailers-only (all in the HTTP headers) and survive.

import (
	"context"
	"crypto/rand"
	"encoding/hex"
	"errors"
	"io"
	"net"
	"net/http"
	"net/http/httptest"
	"strings"
	"testing"
	"time"

	connect "github.com/bufbuild/connect-go"
	pingv1 "github.com/bufbuild/connect-go/internal/gen/connect/ping/v1"
)

// huntARejecter is the classic auth interceptor: it turns the call down
// without looking at the request stream.
type huntARejecter struct{ err func() error }

func (r huntARejecter) WrapUnary(next connect.UnaryFunc) connect.UnaryFunc { return next }
func (r huntARejecter) WrapStreamingClient(next connect.StreamingClientFunc) connect.StreamingClientFunc {
	return next
}
func (r huntARejecter) WrapStreamingHandler(connect.StreamingHandlerFunc) connect.StreamingHandlerFunc {
	return func(context.Context, connect.StreamingHandlerConn) error { return r.err() }
}

// smallBufListener and the dialer below only make the demonstration cheap:
// with 64 KiB socket buffers a 4 MiB message is "larger than what the kernel
// absorbs". With default (auto-tuned) loopback buffers the same happens with
// a message of 8-32 MiB (see the "default-buffers" sub-tests).
type smallBufListener struct{ net.Listener }

func (l smallBufListener) Accept() (net.Conn, error) {
	conn, err := l.Listener.Accept()
	if tcp, ok := conn.(*net.TCPConn); ok {
		_ = tcp.SetReadBuffer(64 << 10)
	}
	return conn, err
}

func huntANewServer(t *testing.T, smallBuffers bool, newErr func() error) (*httptest.Server, *http.Client) {
	t.Helper()
	reject := connect.WithInterceptors(huntARejecter{newErr})
	mux := http.NewServeMux()
	mux.Handle("/connect.ping.v1.PingService/Sum", connect.NewClientStreamHandler(
		"/connect.ping.v1.PingService/Sum",
		func(context.Context, *connect.ClientStream[pingv1.PingRequest]) (*connect.Response[pingv1.PingResponse], error) {
			return connect.NewResponse(&pingv1.PingResponse{}), nil
		}, reject))
	mux.Handle("/connect.ping.v1.PingService/CountUp", connect.NewServerStreamHandler(
		"/connect.ping.v1.PingService/CountUp",
		func(context.Context, *connect.Request[pingv1.PingRequest], *connect.ServerStream[pingv1.PingResponse]) error {
			return nil
		}, reject))
	server := httptest.NewUnstartedServer(mux) // plain HTTP/1.1
	if smallBuffers {
		server.Listener = smallBufListener{server.Listener}
	}
	server.Start()
	t.Cleanup(server.Close)
	transport := &http.Transport{}
	if smallBuffers {
		transport.DialContext = func(ctx context.Context, network, addr string) (net.Conn, error) {
			conn, err := (&net.Dialer{}).DialContext(ctx, network, addr)
			if tcp, ok := conn.(*net.TCPConn); ok {
				_ = tcp.SetWriteBuffer(64 << 10)
			}
			return conn, err
		}
	}
	t.Cleanup(transport.CloseIdleConnections)
	return server, &http.Client{Transport: transport}
}

const huntAAttempts = 6

func huntACheck(t *testing.T, elapsed time.Duration, err error, wantMessage string) {
	t.Helper()
	var connectErr *connect.Error
	if !errors.As(err, &connectErr) {
		t.Fatalf("after %v: expected the interceptor's *connect.Error, got %v", elapsed, err)
	}
	if connectErr.Code() != connect.CodeUnauthenticated ||
		connectErr.Message() != wantMessage ||
		connectErr.Meta().Get("X-Why") != "no-token" {
		t.Fatalf("after %v: the interceptor returned code=unauthenticated message=%.40q... meta X-Why=no-token;\n"+
			"the client received code=%v message=%.200q meta X-Why=%q",
			elapsed, wantMessage, connectErr.Code(), connectErr.Message(), connectErr.Meta().Get("X-Why"))
	}
}

func TestHuntA_HTTP1AnswerWhileSendInFlightIsLost(t *testing.T) {
	incompressible := make([]byte, 8<<10)
	_, _ = rand.Read(incompressible)
	longMessage := hex.EncodeToString(incompressible) // 16 KiB, valid UTF-8 (ASCII)

	type variant struct {
		name         string
		smallBuffers bool
		requestSize  int
		errMessage   string
		options      []connect.ClientOption
	}
	variants := []variant{
		// gRPC: the status is in the HTTP trailers, always behind the first flush.
		{"grpc/short-error/small-buffers", true, 4 << 20, "no token", []connect.ClientOption{connect.WithGRPC()}},
		{"grpc/short-error/default-buffers", false, 32 << 20, "no token", []connect.ClientOption{connect.WithGRPC()}},
		// Connect (the default protocol): lost when the end-of-stream message is
		// larger than the transport's read buffer.
		{"connect/16KiB-error/small-buffers", true, 4 << 20, longMessage, nil},
		{"connect/16KiB-error/default-buffers", false, 32 << 20, longMessage, nil},
	}
	for _, v := range variants {
		v := v
		newErr := func() error {
			err := connect.NewError(connect.CodeUnauthenticated, errors.New(v.errMessage))
			err.Meta().Set("X-Why", "no-token")
			return err
		}
		payload := strings.Repeat("x", v.requestSize)
		t.Run(v.name+"/client-stream", func(t *testing.T) {
			server, httpClient := huntANewServer(t, v.smallBuffers, newErr)
			client := connect.NewClient[pingv1.PingRequest, pingv1.PingResponse](
				httpClient, server.URL+"/connect.ping.v1.PingService/Sum", v.options...)
			ctx, cancel := context.WithTimeout(context.Background(), 60*time.Second)
			defer cancel()
			// The Connect variants fail every time. The gRPC variants fail about
			// three times out of four (they survive when the trailers happen to
			// arrive in the same read as the response headers), hence the loop.
			for attempt := 0; attempt < huntAAttempts; attempt++ {
				start := time.Now()
				stream := client.CallClientStream(ctx)
				// One Send; whatever it returns (nil or an error wrapping io.EOF),
				// the documented next step is CloseAndReceive.
				if err := stream.Send(&pingv1.PingRequest{Text: payload}); err != nil && !errors.Is(err, io.EOF) {
					t.Logf("Send: %v", err)
				}
				_, err := stream.CloseAndReceive()
				huntACheck(t, time.Since(start), err, v.errMessage)
			}
		})
		t.Run(v.name+"/server-stream", func(t *testing.T) {
			server, httpClient := huntANewServer(t, v.smallBuffers, newErr)
			client := connect.NewClient[pingv1.PingRequest, pingv1.PingResponse](
				httpClient, server.URL+"/connect.ping.v1.PingService/CountUp", v.options...)
			ctx, cancel := context.WithTimeout(context.Background(), 60*time.Second)
			defer cancel()
			for attempt := 0; attempt < huntAAttempts; attempt++ {
				start := time.Now()
				stream, err := client.CallServerStream(ctx, connect.NewRequest(&pingv1.PingRequest{Text: payload}))
				if err == nil {
					for stream.Receive() {
						t.Error("unexpected message")
					}
					err = stream.Err()
					_ = stream.Close()
				}
				huntACheck(t, time.Since(start), err, v.errMessage)
			}
		})
	}
}

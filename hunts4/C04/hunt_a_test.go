package connect_test

// Property C04: "... symmetrically a handler never sees a clean end of the
// request stream when the request body failed or stopped mid-message", and on
// the client side "if ... the transport fails at any point while reading ...
// the call fails with a coded error".
//
// A transport error is whatever non-nil error the body's Read returns. When
// that error has io.EOF somewhere in its chain (an *net.OpError around io.EOF,
// a "read tcp ...: %w" of it - anything that is not io.EOF itself, and so is a
// failure by the io.Reader contract) the envelope reader wraps it with %w and
// every layer above tests errors.Is(err, io.EOF): the failure in the middle of
// a message is reported as the clean end of the stream.
//
// The same confusion was repaired for codecs, compressors and decompressors
// (withoutEOF); the transport is the sibling path that was left as it was.

import (
	"bytes"
	"context"
	"encoding/binary"
	"errors"
	"fmt"
	"io"
	"net"
	"net/http"
	"net/http/httptest"
	"testing"

	connect "github.com/bufbuild/connect-go"
	pingv1 "github.com/bufbuild/connect-go/internal/gen/connect/ping/v1"
	"github.com/bufbuild/connect-go/internal/gen/connect/ping/v1/pingv1connect"
	"google.golang.org/protobuf/proto"
)

// huntAFailingBody hands out data and then fails with err.
type huntAFailingBody struct {
	data []byte
	err  error
}

func (b *huntAFailingBody) Read(p []byte) (int, error) {
	if len(b.data) == 0 {
		return 0, b.err
	}
	n := copy(p, b.data)
	b.data = b.data[n:]
	return n, nil
}

func (b *huntAFailingBody) Close() error { return nil }

func huntAEnvelope(t *testing.T, msg proto.Message) []byte {
	t.Helper()
	raw, err := proto.Marshal(msg)
	if err != nil {
		t.Fatal(err)
	}
	out := make([]byte, 5, 5+len(raw))
	binary.BigEndian.PutUint32(out[1:], uint32(len(raw)))
	return append(out, raw...)
}

// huntASumServer records what the client-streaming handler saw.
type huntASumServer struct {
	pingv1connect.UnimplementedPingServiceHandler

	received []int64
	err      error
	ran      bool
}

func (s *huntASumServer) Sum(
	_ context.Context,
	stream *connect.ClientStream[pingv1.SumRequest],
) (*connect.Response[pingv1.SumResponse], error) {
	s.ran = true
	var sum int64
	for stream.Receive() {
		s.received = append(s.received, stream.Msg().Number)
		sum += stream.Msg().Number
	}
	s.err = stream.Err()
	if s.err != nil {
		return nil, s.err
	}
	return connect.NewResponse(&pingv1.SumResponse{Sum: sum}), nil
}

// The request body of a client-streaming call carries three messages; the
// connection breaks in the middle of the second one.
func TestHuntA_HandlerSeesCleanEndWhenRequestBodyFailsMidMessage(t *testing.T) {
	t.Parallel()
	var body []byte
	for _, n := range []int64{1000001, 1000002, 1000003} {
		body = append(body, huntAEnvelope(t, &pingv1.SumRequest{Number: n})...)
	}
	firstLen := len(huntAEnvelope(t, &pingv1.SumRequest{Number: 1000001}))

	transportErrors := map[string]error{
		// control: the same cut, reported the way net/http reports it
		"control_unexpectedEOF": io.ErrUnexpectedEOF,
		"OpError_around_EOF":    &net.OpError{Op: "read", Net: "tcp", Err: io.EOF},
		"fmt_wrapped_EOF":       fmt.Errorf("read tcp 10.0.0.7:443: connection lost: %w", io.EOF),
	}
	contentTypes := map[string]string{
		"connect": "application/connect+proto",
		"grpc":    "application/grpc",
		"grpcweb": "application/grpc-web+proto",
	}
	// The cut: inside the second envelope's 5-byte prefix, or right after the
	// first envelope. (A failure inside the payload is caught: that path builds
	// a fresh error instead of wrapping the transport's.)
	cuts := map[string]int{
		"mid_prefix":       firstLen + 2,
		"between_messages": firstLen,
	}
	for protocolName, contentType := range contentTypes {
		for errName, transportErr := range transportErrors {
			for cutName, cut := range cuts {
				protocolName, contentType, errName, transportErr, cutName, cut := protocolName, contentType, errName, transportErr, cutName, cut
				t.Run(protocolName+"/"+errName+"/"+cutName, func(t *testing.T) {
					t.Parallel()
					server := &huntASumServer{}
					mux := http.NewServeMux()
					mux.Handle(pingv1connect.NewPingServiceHandler(server))

					request := httptest.NewRequest(
						http.MethodPost,
						"/connect.ping.v1.PingService/Sum",
						&huntAFailingBody{data: body[:cut], err: transportErr},
					)
					request.Header.Set("Content-Type", contentType)
					recorder := httptest.NewRecorder()
					mux.ServeHTTP(recorder, request)

					if !server.ran {
						t.Fatalf("handler did not run (HTTP %d)", recorder.Code)
					}
					if len(server.received) != 1 || server.received[0] != 1000001 {
						t.Fatalf("handler received %v, expected exactly the first message", server.received)
					}
					if server.err == nil {
						t.Errorf(
							"the request body failed after the first message (cut: "+cutName+") with %q, "+
								"expected the handler's stream.Err() to report a failure, "+
								"but the handler saw a clean end of the request stream after %d of 3 messages "+
								"and answered with success (HTTP %d, grpc-status %q, body %q)",
							transportErr, len(server.received),
							recorder.Code, recorder.Result().Trailer.Get("Grpc-Status")+recorder.Header().Get("Grpc-Status"),
							recorder.Body.String(),
						)
					}
				})
			}
		}
	}
}

// huntAClient answers every call with the given response.
type huntAClient struct {
	header  http.Header
	trailer http.Header
	body    io.ReadCloser
}

func (c *huntAClient) Do(request *http.Request) (*http.Response, error) {
	go func() {
		_, _ = io.Copy(io.Discard, request.Body)
		_ = request.Body.Close()
	}()
	return &http.Response{
		Status:        "200 OK",
		StatusCode:    http.StatusOK,
		Proto:         "HTTP/2.0",
		ProtoMajor:    2,
		Header:        c.header,
		Trailer:       c.trailer,
		Body:          c.body,
		ContentLength: -1,
		Request:       request,
	}, nil
}

// The client side of the same defect: a gRPC server-streaming response of
// three messages breaks in the middle of the second envelope's prefix. The HTTPClient is an
// in-memory one that knows the trailers up front (as
// httptest.ResponseRecorder.Result does).
func TestHuntA_ClientReportsSuccessWhenResponseBodyFailsMidMessage(t *testing.T) {
	t.Parallel()
	var body []byte
	for _, n := range []int64{1, 2, 3} {
		body = append(body, huntAEnvelope(t, &pingv1.CountUpResponse{Number: n})...)
	}
	firstLen := len(huntAEnvelope(t, &pingv1.CountUpResponse{Number: 1}))
	for errName, transportErr := range map[string]error{
		"control_unexpectedEOF": io.ErrUnexpectedEOF,
		"OpError_around_EOF":    &net.OpError{Op: "read", Net: "tcp", Err: io.EOF},
	} {
		errName, transportErr := errName, transportErr
		t.Run(errName, func(t *testing.T) {
			t.Parallel()
			httpClient := &huntAClient{
				header:  http.Header{"Content-Type": []string{"application/grpc+proto"}},
				trailer: http.Header{"Grpc-Status": []string{"0"}},
				body:    &huntAFailingBody{data: body[:firstLen+3], err: transportErr},
			}
			client := pingv1connect.NewPingServiceClient(httpClient, "http://in.memory", connect.WithGRPC())
			stream, err := client.CountUp(context.Background(), connect.NewRequest(&pingv1.CountUpRequest{Number: 3}))
			if err != nil {
				t.Fatal(err)
			}
			var got []int64
			for stream.Receive() {
				got = append(got, stream.Msg().Number)
			}
			if !bytes.Equal([]byte(fmt.Sprint(got)), []byte("[1]")) {
				t.Fatalf("received %v, expected [1]", got)
			}
			err = stream.Err()
			if closeErr := stream.Close(); err == nil {
				err = closeErr
			}
			if err == nil {
				t.Errorf(
					"the response body failed in the middle of the second message with %q, "+
						"expected the call to fail with a coded error, "+
						"but the stream ended cleanly after %d of 3 messages (Err() == nil, Close() == nil)",
					transportErr, len(got),
				)
			} else if connectErr := new(connect.Error); !errors.As(err, &connectErr) {
				t.Errorf("uncoded error %v", err)
			}
		})
	}
}

package connect_test

// Finding A: a unary Request that reaches a gRPC or gRPC-Web client with a
// Content-Encoding header on it (because a handler received it over the
// Connect protocol from a client that compresses, and passes it on; or because
// the caller sent it through a compressing Connect client before) goes out as
// a gRPC request that claims an HTTP content coding which was never applied
// to its body. The sibling paths (Connect unary, Grpc-Encoding, the timeouts,
// CallServerStream, forwarded responses and errors) have all been repaired;
// this one has not.

import (
	"bytes"
	"compress/gzip"
	"context"
	"io"
	"net/http"
	"net/http/httptest"
	"strings"
	"testing"

	"github.com/bufbuild/connect-go"
	pingv1 "github.com/bufbuild/connect-go/internal/gen/connect/ping/v1"
	"github.com/bufbuild/connect-go/internal/gen/connect/ping/v1/pingv1connect"
)

type huntAEcho struct {
	pingv1connect.UnimplementedPingServiceHandler
}

func (huntAEcho) Ping(_ context.Context, req *connect.Request[pingv1.PingRequest]) (*connect.Response[pingv1.PingResponse], error) {
	return connect.NewResponse(&pingv1.PingResponse{Text: req.Msg.Text}), nil
}

// huntAGateway is the gateway of the library's own commit messages: it hands
// the request it was given to its backend.
type huntAGateway struct {
	pingv1connect.UnimplementedPingServiceHandler
	backend pingv1connect.PingServiceClient
}

func (g huntAGateway) Ping(ctx context.Context, req *connect.Request[pingv1.PingRequest]) (*connect.Response[pingv1.PingResponse], error) {
	return g.backend.Ping(ctx, req)
}

// huntAStrictHTTP does what RFC 9110 8.4 says a recipient does with a
// Content-Encoding it understands: it decodes the content before handing it
// to the application (here: a gRPC server, for which Content-Encoding means
// nothing else - gRPC names its own compression in Grpc-Encoding).
func huntAStrictHTTP(t *testing.T, seen *http.Header, next http.Handler) http.Handler {
	return http.HandlerFunc(func(w http.ResponseWriter, r *http.Request) {
		*seen = r.Header.Clone()
		if coding := r.Header.Get("Content-Encoding"); coding != "" && coding != "identity" {
			raw, _ := io.ReadAll(r.Body)
			zr, err := gzip.NewReader(bytes.NewReader(raw))
			if coding != "gzip" || err != nil {
				head := raw
			if len(head) > 8 {
				head = head[:8]
			}
			t.Logf("strict peer: request says Content-Encoding: %s, body starts % x: %v", coding, head, err)
				http.Error(w, "content is not in the coding its Content-Encoding names", http.StatusBadRequest)
				return
			}
			r.Body = io.NopCloser(zr)
			r.Header.Del("Content-Encoding")
		}
		next.ServeHTTP(w, r)
	})
}

func TestHuntA_ForwardedUnaryRequestKeepsContentEncoding(t *testing.T) {
	for name, upstream := range map[string]connect.ClientOption{
		"grpc":    connect.WithGRPC(),
		"grpcweb": connect.WithGRPCWeb(),
		// Controls (these pass): a Connect backend client deletes or re-applies
		// the header itself.
		"connect-control":      connect.WithClientOptions(),
		"connect-gzip-control": connect.WithSendGzip(),
	} {
		upstream := upstream
		t.Run("gateway/connect-in/"+name+"-out", func(t *testing.T) {
			var seen http.Header
			backendMux := http.NewServeMux()
			backendMux.Handle(pingv1connect.NewPingServiceHandler(huntAEcho{}))
			backend := httptest.NewUnstartedServer(huntAStrictHTTP(t, &seen, backendMux))
			backend.EnableHTTP2 = true
			backend.StartTLS()
			defer backend.Close()

			gatewayMux := http.NewServeMux()
			gatewayMux.Handle(pingv1connect.NewPingServiceHandler(huntAGateway{
				backend: pingv1connect.NewPingServiceClient(backend.Client(), backend.URL, upstream),
			}))
			gateway := httptest.NewUnstartedServer(gatewayMux)
			gateway.EnableHTTP2 = true
			gateway.StartTLS()
			defer gateway.Close()

			// An ordinary Connect client that compresses its requests.
			client := pingv1connect.NewPingServiceClient(gateway.Client(), gateway.URL, connect.WithSendGzip())
			text := strings.Repeat("a", 200)
			res, err := client.Ping(context.Background(), connect.NewRequest(&pingv1.PingRequest{Text: text}))

			if got := seen.Get("Content-Encoding"); got != "" && strings.HasPrefix(name, "grpc") {
				t.Errorf("the %s request the gateway's client wrote carries Content-Encoding: %q, but its body is a plain gRPC envelope (the client compresses nothing: no Grpc-Encoding, %q); expected no Content-Encoding header on a gRPC request",
					name, got, seen.Get("Grpc-Encoding"))
			}
			if err != nil {
				t.Fatalf("call through the gateway failed against a peer that applies Content-Encoding as HTTP defines it: %v; expected the echo", err)
			}
			if res.Msg.Text != text {
				t.Fatalf("wrong echo")
			}
		})
	}

	// The same without a gateway: one Request object, sent through a
	// compressing Connect client and then through a gRPC client.
	t.Run("resent/connect-then-grpc", func(t *testing.T) {
		var seen http.Header
		mux := http.NewServeMux()
		mux.Handle(pingv1connect.NewPingServiceHandler(huntAEcho{}))
		plain := httptest.NewUnstartedServer(mux)
		plain.EnableHTTP2 = true
		plain.StartTLS()
		defer plain.Close()
		strict := httptest.NewUnstartedServer(huntAStrictHTTP(t, &seen, mux))
		strict.EnableHTTP2 = true
		strict.StartTLS()
		defer strict.Close()

		req := connect.NewRequest(&pingv1.PingRequest{Text: strings.Repeat("a", 200)})
		first := pingv1connect.NewPingServiceClient(plain.Client(), plain.URL, connect.WithSendGzip())
		if _, err := first.Ping(context.Background(), req); err != nil {
			t.Fatalf("first call: %v", err)
		}
		second := pingv1connect.NewPingServiceClient(strict.Client(), strict.URL, connect.WithGRPC())
		_, err := second.Ping(context.Background(), req)
		if got := seen.Get("Content-Encoding"); got != "" {
			t.Errorf("re-sent through a gRPC client, the request carries Content-Encoding: %q left over from the Connect call; its body is not compressed; expected the header to be gone (as Grpc-Encoding, Connect's own Content-Encoding and the timeouts are)", got)
		}
		if err != nil {
			t.Errorf("second call failed: %v; expected success", err)
		}
	})
}

package connect_test

// Finding B (regression of "fix: on HTTP/1.x, Send reports the end of the
// stream once the server has answered"): the arrival of the response HEADERS
// over HTTP/1.1 is taken for the server being done with the request. A
// Connect (or gRPC-Web, or gRPC) server may legally send its response headers
// as soon as it has the request headers and go on reading the request - the
// headers of a streaming response depend on nothing the client streams. From
// that moment on every Send is refused with io.EOF without writing, the
// request is ended cleanly by CloseAndReceive, and the server - which reads a
// well-formed, complete request made of fewer messages than the application
// sent - answers it: the call SUCCEEDS with a result computed from part of
// the input.

import (
	"context"
	"encoding/binary"
	"errors"
	"io"
	"net/http"
	"net/http/httptest"
	"sync/atomic"
	"testing"
	"time"

	pingv1 "github.com/bufbuild/connect-go/internal/gen/connect/ping/v1"
	"github.com/bufbuild/connect-go/internal/gen/connect/ping/v1/pingv1connect"
	"google.golang.org/protobuf/proto"
)

// huntBNotifyingClient tells the test when the response headers have arrived.
type huntBNotifyingClient struct {
	inner    *http.Client
	answered chan struct{}
}

func (c *huntBNotifyingClient) Do(req *http.Request) (*http.Response, error) {
	res, err := c.inner.Do(req)
	close(c.answered)
	return res, err
}

func huntBEnvelope(flags byte, data []byte) []byte {
	out := make([]byte, 5+len(data))
	out[0] = flags
	binary.BigEndian.PutUint32(out[1:5], uint32(len(data)))
	copy(out[5:], data)
	return out
}

func TestHuntB_HTTP1EarlyResponseHeadersTruncateTheRequest(t *testing.T) {
	var received int64
	var readErr atomic.Value
	// An independent Connect server for the client-streaming Sum procedure,
	// written against the protocol document. It is an HTTP/1.1 server that
	// sends its response headers at once (net/http: EnableFullDuplex + Flush).
	server := httptest.NewServer(http.HandlerFunc(func(w http.ResponseWriter, r *http.Request) {
		if r.Header.Get("Content-Type") != "application/connect+proto" {
			w.WriteHeader(http.StatusUnsupportedMediaType)
			return
		}
		if err := http.NewResponseController(w).EnableFullDuplex(); err != nil {
			t.Errorf("EnableFullDuplex: %v", err)
		}
		w.Header().Set("Content-Type", "application/connect+proto")
		w.WriteHeader(http.StatusOK)
		w.(http.Flusher).Flush()
		var sum int64
		for {
			var prefix [5]byte
			if _, err := io.ReadFull(r.Body, prefix[:]); err != nil {
				if !errors.Is(err, io.EOF) {
					readErr.Store(err)
				}
				break
			}
			data := make([]byte, binary.BigEndian.Uint32(prefix[1:]))
			if _, err := io.ReadFull(r.Body, data); err != nil {
				readErr.Store(err)
				break
			}
			var req pingv1.SumRequest
			if err := proto.Unmarshal(data, &req); err != nil {
				readErr.Store(err)
				break
			}
			sum += req.Number
			atomic.AddInt64(&received, 1)
		}
		out, _ := proto.Marshal(&pingv1.SumResponse{Sum: sum})
		_, _ = w.Write(huntBEnvelope(0, out))
		_, _ = w.Write(huntBEnvelope(2, []byte("{}")))
	}))
	defer server.Close()

	httpClient := &huntBNotifyingClient{inner: server.Client(), answered: make(chan struct{})}
	client := pingv1connect.NewPingServiceClient(httpClient, server.URL)
	stream := client.Sum(context.Background())
	const messages = 3
	var sendErrs []error
	for i := 0; i < messages; i++ {
		if err := stream.Send(&pingv1.SumRequest{Number: 10}); err != nil {
			sendErrs = append(sendErrs, err)
		}
		if i == 0 {
			// The server answers the request headers; let that answer arrive.
			select {
			case <-httpClient.answered:
			case <-time.After(5 * time.Second):
				t.Fatal("no response headers")
			}
			time.Sleep(50 * time.Millisecond)
		}
	}
	res, err := stream.CloseAndReceive()
	if v := readErr.Load(); v != nil {
		t.Errorf("the server could not decode the request the client wrote: %v", v)
	}
	if err != nil {
		// An error would at least be honest.
		t.Logf("CloseAndReceive: %v", err)
		return
	}
	if got := atomic.LoadInt64(&received); got != messages || res.Msg.Sum != 10*messages {
		t.Errorf("the application sent %d messages (Send errors: %v); the request on the wire was a complete, well-formed request of %d message(s), and the call succeeded with sum=%d; expected %d messages on the wire and sum=%d (the server had only sent its response headers, it was still reading)",
			messages, sendErrs, got, res.Msg.Sum, messages, 10*messages)
	}
}

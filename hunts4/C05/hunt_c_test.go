package connect_test

// Finding C: when a gRPC-Web response is compressed, the handler also runs
// the trailers frame through the compressor: the frame that carries
// grpc-status goes out with flag byte 0x81 and a gzip stream for a payload,
// not as the 0x80 frame holding an HTTP/1 header block that the gRPC-Web
// protocol document (and the property) describe. A decoder that follows the
// document literally - MSB set: the payload is the header block - finds no
// grpc-status in it.

import (
	"bufio"
	"bytes"
	"encoding/binary"
	"io"
	"net/http"
	"net/http/httptest"
	"net/textproto"
	"testing"

	pingv1 "github.com/bufbuild/connect-go/internal/gen/connect/ping/v1"
	"github.com/bufbuild/connect-go/internal/gen/connect/ping/v1/pingv1connect"
	"google.golang.org/protobuf/proto"
)

func TestHuntC_GRPCWebTrailersFrameIsCompressed(t *testing.T) {
	mux := http.NewServeMux()
	mux.Handle(pingv1connect.NewPingServiceHandler(huntAEcho{}))
	server := httptest.NewServer(mux)
	defer server.Close()

	msg, err := proto.Marshal(&pingv1.PingRequest{Text: "hello"})
	if err != nil {
		t.Fatal(err)
	}
	body := make([]byte, 5+len(msg))
	binary.BigEndian.PutUint32(body[1:5], uint32(len(msg)))
	copy(body[5:], msg)
	req, err := http.NewRequest(http.MethodPost, server.URL+"/connect.ping.v1.PingService/Ping", bytes.NewReader(body))
	if err != nil {
		t.Fatal(err)
	}
	req.Header.Set("Content-Type", "application/grpc-web+proto")
	req.Header.Set("X-Grpc-Web", "1")
	// An uncompressed request from a client that can read gzip.
	req.Header.Set("Grpc-Accept-Encoding", "gzip")
	req.Header.Set("Accept-Encoding", "identity")
	res, err := server.Client().Do(req)
	if err != nil {
		t.Fatal(err)
	}
	defer res.Body.Close()
	raw, err := io.ReadAll(res.Body)
	if err != nil {
		t.Fatal(err)
	}
	if res.StatusCode != 200 || res.Header.Get("Grpc-Status") != "" {
		t.Fatalf("unexpected response shape: %d %v", res.StatusCode, res.Header)
	}
	t.Logf("Grpc-Encoding: %q", res.Header.Get("Grpc-Encoding"))

	// Split the body into frames.
	type frame struct {
		flags   byte
		payload []byte
	}
	var frames []frame
	for rest := raw; len(rest) > 0; {
		if len(rest) < 5 {
			t.Fatalf("dangling bytes % x", rest)
		}
		size := int(binary.BigEndian.Uint32(rest[1:5]))
		if len(rest) < 5+size {
			t.Fatalf("short frame")
		}
		frames = append(frames, frame{rest[0], rest[5 : 5+size]})
		rest = rest[5+size:]
	}
	if len(frames) != 2 {
		t.Fatalf("got %d frames, expected message + trailers", len(frames))
	}
	last := frames[len(frames)-1]
	if last.flags&0x80 == 0 {
		t.Fatalf("last frame is not a trailers frame: flags %#x", last.flags)
	}
	// "8th (MSB) bit of the 1st gRPC frame byte: 1: trailers"; "Key-value
	// pairs encoded as a HTTP/1 headers block (without the terminating
	// newline)".
	block := append(append([]byte{}, last.payload...), '\r', '\n')
	header, perr := textproto.NewReader(bufio.NewReader(bytes.NewReader(block))).ReadMIMEHeader()
	status := header.Get("Grpc-Status")
	if last.flags != 0x80 || perr != nil || status != "0" {
		t.Errorf("trailers frame has flag byte %#x and a payload starting % x: read as the HTTP/1 header block it should be, it yields grpc-status %q (parse error: %v); expected the final frame to be an 0x80 frame whose payload is the header block with grpc-status: 0",
			last.flags, last.payload[:4], status, perr)
	}
}

package connect_test

import (
	"bytes"
	"compress/gzip"
	"context"
	"encoding/binary"
	"fmt"
	"io"
	"net/http"
	"net/http/httptest"
	"strings"
	"sync/atomic"
	"testing"

	connect "github.com/bufbuild/connect-go"
	pingv1 "github.com/bufbuild/connect-go/internal/gen/connect/ping/v1"
	"github.com/bufbuild/connect-go/internal/gen/connect/ping/v1/pingv1connect"
	"google.golang.org/protobuf/proto"
)

// Property C07: "... unknown compression ... reach[es] the peer as the
// documented error codes, never as success."
//
// A request whose compression header is sent as two field lines - "gzip" and
// "br" - declares, by HTTP's list rule (RFC 9110 section 5.3: two lines are
// the same as one line "gzip, br"), a compression this handler does not know.
// Sent as ONE line the handler refuses it with "unimplemented". Sent as TWO
// lines the handler looks at the first line only, runs user code and answers
// with success. (The same tree already treats a repeated timeout header as
// malformed for exactly this reason; the compression headers were left out.)

type huntAPingServer struct {
	pingv1connect.UnimplementedPingServiceHandler
	calls atomic.Int64
}

func (s *huntAPingServer) Ping(_ context.Context, req *connect.Request[pingv1.PingRequest]) (*connect.Response[pingv1.PingResponse], error) {
	s.calls.Add(1)
	return connect.NewResponse(&pingv1.PingResponse{Number: req.Msg.Number}), nil
}

func huntAGzip(tb testing.TB, data []byte) []byte {
	tb.Helper()
	var buf bytes.Buffer
	w := gzip.NewWriter(&buf)
	if _, err := w.Write(data); err != nil {
		tb.Fatal(err)
	}
	if err := w.Close(); err != nil {
		tb.Fatal(err)
	}
	return buf.Bytes()
}

func huntAEnvelope(flags byte, data []byte) []byte {
	out := make([]byte, 5, 5+len(data))
	out[0] = flags
	binary.BigEndian.PutUint32(out[1:], uint32(len(data)))
	return append(out, data...)
}

func TestHuntA_RepeatedCompressionHeader(t *testing.T) {
	msg, err := proto.Marshal(&pingv1.PingRequest{Number: 42})
	if err != nil {
		t.Fatal(err)
	}
	cases := []struct {
		name        string
		contentType string
		header      string
		body        []byte
	}{
		{"connect-unary", "application/proto", "Content-Encoding", huntAGzip(t, msg)},
		{"grpc", "application/grpc", "Grpc-Encoding", huntAEnvelope(1, huntAGzip(t, msg))},
		{"grpc-web", "application/grpc-web", "Grpc-Encoding", huntAEnvelope(1, huntAGzip(t, msg))},
	}
	for _, tc := range cases {
		tc := tc
		for _, lines := range [][]string{{"gzip, br"}, {"gzip", "br"}} {
			lines := lines
			t.Run(fmt.Sprintf("%s/%d-lines", tc.name, len(lines)), func(t *testing.T) {
				srv := &huntAPingServer{}
				mux := http.NewServeMux()
				mux.Handle(pingv1connect.NewPingServiceHandler(srv))
				server := httptest.NewUnstartedServer(mux)
				server.EnableHTTP2 = true
				server.StartTLS()
				defer server.Close()

				req, err := http.NewRequest(
					http.MethodPost,
					server.URL+"/connect.ping.v1.PingService/Ping",
					bytes.NewReader(tc.body),
				)
				if err != nil {
					t.Fatal(err)
				}
				req.Header.Set("Content-Type", tc.contentType)
				for _, line := range lines {
					req.Header.Add(tc.header, line) // one field line per Add
				}
				res, err := server.Client().Do(req)
				if err != nil {
					t.Fatal(err)
				}
				defer res.Body.Close()
				body, err := io.ReadAll(res.Body)
				if err != nil {
					t.Fatal(err)
				}
				outcome := describeOutcome(tc.name, res, body)
				t.Logf("%s sent as %q: handler calls=%d, outcome: %s", tc.header, lines, srv.calls.Load(), outcome)
				if srv.calls.Load() != 0 || !strings.Contains(outcome, "unimplemented") {
					t.Errorf(
						"request declares %s %q, i.e. the list \"gzip, br\", and \"br\" is not a compression this handler knows: "+
							"expected the call to be refused with code unimplemented without running user code (as it is when the same list is sent on one line); "+
							"got: user code ran %d time(s), outcome %s",
						tc.header, lines, srv.calls.Load(), outcome,
					)
				}
			})
		}
	}
}

func describeOutcome(protocol string, res *http.Response, body []byte) string {
	switch protocol {
	case "connect-unary":
		if res.StatusCode == http.StatusOK {
			return "success (HTTP 200)"
		}
		if bytes.Contains(body, []byte(`"code":"unimplemented"`)) {
			return fmt.Sprintf("error unimplemented (HTTP %d)", res.StatusCode)
		}
		return fmt.Sprintf("HTTP %d %s", res.StatusCode, body)
	case "grpc":
		status := res.Trailer.Get("Grpc-Status")
		if status == "" {
			status = res.Header.Get("Grpc-Status")
		}
		return grpcOutcome(status)
	default: // grpc-web
		status := res.Header.Get("Grpc-Status")
		for status == "" && len(body) >= 5 {
			// Walk the envelopes; the one flagged 0x80 holds the trailers (and is
			// itself gzipped if its compression bit is set).
			flags, size := body[0], int(binary.BigEndian.Uint32(body[1:5]))
			if len(body) < 5+size {
				break
			}
			data := body[5 : 5+size]
			body = body[5+size:]
			if flags&0x80 == 0 {
				continue
			}
			if flags&1 != 0 {
				if r, err := gzip.NewReader(bytes.NewReader(data)); err == nil {
					data, _ = io.ReadAll(r)
				}
			}
			for _, line := range strings.Split(string(data), "\r\n") {
				if k, v, ok := strings.Cut(line, ": "); ok && strings.EqualFold(k, "grpc-status") {
					status = v
				}
			}
		}
		return grpcOutcome(status)
	}
}

func grpcOutcome(status string) string {
	switch status {
	case "0":
		return "success (grpc-status 0)"
	case "12":
		return "error unimplemented (grpc-status 12)"
	default:
		return "grpc-status " + status
	}
}

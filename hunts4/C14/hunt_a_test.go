package connect_test

import (
	"context"
	"errors"
	"io"
	"net/http"
	"net/http/httptest"
	"strings"
	"testing"
	"time"

	connect "github.com/bufbuild/connect-go"
	pingv1 "github.com/bufbuild/connect-go/internal/gen/connect/ping/v1"
)

// Property C14: "Once a handler has finished a call, further client Sends fail
// with an error wrapping io.EOF instead of blocking and the next Receive
// reports the handler's actual outcome."
//
// Client streaming over HTTP/1.1. The handler reads the first message and
// returns its response (64 KiB, i.e. more than the 4 KiB net/http's transport
// reads ahead). Only after the handler has returned does the client start its
// second Send, a large message. net/http's server stops reading the request
// after 256 KiB, so the Send is still under way when the answer arrives - and
// nothing wakes it: duplexHTTPCall.Write looks at responseReady only before it
// enters the pipe. The Send stays blocked until the server gives up on the
// connection (500 ms later), the transport's failed write then tears the
// connection down, and the answer the client has not read yet is gone.
func TestHuntA_HTTP1SendInProgressWhenAnswerArrives(t *testing.T) {
	want := strings.Repeat("r", 64*1024)
	for name, opts := range map[string][]connect.ClientOption{
		"connect": nil,
		"grpc":    {connect.WithGRPC()},
		"grpcweb": {connect.WithGRPCWeb()},
	} {
		name, opts := name, opts
		t.Run(name, func(t *testing.T) {
			handlerDone := make(chan struct{})
			mux := http.NewServeMux()
			mux.Handle("/t/Client", connect.NewClientStreamHandler("/t/Client",
				func(ctx context.Context, s *connect.ClientStream[pingv1.PingRequest]) (*connect.Response[pingv1.PingResponse], error) {
					defer close(handlerDone)
					if !s.Receive() {
						return nil, connect.NewError(connect.CodeInvalidArgument, errors.New("no first message"))
					}
					return connect.NewResponse(&pingv1.PingResponse{Number: 42, Text: want}), nil
				}))
			server := httptest.NewServer(mux) // HTTP/1.1
			defer server.Close()

			client := connect.NewClient[pingv1.PingRequest, pingv1.PingResponse](
				server.Client(), server.URL+"/t/Client", opts...)
			stream := client.CallClientStream(context.Background())
			if err := stream.Send(&pingv1.PingRequest{Number: 1}); err != nil {
				t.Fatalf("first Send: %v", err)
			}
			<-handlerDone // the handler has finished the call

			start := time.Now()
			sendErr := stream.Send(&pingv1.PingRequest{Number: 2, Text: strings.Repeat("q", 32<<20)})
			blocked := time.Since(start)
			if sendErr == nil || !errors.Is(sendErr, io.EOF) {
				t.Errorf("Send after the handler finished: expected an error wrapping io.EOF, got %v", sendErr)
			}
			res, err := stream.CloseAndReceive()
			if err != nil {
				t.Fatalf("the handler finished with a response (number 42, %d bytes of text) before this Send began; "+
					"expected the Send to fail with io.EOF and CloseAndReceive to report that response, "+
					"but the Send stayed blocked for %v (error then: %v) and CloseAndReceive reports: %v",
					len(want), blocked, sendErr, err)
			}
			if res.Msg.Number != 42 || res.Msg.Text != want {
				t.Fatalf("wrong response: number %d, %d bytes of text", res.Msg.Number, len(res.Msg.Text))
			}
		})
	}
}

package connect_test

import (
	"context"
	"net/http"
	"net/http/httptest"
	"strings"
	"testing"
	"time"

	connect "github.com/bufbuild/connect-go"
	pingv1 "github.com/bufbuild/connect-go/internal/gen/connect/ping/v1"
	"github.com/bufbuild/connect-go/internal/gen/connect/ping/v1/pingv1connect"
)

// Property C15: the deadline passes while the client is receiving the
// response of a unary Connect call. The operation that fails afterwards
// (CallUnary) must fail with deadline_exceeded (or canceled for a cancelled
// context), never with another code.
//
// The client has a read limit. The server's response is larger than the
// limit and is still arriving when the deadline passes (cancellation).
func TestHuntA_UnaryConnectOversizedResponseThenExpiry(t *testing.T) {
	for _, tc := range []struct {
		name   string
		http2  bool
		cancel bool
	}{
		{"http1/deadline", false, false},
		{"http1/cancel", false, true},
		{"http2/deadline", true, false},
		{"http2/cancel", true, true},
	} {
		tc := tc
		t.Run(tc.name, func(t *testing.T) {
			release := make(chan struct{})
			handler := http.HandlerFunc(func(w http.ResponseWriter, r *http.Request) {
				w.Header().Set("Content-Type", "application/proto")
				w.WriteHeader(http.StatusOK)
				// A valid PingResponse{text: "aaaa..."} that is larger than the
				// client's limit, of which only the beginning arrives in time.
				payload := append([]byte{0x12, 0xC8, 0x01}, []byte(strings.Repeat("a", 200))...)
				_, _ = w.Write(payload[:150])
				w.(http.Flusher).Flush()
				select {
				case <-r.Context().Done():
				case <-release:
				}
			})
			server := httptest.NewUnstartedServer(handler)
			server.EnableHTTP2 = tc.http2
			server.StartTLS()
			defer server.Close()
			defer close(release)

			client := pingv1connect.NewPingServiceClient(
				server.Client(),
				server.URL,
				connect.WithReadMaxBytes(100),
			)
			var (
				ctx      context.Context
				cancel   context.CancelFunc
				wantCode connect.Code
			)
			if tc.cancel {
				ctx, cancel = context.WithCancel(context.Background())
				time.AfterFunc(300*time.Millisecond, cancel)
				wantCode = connect.CodeCanceled
			} else {
				ctx, cancel = context.WithTimeout(context.Background(), 300*time.Millisecond)
				wantCode = connect.CodeDeadlineExceeded
			}
			defer cancel()
			_, err := client.Ping(ctx, connect.NewRequest(&pingv1.PingRequest{}))
			if err == nil {
				t.Fatalf("expected the call to fail with %v, it succeeded", wantCode)
			}
			if ctx.Err() == nil {
				t.Fatalf("test bug: call returned before the context ended: %v", err)
			}
			if got := connect.CodeOf(err); got != wantCode {
				t.Fatalf("context ended while receiving: expected code %v, got %v (error: %v)", wantCode, got, err)
			}
		})
	}
}

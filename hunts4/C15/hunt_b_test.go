package connect_test

import (
	"context"
	"crypto/tls"
	"net"
	"net/http"
	"net/http/httptest"
	"sync"
	"testing"
	"time"

	connect "github.com/bufbuild/connect-go"
	pingv1 "github.com/bufbuild/connect-go/internal/gen/connect/ping/v1"
	"github.com/bufbuild/connect-go/internal/gen/connect/ping/v1/pingv1connect"
)

// Property C15: the deadline passes while a Receive is blocked. The Receive
// must fail with deadline_exceeded, never with another code.
//
// HTTP/1.1 over TLS, server streaming. When the deadline passes, net/http
// closes the connection; a TLS connection says goodbye (close_notify) before
// the socket is closed. The server sees the goodbye, cancels the handler's
// context (context.Canceled: the peer went away), the handler returns its
// context's error, and the server's "canceled" end of stream can still reach
// the client in the time between the goodbye and the socket's close. The
// blocked Receive then reports the server's late answer - code canceled -
// although the call's own context has ended with DeadlineExceeded.
//
// With an ordinary loopback connection that window is microseconds wide (the
// defect shows in a few percent of the calls when 64 calls run in parallel,
// see HUNT.md). Here the socket's Close takes 100ms, as it may with
// SO_LINGER or a slow network stack, which makes it deterministic.
type huntBSlowCloseConn struct {
	net.Conn
	delay time.Duration
}

func (c *huntBSlowCloseConn) Close() error {
	time.Sleep(c.delay)
	return c.Conn.Close()
}

type huntBServer struct {
	pingv1connect.UnimplementedPingServiceHandler
	handlerErr chan error
	returnNil  bool
}

func (s *huntBServer) CountUp(
	ctx context.Context,
	_ *connect.Request[pingv1.CountUpRequest],
	stream *connect.ServerStream[pingv1.CountUpResponse],
) error {
	if err := stream.Send(&pingv1.CountUpResponse{Number: 1}); err != nil {
		return err
	}
	<-ctx.Done()
	s.handlerErr <- ctx.Err()
	if s.returnNil {
		return nil // a handler that just stops when its context ends
	}
	return ctx.Err() // a handler that returns its context's error
}

func huntBClient(t *testing.T, server *httptest.Server, closeDelay time.Duration, opts ...connect.ClientOption) (pingv1connect.PingServiceClient, func()) {
	t.Helper()
	base, _ := server.Client().Transport.(*http.Transport)
	tlsConfig := base.TLSClientConfig.Clone()
	transport := &http.Transport{
		DialTLSContext: func(ctx context.Context, network, addr string) (net.Conn, error) {
			raw, err := (&net.Dialer{}).DialContext(ctx, network, addr)
			if err != nil {
				return nil, err
			}
			host, _, _ := net.SplitHostPort(addr)
			cfg := tlsConfig.Clone()
			cfg.ServerName = host
			conn := tls.Client(&huntBSlowCloseConn{Conn: raw, delay: closeDelay}, cfg)
			if err := conn.HandshakeContext(ctx); err != nil {
				_ = raw.Close()
				return nil, err
			}
			return conn, nil
		},
	}
	return pingv1connect.NewPingServiceClient(&http.Client{Transport: transport}, server.URL, opts...), transport.CloseIdleConnections
}

func TestHuntB_LateAnswerAfterExpiryWins(t *testing.T) {
	// (The same scenario passes with the Connect and gRPC-Web protocols: their
	// end of stream is an envelope in the body, read with at least two Reads,
	// and the second one notices that the context has ended.)
	for _, tc := range []struct {
		name      string
		deadline  bool
		returnNil bool
	}{
		{"deadline/handler_returns_ctx_error", true, false},
		{"deadline/handler_returns_nil", true, true},
		{"cancel/handler_returns_nil", false, true},
	} {
		tc := tc
		t.Run(tc.name, func(t *testing.T) {
			svc := &huntBServer{handlerErr: make(chan error, 1), returnNil: tc.returnNil}
			mux := http.NewServeMux()
			mux.Handle(pingv1connect.NewPingServiceHandler(svc))
			server := httptest.NewUnstartedServer(mux)
			server.StartTLS() // HTTP/1.1 over TLS
			defer server.Close()
			client, closeIdle := huntBClient(t, server, 100*time.Millisecond, connect.WithGRPC())
			defer closeIdle()

			// With a deadline, the handler's own deadline (from the timeout
			// header) is the same 300ms but starts later: the handler's context
			// is cancelled first, by the client's departure.
			var (
				ctx    context.Context
				cancel context.CancelFunc
				want   = connect.CodeCanceled
			)
			if tc.deadline {
				ctx, cancel = context.WithTimeout(context.Background(), 300*time.Millisecond)
				want = connect.CodeDeadlineExceeded
			} else {
				ctx, cancel = context.WithCancel(context.Background())
				time.AfterFunc(300*time.Millisecond, cancel)
			}
			defer cancel()
			stream, err := client.CountUp(ctx, connect.NewRequest(&pingv1.CountUpRequest{Number: 1}))
			if err != nil {
				t.Fatalf("CountUp: %v", err)
			}
			defer stream.Close()
			if !stream.Receive() {
				t.Fatalf("first Receive: %v", stream.Err())
			}
			if stream.Receive() { // blocks until the context ends
				t.Fatalf("second Receive succeeded")
			}
			if ctx.Err() == nil {
				t.Fatalf("test bug: Receive failed before the context ended: %v", stream.Err())
			}
			select {
			case handlerErr := <-svc.handlerErr:
				t.Logf("handler's context ended with: %v", handlerErr)
			case <-time.After(time.Second):
				t.Logf("handler's context has not ended")
			}
			if stream.Err() == nil {
				t.Fatalf(
					"context ended during a blocked Receive (ctx.Err() = %v): expected code %v, but the stream ended cleanly (Err() == nil)",
					ctx.Err(), want,
				)
			}
			if got := connect.CodeOf(stream.Err()); got != want {
				t.Fatalf(
					"context ended during a blocked Receive (ctx.Err() = %v): expected code %v, got %v (error: %v)",
					ctx.Err(), want, got, stream.Err(),
				)
			}
		})
	}
}

// The same without the slow Close: ordinary loopback TLS connections, 64
// calls at a time. The window is then only as wide as the scheduler makes it;
// on the machine this was written on, between 1 and 7 of the 64 calls of a
// round report canceled instead of deadline_exceeded.
func TestHuntB_LateAnswerAfterExpiryWins_OrdinaryConnections(t *testing.T) {
	const rounds, parallel = 10, 64
	var (
		mu    sync.Mutex
		wrong int
		first error
	)
	for round := 0; round < rounds; round++ {
		var wg sync.WaitGroup
		for i := 0; i < parallel; i++ {
			wg.Add(1)
			go func() {
				defer wg.Done()
				svc := &huntBServer{handlerErr: make(chan error, 1)}
				mux := http.NewServeMux()
				mux.Handle(pingv1connect.NewPingServiceHandler(svc))
				server := httptest.NewUnstartedServer(mux)
				server.StartTLS()
				defer server.Close()
				client := pingv1connect.NewPingServiceClient(server.Client(), server.URL, connect.WithGRPC())
				ctx, cancel := context.WithTimeout(context.Background(), 300*time.Millisecond)
				defer cancel()
				stream, err := client.CountUp(ctx, connect.NewRequest(&pingv1.CountUpRequest{Number: 1}))
				if err != nil {
					return
				}
				defer stream.Close()
				if !stream.Receive() {
					return // too slow under load: not what this test is about
				}
				stream.Receive()
				if ctx.Err() != nil && connect.CodeOf(stream.Err()) != connect.CodeDeadlineExceeded {
					mu.Lock()
					wrong++
					if first == nil {
						first = stream.Err()
					}
					mu.Unlock()
				}
			}()
		}
		wg.Wait()
	}
	if wrong > 0 {
		t.Fatalf(
			"deadline passed during a blocked Receive: expected code deadline_exceeded every time, but %d of %d calls reported something else, the first: %v",
			wrong, rounds*parallel, first,
		)
	}
}

package connect_test

import (
	"context"
	"net/http"
	"net/http/httptest"
	"sync"
	"testing"
	"time"

	connect "github.com/bufbuild/connect-go"
	pingv1 "github.com/bufbuild/connect-go/internal/gen/connect/ping/v1"
	"github.com/bufbuild/connect-go/internal/gen/connect/ping/v1/pingv1connect"
)

// Property C15: the context ends while the client is receiving the response
// of a unary Connect call. The call must fail with canceled /
// deadline_exceeded, never with another code.
//
// The response has a status other than 200, and its body - the JSON form of
// the error - is still arriving when the context ends. The body of such a
// response is read by the goroutine that made the request, directly from
// http.Response.Body (not through duplexHTTPCall.Read, which knows about the
// context): the read fails, the failure is taken for "no usable error in the
// body", and the call reports the code that goes with the HTTP status. Whether
// that code or the context's reaches the caller is a race between this
// goroutine and the one that watches the context. With a few calls running at a
// time, as here, each wins about every other time (HTTP/1.1 and HTTP/2,
// cancellation and deadline alike); with one call at a time the wrong code
// shows in about half of the calls over HTTP/1.1 and in about 5% over HTTP/2.
func TestHuntC_UnaryConnectErrorBodyCutByContext(t *testing.T) {
	const attempts, workers = 80, 4
	for _, tc := range []struct {
		name   string
		http2  bool
		cancel bool
	}{
		{"http1/deadline", false, false},
		{"http1/cancel", false, true},
		{"http2/deadline", true, false},
		{"http2/cancel", true, true},
	} {
		tc := tc
		t.Run(tc.name, func(t *testing.T) {
			release := make(chan struct{})
			handler := http.HandlerFunc(func(w http.ResponseWriter, r *http.Request) {
				w.Header().Set("Content-Type", "application/json")
				w.WriteHeader(http.StatusServiceUnavailable)
				_, _ = w.Write([]byte(`{"code":"unavailable","message":"try `))
				w.(http.Flusher).Flush()
				select { // the rest of the body is late
				case <-r.Context().Done():
				case <-release:
				}
			})
			server := httptest.NewUnstartedServer(handler)
			server.EnableHTTP2 = tc.http2
			server.StartTLS()
			defer server.Close()
			defer close(release)
			client := pingv1connect.NewPingServiceClient(server.Client(), server.URL)

			var (
				mu         sync.Mutex
				wg         sync.WaitGroup
				wrong      int
				firstWrong error
			)
			attempt := func(i int) {
				var (
					ctx    context.Context
					cancel context.CancelFunc
					want   connect.Code
				)
				if tc.cancel {
					ctx, cancel = context.WithCancel(context.Background())
					time.AfterFunc(50*time.Millisecond, cancel)
					want = connect.CodeCanceled
				} else {
					ctx, cancel = context.WithTimeout(context.Background(), 50*time.Millisecond)
					want = connect.CodeDeadlineExceeded
				}
				_, err := client.Ping(ctx, connect.NewRequest(&pingv1.PingRequest{}))
				ended := ctx.Err() != nil
				cancel()
				if err == nil {
					t.Errorf("attempt %d: call succeeded", i)
					return
				}
				if !ended {
					t.Errorf("attempt %d: test bug: call returned before the context ended: %v", i, err)
					return
				}
				if connect.CodeOf(err) != want {
					mu.Lock()
					wrong++
					if firstWrong == nil {
						firstWrong = err
					}
					mu.Unlock()
				}
			}
			for w := 0; w < workers; w++ { // a few calls at a time
				wg.Add(1)
				go func() {
					defer wg.Done()
					for i := 0; i < attempts/workers; i++ {
						attempt(i)
					}
				}()
			}
			wg.Wait()
			if wrong > 0 {
				t.Fatalf(
					"context ended while receiving the (non-200) response: expected code canceled/deadline_exceeded every time, but %d of %d calls reported something else, the first: %v",
					wrong, attempts, firstWrong,
				)
			}
		})
	}
}

package connect_test

import (
	"context"
	"errors"
	"net/http"
	"net/http/httptest"
	"sync"
	"testing"
	"time"

	connect "github.com/bufbuild/connect-go"
	pingv1 "github.com/bufbuild/connect-go/internal/gen/connect/ping/v1"
	"github.com/bufbuild/connect-go/internal/gen/connect/ping/v1/pingv1connect"
)

// huntDClient is an HTTPClient that reports failures in its own words: the
// error it returns does not wrap the transport's (many middlewares format
// their errors with %v, or translate them into their own error types).
type huntDClient struct {
	inner *http.Client
}

func (c *huntDClient) Do(req *http.Request) (*http.Response, error) {
	resp, err := c.inner.Do(req)
	if err != nil {
		return nil, errors.New("upstream request failed: " + err.Error())
	}
	return resp, nil
}

// Property C15: the context ends while the call waits for the response. Every
// operation that fails afterwards must fail with canceled/deadline_exceeded,
// never another code.
//
// What the HTTPClient calls the failure should not matter - for a response
// body that breaks, duplexHTTPCall.Read says so explicitly ("the context's end
// is why the stream broke, whatever the transport calls the failure") - but
// the error that HTTPClient.Do returns is classified by its chain alone: if it
// doesn't wrap the context's error, the call fails with code unavailable,
// unless the goroutine watching the context happens to record the context's
// error first.
func TestHuntD_DoErrorNotAttributedToContext(t *testing.T) {
	const attempts, workers = 80, 4
	for _, tc := range []struct {
		name   string
		http2  bool
		cancel bool
		opts   []connect.ClientOption
	}{
		// Over HTTP/2 the wrong code shows in most of the calls, over HTTP/1.1 in
		// one to five of a hundred.
		{"connect/http2/deadline", true, false, nil},
		{"connect/http2/cancel", true, true, nil},
		{"grpc/http2/deadline", true, false, []connect.ClientOption{connect.WithGRPC()}},
		{"grpcweb/http2/cancel", true, true, []connect.ClientOption{connect.WithGRPCWeb()}},
	} {
		tc := tc
		t.Run(tc.name, func(t *testing.T) {
			release := make(chan struct{})
			handler := http.HandlerFunc(func(w http.ResponseWriter, r *http.Request) {
				select { // no answer in time
				case <-r.Context().Done():
				case <-release:
				}
			})
			server := httptest.NewUnstartedServer(handler)
			server.EnableHTTP2 = tc.http2
			server.StartTLS()
			defer server.Close()
			defer close(release)
			client := pingv1connect.NewPingServiceClient(&huntDClient{inner: server.Client()}, server.URL, tc.opts...)

			var (
				mu         sync.Mutex
				wg         sync.WaitGroup
				wrong      int
				firstWrong error
			)
			attempt := func(i int) {
				var (
					ctx    context.Context
					cancel context.CancelFunc
					want   connect.Code
				)
				if tc.cancel {
					ctx, cancel = context.WithCancel(context.Background())
					time.AfterFunc(50*time.Millisecond, cancel)
					want = connect.CodeCanceled
				} else {
					ctx, cancel = context.WithTimeout(context.Background(), 50*time.Millisecond)
					want = connect.CodeDeadlineExceeded
				}
				_, err := client.Ping(ctx, connect.NewRequest(&pingv1.PingRequest{}))
				ended := ctx.Err() != nil
				cancel()
				if err == nil {
					t.Errorf("attempt %d: call succeeded", i)
					return
				}
				if !ended {
					t.Errorf("attempt %d: test bug: call returned before the context ended: %v", i, err)
					return
				}
				if connect.CodeOf(err) != want {
					mu.Lock()
					wrong++
					if firstWrong == nil {
						firstWrong = err
					}
					mu.Unlock()
				}
			}
			for w := 0; w < workers; w++ { // a few calls at a time
				wg.Add(1)
				go func() {
					defer wg.Done()
					for i := 0; i < attempts/workers; i++ {
						attempt(i)
					}
				}()
			}
			wg.Wait()
			if wrong > 0 {
				t.Fatalf(
					"context ended while waiting for the response: expected code canceled/deadline_exceeded every time, but %d of %d calls reported something else, the first: %v",
					wrong, attempts, firstWrong,
				)
			}
		})
	}
}

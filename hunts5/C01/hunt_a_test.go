package connect_test

import (
	"context"
	"errors"
	"fmt"
	"io"
	"net/http"
	"net/http/httptest"
	"sync"
	"testing"

	connect "github.com/bufbuild/connect-go"
	pingv1 "github.com/bufbuild/connect-go/internal/gen/connect/ping/v1"
)

// huntAReusingInterceptor is a handler-side streaming interceptor that reads
// the request stream itself through the public StreamingHandlerConn API, into
// one message variable that it reuses for every Receive - the way one uses
// proto.Unmarshal, json.Unmarshal, gob, grpc-go's RecvMsg, ... all of which
// overwrite their target.
type huntAReusingInterceptor struct {
	mu   sync.Mutex
	seen []int64
}

func (*huntAReusingInterceptor) WrapUnary(next connect.UnaryFunc) connect.UnaryFunc { return next }
func (*huntAReusingInterceptor) WrapStreamingClient(next connect.StreamingClientFunc) connect.StreamingClientFunc {
	return next
}
func (i *huntAReusingInterceptor) WrapStreamingHandler(connect.StreamingHandlerFunc) connect.StreamingHandlerFunc {
	return func(_ context.Context, conn connect.StreamingHandlerConn) error {
		var msg pingv1.SumRequest // reused for every message
		var seen []int64
		for {
			err := conn.Receive(&msg)
			if errors.Is(err, io.EOF) {
				break
			}
			if err != nil {
				return err
			}
			seen = append(seen, msg.Number)
		}
		i.mu.Lock()
		i.seen = seen
		i.mu.Unlock()
		return conn.Send(&pingv1.SumResponse{Sum: int64(len(seen))})
	}
}

// TestHuntA_ZeroMessageAfterNonZeroOnConn: property C01 says the receiving
// side's API yields the messages that were sent, "including zero-valued
// (empty-encoding) messages at any position and regardless of what earlier
// messages on the stream contained". StreamingHandlerConn.Receive (and
// StreamingClientConn.Receive) are that API for interceptors. The repair
// "reset the reused message before each streaming Receive" was made in the
// typed wrappers (ClientStream, ServerStreamForClient) only; the conns
// themselves still return nil for a zero-length envelope without touching the
// target, so a zero message that follows a non-zero one is delivered with the
// previous message's content.
func TestHuntA_ZeroMessageAfterNonZeroOnConn(t *testing.T) {
	sent := []int64{5, 0, 7, 0, 0}
	for _, protocol := range []string{"connect", "grpc", "grpcweb"} {
		t.Run(protocol, func(t *testing.T) {
			icept := &huntAReusingInterceptor{}
			mux := http.NewServeMux()
			mux.Handle("/hunt.A/Sum", connect.NewClientStreamHandler("/hunt.A/Sum",
				func(context.Context, *connect.ClientStream[pingv1.SumRequest]) (*connect.Response[pingv1.SumResponse], error) {
					return nil, errors.New("unreachable: the interceptor answers")
				}, connect.WithInterceptors(icept)))
			server := httptest.NewUnstartedServer(mux)
			server.EnableHTTP2 = true
			server.StartTLS()
			defer server.Close()
			var opts []connect.ClientOption
			switch protocol {
			case "grpc":
				opts = append(opts, connect.WithGRPC())
			case "grpcweb":
				opts = append(opts, connect.WithGRPCWeb())
			}
			client := connect.NewClient[pingv1.SumRequest, pingv1.SumResponse](server.Client(), server.URL+"/hunt.A/Sum", opts...)
			stream := client.CallClientStream(context.Background())
			for _, n := range sent {
				if err := stream.Send(&pingv1.SumRequest{Number: n}); err != nil {
					t.Fatalf("send %d: %v", n, err)
				}
			}
			res, err := stream.CloseAndReceive()
			if err != nil {
				t.Fatalf("CloseAndReceive: %v", err)
			}
			if res.Msg.Sum != int64(len(sent)) {
				t.Fatalf("handler side received %d messages, want %d", res.Msg.Sum, len(sent))
			}
			icept.mu.Lock()
			got := fmt.Sprint(icept.seen)
			icept.mu.Unlock()
			if want := fmt.Sprint(sent); got != want {
				t.Errorf("messages sent %s, but StreamingHandlerConn.Receive yielded %s: "+
					"a zero-valued message is delivered with the content of the message before it", want, got)
			}
		})
	}
}

package connect_test

import (
	"context"
	"errors"
	"fmt"
	"net/http"
	"net/http/httptest"
	"sort"
	"testing"

	connect "github.com/bufbuild/connect-go"
	pingv1 "github.com/bufbuild/connect-go/internal/gen/connect/ping/v1"
	"github.com/bufbuild/connect-go/internal/gen/connect/ping/v1/pingv1connect"
)

type huntAServer struct {
	pingv1connect.UnimplementedPingServiceHandler
}

func (huntAServer) Ping(context.Context, *connect.Request[pingv1.PingRequest]) (*connect.Response[pingv1.PingResponse], error) {
	err := connect.NewError(connect.CodeFailedPrecondition, errors.New("nope"))
	// The way code that comes from grpc-go's metadata.MD writes keys: lower
	// case, straight into the map (net/http documents this for http.Header:
	// "To use non-canonical keys, assign to the map directly").
	err.Meta()["x-request-id"] = []string{"from-md"}
	// ...and the way http.Header's own methods write them.
	err.Meta().Add("X-Request-Id", "from-add")
	return nil, err
}

// Property C02: the client's error metadata contains every key/value the
// handler attached, in every protocol. An error whose metadata holds the same
// field name under two spellings (legal in an http.Header, and every other
// protocol/HTTP version combination delivers both values) loses one of the two
// values when it travels as gRPC over HTTP/2.
func TestHuntA_GRPCTrailerKeySpellingsCollide(t *testing.T) {
	mux := http.NewServeMux()
	mux.Handle(pingv1connect.NewPingServiceHandler(huntAServer{}))
	for _, h2 := range []bool{false, true} {
		for _, protocol := range []string{"connect", "grpcweb", "grpc"} {
			t.Run(fmt.Sprintf("h2=%v/%s", h2, protocol), func(t *testing.T) {
				var server *httptest.Server
				if h2 {
					server = httptest.NewUnstartedServer(mux)
					server.EnableHTTP2 = true
					server.StartTLS()
				} else {
					server = httptest.NewServer(mux)
				}
				defer server.Close()
				var opts []connect.ClientOption
				switch protocol {
				case "grpc":
					opts = append(opts, connect.WithGRPC())
				case "grpcweb":
					opts = append(opts, connect.WithGRPCWeb())
				}
				client := pingv1connect.NewPingServiceClient(server.Client(), server.URL, opts...)
				for i := 0; i < 20; i++ { // map iteration order decides which value is lost
					_, err := client.Ping(context.Background(), connect.NewRequest(&pingv1.PingRequest{}))
					var connectErr *connect.Error
					if !errors.As(err, &connectErr) || connectErr.Code() != connect.CodeFailedPrecondition {
						t.Fatalf("expected the handler's failed_precondition error, got %v", err)
					}
					got := append([]string(nil), connectErr.Meta().Values("X-Request-Id")...)
					sort.Strings(got)
					if len(got) != 2 || got[0] != "from-add" || got[1] != "from-md" {
						t.Fatalf("call %d: handler attached X-Request-Id values [from-add from-md] to its error, client's error metadata has %q", i, got)
					}
				}
			})
		}
	}
}

func (huntAServer) CountUp(_ context.Context, _ *connect.Request[pingv1.CountUpRequest], stream *connect.ServerStream[pingv1.CountUpResponse]) error {
	// Something earlier in the call (an interceptor, say) put a request id into
	// the response trailers...
	stream.ResponseTrailer().Set("X-Request-Id", "from-trailer")
	if err := stream.Send(&pingv1.CountUpResponse{Number: 1}); err != nil {
		return err
	}
	// ...and the handler fails with metadata taken over from a lower-case
	// keyed map.
	err := connect.NewError(connect.CodeFailedPrecondition, errors.New("nope"))
	for key, values := range map[string][]string{"x-request-id": {"from-error"}} {
		err.Meta()[key] = values
	}
	return err
}

// The same collision between the handler's response trailers and the error's
// metadata, after a response message has been sent: over gRPC on HTTP/2 the
// value attached to the error may be the one that is lost.
func TestHuntA_GRPCTrailerAndErrorMetadataCollide(t *testing.T) {
	mux := http.NewServeMux()
	mux.Handle(pingv1connect.NewPingServiceHandler(huntAServer{}))
	server := httptest.NewUnstartedServer(mux)
	server.EnableHTTP2 = true
	server.StartTLS()
	defer server.Close()
	for _, protocol := range []string{"connect", "grpcweb", "grpc"} {
		t.Run(protocol, func(t *testing.T) {
			var opts []connect.ClientOption
			switch protocol {
			case "grpc":
				opts = append(opts, connect.WithGRPC())
			case "grpcweb":
				opts = append(opts, connect.WithGRPCWeb())
			}
			client := pingv1connect.NewPingServiceClient(server.Client(), server.URL, opts...)
			lost := 0
			const calls = 50
			for i := 0; i < calls; i++ {
				stream, err := client.CountUp(context.Background(), connect.NewRequest(&pingv1.CountUpRequest{}))
				if err != nil {
					t.Fatal(err)
				}
				for stream.Receive() {
				}
				var connectErr *connect.Error
				if !errors.As(stream.Err(), &connectErr) || connectErr.Code() != connect.CodeFailedPrecondition {
					t.Fatalf("expected the handler's failed_precondition error, got %v", stream.Err())
				}
				found := false
				for _, value := range connectErr.Meta().Values("X-Request-Id") {
					found = found || value == "from-error"
				}
				if !found {
					lost++
					if lost == 1 {
						t.Errorf("call %d: the handler's error carried x-request-id=from-error, the client's error metadata has X-Request-Id=%q", i, connectErr.Meta().Values("X-Request-Id"))
					}
				}
				_ = stream.Close()
			}
			if lost > 0 {
				t.Errorf("the error's metadata value was lost in %d of %d calls", lost, calls)
			}
		})
	}
}

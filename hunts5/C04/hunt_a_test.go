package connect_test

import (
	"context"
	"encoding/binary"
	"errors"
	"io"
	"net/http"
	"net/http/httptest"
	"testing"
	"time"

	pingv1 "github.com/bufbuild/connect-go/internal/gen/connect/ping/v1"
	"github.com/bufbuild/connect-go/internal/gen/connect/ping/v1/pingv1connect"
	"google.golang.org/protobuf/proto"
)

// A full-duplex HTTP/1.1 peer (think of a proxy in front of a gRPC or Connect
// backend that sends its response headers at once and keeps reading the
// request) answers a client-streaming call early. Its response carries
// "Connection: close" - here simply because the client's transport has
// DisableKeepAlives set, so the request said "Connection: close" and the
// server echoes it; a server with keep-alives switched off, or one that speaks
// HTTP/1.0, does the same on every response.
//
// The client library takes that header for "the server has given up on the
// request" and ends the request body itself - cleanly: the transport writes the
// terminating chunk. The peer, which was still reading, sees a clean end of the
// request stream after 1 of the 3 messages the caller sends, answers with the
// sum of that prefix, and the call SUCCEEDS on a request stream that nobody
// ended.
//
// Property C04: "... symmetrically a handler never sees a clean end of the
// request stream when the request body failed or stopped ...", and the repair
// "on HTTP/1.x, end the request body when the server announces it will close
// the connection" was meant to remove exactly this outcome ("a full-duplex
// peer ... answers early and keeps reading; Sends after its headers were
// refused, and the call succeeded on a truncated request") - it still happens
// whenever the early answer says "Connection: close".
func TestHuntA_EarlyAnswerWithConnectionCloseTruncatesRequestCleanly(t *testing.T) {
	t.Parallel()
	// Control: the same peer, the same caller, a transport that keeps
	// connections alive (no "Connection: close" anywhere): all three messages
	// arrive, sum 6. This passes.
	t.Run("control_keepalive", func(t *testing.T) { huntAEarlyAnswer(t, false) })
	// The same with "Connection: close" in the early answer. This fails.
	t.Run("connection_close", func(t *testing.T) { huntAEarlyAnswer(t, true) })
}

func huntAEarlyAnswer(t *testing.T, disableKeepAlives bool) {

	type observation struct {
		numbers  []int64
		cleanEnd bool
		readErr  error
	}
	observed := make(chan observation, 1)

	// The peer: a hand-written Connect-protocol (streaming) handler for
	// PingService/Sum that works in full duplex.
	peer := http.HandlerFunc(func(w http.ResponseWriter, r *http.Request) {
		if err := http.NewResponseController(w).EnableFullDuplex(); err != nil {
			t.Errorf("EnableFullDuplex: %v", err)
		}
		w.Header().Set("Content-Type", "application/connect+proto")
		w.WriteHeader(http.StatusOK)
		w.(http.Flusher).Flush() // headers go out at once

		var obs observation
		var sum int64
		for {
			var prefix [5]byte
			_, err := io.ReadFull(r.Body, prefix[:])
			if err == io.EOF { //nolint:errorlint
				obs.cleanEnd = true
				break
			}
			if err != nil {
				obs.readErr = err
				break
			}
			payload := make([]byte, binary.BigEndian.Uint32(prefix[1:]))
			if _, err := io.ReadFull(r.Body, payload); err != nil {
				obs.readErr = err
				break
			}
			var msg pingv1.SumRequest
			if err := proto.Unmarshal(payload, &msg); err != nil {
				obs.readErr = err
				break
			}
			obs.numbers = append(obs.numbers, msg.Number)
			sum += msg.Number
		}
		observed <- obs
		if !obs.cleanEnd {
			end := []byte(`{"error":{"code":"data_loss","message":"request stream broke"}}`)
			head := []byte{2, 0, 0, 0, 0}
			binary.BigEndian.PutUint32(head[1:], uint32(len(end)))
			_, _ = w.Write(append(head, end...))
			return
		}
		data, _ := proto.Marshal(&pingv1.SumResponse{Sum: sum})
		head := []byte{0, 0, 0, 0, 0}
		binary.BigEndian.PutUint32(head[1:], uint32(len(data)))
		_, _ = w.Write(append(head, data...))
		_, _ = w.Write([]byte{2, 0, 0, 0, 2, '{', '}'})
	})
	server := httptest.NewServer(peer) // HTTP/1.1
	defer server.Close()

	transport := &http.Transport{DisableKeepAlives: disableKeepAlives}
	defer transport.CloseIdleConnections()
	client := pingv1connect.NewPingServiceClient(&http.Client{Transport: transport}, server.URL)

	ctx, cancel := context.WithTimeout(context.Background(), 10*time.Second)
	defer cancel()
	stream := client.Sum(ctx)
	const total = 3
	var sendErrs []error
	for i := int64(1); i <= total; i++ {
		err := stream.Send(&pingv1.SumRequest{Number: i})
		sendErrs = append(sendErrs, err)
		if err != nil && !errors.Is(err, io.EOF) {
			t.Fatalf("Send(%d): %v", i, err)
		}
		// Give the early answer time to arrive between two messages.
		time.Sleep(150 * time.Millisecond)
	}
	response, err := stream.CloseAndReceive()

	var obs observation
	select {
	case obs = <-observed:
	case <-time.After(5 * time.Second):
		t.Fatal("the peer never saw the end of the request")
	}
	t.Logf("Send results: %v", sendErrs)
	t.Logf("peer saw numbers %v, clean end = %v, read error = %v", obs.numbers, obs.cleanEnd, obs.readErr)
	if err != nil {
		t.Logf("CloseAndReceive failed: %v", err)
	} else {
		t.Logf("CloseAndReceive succeeded: sum = %d", response.Msg.Sum)
	}

	if obs.cleanEnd && len(obs.numbers) < total {
		t.Errorf("the peer saw a CLEAN end of the request stream after %d of %d messages (%v): "+
			"the caller never ended the stream, the library did, with a regular terminating chunk; "+
			"expected: all %d messages, or a request body that visibly fails",
			len(obs.numbers), total, obs.numbers, total)
	}
	if err == nil && response.Msg.Sum != 6 {
		t.Errorf("the call SUCCEEDED with sum %d computed from a truncated request stream; "+
			"expected sum 6, or a failed call", response.Msg.Sum)
	}
}

package connect_test

import (
	"compress/gzip"
	"context"
	"io"
	"net/http"
	"net/http/httptest"
	"testing"
	"time"

	connect "github.com/bufbuild/connect-go"
	pingv1 "github.com/bufbuild/connect-go/internal/gen/connect/ping/v1"
	"github.com/bufbuild/connect-go/internal/gen/connect/ping/v1/pingv1connect"
)

// stickyGzip is a Decompressor written in the "sticky error" style that
// compress/flate and compress/zlib use internally: it remembers the last Read
// error and Close reports it. Unlike the standard library's readers it does
// not filter io.EOF out in Close (compress/zlib's Close has an explicit
// `z.err != io.EOF` for exactly that reason), so after a payload that was read
// to its end, Close returns io.EOF. Sloppy, but within the interface: connect
// only says that Close "may return an error".
type stickyGzip struct {
	reader gzip.Reader
	err    error
}

func (s *stickyGzip) Read(p []byte) (int, error) {
	n, err := s.reader.Read(p)
	if err != nil {
		s.err = err
	}
	return n, err
}

func (s *stickyGzip) Close() error {
	if err := s.reader.Close(); err != nil {
		return err
	}
	return s.err
}

func (s *stickyGzip) Reset(src io.Reader) error {
	s.err = nil
	return s.reader.Reset(src)
}

// SECONDARY finding - a sibling of the repaired "errors of user-supplied
// codecs / compressors / decompressors that wrap io.EOF are taken for the end
// of the stream" family: every other error of a (de)compressor goes through
// withoutEOF by now ("get decompressor", "decompress", "get compressor",
// "compress", "recycle compressor"), "recycle decompressor" (compression.go,
// Decompress, the putDecompressor error) does not.
//
// A gRPC client whose Decompressor's Close fails with (an error wrapping)
// io.EOF takes that LOCAL failure, which strikes before the first message is
// handed to the caller, for the clean end of the response body: it drains the
// rest of the response, finds "Grpc-Status: 0" in the trailers, and reports a
// successfully completed stream of ZERO messages, although the server sent
// five and nothing was cut. (Over Connect and gRPC-Web the same failure ends
// the call with an error, because there the terminator is looked for in the
// body that was not read.)
//
// Relation to property C04: the call "succeeds" although the client stopped
// reading the response at its first message - the end that Receive reports is
// not the peer's end-of-stream marker but a local error that happens to wrap
// io.EOF; the marker is only fetched afterwards to decorate that conclusion.
func TestHuntB_DecompressorCloseErrorWrappingEOFEndsGRPCStreamCleanly(t *testing.T) {
	t.Parallel()
	mux := http.NewServeMux()
	mux.Handle(pingv1connect.NewPingServiceHandler(
		pingServer{},
		connect.WithCompressMinBytes(1), // compress every response message
	))
	server := httptest.NewUnstartedServer(mux)
	server.EnableHTTP2 = true
	server.StartTLS()
	defer server.Close()

	client := pingv1connect.NewPingServiceClient(
		server.Client(),
		server.URL,
		connect.WithGRPC(),
		connect.WithAcceptCompression(
			"gzip",
			func() connect.Decompressor { return &stickyGzip{} },
			func() connect.Compressor { return gzip.NewWriter(io.Discard) },
		),
	)
	ctx, cancel := context.WithTimeout(context.Background(), 10*time.Second)
	defer cancel()
	const total = 5
	stream, err := client.CountUp(ctx, connect.NewRequest(&pingv1.CountUpRequest{Number: total}))
	if err != nil {
		t.Fatalf("CountUp: %v", err)
	}
	defer stream.Close()
	var got []int64
	for stream.Receive() {
		got = append(got, stream.Msg().Number)
	}
	t.Logf("received %v, Err() = %v", got, stream.Err())
	if stream.Err() == nil && len(got) != total {
		t.Errorf("the server sent %d messages and status OK, nothing was cut; the client delivered %d (%v) "+
			"and reports a cleanly completed stream (Err() == nil). Expected: all %d messages, or a coded "+
			"error saying that the decompressor could not be recycled - not a local failure passing for the "+
			"end of the stream", total, len(got), got, total)
	}
}

// The same on the handler side, in every protocol: a client-streaming handler
// whose Decompressor's Close returns io.EOF sees a CLEAN end of the request
// stream before the first of the three messages the client sent (nothing
// failed, nothing was cut), answers with the sum of nothing, and the call
// succeeds.
func TestHuntB_HandlerSeesCleanEndOfRequestOnDecompressorCloseEOF(t *testing.T) {
	t.Parallel()
	mux := http.NewServeMux()
	mux.Handle(pingv1connect.NewPingServiceHandler(
		pingServer{},
		connect.WithCompression(
			"gzip",
			func() connect.Decompressor { return &stickyGzip{} },
			func() connect.Compressor { return gzip.NewWriter(io.Discard) },
		),
	))
	server := httptest.NewUnstartedServer(mux)
	server.EnableHTTP2 = true
	server.StartTLS()
	defer server.Close()

	for _, protocol := range []struct {
		name string
		opts []connect.ClientOption
	}{
		{"connect", nil},
		{"grpc", []connect.ClientOption{connect.WithGRPC()}},
		{"grpcweb", []connect.ClientOption{connect.WithGRPCWeb()}},
	} {
		protocol := protocol
		t.Run(protocol.name, func(t *testing.T) {
			opts := append([]connect.ClientOption{connect.WithSendGzip(), connect.WithCompressMinBytes(1)}, protocol.opts...)
			client := pingv1connect.NewPingServiceClient(server.Client(), server.URL, opts...)
			ctx, cancel := context.WithTimeout(context.Background(), 10*time.Second)
			defer cancel()
			stream := client.Sum(ctx)
			for i := int64(1); i <= 3; i++ {
				if err := stream.Send(&pingv1.SumRequest{Number: i}); err != nil {
					t.Fatalf("Send(%d): %v", i, err)
				}
			}
			response, err := stream.CloseAndReceive()
			if err != nil {
				t.Logf("call failed (fine): %v", err)
				return
			}
			if response.Msg.Sum != 6 {
				t.Errorf("client sent 1, 2, 3 and closed; the handler saw a clean end of the request stream early "+
					"and the call SUCCEEDED with sum %d; expected sum 6 or a failed call", response.Msg.Sum)
			}
		})
	}
}

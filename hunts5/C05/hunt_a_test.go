package connect_test

import (
	"bytes"
	"context"
	"encoding/binary"
	"errors"
	"io"
	"net/http"
	"net/http/httptest"
	"net/url"
	"strings"
	"testing"

	"github.com/bufbuild/connect-go"
	pingv1 "github.com/bufbuild/connect-go/internal/gen/connect/ping/v1"
	"github.com/bufbuild/connect-go/internal/gen/connect/ping/v1/pingv1connect"
	"google.golang.org/protobuf/proto"
)

// Property C05: every response a handler writes is decodable by an independent,
// strictly spec-following implementation and yields the ... error ... the
// application supplied.
//
// A handler returns an error whose message begins or ends with a space. The
// gRPC and gRPC-Web handlers percent-encode the message for Grpc-Message but
// leave the space (0x20) as is - also at the two ends of the value, where no
// HTTP field value can carry it: RFC 9110 5.5 has every recipient strip
// leading and trailing whitespace before it evaluates a field value, and RFC
// 9113 8.2.1 calls an HTTP/2 field value that starts or ends with SP or HTAB
// malformed. The peer below does what PROTOCOL-HTTP2.md says - Status-Message
// is the percent-decoded grpc-message - and gets a different message from the
// one the handler returned (over HTTP/1.1 and in gRPC-Web's in-body trailers
// net/http strips the spaces while writing; over HTTP/2 they go out on the
// wire and the field is malformed).

type huntAServer struct {
	pingv1connect.UnimplementedPingServiceHandler
	msg string
}

func (s *huntAServer) Ping(context.Context, *connect.Request[pingv1.PingRequest]) (*connect.Response[pingv1.PingResponse], error) {
	return nil, connect.NewError(connect.CodeNotFound, errors.New(s.msg))
}

func (s *huntAServer) CountUp(_ context.Context, _ *connect.Request[pingv1.CountUpRequest], stream *connect.ServerStream[pingv1.CountUpResponse]) error {
	if err := stream.Send(&pingv1.CountUpResponse{Number: 1}); err != nil {
		return err
	}
	return connect.NewError(connect.CodeNotFound, errors.New(s.msg))
}

// strictGRPCMessage decodes a grpc-message field value as a spec-following
// peer does: the value as HTTP defines it (no surrounding whitespace), then
// percent-decoding.
func strictGRPCMessage(t *testing.T, raw string) string {
	t.Helper()
	value := strings.Trim(raw, " \t") // RFC 9110 5.5
	decoded, err := url.PathUnescape(value)
	if err != nil {
		t.Fatalf("grpc-message %q is not percent-encoded: %v", raw, err)
	}
	return decoded
}

func TestHuntA_GRPCMessageEdgeSpaces(t *testing.T) {
	const supplied = "no such user: " // ends with a space, as "prefix: " + "" does
	mux := http.NewServeMux()
	mux.Handle(pingv1connect.NewPingServiceHandler(&huntAServer{msg: supplied}))

	envelope := func(msg proto.Message) []byte {
		payload, err := proto.Marshal(msg)
		if err != nil {
			t.Fatal(err)
		}
		out := make([]byte, 5+len(payload))
		binary.BigEndian.PutUint32(out[1:5], uint32(len(payload)))
		copy(out[5:], payload)
		return out
	}

	check := func(t *testing.T, where, raw string, onWire bool) {
		t.Helper()
		if onWire && raw != strings.Trim(raw, " \t") {
			t.Errorf("%s: Grpc-Message field value %q starts or ends with whitespace: "+
				"malformed under RFC 9113 8.2.1, a strict HTTP/2 peer resets the stream "+
				"instead of decoding status not_found", where, raw)
		}
		if got := strictGRPCMessage(t, raw); got != supplied {
			t.Errorf("%s: handler returned not_found with message %q, a spec-following peer "+
				"decodes grpc-message %q to %q", where, supplied, raw, got)
		}
	}

	for _, httpVersion := range []string{"HTTP/1.1", "HTTP/2"} {
		httpVersion := httpVersion
		t.Run(httpVersion, func(t *testing.T) {
			server := httptest.NewUnstartedServer(mux)
			if httpVersion == "HTTP/2" {
				server.EnableHTTP2 = true
				server.StartTLS()
			} else {
				server.Start()
			}
			defer server.Close()

			post := func(t *testing.T, path, contentType string, body []byte) (*http.Response, []byte) {
				t.Helper()
				request, err := http.NewRequest(http.MethodPost, server.URL+path, bytes.NewReader(body))
				if err != nil {
					t.Fatal(err)
				}
				request.Header.Set("Content-Type", contentType)
				request.Header.Set("Te", "trailers")
				response, err := server.Client().Do(request)
				if err != nil {
					t.Fatal(err)
				}
				defer response.Body.Close()
				data, err := io.ReadAll(response.Body)
				if err != nil {
					t.Fatal(err)
				}
				return response, data
			}

			t.Run("grpc_unary", func(t *testing.T) {
				response, _ := post(t, "/connect.ping.v1.PingService/Ping", "application/grpc", envelope(&pingv1.PingRequest{}))
				if got := response.Trailer.Get("Grpc-Status"); got != "5" {
					t.Fatalf("grpc-status %q, want 5", got)
				}
				check(t, "HTTP trailers", response.Trailer["Grpc-Message"][0], httpVersion == "HTTP/2")
			})
			t.Run("grpc_server_stream", func(t *testing.T) {
				response, _ := post(t, "/connect.ping.v1.PingService/CountUp", "application/grpc", envelope(&pingv1.CountUpRequest{Number: 1}))
				if got := response.Trailer.Get("Grpc-Status"); got != "5" {
					t.Fatalf("grpc-status %q, want 5", got)
				}
				check(t, "HTTP trailers", response.Trailer["Grpc-Message"][0], httpVersion == "HTTP/2")
			})
			t.Run("grpcweb_unary_trailers_only", func(t *testing.T) {
				response, _ := post(t, "/connect.ping.v1.PingService/Ping", "application/grpc-web", envelope(&pingv1.PingRequest{}))
				if got := response.Header.Get("Grpc-Status"); got != "5" {
					t.Fatalf("grpc-status %q, want 5", got)
				}
				check(t, "HTTP headers", response.Header["Grpc-Message"][0], httpVersion == "HTTP/2")
			})
			t.Run("grpcweb_server_stream", func(t *testing.T) {
				_, body := post(t, "/connect.ping.v1.PingService/CountUp", "application/grpc-web", envelope(&pingv1.CountUpRequest{Number: 1}))
				// Skip the message frame, take the trailers frame (flag 0x80).
				var block string
				for len(body) >= 5 {
					size := int(binary.BigEndian.Uint32(body[1:5]))
					if body[0]&0x80 != 0 {
						block = string(body[5 : 5+size])
					}
					body = body[5+size:]
				}
				var raw string
				found := false
				for _, line := range strings.Split(block, "\r\n") {
					if name, value, ok := strings.Cut(line, ":"); ok && strings.EqualFold(name, "grpc-message") {
						raw, found = value, true
					}
				}
				if !found {
					t.Fatalf("no grpc-message in trailers frame %q", block)
				}
				check(t, "in-body trailers", raw, false)
			})
		})
	}
}

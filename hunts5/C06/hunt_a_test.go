package connect_test

import (
	"bufio"
	"context"
	"errors"
	"io"
	"net"
	"net/http"
	"testing"
	"time"

	connect "github.com/bufbuild/connect-go"
	pingv1 "github.com/bufbuild/connect-go/internal/gen/connect/ping/v1"
	"github.com/bufbuild/connect-go/internal/gen/connect/ping/v1/pingv1connect"
)

// Property C06: "For any HTTP response whatsoever - any status, headers,
// trailers and body bytes - every client call terminates ... and either
// succeeds or returns an error ... whose code is not the zero code; for a
// non-200 response that carries no valid protocol-level error the code is
// derived from the HTTP status."
//
// The response here is a complete, well-formed HTTP/1.1 response:
//
//	HTTP/1.1 101 Switching Protocols
//	Connection: Upgrade
//	Upgrade: foo
//
// A 101 has no body. net/http's transport hands the caller the connection
// itself as Response.Body for such a response (and stops watching the
// request's context for it). connect-go treats that "body" like any other:
// the unary Connect client reads it to its end looking for an error
// document, and every other client drains it in CloseResponse. The server
// has switched protocols and waits for the client to speak, so the end never
// comes: the calls don't return, and the unary Connect call does not even
// return when its context ends.
func TestHuntA_SwitchingProtocolsNeverReturns(t *testing.T) {
	listener, err := net.Listen("tcp", "127.0.0.1:0")
	if err != nil {
		t.Fatal(err)
	}
	stop := make(chan struct{})
	defer func() { close(stop); listener.Close() }()
	go func() {
		for {
			conn, err := listener.Accept()
			if err != nil {
				return
			}
			go func(conn net.Conn) {
				defer conn.Close()
				reader := bufio.NewReader(conn)
				for { // the request's header block
					line, err := reader.ReadString('\n')
					if err != nil {
						return
					}
					if line == "\r\n" {
						break
					}
				}
				_, _ = conn.Write([]byte("HTTP/1.1 101 Switching Protocols\r\nConnection: Upgrade\r\nUpgrade: foo\r\n\r\n"))
				// The protocol is switched: listen to what the client has to say.
				go func() { _, _ = io.Copy(io.Discard, reader) }()
				<-stop
			}(conn)
		}
	}()
	url := "http://" + listener.Addr().String()

	type call struct {
		name string
		run  func(context.Context, pingv1connect.PingServiceClient) error
	}
	calls := []call{
		{"unary", func(ctx context.Context, client pingv1connect.PingServiceClient) error {
			_, err := client.Ping(ctx, connect.NewRequest(&pingv1.PingRequest{Number: 1}))
			return err
		}},
		{"client-stream", func(ctx context.Context, client pingv1connect.PingServiceClient) error {
			stream := client.Sum(ctx)
			_ = stream.Send(&pingv1.SumRequest{Number: 1})
			_, err := stream.CloseAndReceive()
			return err
		}},
		{"server-stream", func(ctx context.Context, client pingv1connect.PingServiceClient) error {
			stream, err := client.CountUp(ctx, connect.NewRequest(&pingv1.CountUpRequest{Number: 1}))
			if err != nil {
				return err
			}
			for stream.Receive() {
			}
			err = stream.Err()
			_ = stream.Close()
			return err
		}},
	}
	protocols := []struct {
		name string
		opts []connect.ClientOption
	}{
		{"connect", nil},
		{"grpc", []connect.ClientOption{connect.WithGRPC()}},
		{"grpc-web", []connect.ClientOption{connect.WithGRPCWeb()}},
	}
	const patience = 3 * time.Second
	for _, withDeadline := range []bool{false, true} {
		for _, protocol := range protocols {
			for _, call := range calls {
				name := protocol.name + "/" + call.name
				ctx, cancel := context.Background(), context.CancelFunc(func() {})
				if withDeadline {
					name += "/deadline-500ms"
					ctx, cancel = context.WithTimeout(context.Background(), 500*time.Millisecond)
				}
				httpClient := &http.Client{Transport: &http.Transport{DisableKeepAlives: true}}
				client := pingv1connect.NewPingServiceClient(httpClient, url, protocol.opts...)
				done := make(chan error, 1)
				start := time.Now()
				go func() { done <- call.run(ctx, client) }()
				select {
				case err := <-done:
					elapsed := time.Since(start).Round(time.Millisecond)
					var connectErr *connect.Error
					switch {
					case err == nil:
						t.Errorf("%s: succeeded on a 101 response", name)
					case !errors.As(err, &connectErr) || connectErr.Code() == 0:
						t.Errorf("%s: error %v is not a coded, non-OK Connect error", name, err)
					case withDeadline && elapsed >= 400*time.Millisecond:
						t.Logf("%s: returned %v, but only when the deadline came (%v)", name, err, elapsed)
					default:
						t.Logf("%s: returned %v after %v", name, err, elapsed)
					}
				case <-time.After(patience):
					if withDeadline {
						t.Errorf("%s: expected the call to terminate with a coded error (unknown, from HTTP status 101), at the latest when its context ended after 500ms; it had not returned after %v", name, patience)
					} else {
						t.Errorf("%s: expected the call to terminate with a coded error (unknown, from HTTP status 101); it had not returned after %v", name, patience)
					}
				}
				cancel()
			}
		}
	}
}

package connect_test

import (
	"compress/gzip"
	"context"
	"errors"
	"fmt"
	"io"
	"net/http"
	"net/http/httptest"
	"testing"
	"time"

	"github.com/bufbuild/connect-go"
	pingv1 "github.com/bufbuild/connect-go/internal/gen/connect/ping/v1"
	"github.com/bufbuild/connect-go/internal/gen/connect/ping/v1/pingv1connect"
)

// huntAFussyGzipReader is a gzip Decompressor whose Close reports a problem in
// words that wrap io.EOF. The Decompressor contract allows Close to fail ("It
// may return an error if the Decompressor wasn't read to EOF"), and says
// nothing about which errors it may use.
type huntAFussyGzipReader struct {
	gzip.Reader
}

func (r *huntAFussyGzipReader) Close() error {
	_ = r.Reader.Close()
	return fmt.Errorf("fussy gzip: trailing state not flushed: %w", io.EOF)
}

type huntAEchoServer struct {
	pingv1connect.UnimplementedPingServiceHandler
}

// CumSum answers every message and returns when the client closes its side: a
// handler that terminates.
func (huntAEchoServer) CumSum(
	_ context.Context,
	stream *connect.BidiStream[pingv1.CumSumRequest, pingv1.CumSumResponse],
) error {
	var sum int64
	for {
		msg, err := stream.Receive()
		if errors.Is(err, io.EOF) {
			return nil
		}
		if err != nil {
			return err
		}
		sum += msg.Number
		if err := stream.Send(&pingv1.CumSumResponse{Sum: sum}); err != nil {
			return err
		}
	}
}

// A gRPC bidi call over HTTP/2. The client's decompressor fails in Close with
// an error that wraps io.EOF. That is a local failure to decode one message;
// Receive must report it in bounded time. Instead it takes the failure for
// the end of the response and drains the response body - while the handler,
// which has answered, waits for the client's next message.
func TestHuntA_DecompressorCloseErrorWrappingEOFBlocksGRPCReceive(t *testing.T) {
	mux := http.NewServeMux()
	mux.Handle(pingv1connect.NewPingServiceHandler(huntAEchoServer{}))
	server := httptest.NewUnstartedServer(mux)
	server.EnableHTTP2 = true
	server.StartTLS()
	defer server.Close()

	client := pingv1connect.NewPingServiceClient(
		server.Client(),
		server.URL,
		connect.WithGRPC(),
		connect.WithAcceptCompression(
			"gzip",
			func() connect.Decompressor { return &huntAFussyGzipReader{} },
			func() connect.Compressor { return gzip.NewWriter(io.Discard) },
		),
	)
	ctx, cancel := context.WithCancel(context.Background())
	defer cancel()
	stream := client.CumSum(ctx)
	if err := stream.Send(&pingv1.CumSumRequest{Number: 1}); err != nil {
		t.Fatalf("first Send: %v", err)
	}
	type result struct {
		msg *pingv1.CumSumResponse
		err error
	}
	done := make(chan result, 1)
	go func() {
		msg, err := stream.Receive()
		done <- result{msg, err}
	}()
	select {
	case res := <-done:
		if res.err == nil {
			t.Fatalf("Receive returned a message although the decompressor failed")
		}
		t.Logf("Receive returned in time: %v", res.err)
		if errors.Is(res.err, io.EOF) {
			t.Errorf("expected a failure that does not pass for the end of the stream, got one wrapping io.EOF: %v", res.err)
		}
	case <-time.After(3 * time.Second):
		t.Errorf("expected Receive to report the decompressor's failure in bounded time " +
			"(the handler has answered the only message and waits for the next one); " +
			"Receive is still blocked after 3s, draining the response")
		cancel()
		res := <-done
		t.Logf("after cancelling the context Receive returned: %v", res.err)
	}
	_ = stream.CloseRequest()
	_ = stream.CloseResponse()
}

type huntASumServer struct {
	pingv1connect.UnimplementedPingServiceHandler
	received chan int
}

func (s *huntASumServer) Sum(
	_ context.Context,
	stream *connect.ClientStream[pingv1.SumRequest],
) (*connect.Response[pingv1.SumResponse], error) {
	var sum int64
	var received int
	for stream.Receive() {
		sum += stream.Msg().Number
		received++
	}
	s.received <- received
	if err := stream.Err(); err != nil {
		return nil, err
	}
	return connect.NewResponse(&pingv1.SumResponse{Sum: sum}), nil
}

// The same decompressor on the handler's side: the first message of three
// cannot be decoded, and the handler is told that the request has ended
// (Receive false, Err nil) - before the client has closed its side - and
// answers with success on a request it has not seen.
func TestHuntA_DecompressorCloseErrorWrappingEOFEndsRequestForHandler(t *testing.T) {
	for _, protocol := range []struct {
		name string
		opts []connect.ClientOption
	}{
		{"connect", nil},
		{"grpc", []connect.ClientOption{connect.WithGRPC()}},
		{"grpcweb", []connect.ClientOption{connect.WithGRPCWeb()}},
	} {
		protocol := protocol
		t.Run(protocol.name, func(t *testing.T) {
			svc := &huntASumServer{received: make(chan int, 1)}
			mux := http.NewServeMux()
			mux.Handle(pingv1connect.NewPingServiceHandler(svc, connect.WithCompression(
				"gzip",
				func() connect.Decompressor { return &huntAFussyGzipReader{} },
				func() connect.Compressor { return gzip.NewWriter(io.Discard) },
			)))
			server := httptest.NewUnstartedServer(mux)
			server.EnableHTTP2 = true
			server.StartTLS()
			defer server.Close()
			client := pingv1connect.NewPingServiceClient(
				server.Client(), server.URL,
				append([]connect.ClientOption{connect.WithSendGzip()}, protocol.opts...)...,
			)
			stream := client.Sum(context.Background())
			for i := 0; i < 3; i++ {
				if err := stream.Send(&pingv1.SumRequest{Number: 1}); err != nil && !errors.Is(err, io.EOF) {
					t.Fatalf("Send: %v", err)
				}
			}
			response, err := stream.CloseAndReceive()
			received := <-svc.received
			if err == nil {
				t.Errorf("expected the call to fail (the handler could not decode the first message); "+
					"it succeeded with sum %d after the handler was told the request had ended cleanly after %d of 3 messages",
					response.Msg.Sum, received)
			} else {
				t.Logf("call failed as it should: %v", err)
			}
		})
	}
}

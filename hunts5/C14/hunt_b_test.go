package connect_test

import (
	"context"
	"encoding/binary"
	"io"
	"net/http"
	"net/http/httptest"
	"testing"
	"time"

	pingv1 "github.com/bufbuild/connect-go/internal/gen/connect/ping/v1"
	"github.com/bufbuild/connect-go/internal/gen/connect/ping/v1/pingv1connect"
	"google.golang.org/protobuf/proto"
)

// huntBFullDuplexSum is a Connect-protocol client-streaming server written
// against net/http directly (another implementation of the protocol, or a
// proxy in front of one). It is full-duplex on HTTP/1.1: it sends its response
// headers at once and goes on reading the request. It reports how many
// messages it had read when it saw the clean end of the request.
func huntBFullDuplexSum(t *testing.T, sawEnd chan<- int) http.Handler {
	t.Helper()
	writeEnvelope := func(w io.Writer, flags byte, data []byte) {
		var prefix [5]byte
		prefix[0] = flags
		binary.BigEndian.PutUint32(prefix[1:], uint32(len(data)))
		_, _ = w.Write(prefix[:])
		_, _ = w.Write(data)
	}
	return http.HandlerFunc(func(w http.ResponseWriter, r *http.Request) {
		controller := http.NewResponseController(w)
		if err := controller.EnableFullDuplex(); err != nil {
			t.Errorf("EnableFullDuplex: %v", err)
		}
		w.Header().Set("Content-Type", r.Header.Get("Content-Type"))
		w.WriteHeader(http.StatusOK)
		_ = controller.Flush()
		var sum int64
		var messages int
		for {
			var prefix [5]byte
			if _, err := io.ReadFull(r.Body, prefix[:]); err != nil {
				if err != io.EOF {
					// A broken request: answer with an error.
					writeEnvelope(w, 2, []byte(`{"error":{"code":"invalid_argument","message":"request broke"}}`))
					sawEnd <- -1
					return
				}
				break // clean end of the request
			}
			data := make([]byte, binary.BigEndian.Uint32(prefix[1:]))
			if _, err := io.ReadFull(r.Body, data); err != nil {
				writeEnvelope(w, 2, []byte(`{"error":{"code":"invalid_argument","message":"request broke"}}`))
				sawEnd <- -1
				return
			}
			var msg pingv1.SumRequest
			_ = proto.Unmarshal(data, &msg)
			sum += msg.Number
			messages++
		}
		sawEnd <- messages
		out, _ := proto.Marshal(&pingv1.SumResponse{Sum: sum})
		writeEnvelope(w, 0, out)
		writeEnvelope(w, 2, []byte("{}"))
	})
}

// The client sends ten messages, 20 ms apart, and closes its side. The server
// is reading all along; it has not finished, let alone given up on the
// request. Its response merely says "Connection: close" - because its
// keep-alives are off (as they are for every response of an http.Server that
// is shutting down gracefully), or because the client's transport has
// DisableKeepAlives set. The library takes that for "the server has given up",
// ends the request body cleanly on the client's behalf, and fails the Sends
// with io.EOF: the handler sees the end of the request after one message,
// before the client has closed its side, and the call succeeds on a truncated
// request.
func TestHuntB_ConnectionCloseFromFullDuplexPeerTruncatesRequest(t *testing.T) {
	for _, variant := range []string{"server keep-alives off", "client DisableKeepAlives"} {
		variant := variant
		t.Run(variant, func(t *testing.T) {
			sawEnd := make(chan int, 1)
			server := httptest.NewUnstartedServer(huntBFullDuplexSum(t, sawEnd))
			if variant == "server keep-alives off" {
				server.Config.SetKeepAlivesEnabled(false)
			}
			server.Start()
			defer server.Close()
			httpClient := server.Client()
			if variant == "client DisableKeepAlives" {
				transport, _ := httpClient.Transport.(*http.Transport)
				transport.DisableKeepAlives = true
			}
			client := pingv1connect.NewPingServiceClient(httpClient, server.URL)
			stream := client.Sum(context.Background())
			const total = 10
			sent := 0
			for i := 0; i < total; i++ {
				if err := stream.Send(&pingv1.SumRequest{Number: 1}); err != nil {
					t.Errorf("Send %d of %d: expected success (the handler is still reading and has not finished), got: %v", i+1, total, err)
					break
				}
				sent++
				time.Sleep(20 * time.Millisecond)
			}
			response, err := stream.CloseAndReceive()
			seen := <-sawEnd
			if seen != total {
				t.Errorf("the handler saw a clean end of the request after %d message(s); "+
					"the client meant to send %d and had not closed its side when the request ended (it got %d out)",
					seen, total, sent)
			}
			if err == nil && response.Msg.Sum != total {
				t.Errorf("the call succeeded on a truncated request: sum %d, expected %d", response.Msg.Sum, total)
			}
		})
	}
}

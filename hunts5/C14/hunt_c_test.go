package connect_test

import (
	"context"
	"errors"
	"io"
	"net/http"
	"net/http/httptest"
	"testing"
	"time"

	"github.com/bufbuild/connect-go"
	pingv1 "github.com/bufbuild/connect-go/internal/gen/connect/ping/v1"
	"github.com/bufbuild/connect-go/internal/gen/connect/ping/v1/pingv1connect"
)

type huntCEchoServer struct {
	pingv1connect.UnimplementedPingServiceHandler
	finished chan error
}

// CumSum answers every message and returns when it sees the end of the
// request: a handler that terminates once the client closes its side.
func (s *huntCEchoServer) CumSum(
	_ context.Context,
	stream *connect.BidiStream[pingv1.CumSumRequest, pingv1.CumSumResponse],
) (retErr error) {
	defer func() { s.finished <- retErr }()
	for {
		msg, err := stream.Receive()
		if errors.Is(err, io.EOF) {
			return nil
		}
		if err != nil {
			return err
		}
		if err := stream.Send(&pingv1.CumSumResponse{Sum: msg.Number}); err != nil {
			return err
		}
	}
}

// Client program: Send, Receive, CloseResponse, CloseRequest, CloseResponse.
// It starts the request side first and finishes by closing the request side
// and then the response side; in between it closes the response side once,
// having seen all it wants of the response. The call is healthy and the
// context is never cancelled. Every API call must return in bounded time.
// CloseResponse does not: it drains the response, whose end only comes when
// the handler returns, and the handler waits for the end of the request -
// which this very program sends next.
func TestHuntC_CloseResponseWhileRequestSideOpenBlocks(t *testing.T) {
	protocols := []struct {
		name string
		opts []connect.ClientOption
	}{
		{"connect", nil},
		{"grpc", []connect.ClientOption{connect.WithGRPC()}},
		{"grpcweb", []connect.ClientOption{connect.WithGRPCWeb()}},
	}
	for _, protocol := range protocols {
		protocol := protocol
		t.Run(protocol.name, func(t *testing.T) {
			svc := &huntCEchoServer{finished: make(chan error, 1)}
			mux := http.NewServeMux()
			mux.Handle(pingv1connect.NewPingServiceHandler(svc))
			server := httptest.NewUnstartedServer(mux)
			server.EnableHTTP2 = true
			server.StartTLS()
			defer server.Close()

			client := pingv1connect.NewPingServiceClient(server.Client(), server.URL, protocol.opts...)
			ctx, cancel := context.WithCancel(context.Background())
			defer cancel()
			stream := client.CumSum(ctx)
			if err := stream.Send(&pingv1.CumSumRequest{Number: 1}); err != nil {
				t.Fatalf("Send: %v", err)
			}
			if _, err := stream.Receive(); err != nil {
				t.Fatalf("Receive: %v", err)
			}
			returned := make(chan error, 1)
			go func() { returned <- stream.CloseResponse() }()
			select {
			case err := <-returned:
				t.Logf("first CloseResponse returned: %v", err)
			case <-time.After(3 * time.Second):
				t.Errorf("expected CloseResponse to return in bounded time (healthy call, request side still open, " +
					"handler waiting for the end of the request); it is still blocked after 3s")
				cancel() // the only way out
				t.Logf("after cancelling the context CloseResponse returned: %v", <-returned)
				return
			}
			if err := stream.CloseRequest(); err != nil {
				t.Errorf("CloseRequest: %v", err)
			}
			_ = stream.CloseResponse()
			select {
			case <-svc.finished:
			case <-time.After(3 * time.Second):
				t.Errorf("the handler did not see the end of the call within 3s of CloseRequest")
			}
		})
	}
}

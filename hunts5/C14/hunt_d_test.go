package connect_test

import (
	"context"
	"net/http"
	"testing"
	"time"

	"github.com/bufbuild/connect-go"
	pingv1 "github.com/bufbuild/connect-go/internal/gen/connect/ping/v1"
)

// A URL that the library's own check (validateRequestURL, url.ParseRequestURI)
// accepts but http.NewRequestWithContext (url.Parse) refuses: the fragment
// ends in a lone '%'. ParseRequestURI does not split off a fragment and does
// not validate the query it ends up in; Parse does both.
const huntDURL = "http://127.0.0.1:1/connect.ping.v1.PingService/Ping?tenant=a#50%"

// newDuplexHTTPCall has a path for "we can't construct a request": it is
// meant to make the call fail with an error. Instead every call panics with a
// nil dereference (request.Header = header runs before the error check), in
// the caller's goroutine: the API call neither returns a value nor an error.
// (Behind the panic sits a hang: the path exhausts sendRequestOnce, so
// responseReady is never closed and Receive / CloseResponse would block
// forever.)
func TestHuntD_UnconstructibleRequestPanicsInsteadOfFailing(t *testing.T) {
	type outcome struct {
		err      error
		panicked any
		blocked  bool
	}
	run := func(call func() error) outcome {
		done := make(chan outcome, 1)
		go func() {
			var out outcome
			defer func() {
				out.panicked = recover()
				done <- out
			}()
			out.err = call()
		}()
		select {
		case out := <-done:
			return out
		case <-time.After(3 * time.Second):
			return outcome{blocked: true}
		}
	}
	for _, protocol := range []struct {
		name string
		opts []connect.ClientOption
	}{
		{"connect", nil},
		{"grpc", []connect.ClientOption{connect.WithGRPC()}},
		{"grpcweb", []connect.ClientOption{connect.WithGRPCWeb()}},
	} {
		protocol := protocol
		t.Run(protocol.name, func(t *testing.T) {
			client := connect.NewClient[pingv1.PingRequest, pingv1.PingResponse](http.DefaultClient, huntDURL, protocol.opts...)
			out := run(func() error {
				_, err := client.CallUnary(context.Background(), connect.NewRequest(&pingv1.PingRequest{}))
				return err
			})
			if out.panicked != nil {
				t.Errorf("CallUnary: expected an error (the request cannot be constructed), got a panic: %v", out.panicked)
			} else if out.blocked {
				t.Errorf("CallUnary: expected an error (the request cannot be constructed), still blocked after 3s")
			} else if out.err == nil {
				t.Errorf("CallUnary: expected an error, got success")
			} else {
				t.Logf("CallUnary failed as it should: %v", out.err)
			}
			out = run(func() error {
				stream := client.CallClientStream(context.Background())
				_ = stream.Send(&pingv1.PingRequest{})
				_, err := stream.CloseAndReceive()
				return err
			})
			if out.panicked != nil {
				t.Errorf("CallClientStream/Send/CloseAndReceive: expected an error, got a panic: %v", out.panicked)
			} else if out.blocked {
				t.Errorf("CallClientStream/Send/CloseAndReceive: expected an error, still blocked after 3s")
			} else if out.err == nil {
				t.Errorf("CallClientStream/Send/CloseAndReceive: expected an error, got success")
			} else {
				t.Logf("client stream failed as it should: %v", out.err)
			}
		})
	}
}

package connect_test

import (
	"bufio"
	"bytes"
	"context"
	"encoding/binary"
	"encoding/json"
	"fmt"
	"io"
	"net/http"
	"net/http/httptest"
	"testing"

	connect "github.com/bufbuild/connect-go"
	pingv1 "github.com/bufbuild/connect-go/internal/gen/connect/ping/v1"
	"github.com/bufbuild/connect-go/internal/gen/connect/ping/v1/pingv1connect"
)

// Property C05: a Connect stream ends with exactly one end-of-stream envelope
// that an independent, strictly spec-following decoder can decode, and that
// yields the metadata the application supplied.
//
// The Connect protocol defines the end-of-stream message as a JSON object
// whose optional "metadata" member maps each key to an ARRAY OF STRINGS.
//
// A handler that hands the library a trailer key without values - here the
// idiomatic "echo the caller's header": trailer[k] = request.Header().Values(k),
// which is nil when the caller did not send the header - sends nothing for that
// key in gRPC (HTTP trailers), gRPC-Web (trailer frame) and unary Connect
// (Trailer- headers): a field without values is no field. In a Connect stream,
// however, the key is serialized as `"X-Echo":null`, which is not an array of
// strings: strict decoders (connect-es, for one) reject the whole end-of-stream
// message, so a stream that ended cleanly is reported as failed.

type huntAEchoServer struct {
	pingv1connect.UnimplementedPingServiceHandler
}

func (huntAEchoServer) CountUp(
	_ context.Context,
	req *connect.Request[pingv1.CountUpRequest],
	stream *connect.ServerStream[pingv1.CountUpResponse],
) error {
	// Echo a request header into the trailers. The caller did not send it, so
	// Values returns nil.
	stream.ResponseTrailer()["X-Echo"] = req.Header().Values("X-Echo")
	stream.ResponseTrailer().Set("X-Present", "yes")
	return stream.Send(&pingv1.CountUpResponse{Number: 1})
}

// strictConnectEndStream decodes the body of a Connect streaming response the
// way the specification describes it and returns the end-of-stream metadata.
func strictConnectEndStream(body []byte) (map[string][]string, error) {
	reader := bufio.NewReader(bytes.NewReader(body))
	var endStream []byte
	ends := 0
	for {
		var prefix [5]byte
		if _, err := io.ReadFull(reader, prefix[:]); err == io.EOF {
			break
		} else if err != nil {
			return nil, fmt.Errorf("incomplete envelope prefix: %w", err)
		}
		payload := make([]byte, binary.BigEndian.Uint32(prefix[1:]))
		if _, err := io.ReadFull(reader, payload); err != nil {
			return nil, fmt.Errorf("incomplete envelope: %w", err)
		}
		if ends > 0 {
			return nil, fmt.Errorf("envelope after the end-of-stream envelope")
		}
		if prefix[0]&0b10 != 0 {
			ends++
			endStream = payload
		}
	}
	if ends != 1 {
		return nil, fmt.Errorf("%d end-of-stream envelopes, want exactly 1", ends)
	}
	var end struct {
		Error    json.RawMessage            `json:"error"`
		Metadata map[string]json.RawMessage `json:"metadata"`
	}
	if err := json.Unmarshal(endStream, &end); err != nil {
		return nil, fmt.Errorf("end-of-stream message %s is not a JSON object: %w", endStream, err)
	}
	metadata := make(map[string][]string)
	for key, raw := range end.Metadata {
		// The specification: each value is an array of strings.
		trimmed := bytes.TrimSpace(raw)
		if len(trimmed) == 0 || trimmed[0] != '[' {
			return nil, fmt.Errorf(
				"end-of-stream message %s: metadata[%q] is %s, want an array of strings",
				endStream, key, trimmed,
			)
		}
		var values []string
		if err := json.Unmarshal(trimmed, &values); err != nil {
			return nil, fmt.Errorf("end-of-stream message %s: metadata[%q]: %w", endStream, key, err)
		}
		metadata[key] = values
	}
	return metadata, nil
}

func TestHuntA_ConnectEndStreamMetadataNull(t *testing.T) {
	mux := http.NewServeMux()
	mux.Handle(pingv1connect.NewPingServiceHandler(huntAEchoServer{}))
	server := httptest.NewServer(mux)
	defer server.Close()

	// One enveloped CountUpRequest{number: 1}.
	requestBody := []byte{0, 0, 0, 0, 2, 0x08, 0x01}
	request, err := http.NewRequest(
		http.MethodPost,
		server.URL+"/connect.ping.v1.PingService/CountUp",
		bytes.NewReader(requestBody),
	)
	if err != nil {
		t.Fatal(err)
	}
	request.Header.Set("Content-Type", "application/connect+proto")
	response, err := server.Client().Do(request)
	if err != nil {
		t.Fatal(err)
	}
	defer response.Body.Close()
	if response.StatusCode != http.StatusOK {
		t.Fatalf("HTTP status %d, want 200", response.StatusCode)
	}
	body, err := io.ReadAll(response.Body)
	if err != nil {
		t.Fatal(err)
	}
	metadata, err := strictConnectEndStream(body)
	if err != nil {
		t.Fatalf("expected a Connect stream that a strict decoder accepts "+
			"(metadata values are arrays of strings; a key without values is absent or []), got: %v", err)
	}
	if got := metadata["X-Present"]; len(got) != 1 || got[0] != "yes" {
		t.Errorf("metadata[X-Present] = %q, want [yes]", got)
	}
	if got := metadata["X-Echo"]; len(got) != 0 {
		t.Errorf("metadata[X-Echo] = %q, want no values", got)
	}
}

// The same defect without the application ever touching a header map: a
// client-streaming handler that forwards the *Response of a backend call
// (return backend.Sum(...).CloseAndReceive() - forwarding Response objects is
// something the library supports, see mergeMetadata). If the backend call went
// out as gRPC over HTTP/1.1, connect-go's own gRPC handler announces
// "Trailer: Grpc-Status, Grpc-Message, Grpc-Status-Details-Bin"; net/http's
// client pre-populates Response.Trailer with the announced names, and on
// success Grpc-Status-Details-Bin never gets a value. The forwarded trailers
// therefore hold a nil-valued key, which the Connect stream spells `null`.

type huntAProxyServer struct {
	pingv1connect.UnimplementedPingServiceHandler
	backend pingv1connect.PingServiceClient
}

func (p huntAProxyServer) Sum(
	ctx context.Context,
	stream *connect.ClientStream[pingv1.SumRequest],
) (*connect.Response[pingv1.SumResponse], error) {
	backendStream := p.backend.Sum(ctx)
	for stream.Receive() {
		if err := backendStream.Send(stream.Msg()); err != nil {
			return nil, err
		}
	}
	if err := stream.Err(); err != nil {
		return nil, err
	}
	return backendStream.CloseAndReceive()
}

type huntABackend struct {
	pingv1connect.UnimplementedPingServiceHandler
}

func (huntABackend) Sum(
	_ context.Context,
	stream *connect.ClientStream[pingv1.SumRequest],
) (*connect.Response[pingv1.SumResponse], error) {
	var sum int64
	for stream.Receive() {
		sum += stream.Msg().Number
	}
	if err := stream.Err(); err != nil {
		return nil, err
	}
	response := connect.NewResponse(&pingv1.SumResponse{Sum: sum})
	response.Trailer().Set("X-Backend-Trailer", "t")
	return response, nil
}

func TestHuntA_ConnectEndStreamMetadataNullForwardedResponse(t *testing.T) {
	backendMux := http.NewServeMux()
	backendMux.Handle(pingv1connect.NewPingServiceHandler(huntABackend{}))
	backend := httptest.NewServer(backendMux) // HTTP/1.1
	defer backend.Close()

	mux := http.NewServeMux()
	mux.Handle(pingv1connect.NewPingServiceHandler(huntAProxyServer{
		backend: pingv1connect.NewPingServiceClient(backend.Client(), backend.URL, connect.WithGRPC()),
	}))
	server := httptest.NewServer(mux)
	defer server.Close()

	// Two enveloped SumRequests: number 1 and number 2.
	requestBody := []byte{0, 0, 0, 0, 2, 0x08, 0x01, 0, 0, 0, 0, 2, 0x08, 0x02}
	request, err := http.NewRequest(
		http.MethodPost,
		server.URL+"/connect.ping.v1.PingService/Sum",
		bytes.NewReader(requestBody),
	)
	if err != nil {
		t.Fatal(err)
	}
	request.Header.Set("Content-Type", "application/connect+proto")
	response, err := server.Client().Do(request)
	if err != nil {
		t.Fatal(err)
	}
	defer response.Body.Close()
	body, err := io.ReadAll(response.Body)
	if err != nil {
		t.Fatal(err)
	}
	metadata, err := strictConnectEndStream(body)
	if err != nil {
		t.Fatalf("expected a Connect stream that a strict decoder accepts "+
			"(metadata values are arrays of strings), got: %v", err)
	}
	if got := metadata["X-Backend-Trailer"]; len(got) != 1 || got[0] != "t" {
		t.Errorf("metadata[X-Backend-Trailer] = %q, want [t]", got)
	}
}

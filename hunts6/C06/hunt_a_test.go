package connect_test

// Property C06, clause "every client call terminates".
//
// A unary call with the Connect protocol over HTTP/2 never returns when the
// server answers early with a status above 299 - here 429 with a complete,
// valid Connect error body - and, as polite servers and middlewares do, reads
// the request to its end before it returns from its handler. net/http's HTTP/2
// transport stops uploading the request body as soon as it sees a status above
// 299, without telling the server (no END_STREAM, no RST_STREAM), so the
// server keeps waiting for the rest of the request and does not end the
// response; the unary Connect client, in validateResponse, reads the body of a
// non-200 answer to its END before it reports anything. Both sides wait for
// each other. The gRPC and gRPC-Web clients, which take the code from the HTTP
// status at once, return promptly against the very same server (a5e9363 took
// care of their CloseRead; the unary Connect client's read of the error body
// is the sibling that still drains).

import (
	"context"
	"io"
	"net/http"
	"net/http/httptest"
	"strings"
	"testing"
	"time"

	connect "github.com/bufbuild/connect-go"
	pingv1 "github.com/bufbuild/connect-go/internal/gen/connect/ping/v1"
	"github.com/bufbuild/connect-go/internal/gen/connect/ping/v1/pingv1connect"
)

func TestHuntA_UnaryConnectEarlyErrorFromDrainingServerOverHTTP2(t *testing.T) {
	srv := httptest.NewUnstartedServer(http.HandlerFunc(func(w http.ResponseWriter, r *http.Request) {
		// A rate limiter / authenticator in front of the service: answer at
		// once, with a well-formed Connect error...
		w.Header().Set("Content-Type", "application/json")
		w.WriteHeader(http.StatusTooManyRequests)
		_, _ = io.WriteString(w, `{"code":"resource_exhausted","message":"slow down"}`)
		w.(http.Flusher).Flush()
		// ...and be polite: read the request to its end before returning.
		_, _ = io.Copy(io.Discard, r.Body)
	}))
	srv.EnableHTTP2 = true
	srv.StartTLS()
	defer srv.Close()

	for _, protocol := range []struct {
		name string
		opts []connect.ClientOption
	}{
		{"grpc", []connect.ClientOption{connect.WithGRPC()}},
		{"grpcweb", []connect.ClientOption{connect.WithGRPCWeb()}},
		{"connect", nil},
	} {
		protocol := protocol
		t.Run(protocol.name, func(t *testing.T) {
			client := pingv1connect.NewPingServiceClient(srv.Client(), srv.URL, protocol.opts...)
			// The call itself has no deadline; cancel is only there to clean up.
			ctx, cancel := context.WithCancel(context.Background())
			defer cancel()
			// Larger than the server's flow-control window, so that the answer
			// arrives while the request is still being uploaded.
			request := connect.NewRequest(&pingv1.PingRequest{Text: strings.Repeat("x", 8<<20)})
			done := make(chan error, 1)
			go func() {
				_, err := client.Ping(ctx, request)
				done <- err
			}()
			select {
			case err := <-done:
				if err == nil {
					t.Fatalf("call succeeded against a server that answered 429")
				}
				t.Logf("call returned: %v", err)
				if code := connect.CodeOf(err); code != connect.CodeResourceExhausted && code != connect.CodeUnavailable {
					t.Errorf("expected resource_exhausted (the error in the body) or unavailable (from HTTP 429), got %v", err)
				}
			case <-time.After(5 * time.Second):
				cancel()
				err := <-done
				t.Fatalf("expected the call to return with the server's error (resource_exhausted, or unavailable from HTTP 429), "+
					"as the gRPC and gRPC-Web clients do; it had not returned after 5s, and only did so when the test cancelled its context: %v", err)
			}
		})
	}
}

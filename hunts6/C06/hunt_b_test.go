package connect_test

// Property C06: "whatever a server sends, the client fails safely with a coded
// non-OK error". A gRPC (or gRPC-Web) server answers with a non-zero
// grpc-status and a grpc-status-details-bin trailer that does not decode. The
// details are decoded with the client's own "proto" codec when it has one
// (clientConfig.protobuf), and grpcErrorFromTrailer wraps that codec's error
// with %w. If the codec reports truncated input as an error wrapping io.EOF -
// stream decoders do - the coded error that Receive returns wraps io.EOF too,
// and every caller takes an error wrapping io.EOF for the clean end of the
// stream: the unary call SUCCEEDS and hands out the response message although
// the server said permission_denied, and ServerStreamForClient.Err() is nil.
// 039676a and 22e1455 stripped the io.EOF chain from codec, compressor and
// decompressor errors everywhere else (withoutEOF); this is the one place left.

import (
	"context"
	"fmt"
	"io"
	"net/http"
	"net/http/httptest"
	"testing"

	connect "github.com/bufbuild/connect-go"
	pingv1 "github.com/bufbuild/connect-go/internal/gen/connect/ping/v1"
	"github.com/bufbuild/connect-go/internal/gen/connect/ping/v1/pingv1connect"
	"google.golang.org/protobuf/proto"
)

// eofProtoCodec is a Protobuf codec that reports undecodable (here: truncated)
// input the way stream decoders do, with an error that wraps io.EOF.
type eofProtoCodec struct{}

func (eofProtoCodec) Name() string { return "proto" }

func (eofProtoCodec) Marshal(message any) ([]byte, error) {
	return proto.Marshal(message.(proto.Message))
}

func (eofProtoCodec) Unmarshal(data []byte, message any) error {
	if err := proto.Unmarshal(data, message.(proto.Message)); err != nil {
		return fmt.Errorf("decode %T: input ends early: %w", message, io.EOF)
	}
	return nil
}

func TestHuntB_GRPCErrorWithUndecodableDetailsPassesForEndOfStream(t *testing.T) {
	msg, _ := proto.Marshal(&pingv1.PingResponse{Number: 42})
	srv := httptest.NewServer(http.HandlerFunc(func(w http.ResponseWriter, r *http.Request) {
		_, _ = io.Copy(io.Discard, r.Body)
		w.Header().Set("Content-Type", r.Header.Get("Content-Type"))
		w.Header().Set("Trailer", "Grpc-Status, Grpc-Message, Grpc-Status-Details-Bin")
		_, _ = w.Write(xEnvB(0, msg))
		w.Header().Set("Grpc-Status", "7")
		w.Header().Set("Grpc-Message", "denied")
		w.Header().Set("Grpc-Status-Details-Bin", "Cg") // 0x0a: a field header without its length
	}))
	defer srv.Close()

	client := pingv1connect.NewPingServiceClient(srv.Client(), srv.URL, connect.WithGRPC(), connect.WithCodec(eofProtoCodec{}))

	t.Run("unary", func(t *testing.T) {
		res, err := client.Ping(context.Background(), connect.NewRequest(&pingv1.PingRequest{}))
		if err == nil {
			t.Fatalf("the server answered grpc-status 7 (permission_denied): expected the call to fail with a coded error "+
				"(permission_denied, or internal for the bad details); it succeeded with %v", res.Msg)
		}
		t.Logf("error: %v", err)
	})
	t.Run("server stream", func(t *testing.T) {
		stream, err := client.CountUp(context.Background(), connect.NewRequest(&pingv1.CountUpRequest{}))
		if err != nil {
			t.Fatal(err)
		}
		for stream.Receive() {
		}
		if stream.Err() == nil {
			t.Fatalf("the server answered grpc-status 7 (permission_denied): expected stream.Err() to be a coded error; it is nil (clean end of stream)")
		}
		t.Logf("error: %v", stream.Err())
	})
	t.Run("reference: default codec", func(t *testing.T) {
		client := pingv1connect.NewPingServiceClient(srv.Client(), srv.URL, connect.WithGRPC())
		_, err := client.Ping(context.Background(), connect.NewRequest(&pingv1.PingRequest{}))
		if err == nil {
			t.Fatalf("expected an error")
		}
		t.Logf("error: %v", err)
	})
}

func xEnvB(flags byte, payload []byte) []byte {
	out := make([]byte, 5+len(payload))
	out[0] = flags
	out[1], out[2], out[3], out[4] = byte(len(payload)>>24), byte(len(payload)>>16), byte(len(payload)>>8), byte(len(payload))
	copy(out[5:], payload)
	return out
}

package connect_test

import (
	"context"
	"errors"
	"fmt"
	"net/http"
	"net/http/httptest"
	"reflect"
	"testing"

	connect "github.com/bufbuild/connect-go"
	pingv1 "github.com/bufbuild/connect-go/internal/gen/connect/ping/v1"
	"github.com/bufbuild/connect-go/internal/gen/connect/ping/v1/pingv1connect"
	"google.golang.org/protobuf/proto"
)

// huntAPingOnlyCodec is a binary Protobuf codec that, as the Codec contract
// allows ("Marshal may expect a specific type of message, and will error if
// this type is not given"), only deals with the messages of the service it
// was written for (think of a codec built on generated fast-path marshalling
// code that exists for the application's own messages only).
type huntAPingOnlyCodec struct{}

func (huntAPingOnlyCodec) Name() string { return "proto" }

func (huntAPingOnlyCodec) check(message any) (proto.Message, error) {
	protoMessage, ok := message.(proto.Message)
	if !ok {
		return nil, fmt.Errorf("%T is not a Protobuf message", message)
	}
	if pkg := protoMessage.ProtoReflect().Descriptor().ParentFile().Package(); pkg != "connect.ping.v1" {
		return nil, fmt.Errorf("%T is not a connect.ping.v1 message", message)
	}
	return protoMessage, nil
}

func (c huntAPingOnlyCodec) Marshal(message any) ([]byte, error) {
	protoMessage, err := c.check(message)
	if err != nil {
		return nil, err
	}
	return proto.Marshal(protoMessage)
}

func (c huntAPingOnlyCodec) Unmarshal(data []byte, message any) error {
	protoMessage, err := c.check(message)
	if err != nil {
		return err
	}
	return proto.Unmarshal(data, protoMessage)
}

type huntAServer struct {
	pingv1connect.UnimplementedPingServiceHandler
}

func huntAError() error {
	err := connect.NewError(connect.CodeResourceExhausted, errors.New("quota used up"))
	err.Meta()["X-Quota-Reset"] = []string{"120", "3600"}
	err.Meta().Set("X-Quota-Bin", connect.EncodeBinaryHeader([]byte{0, 1, 2, 255}))
	return err
}

func (huntAServer) Fail(context.Context, *connect.Request[pingv1.FailRequest]) (*connect.Response[pingv1.FailResponse], error) {
	return nil, huntAError()
}

func (huntAServer) CountUp(_ context.Context, _ *connect.Request[pingv1.CountUpRequest], stream *connect.ServerStream[pingv1.CountUpResponse]) error {
	if err := stream.Send(&pingv1.CountUpResponse{Number: 1}); err != nil {
		return err
	}
	return huntAError()
}

// TestHuntAErrorMetadataLostWhenStatusCannotBeMarshalled: a handler's error
// metadata must reach the client in every protocol. With a "proto" codec that
// (legally) refuses messages that aren't the service's own, the gRPC and
// gRPC-Web handlers cannot marshal the google.rpc.Status for
// Grpc-Status-Details-Bin; grpcErrorToTrailer then reports an internal error
// and returns before it has merged the error's metadata into the trailers, so
// the metadata the handler set is dropped - although it travels in plain
// trailers/headers that need no codec at all. The Connect protocol, which
// doesn't need the Protobuf codec for errors, delivers it.
func TestHuntAErrorMetadataLostWhenStatusCannotBeMarshalled(t *testing.T) {
	mux := http.NewServeMux()
	mux.Handle(pingv1connect.NewPingServiceHandler(huntAServer{}, connect.WithCodec(huntAPingOnlyCodec{})))
	server := httptest.NewUnstartedServer(mux)
	server.EnableHTTP2 = true
	server.StartTLS()
	defer server.Close()

	want := huntAError().(*connect.Error).Meta()
	check := func(t *testing.T, what string, err error) {
		t.Helper()
		var connectErr *connect.Error
		if !errors.As(err, &connectErr) {
			t.Fatalf("%s: expected a *connect.Error, got %v", what, err)
		}
		for key, values := range want {
			if got := connectErr.Meta().Values(key); !reflect.DeepEqual(got, values) {
				t.Errorf("%s: handler's error metadata %s: expected %q in the client's error metadata, got %q (error: %v; metadata: %v)",
					what, key, values, got, connectErr, connectErr.Meta())
			}
		}
	}
	for _, protocol := range []struct {
		name string
		opts []connect.ClientOption
	}{
		{"connect", nil},
		{"grpc", []connect.ClientOption{connect.WithGRPC()}},
		{"grpcweb", []connect.ClientOption{connect.WithGRPCWeb()}},
	} {
		protocol := protocol
		t.Run(protocol.name, func(t *testing.T) {
			client := pingv1connect.NewPingServiceClient(server.Client(), server.URL, protocol.opts...)
			// Unary, error before the first message.
			_, err := client.Fail(context.Background(), connect.NewRequest(&pingv1.FailRequest{}))
			check(t, "unary", err)
			// Server stream, error after a message.
			stream, err := client.CountUp(context.Background(), connect.NewRequest(&pingv1.CountUpRequest{Number: 1}))
			if err != nil {
				t.Fatal(err)
			}
			received := 0
			for stream.Receive() {
				received++
			}
			if received != 1 {
				t.Errorf("server stream: received %d messages, expected 1", received)
			}
			check(t, "server stream", stream.Err())
			_ = stream.Close()
		})
	}
}

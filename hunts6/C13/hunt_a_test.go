package connect_test

import (
	"bytes"
	"context"
	"fmt"
	"net/http"
	"net/http/httptest"
	"os"
	"os/exec"
	"strings"
	"sync"
	"sync/atomic"
	"testing"
	"time"

	connect "github.com/bufbuild/connect-go"
	pingv1 "github.com/bufbuild/connect-go/internal/gen/connect/ping/v1"
)

// Property C13: "the library performs no unsynchronised memory access", "each
// call's result is what the same call would produce alone".
//
// A unary call whose context ends returns to the caller while the HTTP/2
// request it started is still being written by the transport goroutine that the
// library spawned for it (net/http reads the request's fields, Header included,
// on a separate goroutine, as the RoundTripper contract allows). The header map
// of that http.Request is not the library's own: it is the caller's
// Request.Header() map, handed to net/http as is. The next call with the same
// Request - the retry that the Interceptor documentation names as a use of
// interceptors (and a generic interceptor has no way to build another
// AnyRequest: it can only pass the one it was given to next again) - writes
// into that map (WriteRequestHeader, the timeout header, the unary
// Content-Encoding), unsynchronised with the first call's transport goroutine.
// The Go runtime kills the process: "fatal error: concurrent map read and map
// write" / "concurrent map iteration and map write".
//
// The crash cannot be caught in-process, so the calls run in a child process
// (this same test binary) and the parent reports what happened to it.
func TestHuntA_RetryAfterDeadlineCrashesProcess(t *testing.T) {
	if os.Getenv("HUNT_A_CHILD") != "" {
		t.Skip("child mode")
	}
	const rounds = 4
	for round := 1; round <= rounds; round++ {
		cmd := exec.Command(os.Args[0], "-test.run=^TestHuntA_Child$", "-test.v", "-test.timeout=10m")
		cmd.Env = append(os.Environ(), "HUNT_A_CHILD=1")
		var out bytes.Buffer
		cmd.Stdout = &out
		cmd.Stderr = &out
		err := cmd.Run()
		output := out.String()
		progress := "?"
		if i := strings.LastIndex(output, "calls="); i >= 0 {
			progress = strings.SplitN(output[i+len("calls="):], "\n", 2)[0]
		}
		for _, marker := range []string{"fatal error: concurrent map", "WARNING: DATA RACE"} {
			if i := strings.Index(output, marker); i >= 0 {
				excerpt := output[i:]
				if len(excerpt) > 1500 {
					excerpt = excerpt[:1500]
				}
				t.Fatalf("expected: unary calls retried by an interceptor after a per-attempt deadline "+
					"complete like any other call (every call, alone, returns its own echo);\n"+
					"got: in round %d, after about %s calls, the process running them died (%v) with:\n%s",
					round, progress, err, excerpt)
			}
		}
		if err != nil {
			t.Fatalf("child failed in another way (%v):\n%s", err, output)
		}
		t.Logf("round %d: %s calls without a crash", round, progress)
	}
	t.Logf("not reproduced in %d rounds", rounds)
}

func TestHuntA_Child(t *testing.T) {
	if os.Getenv("HUNT_A_CHILD") == "" {
		t.Skip("only runs as the child of TestHuntA_RetryAfterDeadlineCrashesProcess")
	}
	mux := http.NewServeMux()
	mux.Handle("/t/Unary", connect.NewUnaryHandler("/t/Unary",
		func(ctx context.Context, req *connect.Request[pingv1.PingRequest]) (*connect.Response[pingv1.PingResponse], error) {
			res := connect.NewResponse(&pingv1.PingResponse{Number: req.Msg.Number, Text: req.Msg.Text})
			res.Header().Set("X-Echo", req.Header().Get("X-Id"))
			return res, nil
		}))
	server := httptest.NewUnstartedServer(mux)
	server.EnableHTTP2 = true
	server.StartTLS()
	defer server.Close()

	// A plain retry interceptor: the first attempt gets a short deadline of its
	// own, later attempts run under the caller's context.
	var seq atomic.Int64
	retry := connect.UnaryInterceptorFunc(func(next connect.UnaryFunc) connect.UnaryFunc {
		return func(ctx context.Context, req connect.AnyRequest) (connect.AnyResponse, error) {
			perTry := time.Duration(seq.Add(1)%300) * time.Microsecond
			tryCtx, cancel := context.WithTimeout(ctx, perTry)
			res, err := next(tryCtx, req)
			cancel()
			if err == nil || connect.CodeOf(err) != connect.CodeDeadlineExceeded {
				return res, err
			}
			return next(ctx, req)
		}
	})
	var calls atomic.Int64
	deadline := time.Now().Add(75 * time.Second)
	var wg sync.WaitGroup
	for name, opts := range map[string][]connect.ClientOption{
		"connect": {connect.WithInterceptors(retry)},
		"grpc":    {connect.WithInterceptors(retry), connect.WithGRPC()},
	} {
		client := connect.NewClient[pingv1.PingRequest, pingv1.PingResponse](server.Client(), server.URL+"/t/Unary", opts...)
		for g := 0; g < 3; g++ {
			wg.Add(1)
			go func(name string, g int) {
				defer wg.Done()
				for k := 0; time.Now().Before(deadline); k++ {
					id := fmt.Sprintf("%s-g%dk%d", name, g, k)
					req := connect.NewRequest(&pingv1.PingRequest{Number: int64(k), Text: id})
					req.Header().Set("X-Id", id)
					res, err := client.CallUnary(context.Background(), req)
					if err != nil {
						t.Errorf("%s: %v", id, err)
					} else if res.Msg.Text != id || res.Header().Get("X-Echo") != id {
						t.Errorf("%s: got %q / %q", id, res.Msg.Text, res.Header().Get("X-Echo"))
					}
					if n := calls.Add(1); n%50 == 0 {
						fmt.Printf("calls=%d\n", n)
					}
				}
			}(name, g)
		}
	}
	wg.Wait()
	fmt.Printf("calls=%d\n", calls.Load())
}

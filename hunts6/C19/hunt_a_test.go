package connect_test

import (
	"context"
	"fmt"
	"io"
	"log"
	"net/http"
	"net/http/httptest"
	"runtime"
	"sync"
	"testing"

	"github.com/bufbuild/connect-go"
	pingv1 "github.com/bufbuild/connect-go/internal/gen/connect/ping/v1"
	"github.com/bufbuild/connect-go/internal/gen/connect/ping/v1/pingv1connect"
)

// A handler that ends its goroutine with runtime.Goexit (what t.FailNow,
// t.Fatal and t.Skip do when called from inside a handler) does not panic.
// Property C19: "calls that do not panic are unaffected" - the recovery
// function must be called for panics only.
type goexitPingServer struct {
	pingv1connect.UnimplementedPingServiceHandler
}

func (goexitPingServer) Ping(context.Context, *connect.Request[pingv1.PingRequest]) (*connect.Response[pingv1.PingResponse], error) {
	runtime.Goexit()
	return nil, nil
}

func (goexitPingServer) CountUp(_ context.Context, _ *connect.Request[pingv1.CountUpRequest], stream *connect.ServerStream[pingv1.CountUpResponse]) error {
	_ = stream.Send(&pingv1.CountUpResponse{Number: 1})
	runtime.Goexit()
	return nil
}

func TestHuntA_GoexitIsReportedAsPanicNil(t *testing.T) {
	var (
		mu     sync.Mutex
		values []any
	)
	handle := func(_ context.Context, _ connect.Spec, _ http.Header, r any) error {
		mu.Lock()
		values = append(values, r)
		mu.Unlock()
		return connect.NewError(connect.CodeFailedPrecondition, fmt.Errorf("panic: %v", r))
	}
	mux := http.NewServeMux()
	mux.Handle(pingv1connect.NewPingServiceHandler(goexitPingServer{}, connect.WithRecover(handle)))
	server := httptest.NewUnstartedServer(mux)
	server.Config.ErrorLog = log.New(io.Discard, "", 0)
	server.EnableHTTP2 = true
	server.StartTLS()
	defer server.Close()

	for _, protocol := range []struct {
		name string
		opts []connect.ClientOption
	}{
		{"connect", nil},
		{"grpc", []connect.ClientOption{connect.WithGRPC()}},
		{"grpcweb", []connect.ClientOption{connect.WithGRPCWeb()}},
	} {
		client := pingv1connect.NewPingServiceClient(server.Client(), server.URL, protocol.opts...)

		values = nil
		_, err := client.Ping(context.Background(), connect.NewRequest(&pingv1.PingRequest{}))
		mu.Lock()
		got := append([]any(nil), values...)
		mu.Unlock()
		if len(got) != 0 {
			t.Errorf("%s unary: the handler did not panic (it called runtime.Goexit), so the recovery function "+
				"must not be called; it was called %d time(s) with %#v (client saw: %v)", protocol.name, len(got), got, err)
		}

		values = nil
		stream, err := client.CountUp(context.Background(), connect.NewRequest(&pingv1.CountUpRequest{Number: 1}))
		if err == nil {
			for stream.Receive() {
			}
			err = stream.Err()
			_ = stream.Close()
		}
		mu.Lock()
		got = append([]any(nil), values...)
		mu.Unlock()
		if len(got) != 0 {
			t.Errorf("%s server stream: the handler did not panic (it called runtime.Goexit), so the recovery function "+
				"must not be called; it was called %d time(s) with %#v (client saw: %v)", protocol.name, len(got), got, err)
		}
	}
}

package connect_test

import (
	"context"
	"errors"
	"io"
	"net/http"
	"net/http/httptest"
	"testing"
	"time"

	connect "github.com/bufbuild/connect-go"
	pingv1 "github.com/bufbuild/connect-go/internal/gen/connect/ping/v1"
)

// Property C14: "Once a handler has finished a call, further client Sends fail
// with an error wrapping io.EOF instead of blocking and the next Receive
// reports the handler's actual outcome."
//
// The handler below finishes at once. The client learns that (Receive reports
// the handler's error), and then Sends again - with a message the codec
// refuses (a proto3 string that is not valid UTF-8). The call is over, so the
// Send must say so (io.EOF), whatever is wrong with the message - exactly as a
// Send that begins after the context has ended reports the context, whatever
// is wrong with the message.
func TestHuntA_SendAfterHandlerFinishedWithUnmarshalableMessage(t *testing.T) {
	mux := http.NewServeMux()
	mux.Handle("/x/Bidi", connect.NewBidiStreamHandler("/x/Bidi",
		func(ctx context.Context, s *connect.BidiStream[pingv1.PingRequest, pingv1.PingResponse]) error {
			return connect.NewError(connect.CodeAborted, errors.New("handler outcome"))
		}))
	server := httptest.NewUnstartedServer(mux)
	server.EnableHTTP2 = true
	server.StartTLS()
	defer server.Close()

	for _, proto := range []struct {
		name string
		opts []connect.ClientOption
	}{
		{"connect", nil},
		{"grpc", []connect.ClientOption{connect.WithGRPC()}},
		{"grpcweb", []connect.ClientOption{connect.WithGRPCWeb()}},
	} {
		t.Run(proto.name, func(t *testing.T) {
			client := connect.NewClient[pingv1.PingRequest, pingv1.PingResponse](
				server.Client(), server.URL+"/x/Bidi", proto.opts...)
			ctx, cancel := context.WithTimeout(context.Background(), 10*time.Second)
			defer cancel()
			stream := client.CallBidiStream(ctx)
			if err := stream.Send(&pingv1.PingRequest{Number: 1}); err != nil && !errors.Is(err, io.EOF) {
				t.Fatalf("first Send: %v", err)
			}
			// The handler has finished: Receive reports its outcome.
			if _, err := stream.Receive(); connect.CodeOf(err) != connect.CodeAborted {
				t.Fatalf("Receive: expected the handler's outcome (aborted), got %v", err)
			}
			// Sanity: a well-formed message is refused with io.EOF.
			if err := stream.Send(&pingv1.PingRequest{Number: 2}); !errors.Is(err, io.EOF) {
				t.Fatalf("Send of a valid message after the end: expected io.EOF, got %v", err)
			}
			// A message the codec refuses.
			err := stream.Send(&pingv1.PingRequest{Text: "\xff\xfe"})
			if err == nil {
				t.Fatalf("Send after the handler finished succeeded")
			}
			if !errors.Is(err, io.EOF) {
				t.Errorf("Send after the handler has finished (and Receive has reported its outcome): "+
					"expected an error wrapping io.EOF, got %q (code %v) - the call is over whatever is wrong with the message",
					err, connect.CodeOf(err))
			}
			_ = stream.CloseRequest()
			_ = stream.CloseResponse()
		})
	}
}

package connect_test

// Property C15: once a call's context is cancelled (or its deadline has
// passed), every operation on that call that fails afterwards fails with
// canceled (deadline_exceeded) - never another code.
//
// Send looks at the context before anything else (fix d989582: "whatever else
// is wrong ..., the call is over"). The response side does not: Receive,
// CloseAndReceive & co. replay whatever error the call has on record *before*
// they look at the context (duplexHTTPCall.Read: getError() first, ctx.Err()
// second). So an operation that begins after the cancellation - even after
// another operation of the same call has already reported "canceled" - fails
// with a different code whenever something else is on record: the server's
// non-200 answer, a gRPC(-Web) trailers-only answer, or the "cannot construct
// *http.Request" error that newDuplexHTTPCall records up front.

import (
	"context"
	"errors"
	"io"
	"net/http"
	"net/http/httptest"
	"testing"
	"time"

	connect "github.com/bufbuild/connect-go"
	pingv1 "github.com/bufbuild/connect-go/internal/gen/connect/ping/v1"
)

type huntACase struct {
	name string
	opts []connect.ClientOption
}

func huntAProtocols() []huntACase {
	return []huntACase{
		{"connect", nil},
		{"grpc", []connect.ClientOption{connect.WithGRPC()}},
		{"grpcweb", []connect.ClientOption{connect.WithGRPCWeb()}},
	}
}

// The cancellation falls between two operations of a bidi call over HTTP/2:
// Send has succeeded, the server has (unbeknownst to the caller) answered with
// a non-200 status, the caller cancels. The next Send reports canceled - and
// the Receive after it reports "unimplemented".
func TestHuntA_ReceiveAfterCancelReportsServerAnswer(t *testing.T) {
	t.Parallel()
	for _, protocol := range huntAProtocols() {
		protocol := protocol
		t.Run(protocol.name, func(t *testing.T) {
			t.Parallel()
			server := httptest.NewUnstartedServer(http.NewServeMux()) // no routes: 404
			server.EnableHTTP2 = true
			server.StartTLS()
			defer server.Close()
			client := connect.NewClient[pingv1.CumSumRequest, pingv1.CumSumResponse](
				server.Client(), server.URL+"/connect.ping.v1.PingService/CumSum", protocol.opts...,
			)
			ctx, cancel := context.WithCancel(context.Background())
			defer cancel()
			stream := client.CallBidiStream(ctx)
			if err := stream.Send(&pingv1.CumSumRequest{Number: 1}); err != nil {
				t.Fatalf("first Send: %v", err)
			}
			stream.ResponseHeader() // returns once the server's answer is in; no error is reported here
			cancel()                // <- the call's context ends between two operations

			sendErr := stream.Send(&pingv1.CumSumRequest{Number: 2})
			if connect.CodeOf(sendErr) != connect.CodeCanceled {
				t.Fatalf("Send after cancel: want canceled, got %v", sendErr)
			}
			_, receiveErr := stream.Receive()
			if receiveErr == nil {
				t.Fatalf("Receive after cancel succeeded")
			}
			if code := connect.CodeOf(receiveErr); code != connect.CodeCanceled {
				t.Errorf("the context was cancelled before this Receive began (and Send has already said %q): "+
					"want code canceled, got code %v (%v)", sendErr, code, receiveErr)
			}
			_ = stream.CloseRequest()
			_ = stream.CloseResponse()
		})
	}
}

// The same with a handler that refuses the call at once, spoken to in gRPC-Web:
// the handler's error travels in the HTTP headers ("trailers-only"), response
// validation puts it on record, and a Receive that begins after the
// cancellation reports permission_denied. (With the Connect protocol, where
// the same refusal travels in the body, the same Receive reports canceled.)
func TestHuntA_ReceiveAfterCancelReportsTrailersOnlyAnswer(t *testing.T) {
	t.Parallel()
	mux := http.NewServeMux()
	const procedure = "/connect.ping.v1.PingService/CumSum"
	mux.Handle(procedure, connect.NewBidiStreamHandler(procedure,
		func(context.Context, *connect.BidiStream[pingv1.CumSumRequest, pingv1.CumSumResponse]) error {
			return connect.NewError(connect.CodePermissionDenied, errors.New("no"))
		},
	))
	server := httptest.NewUnstartedServer(mux)
	server.EnableHTTP2 = true
	server.StartTLS()
	defer server.Close()
	for _, protocol := range huntAProtocols() {
		protocol := protocol
		t.Run(protocol.name, func(t *testing.T) {
			client := connect.NewClient[pingv1.CumSumRequest, pingv1.CumSumResponse](
				server.Client(), server.URL+procedure, protocol.opts...,
			)
			ctx, cancel := context.WithCancel(context.Background())
			defer cancel()
			stream := client.CallBidiStream(ctx)
			// (The handler may have answered before the message is out: then Send
			// reports the documented io.EOF, "go and look at Receive".)
			if err := stream.Send(&pingv1.CumSumRequest{Number: 1}); err != nil && !errors.Is(err, io.EOF) {
				t.Fatalf("first Send: %v", err)
			}
			stream.ResponseHeader()
			time.Sleep(50 * time.Millisecond) // let the (tiny) response body arrive, too
			cancel()
			_, receiveErr := stream.Receive()
			if receiveErr == nil {
				t.Fatalf("Receive after cancel succeeded")
			}
			if code := connect.CodeOf(receiveErr); code != connect.CodeCanceled {
				t.Errorf("the context was cancelled before this Receive began: want code canceled, got code %v (%v)", code, receiveErr)
			}
			_ = stream.CloseRequest()
			_ = stream.CloseResponse()
		})
	}
}

// The context is over before the call is even made - nothing has happened on
// the call yet. The client's URL is one that url.ParseRequestURI (NewClient's
// check) accepts and http.NewRequest refuses. Send reports canceled (or
// deadline_exceeded); CloseAndReceive / Receive report "unavailable".
func TestHuntA_ContextOverBeforeTheCall(t *testing.T) {
	t.Parallel()
	const url = "https://localhost:1/connect.ping.v1.PingService/Sum?tenant=a#50%"
	contexts := []struct {
		name string
		make func() (context.Context, context.CancelFunc)
		want connect.Code
	}{
		{"cancelled", func() (context.Context, context.CancelFunc) {
			ctx, cancel := context.WithCancel(context.Background())
			cancel()
			return ctx, cancel
		}, connect.CodeCanceled},
		{"expired", func() (context.Context, context.CancelFunc) {
			return context.WithDeadline(context.Background(), time.Now().Add(-time.Second))
		}, connect.CodeDeadlineExceeded},
	}
	for _, protocol := range huntAProtocols() {
		for _, ctxCase := range contexts {
			protocol, ctxCase := protocol, ctxCase
			t.Run(protocol.name+"/"+ctxCase.name, func(t *testing.T) {
				client := connect.NewClient[pingv1.SumRequest, pingv1.SumResponse](http.DefaultClient, url, protocol.opts...)
				ctx, cancel := ctxCase.make()
				defer cancel()
				stream := client.CallClientStream(ctx)
				sendErr := stream.Send(&pingv1.SumRequest{Number: 1})
				if connect.CodeOf(sendErr) != ctxCase.want {
					t.Fatalf("Send: want %v, got %v", ctxCase.want, sendErr)
				}
				_, receiveErr := stream.CloseAndReceive()
				if receiveErr == nil {
					t.Fatalf("CloseAndReceive succeeded on a call whose context was over before it began")
				}
				if code := connect.CodeOf(receiveErr); code != ctxCase.want {
					t.Errorf("context was over before the call (Send said %q): CloseAndReceive: want code %v, got code %v (%v)",
						sendErr, ctxCase.want, code, receiveErr)
				}
			})
		}
	}
}

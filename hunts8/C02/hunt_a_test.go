package connect_test

import (
	"context"
	"errors"
	"fmt"
	"net/http"
	"net/http/httptest"
	"strings"
	"testing"

	connect "github.com/bufbuild/connect-go"
	pingv1 "github.com/bufbuild/connect-go/internal/gen/connect/ping/v1"
	"github.com/bufbuild/connect-go/internal/gen/connect/ping/v1/pingv1connect"
	"google.golang.org/protobuf/proto"
)

// huntServiceOnlyCodec is a "proto" codec that handles the service's own
// generated messages and nothing else - the shape of a codec built on
// generated fast-path methods (MarshalVT and friends), which the library's
// internal Status message does not have. The Codec contract allows it:
// "Marshal may expect a specific type of message, and will error if this
// type is not given."
type huntServiceOnlyCodec struct{}

func (huntServiceOnlyCodec) Name() string { return "proto" }

func (huntServiceOnlyCodec) Marshal(message any) ([]byte, error) {
	protoMessage, ok := message.(proto.Message)
	if !ok || !strings.HasPrefix(string(protoMessage.ProtoReflect().Descriptor().FullName()), "connect.ping.v1.") {
		return nil, fmt.Errorf("%T is not a message of this service", message)
	}
	return proto.Marshal(protoMessage)
}

func (huntServiceOnlyCodec) Unmarshal(data []byte, message any) error {
	protoMessage, ok := message.(proto.Message)
	if !ok || !strings.HasPrefix(string(protoMessage.ProtoReflect().Descriptor().FullName()), "connect.ping.v1.") {
		return fmt.Errorf("%T is not a message of this service", message)
	}
	return proto.Unmarshal(data, protoMessage)
}

type huntNotFoundServer struct {
	pingv1connect.UnimplementedPingServiceHandler
}

func huntNotFound() error {
	// No details: nothing in this error needs a Protobuf codec to travel.
	// grpc-status and grpc-message are plain header fields.
	err := connect.NewError(connect.CodeNotFound, errors.New("no such user: 42"))
	err.Meta().Set("X-Request-Id", "abc")
	return err
}

func (huntNotFoundServer) Ping(context.Context, *connect.Request[pingv1.PingRequest]) (*connect.Response[pingv1.PingResponse], error) {
	return nil, huntNotFound()
}

func (huntNotFoundServer) CountUp(_ context.Context, _ *connect.Request[pingv1.CountUpRequest], stream *connect.ServerStream[pingv1.CountUpResponse]) error {
	if err := stream.Send(&pingv1.CountUpResponse{Number: 1}); err != nil {
		return err
	}
	return huntNotFound()
}

// TestHuntGRPCErrorNeedsStatusCodec: with a "proto" codec that marshals the
// service's messages only, a handler error without details must still arrive
// with its code and message (Connect delivers it; gRPC's grpc-status and
// grpc-message need no codec). The sixth-round repair made the metadata
// survive this situation, but code and message are still replaced - on the
// handler side by "internal: marshal protobuf status", and on the client side
// (default handler, restricted client codec) by "internal: server returned
// invalid protobuf for error details".
func TestHuntGRPCErrorNeedsStatusCodec(t *testing.T) {
	check := func(t *testing.T, what string, err error) {
		t.Helper()
		var connectErr *connect.Error
		if !errors.As(err, &connectErr) {
			t.Errorf("%s: expected a *connect.Error, got %v", what, err)
			return
		}
		if connectErr.Code() != connect.CodeNotFound || connectErr.Message() != "no such user: 42" {
			t.Errorf("%s: handler returned not_found %q; client received %v %q",
				what, "no such user: 42", connectErr.Code(), connectErr.Message())
		}
		if got := connectErr.Meta().Get("X-Request-Id"); got != "abc" {
			t.Errorf("%s: metadata X-Request-Id: expected %q, got %q", what, "abc", got)
		}
	}
	run := func(t *testing.T, handlerOpts []connect.HandlerOption, clientOpts []connect.ClientOption) {
		mux := http.NewServeMux()
		mux.Handle(pingv1connect.NewPingServiceHandler(huntNotFoundServer{}, handlerOpts...))
		server := httptest.NewUnstartedServer(mux)
		server.EnableHTTP2 = true
		server.StartTLS()
		defer server.Close()
		for _, protocol := range []struct {
			name string
			opts []connect.ClientOption
		}{
			{"connect", nil},
			{"grpc", []connect.ClientOption{connect.WithGRPC()}},
			{"grpcweb", []connect.ClientOption{connect.WithGRPCWeb()}},
		} {
			opts := append(append([]connect.ClientOption{}, protocol.opts...), clientOpts...)
			client := pingv1connect.NewPingServiceClient(server.Client(), server.URL, opts...)
			_, err := client.Ping(context.Background(), connect.NewRequest(&pingv1.PingRequest{Number: 1}))
			check(t, protocol.name+"/unary", err)
			stream, err := client.CountUp(context.Background(), connect.NewRequest(&pingv1.CountUpRequest{Number: 1}))
			if err != nil {
				t.Errorf("%s/serverstream: %v", protocol.name, err)
				continue
			}
			for stream.Receive() {
			}
			check(t, protocol.name+"/serverstream", stream.Err())
			_ = stream.Close()
		}
	}
	t.Run("handler_codec", func(t *testing.T) {
		run(t, []connect.HandlerOption{connect.WithCodec(huntServiceOnlyCodec{})}, nil)
	})
	t.Run("client_codec", func(t *testing.T) {
		run(t, nil, []connect.ClientOption{connect.WithCodec(huntServiceOnlyCodec{})})
	})
}

package connect_test

import (
	"context"
	"errors"
	"fmt"
	"io"
	"log"
	"net/http"
	"net/http/httptest"
	"sync"
	"testing"

	"github.com/bufbuild/connect-go"
	pingv1 "github.com/bufbuild/connect-go/internal/gen/connect/ping/v1"
	"github.com/bufbuild/connect-go/internal/gen/connect/ping/v1/pingv1connect"
)

// A handler-side interceptor that mirrors every incoming Ping to a second
// ("shadow") deployment before letting the call through. It passes the Request
// it was handed on to the shadow client as it is - forwarding a *Request is
// ordinary use of the API (return client.Ping(ctx, req)).
type huntMirrorInterceptor struct {
	shadow pingv1connect.PingServiceClient
}

func (m *huntMirrorInterceptor) WrapUnary(next connect.UnaryFunc) connect.UnaryFunc {
	return func(ctx context.Context, req connect.AnyRequest) (connect.AnyResponse, error) {
		if ping, ok := req.(*connect.Request[pingv1.PingRequest]); ok && !req.Spec().IsClient {
			_, _ = m.shadow.Ping(ctx, ping) // best effort; the answer is not used
		}
		return next(ctx, req)
	}
}

func (m *huntMirrorInterceptor) WrapStreamingClient(next connect.StreamingClientFunc) connect.StreamingClientFunc {
	return next
}

func (m *huntMirrorInterceptor) WrapStreamingHandler(next connect.StreamingHandlerFunc) connect.StreamingHandlerFunc {
	return next
}

type huntShadowServer struct {
	pingv1connect.UnimplementedPingServiceHandler
}

func (huntShadowServer) Ping(_ context.Context, req *connect.Request[pingv1.PingRequest]) (*connect.Response[pingv1.PingResponse], error) {
	return connect.NewResponse(&pingv1.PingResponse{Number: req.Msg.Number}), nil
}

type huntPanicServer struct {
	pingv1connect.UnimplementedPingServiceHandler
}

func (huntPanicServer) Ping(context.Context, *connect.Request[pingv1.PingRequest]) (*connect.Response[pingv1.PingResponse], error) {
	panic("boom") // nolint:forbidigo
}

// Property C19: "a panic ... raised by a handler of any RPC kind ... leads to
// exactly one call of the recovery function with the recovered value, and the
// client receives the error that function returned", whatever the "position of
// the recover interceptor among other interceptors".
//
// With an interceptor in front of the recover interceptor that forwards the
// request to another client (which stamps the Request with the client's Spec,
// IsClient = true), recoverHandlerInterceptor.WrapUnary takes the call for a
// client call and steps aside: the handler's panic is not recovered at all.
func TestHuntRecoverSkippedAfterRequestWasForwarded(t *testing.T) {
	shadowMux := http.NewServeMux()
	shadowMux.Handle(pingv1connect.NewPingServiceHandler(huntShadowServer{}))
	shadowServer := httptest.NewServer(shadowMux)
	defer shadowServer.Close()
	mirror := &huntMirrorInterceptor{
		shadow: pingv1connect.NewPingServiceClient(shadowServer.Client(), shadowServer.URL),
	}

	for _, order := range []string{"recover,mirror", "mirror,recover", "pass,mirror,recover"} {
		for _, proto := range []string{"connect", "grpc", "grpcweb"} {
			order, proto := order, proto
			t.Run(order+"/"+proto, func(t *testing.T) {
				var mu sync.Mutex
				var recovered []any
				handle := func(_ context.Context, _ connect.Spec, _ http.Header, r any) error {
					mu.Lock()
					recovered = append(recovered, r)
					mu.Unlock()
					return connect.NewError(connect.CodeFailedPrecondition, fmt.Errorf("recovered: %v", r))
				}
				var opts []connect.HandlerOption
				switch order {
				case "recover,mirror":
					opts = []connect.HandlerOption{connect.WithRecover(handle), connect.WithInterceptors(mirror)}
				case "mirror,recover":
					opts = []connect.HandlerOption{connect.WithInterceptors(mirror), connect.WithRecover(handle)}
				case "pass,mirror,recover":
					opts = []connect.HandlerOption{
						connect.WithInterceptors(connect.UnaryInterceptorFunc(func(next connect.UnaryFunc) connect.UnaryFunc { return next })),
						connect.WithInterceptors(mirror),
						connect.WithRecover(handle),
					}
				}
				mux := http.NewServeMux()
				mux.Handle(pingv1connect.NewPingServiceHandler(huntPanicServer{}, opts...))
				server := httptest.NewUnstartedServer(mux)
				server.Config.ErrorLog = log.New(io.Discard, "", 0) // net/http logs the unrecovered panic
				server.EnableHTTP2 = true
				server.StartTLS()
				defer server.Close()

				var copts []connect.ClientOption
				switch proto {
				case "grpc":
					copts = append(copts, connect.WithGRPC())
				case "grpcweb":
					copts = append(copts, connect.WithGRPCWeb())
				}
				client := pingv1connect.NewPingServiceClient(server.Client(), server.URL, copts...)
				_, err := client.Ping(context.Background(), connect.NewRequest(&pingv1.PingRequest{Number: 1}))

				mu.Lock()
				calls := append([]any(nil), recovered...)
				mu.Unlock()
				if len(calls) != 1 || calls[0] != "boom" {
					t.Errorf("handler panicked with \"boom\": expected exactly one call of the recovery function with that value, got %d calls %v", len(calls), calls)
				}
				var connectErr *connect.Error
				if !errors.As(err, &connectErr) || connectErr.Code() != connect.CodeFailedPrecondition || connectErr.Message() != "recovered: boom" {
					t.Errorf("expected the client to receive the recovery function's error (failed_precondition: recovered: boom), got: %v", err)
				}
			})
		}
	}
}

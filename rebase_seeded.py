#!/usr/bin/env python3
"""Re-bases the seeded changes under ./seeded onto the current /repo HEAD.

The library keeps being repaired, and every repair moves the context some seeded patch was cut against.
For each change this tries, in a scratch worktree of HEAD: git apply, git apply --3way, patch -F3. A result
counts only if the tree builds, the library's own suite passes with it, and the change's demonstration
(demo_test.go) fails with it. The first version of every patch is kept as patch.orig.diff. Changes that
cannot be carried over are listed for manual work (or marked obsolete_at_head in meta.json by hand).

usage: rebase_seeded.py [name ...]      (default: every seeded change)
Not a registered command.
"""
import json
import os
import shutil
import subprocess
import sys

ROOT = os.path.dirname(os.path.abspath(__file__))
ENV = dict(os.environ, GOFLAGS="-mod=mod", GOPROXY="off", GOSUMDB="off")


def sh(args, cwd=None, inp=None):
    return subprocess.run(args, cwd=cwd, env=ENV, input=inp, capture_output=True, text=True)


def try_apply(wt, patch, how):
    sh(["git", "-C", wt, "checkout", "-q", "--", "."])
    sh(["git", "-C", wt, "clean", "-fdq"])
    if how == "apply":
        return sh(["git", "-C", wt, "apply", patch]).returncode == 0
    if how == "3way":
        r = sh(["git", "-C", wt, "apply", "--3way", patch])
        unmerged = sh(["git", "-C", wt, "diff", "--name-only", "--diff-filter=U"]).stdout.strip()
        ok = r.returncode == 0 and not unmerged
        sh(["git", "-C", wt, "reset", "-q"])
        return ok
    r = sh(["patch", "-p1", "-F3", "--no-backup-if-mismatch", "-s", "-i", patch], cwd=wt)
    for f in sh(["git", "-C", wt, "status", "--porcelain"]).stdout.split("\n"):
        if f.endswith((".rej", ".orig")):
            os.remove(os.path.join(wt, f[3:]))
    return r.returncode == 0


def validate(wt, name):
    if sh(["go", "build", "./..."], cwd=wt).returncode != 0:
        return "does not build"
    t = sh(["go", "test", "-vet=off", "-count=1", "./..."], cwd=wt)
    if "FAIL" in t.stdout:
        return "the library's suite fails with it"
    demo = os.path.join(ROOT, "seeded", name, "demo_test.go")
    if os.path.exists(demo):
        shutil.copy(demo, os.path.join(wt, "zz_seeded_demo_test.go"))
        names = "|".join(sorted(set(l.split("(")[0].replace("func ", "").strip()
                                    for l in open(demo) if l.startswith("func Test"))))
        r = sh(["go", "test", "-vet=off", "-count=1", "-timeout", "180s", "-run", names or ".", "."], cwd=wt)
        os.remove(os.path.join(wt, "zz_seeded_demo_test.go"))
        if r.returncode == 0:
            return "its demonstration passes (change neutralised?)"
    return ""


def main():
    names = sys.argv[1:] or sorted(d for d in os.listdir(os.path.join(ROOT, "seeded"))
                                   if os.path.exists(os.path.join(ROOT, "seeded", d, "patch.diff")))
    wt = "/tmp/rebase-seeded-%d" % os.getpid()
    sh(["git", "-C", "/repo", "worktree", "add", "-q", "--detach", wt, "HEAD"])
    todo = []
    try:
        for name in names:
            d = os.path.join(ROOT, "seeded", name)
            meta = json.load(open(os.path.join(d, "meta.json")))
            if meta.get("obsolete_at_head"):
                print(name, "obsolete")
                continue
            result = None
            for src in ("patch.diff", "patch.orig.diff"):
                patch = os.path.join(d, src)
                if not os.path.exists(patch):
                    continue
                for how in ("apply", "3way", "fuzz"):
                    if not try_apply(wt, patch, how):
                        continue
                    why = validate(wt, name)
                    if why:
                        result = (src, how, why)
                        continue
                    new = sh(["git", "-C", wt, "diff", "HEAD"]).stdout
                    if src == "patch.diff" and how == "apply":
                        print(name, "applies as is")
                    else:
                        if not os.path.exists(os.path.join(d, "patch.orig.diff")):
                            shutil.copy(os.path.join(d, "patch.diff"), os.path.join(d, "patch.orig.diff"))
                        open(os.path.join(d, "patch.diff"), "w").write(new)
                        print(name, "rebased (%s of %s)" % (how, src))
                    result = "ok"
                    break
                if result == "ok":
                    break
            if result != "ok":
                print(name, "NEEDS MANUAL WORK", result or "(no variant applies)")
                todo.append(name)
    finally:
        sh(["git", "-C", "/repo", "worktree", "remove", "--force", wt])
    print("manual:", " ".join(todo) or "none")


if __name__ == "__main__":
    main()

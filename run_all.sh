#!/bin/bash
# Runs every registered quick (or $1=thorough) check against /repo and prints a summary.
cd /verif
tier=${1:-quick}
rc=0
for id in $(python3 -c "import sys; sys.path.insert(0,'/verif'); from checkcfg import PROPS; print(' '.join(sorted(PROPS)))"); do
  ./check $id --tier $tier > .build/last-$id.log 2>&1
  e=$?
  tail -1 .build/last-$id.log
  grep -E "^(VIOLATION|KNOWN-FINDING|NOTE)" .build/last-$id.log | head -5
  [ $e -ne 0 ] && { echo "  exit=$e"; rc=1; }
done
exit $rc

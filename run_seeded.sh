#!/bin/bash
# Applies every seeded change under ./seeded to a scratch worktree of /repo and runs the property's quick
# check against it. Prints one line per change; writes seeded/RESULTS.txt. Not a registered command.
cd "$(dirname "$0")"
out=seeded/RESULTS.txt
: > $out
for d in seeded/*/; do
  name=$(basename $d)
  [ -f $d/patch.diff ] || continue
  prop=$(python3 -c "import json;print(json.load(open('$d/meta.json'))['property'])")
  if python3 -c "import json,sys;sys.exit(0 if json.load(open('$d/meta.json')).get('obsolete_at_head') else 1)"; then echo "$name $prop OBSOLETE-AT-HEAD (see meta.json)" | tee -a $out; continue; fi
  wt=/tmp/seeded-run-$$-$name
  git -C /repo worktree add -q $wt HEAD || continue
  if ! git -C $wt apply $PWD/$d/patch.diff 2>/dev/null; then echo "$name $prop APPLY-FAILED" | tee -a $out; git -C /repo worktree remove --force $wt; continue; fi
  res=$(VERIF_REPO=$wt timeout 1500 ./check $prop --tier quick 2>&1)
  n=$(echo "$res" | grep -c "^VIOLATION")
  cls=$(echo "$res" | grep "^  class:" | head -2 | sed 's/  class: //' | tr '\n' ' ')
  echo "$name $prop violations=$n $cls" | tee -a $out
  git -C /repo worktree remove --force $wt
  rm -f .build/worker-$(python3 -c "import hashlib;print(hashlib.sha1(b'$wt').hexdigest()[:8])")*.test .build/go-*.mod .build/go-*.sum
done

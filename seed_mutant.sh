#!/bin/bash
# usage: seed_mutant.sh <agent_dir> <a|b> <PROP> <name> [runs] [extra props...]
# Confirms a sub-agent's change (suite passes with it, demo fails with it and passes without),
# stores it under /verif/seeded/<name>/ and runs the property's check against it.
src=$1; letter=$2; prop=$3; name=$4; runs=${5:-16000}
export GOFLAGS=-mod=mod GOPROXY=off GOSUMDB=off
wt=/tmp/seedwt-$$
git -C /repo worktree add -q $wt HEAD || exit 2
cp $src/demo_${letter}_test.go $wt/ 2>/dev/null
demo_clean=$(cd $wt && go test -vet=off -count=1 -run . ./ 2>&1 | tail -1)
( cd $wt && git apply $src/change_${letter}.diff ) || { echo "APPLY FAILED"; git -C /repo worktree remove --force $wt; exit 2; }
demo_mut=$(cd $wt && go test -vet=off -count=1 -timeout 120s -run "$(grep -ho 'func Test[A-Za-z0-9_]*' $src/demo_${letter}_test.go | sed 's/func //' | paste -sd'|')" ./ 2>&1 | tail -1)
rm -f $wt/demo_${letter}_test.go
suite=$(cd $wt && go test -vet=off -count=1 ./... 2>&1 | grep -E "^(ok|FAIL|---)" | head -3 | tr '\n' ';')
echo "demo on clean tree : $demo_clean"
echo "demo with change   : $demo_mut"
echo "suite with change  : $suite"
mkdir -p /verif/seeded/$name
cp $src/change_${letter}.diff /verif/seeded/$name/patch.diff
cp $src/demo_${letter}_test.go /verif/seeded/$name/demo_test.go
out=$(cd /verif && VERIF_REPO=$wt ./check $prop --runs $runs 2>&1 | grep -a -E "^(VIOLATION|  class|$prop |NOTE|INCON)" | sed 's/replay=.*//' | sort | uniq -c | sort -rn | head -6)
echo "$out"
detected=false; echo "$out" | grep -q VIOLATION && detected=true
python3 - "$name" "$prop" "$demo_clean" "$demo_mut" "$suite" "$detected" "$runs" <<'PY'
import json,sys,os
name,prop,dc,dm,suite,det,runs=sys.argv[1:8]
p='/verif/seeded/%s/meta.json'%name
m={}
if os.path.exists(p): m=json.load(open(p))
m.update({"property":prop,"name":name,"demo_on_clean_tree":dc,"demo_with_change":dm,"existing_suite_with_change":suite,
          "check_run":"VERIF_REPO=<worktree with patch> ./check %s --runs %s"%(prop,runs),"detected_by_check":det=="true"})
json.dump(m,open(p,'w'),indent=1)
PY
git -C /repo worktree remove --force $wt
rm -f /verif/.build/worker-$(python3 -c "import hashlib;print(hashlib.sha1(b'$wt').hexdigest()[:8])")*.test

#!/bin/bash
# usage: sens.sh revert <commit> <prop> [runs]   |   sens.sh patch <file.diff> <prop> [runs]
# Applies a change to a scratch worktree of /repo and runs one check against it.
mode=$1; what=$2; prop=$3; runs=${4:-2000}
wt=/tmp/sens-$$
git -C /repo worktree add -q $wt HEAD || exit 2
if [ "$mode" = revert ]; then
  git -C $wt revert --no-commit $what >/dev/null 2>&1 || { echo "revert failed"; git -C /repo worktree remove --force $wt; exit 2; }
else
  git -C $wt apply $what || { echo "apply failed"; git -C /repo worktree remove --force $wt; exit 2; }
fi
cd /verif && VERIF_REPO=$wt ./check $prop --runs $runs 2>&1 | grep -a -E "^(VIOLATION|  class|$prop|NOTE|INCON)" | sed 's/replay=.*//' | sort | uniq -c | sort -rn | head -${5:-8}
git -C /repo worktree remove --force $wt
rm -f /verif/.build/worker-$(python3 -c "import hashlib;print(hashlib.sha1(b'$wt').hexdigest()[:8])")*.test /verif/.build/go-*.mod /verif/.build/go-*.sum

//go:build !race

package core

// settle: a released task first waits for quiescence (synctest.Wait), so that
// everything else that wakes at the same fake instant — a context's deadline
// timer, a sleeping handler — has run to its next blocking point before the
// task proceeds. Without it the order between the released task and a timer
// firing at the very same instant is the Go runtime's, not the tape's.
const settle = true

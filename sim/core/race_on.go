//go:build race

package core

// Under the race detector synctest.Wait would give the released task a
// happens-before edge from every other task and hide races (DESIGN F3), so
// race builds do not settle; a same-instant timer may then be ordered by the
// runtime.
const settle = false

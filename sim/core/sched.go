package core

import (
	"fmt"
	"runtime"
	"sort"
	"testing/synctest"
	"time"
)

// Pred is the enabledness predicate and parameter source of a parked
// operation. Both methods are called by the scheduler goroutine only, while
// every task is durably blocked. Implementations must be //go:norace: the
// scheduler must never acquire a happens-before edge towards a task (see
// DESIGN.md F3), otherwise the race detector would see all tasks as ordered.
type Pred interface {
	Ready(now time.Time) bool
	Param(t *Tape) int
}

// FreePred is implemented by predicates that must still be waited for when
// the scheduler is in free-running (calibration) mode.
type FreePred interface{ ReadyNow() bool }

// Gate flags.
const (
	FlagSlow   = 1 // chosen only when no ordinary cell is enabled (buggify: delay this side here)
	FlagDaemon = 2 // does not keep the run alive (transport watchers)
)

type cell struct {
	key    string
	pred   Pred
	slow   bool
	daemon bool
	state  int32 // 0 empty, 1 parked, 2 released, 3 consumed
	param  int
}

// Status of a finished scheduler run.
type Status int

const (
	Done     Status = iota // every task finished, nothing parked
	Hang                   // nothing enabled, tasks unfinished, fake clock ran past the bound
	StepCap                // step budget exhausted: inconclusive
	Overflow               // cell table exhausted: inconclusive
)

func (s Status) String() string {
	return [...]string{"done", "hang", "stepcap", "overflow"}[s]
}

type Task struct {
	Name       string
	done       int32
	Panic      any
	PanicStack string
	// Where is a task-maintained description of the API call in progress,
	// for hang reports.
	where string
}

// Sched serialises tasks inside one synctest bubble.
type Sched struct {
	Tape      *Tape
	MaxSteps  int
	HangAfter time.Duration
	KeepTrace bool
	Free      bool // calibration world: gates do not park

	cells  []cell
	ncells int32
	seen   int32
	active []*cell
	live   int32
	dead   int32
	until  time.Time
	ack    chan struct{}

	Steps     int
	Branching int // steps with >= 2 candidates
	Hash      uint64
	Trace     []string
	Tasks     []*Task
	Start     time.Time
	IdleTime  time.Duration
}

// cellCache recycles the cell table between runs of one worker process
// (runs are sequential; the table of a finished run is dead).
var cellCache [][]cell

func getCells() []cell {
	if n := len(cellCache); n > 0 {
		c := cellCache[n-1]
		cellCache = cellCache[:n-1]
		return c
	}
	return make([]cell, 1<<15)
}

// Release returns the scheduler's tables for reuse. Call only after Kill.
func (s *Sched) Release() {
	if s.cells == nil {
		return
	}
	n := int(s.ncells)
	if n > len(s.cells) {
		n = len(s.cells)
	}
	clear(s.cells[:n])
	if len(cellCache) < 4 {
		cellCache = append(cellCache, s.cells)
	}
	s.cells = nil
	s.active = nil
}

func NewSched(t *Tape) *Sched {
	return &Sched{
		Tape:      t,
		MaxSteps:  20000,
		HangAfter: 120 * time.Second,
		cells:     getCells(),
		ack:       make(chan struct{}),
		Hash:      14695981039346656037,
	}
}

//go:norace
//go:nosplit
//go:noinline
func (s *Sched) claim() int32 {
	i := s.ncells
	if int(i) >= len(s.cells) {
		return -1
	}
	s.ncells = i + 1
	return i
}

//go:norace
//go:noinline
func (s *Sched) park(i int32, key string, pred Pred, flags int) {
	c := &s.cells[i]
	c.key = key
	c.pred = pred
	c.slow = flags&FlagSlow != 0
	c.daemon = flags&FlagDaemon != 0
	c.param = 0
	c.state = 1
}

//go:norace
//go:noinline
func (s *Sched) released(i int32) (bool, int) {
	c := &s.cells[i]
	if c.state == 2 {
		c.state = 3
		return true, c.param
	}
	return false, 0
}

//go:norace
//go:noinline
func (s *Sched) isDead() bool { return s.dead != 0 }

//go:norace
//go:noinline
func (s *Sched) setDead() { s.dead = 1 }

//go:norace
//go:noinline
func (s *Sched) quantum() time.Duration {
	d := time.Microsecond
	if !s.until.IsZero() {
		if r := time.Until(s.until); r > d {
			d = r
		}
	}
	return d
}

//go:norace
//go:noinline
func (s *Sched) setUntil(t time.Time) { s.until = t }

//go:norace
//go:nosplit
//go:noinline
func (s *Sched) addLive(d int32) { s.live += d }

//go:norace
//go:noinline
func (s *Sched) liveTasks() int32 { return s.live }

//go:norace
//go:noinline
func (s *Sched) claimed() int32 { return s.ncells }

//go:norace
//go:noinline
func taskDone(t *Task) bool { return t.done != 0 }

//go:norace
//go:noinline
func setTaskDone(t *Task) { t.done = 1 }

//go:norace
//go:noinline
func (t *Task) SetWhere(w string) { t.where = w }

//go:norace
//go:noinline
func (t *Task) Where() string { return t.where }

func (t *Task) Finished() bool { return taskDone(t) }

// Gate parks the calling goroutine until the scheduler releases it and
// returns the parameter the scheduler drew for this operation.
func (s *Sched) Gate(key string, pred Pred) int { return s.GateOpt(key, pred, 0) }

// GateOpt is Gate with flags (FlagSlow, FlagDaemon).
func (s *Sched) GateOpt(key string, pred Pred, flags int) int {
	if s.Free {
		// calibration world: nothing is scheduled, goroutines run freely
		if flags&FlagDaemon != 0 {
			runtime.Goexit()
		}
		if fp, ok := pred.(FreePred); ok {
			for !fp.ReadyNow() {
				time.Sleep(time.Microsecond)
			}
		}
		return 0
	}
	if s.isDead() {
		runtime.Goexit()
	}
	i := s.claim()
	if i < 0 {
		panic("sim: cell table overflow")
	}
	s.park(i, key, pred, flags)
	for {
		time.Sleep(s.quantum())
		if ok, p := s.released(i); ok {
			if settle {
				// quiesce everything else that woke at this instant, then hand
				// control back to the scheduler's Wait
				synctest.Wait()
				s.ack <- struct{}{}
			}
			return p
		}
		if s.isDead() {
			runtime.Goexit()
		}
	}
}

// Go starts a simulator-owned task. It may be called from the root before
// Run and from tasks.
func (s *Sched) Go(name string, f func(t *Task)) *Task {
	t := &Task{Name: name}
	s.addLive(1)
	s.appendTask(t)
	go func() {
		defer func() {
			if r := recover(); r != nil {
				buf := make([]byte, 16<<10)
				buf = buf[:runtime.Stack(buf, false)]
				t.setPanic(r, string(buf))
			}
			setTaskDone(t)
			s.addLive(-1)
		}()
		s.Gate(name+"/start", nil)
		f(t)
	}()
	return t
}

//go:norace
//go:noinline
func (s *Sched) appendTask(t *Task) { s.Tasks = append(s.Tasks, t) }

//go:norace
//go:noinline
func (t *Task) setPanic(r any, stack string) { t.Panic = r; t.PanicStack = stack }

//go:norace
//go:noinline
func (t *Task) GetPanic() (any, string) { return t.Panic, t.PanicStack }

//go:norace
//go:noinline
func (s *Sched) absorb() {
	n := s.ncells
	for i := s.seen; i < n; i++ {
		s.active = append(s.active, &s.cells[i])
	}
	s.seen = n
	// drop consumed
	w := 0
	for _, c := range s.active {
		if c.state == 1 {
			s.active[w] = c
			w++
		}
	}
	for i := w; i < len(s.active); i++ {
		s.active[i] = nil
	}
	s.active = s.active[:w]
}

//go:norace
//go:noinline
func cellReady(c *cell, now time.Time) bool {
	if c.pred == nil {
		return true
	}
	return c.pred.Ready(now)
}

//go:norace
//go:noinline
func onlyDaemons(cs []*cell) bool {
	for _, c := range cs {
		if !c.daemon {
			return false
		}
	}
	return true
}

//go:norace
//go:noinline
func cellKey(c *cell) (string, bool) { return c.key, c.slow }

//go:norace
//go:noinline
func (s *Sched) release(c *cell, param int) {
	c.param = param
	c.state = 2
}

//go:norace
//go:noinline
func cellParam(c *cell, t *Tape) int {
	if c.pred == nil {
		return 0
	}
	return c.pred.Param(t)
}

func (s *Sched) mixHash(str string, v int) {
	h := s.Hash
	for i := 0; i < len(str); i++ {
		h ^= uint64(str[i])
		h *= 1099511628211
	}
	h ^= uint64(v) + 0x9e37
	h *= 1099511628211
	s.Hash = h
}

// Parked returns the keys of all currently parked cells (for hang reports).
func (s *Sched) Parked() []string {
	var out []string
	for _, c := range s.active {
		k, _ := cellKey(c)
		out = append(out, k)
	}
	sort.Strings(out)
	return out
}

// Run is the scheduler loop. It must be called on the bubble's root
// goroutine.
func (s *Sched) Run() Status {
	s.Start = time.Now()
	idle := 0
	var idleSince time.Time
	var cand, slowCand []*cell
	for {
		synctest.Wait()
		if s.claimed() >= int32(len(s.cells))-8 {
			s.kill()
			return Overflow
		}
		s.absorb()
		// stable order: by key, ties by claim order (sort.SliceStable keeps it)
		sort.SliceStable(s.active, func(i, j int) bool {
			ki, _ := cellKey(s.active[i])
			kj, _ := cellKey(s.active[j])
			return ki < kj
		})
		now := time.Now()
		cand, slowCand = cand[:0], slowCand[:0]
		for _, c := range s.active {
			if !cellReady(c, now) {
				continue
			}
			if _, slow := cellKey(c); slow {
				slowCand = append(slowCand, c)
			} else {
				cand = append(cand, c)
			}
		}
		if len(cand) == 0 {
			cand = slowCand
		}
		if len(cand) == 0 {
			if s.liveTasks() == 0 && onlyDaemons(s.active) {
				return Done
			}
			if idle == 0 {
				idleSince = now
			}
			if now.Sub(idleSince) > s.HangAfter {
				return Hang // caller inspects, then calls Kill
			}
			step := time.Microsecond << uint(idle)
			if idle > 20 || step > time.Second {
				step = time.Second
			}
			idle++
			s.IdleTime += step
			s.setUntil(now.Add(step))
			time.Sleep(step)
			continue
		}
		idle = 0
		s.setUntil(time.Time{})
		if s.Steps >= s.MaxSteps {
			s.kill()
			return StepCap
		}
		s.Steps++
		if len(cand) > 1 {
			s.Branching++
		}
		pick := cand[s.Tape.Choose(len(cand), "sched")]
		param := cellParam(pick, s.Tape)
		key, _ := cellKey(pick)
		s.mixHash(key, param)
		if s.KeepTrace && len(s.Trace) < 4000 {
			s.Trace = append(s.Trace, fmt.Sprintf("%d t=%v %s p=%d /%d", s.Steps, now.Sub(s.Start), key, param, len(cand)))
		}
		s.release(pick, param)
		if settle {
			// the parked tasks' polling sleeps advance the clock by one
			// quantum; the released task answers once it is alone
			<-s.ack
		} else {
			time.Sleep(time.Microsecond)
		}
	}
}

// Kill makes every parked task exit (runtime.Goexit) and waits for
// quiescence. Used after Hang/StepCap so the bubble can end.
func (s *Sched) Kill() { s.kill() }

func (s *Sched) kill() {
	s.setDead()
	s.setUntil(time.Time{})
	for i := 0; i < 200; i++ {
		time.Sleep(10 * time.Microsecond)
		synctest.Wait()
		s.absorb()
		if s.liveTasks() == 0 && len(s.active) == 0 {
			break
		}
	}
}

// Now is the fake time elapsed since Run started.
func (s *Sched) Elapsed() time.Duration { return time.Since(s.Start) }

// StepNow is the number of scheduler steps taken so far (readable from
// tasks).
//
//go:norace
//go:noinline
func (s *Sched) StepNow() int { return s.Steps }

// RunFree is the calibration world's substitute for Run: it only waits until
// every task has finished (or the fake-time bound passes).
func (s *Sched) RunFree(bound time.Duration) Status {
	s.Start = time.Now()
	for {
		synctest.Wait()
		if s.liveTasks() == 0 {
			return Done
		}
		if time.Since(s.Start) > bound {
			return Hang
		}
		time.Sleep(100 * time.Microsecond)
	}
}

// Package core holds the deterministic-simulation kernel: the choice tape
// (one integer decides everything) and the cooperative scheduler that runs
// inside a testing/synctest bubble.
package core

import "fmt"

// Choice is one recorded decision.
type Choice struct {
	Label string `json:"l"`
	N     int    `json:"n"`
	V     int    `json:"v"`
}

// Tape is the only source of nondeterminism in a run. In generate mode it is
// backed by splitmix64 seeded from one integer; in replay mode it reads
// values from a list (value mod n, 0 when exhausted). By construction choice
// 0 is the simplest alternative everywhere, so shrinking means "towards 0".
type Tape struct {
	state   uint64
	replay  []int
	pos     int
	isRep   bool
	Rec     []Choice
	NoTrace bool // do not keep labels (faster)
}

func NewTape(seed uint64) *Tape { return &Tape{state: seed} }

func ReplayTape(vals []int) *Tape { return &Tape{replay: vals, isRep: true} }

func (t *Tape) next() uint64 {
	t.state += 0x9E3779B97F4A7C15
	z := t.state
	z = (z ^ (z >> 30)) * 0xBF58476D1CE4E5B9
	z = (z ^ (z >> 27)) * 0x94D049BB133111EB
	return z ^ (z >> 31)
}

// Mix derives a sub-seed.
func Mix(a, b uint64) uint64 {
	t := Tape{state: a ^ (b * 0xD6E8FEB86659FD93)}
	t.next()
	return t.next()
}

// Choose returns a value in [0,n). n<=1 returns 0 without consuming a choice.
func (t *Tape) Choose(n int, label string) int {
	if n <= 1 {
		return 0
	}
	var v int
	if t.isRep {
		if t.pos < len(t.replay) {
			v = t.replay[t.pos]
			if v < 0 {
				v = -v
			}
			v %= n
		}
		t.pos++
	} else {
		v = int(t.next() % uint64(n))
	}
	if t.NoTrace {
		t.Rec = append(t.Rec, Choice{N: n, V: v})
	} else {
		t.Rec = append(t.Rec, Choice{Label: label, N: n, V: v})
	}
	return v
}

// Bool is true with probability num/den; false (0) is the simple case.
func (t *Tape) Bool(num, den int, label string) bool {
	if num <= 0 {
		return false
	}
	return t.Choose(den, label) >= den-num
}

// Pick chooses by weights; index 0 should be the simplest alternative.
func (t *Tape) Pick(weights []int, label string) int {
	total := 0
	for _, w := range weights {
		total += w
	}
	if total <= 0 {
		return 0
	}
	// Encode as a single choice over total so that value 0 maps to index 0.
	v := t.Choose(total, label)
	for i, w := range weights {
		if v < w {
			return i
		}
		v -= w
	}
	return len(weights) - 1
}

// Range returns a value in [lo,hi].
func (t *Tape) Range(lo, hi int, label string) int {
	if hi <= lo {
		return lo
	}
	return lo + t.Choose(hi-lo+1, label)
}

// Bytes fills a deterministic byte string of length n. kind 0: zeros,
// 1: repeating text (compressible), 2: pseudo-random.
func (t *Tape) Bytes(n, kind int, label string) []byte {
	b := make([]byte, n)
	if n == 0 {
		return b
	}
	switch kind {
	case 0:
	case 1:
		off := t.Choose(26, label)
		for i := range b {
			b[i] = byte('a' + (i+off)%26)
		}
	default:
		s := uint64(t.Choose(1<<30, label))
		g := Tape{state: s}
		for i := 0; i < n; i += 8 {
			z := g.next()
			for j := 0; j < 8 && i+j < n; j++ {
				b[i+j] = byte(z >> (8 * j))
			}
		}
	}
	return b
}

// Values returns the recorded values (the replayable tape).
func (t *Tape) Values() []int {
	out := make([]int, len(t.Rec))
	for i, c := range t.Rec {
		out[i] = c.V
	}
	return out
}

func (t *Tape) Describe(max int) []string {
	var out []string
	for i, c := range t.Rec {
		if i >= max {
			out = append(out, fmt.Sprintf("... %d more", len(t.Rec)-i))
			break
		}
		out = append(out, fmt.Sprintf("%s=%d/%d", c.Label, c.V, c.N))
	}
	return out
}

package ref

import (
	"encoding/json"
	"fmt"
	"net/http"
	"sort"
	"strconv"
	"strings"

	"google.golang.org/protobuf/encoding/protojson"
	"google.golang.org/protobuf/types/known/anypb"
)

// EncOpts selects among the legal variations of the wire formats.
type EncOpts struct {
	Encoding     string                                // algorithm named in the encoding header ("" = none)
	Compress     func(name string, data []byte) []byte // compressor for Encoding
	CompressMsg  func(i int) bool                      // which messages to compress (nil: none)
	TrailersOnly bool                                  // gRPC / gRPC-Web: body-less response with status in headers (only without messages)
	BareCT       bool                                  // application/grpc instead of application/grpc+proto
	PadBin       bool                                  // padded base64 in -bin values
	UpperHex     bool                                  // upper-case hex digits in percent escapes
	LowerKeys    bool                                  // lower-case keys in the gRPC-Web trailer block / Connect metadata JSON
	OmitDetails  bool                                  // gRPC: no grpc-status-details-bin when there are no details
	NameIdentity bool                                  // when nothing is compressed, name the "identity" encoding explicitly instead of omitting the header
}

func ContentType(p Proto, streaming bool, codec string, bare bool) string {
	switch p {
	case Connect:
		if streaming {
			return "application/connect+" + codec
		}
		return "application/" + codec
	case GRPC:
		if bare && codec == "proto" {
			return "application/grpc"
		}
		return "application/grpc+" + codec
	default:
		if bare && codec == "proto" {
			return "application/grpc-web"
		}
		return "application/grpc-web+" + codec
	}
}

func connectErrorJSON(e *Error) []byte {
	m := map[string]any{"code": CodeNames[e.Code]}
	if e.Message != "" {
		m["message"] = e.Message
	}
	if len(e.Details) > 0 {
		var ds []json.RawMessage
		for _, d := range e.Details {
			b, err := protojson.Marshal(&anypb.Any{TypeUrl: d.TypeURL, Value: d.Value})
			if err != nil {
				continue
			}
			ds = append(ds, b)
		}
		m["details"] = ds
	}
	b, _ := json.Marshal(m)
	return b
}

// ConnectErrorJSON is exported for peers that craft error bodies.
func ConnectErrorJSON(e *Error) []byte { return connectErrorJSON(e) }

func copyMeta(into, from http.Header, lower bool) {
	for _, k := range SortedKeys(from) {
		kk := k
		if lower {
			kk = strings.ToLower(k)
		}
		into[kk] = append(into[kk], from[k]...)
	}
}

func grpcTrailerFields(e *Error, o EncOpts) http.Header {
	t := http.Header{}
	if e == nil {
		t["Grpc-Status"] = []string{"0"}
		return t
	}
	t["Grpc-Status"] = []string{strconv.FormatUint(uint64(e.Code), 10)}
	if e.Message != "" {
		t["Grpc-Message"] = []string{PercentEncode(e.Message, o.UpperHex)}
	}
	if len(e.Details) > 0 || !o.OmitDetails {
		t["Grpc-Status-Details-Bin"] = []string{EncodeBin(EncodeStatusProto(e), o.PadBin)}
	}
	return t
}

func webTrailerBlock(t http.Header, lower bool) []byte {
	var b strings.Builder
	keys := SortedKeys(t)
	sort.Strings(keys)
	for _, k := range keys {
		kk := k
		if lower {
			kk = strings.ToLower(k)
		}
		for _, v := range t[k] {
			fmt.Fprintf(&b, "%s: %s\r\n", kk, v)
		}
	}
	return []byte(b.String())
}

// EncodeResponse produces a conformant response.
func EncodeResponse(p Proto, streaming bool, codec string, o EncOpts, msgs [][]byte, e *Error, hdr, trl http.Header) (status int, header http.Header, body []byte, trailer http.Header) {
	header = http.Header{}
	header["Content-Type"] = []string{ContentType(p, streaming, codec, o.BareCT)}
	frame := func(i int, data []byte) []byte {
		flags := byte(0)
		if o.CompressMsg != nil && o.CompressMsg(i) && o.Encoding != "" && o.Compress != nil {
			data = o.Compress(o.Encoding, data)
			flags |= FlagCompressed
		}
		return AppendEnvelope(nil, flags, data)
	}
	switch p {
	case Connect:
		if !streaming {
			copyMeta(header, hdr, false)
			for _, k := range SortedKeys(trl) {
				header["Trailer-"+k] = append(header["Trailer-"+k], trl[k]...)
			}
			if e != nil {
				header["Content-Type"] = []string{"application/json"}
				status = 500
				if s, ok := StableHTTPStatus[e.Code]; ok {
					status = s
				} else {
					status = map[uint32]int{1: 408, 4: 408, 9: 412, 11: 400, 12: 404}[e.Code]
				}
				body := connectErrorJSON(e)
				if o.CompressMsg != nil && o.CompressMsg(0) && o.Encoding != "" && o.Compress != nil {
					// error bodies may be compressed like any other body
					body = o.Compress(o.Encoding, body)
					header["Content-Encoding"] = []string{o.Encoding}
				}
				return status, header, body, nil
			}
			var data []byte
			if len(msgs) > 0 {
				data = msgs[0]
			}
			if o.CompressMsg != nil && o.CompressMsg(0) && o.Encoding != "" && o.Compress != nil {
				data = o.Compress(o.Encoding, data)
				header["Content-Encoding"] = []string{o.Encoding}
			} else if o.NameIdentity {
				header["Content-Encoding"] = []string{"identity"}
			}
			return 200, header, data, nil
		}
		copyMeta(header, hdr, false)
		if o.Encoding != "" {
			header["Connect-Content-Encoding"] = []string{o.Encoding}
		} else if o.NameIdentity {
			header["Connect-Content-Encoding"] = []string{"identity"}
		}
		for i, m := range msgs {
			body = append(body, frame(i, m)...)
		}
		end := map[string]any{}
		if e != nil {
			end["error"] = json.RawMessage(connectErrorJSON(e))
		}
		if len(trl) > 0 {
			md := http.Header{}
			copyMeta(md, trl, o.LowerKeys)
			end["metadata"] = md
		}
		eb, _ := json.Marshal(end)
		body = append(body, AppendEnvelope(nil, FlagEndStream, eb)...)
		return 200, header, body, nil
	default:
		if o.Encoding != "" {
			header["Grpc-Encoding"] = []string{o.Encoding}
		} else if o.NameIdentity {
			header["Grpc-Encoding"] = []string{"identity"}
		}
		tf := grpcTrailerFields(e, o)
		if o.TrailersOnly && len(msgs) == 0 {
			copyMeta(header, hdr, false)
			copyMeta(header, trl, false)
			copyMeta(header, tf, false)
			return 200, header, nil, nil
		}
		copyMeta(header, hdr, false)
		for i, m := range msgs {
			body = append(body, frame(i, m)...)
		}
		all := http.Header{}
		copyMeta(all, trl, false)
		copyMeta(all, tf, false)
		if p == GRPCWeb {
			body = append(body, AppendEnvelope(nil, FlagTrailers, webTrailerBlock(all, o.LowerKeys))...)
			return 200, header, body, nil
		}
		return 200, header, body, all
	}
}

// EncodeRequestBody frames request messages.
func EncodeRequestBody(p Proto, streaming bool, o EncOpts, msgs [][]byte) []byte {
	if p == Connect && !streaming {
		var data []byte
		if len(msgs) > 0 {
			data = msgs[0]
		}
		if o.CompressMsg != nil && o.CompressMsg(0) && o.Encoding != "" && o.Compress != nil {
			data = o.Compress(o.Encoding, data)
		}
		return data
	}
	var body []byte
	for i, m := range msgs {
		flags := byte(0)
		data := m
		if o.CompressMsg != nil && o.CompressMsg(i) && o.Encoding != "" && o.Compress != nil {
			data = o.Compress(o.Encoding, data)
			flags |= FlagCompressed
		}
		body = AppendEnvelope(body, flags, data)
	}
	return body
}

// RequestHeader builds conformant request headers.
func RequestHeader(p Proto, streaming bool, codec string, o EncOpts, timeout string, meta http.Header) http.Header {
	h := http.Header{}
	h["Content-Type"] = []string{ContentType(p, streaming, codec, o.BareCT)}
	copyMeta(h, meta, false)
	switch p {
	case Connect:
		enc := o.Encoding
		if enc == "" && o.NameIdentity {
			enc = "identity"
		}
		if enc != "" {
			if streaming {
				h["Connect-Content-Encoding"] = []string{enc}
			} else {
				h["Content-Encoding"] = []string{enc}
			}
		}
		if timeout != "" {
			h["Connect-Timeout-Ms"] = []string{timeout}
		}
	default:
		if p == GRPC {
			h["Te"] = []string{"trailers"}
		}
		if o.Encoding != "" {
			h["Grpc-Encoding"] = []string{o.Encoding}
		} else if o.NameIdentity {
			h["Grpc-Encoding"] = []string{"identity"}
		}
		if timeout != "" {
			h["Grpc-Timeout"] = []string{timeout}
		}
	}
	return h
}

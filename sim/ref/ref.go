// Package ref is an independent, strictly spec-following implementation of
// the wire formats of the Connect, gRPC and gRPC-Web protocols, written from
// the protocol descriptions. It shares no code with connect-go and must never
// import it. It uses google.golang.org/protobuf only for protowire (the
// google.rpc.Status message) and protojson (google.protobuf.Any inside a
// Connect error).
package ref

import (
	"bytes"
	"encoding/base64"
	"encoding/binary"
	"encoding/json"
	"errors"
	"fmt"
	"net/http"
	"net/textproto"
	"sort"
	"strconv"
	"strings"
	"time"
	"unicode/utf8"

	"google.golang.org/protobuf/encoding/protojson"
	"google.golang.org/protobuf/encoding/protowire"
	"google.golang.org/protobuf/types/known/anypb"
)

type Proto int

const (
	Connect Proto = iota
	GRPC
	GRPCWeb
)

func (p Proto) String() string { return [...]string{"connect", "grpc", "grpcweb"}[p] }

const (
	FlagCompressed = 0x01
	FlagEndStream  = 0x02 // Connect
	FlagTrailers   = 0x80 // gRPC-Web
)

// CodeNames are the 16 error codes of the Connect protocol (identical numbers
// to gRPC's status codes).
var CodeNames = map[uint32]string{
	1: "canceled", 2: "unknown", 3: "invalid_argument", 4: "deadline_exceeded", 5: "not_found",
	6: "already_exists", 7: "permission_denied", 8: "resource_exhausted", 9: "failed_precondition",
	10: "aborted", 11: "out_of_range", 12: "unimplemented", 13: "internal", 14: "unavailable",
	15: "data_loss", 16: "unauthenticated",
}

func CodeFromName(s string) (uint32, bool) {
	for k, v := range CodeNames {
		if v == s {
			return k, true
		}
	}
	return 0, false
}

// StableHTTPStatus lists the code -> HTTP status entries of the unary
// Connect protocol that are identical in every published revision of the
// specification; other codes must merely map to some 4xx/5xx.
var StableHTTPStatus = map[uint32]int{
	2: 500, 3: 400, 5: 404, 6: 409, 7: 403, 8: 429, 10: 409, 13: 500, 14: 503, 15: 500, 16: 401,
}

type Env struct {
	Flags byte
	Data  []byte
	Off   int // offset of the prefix in the body
}

// SplitEnvelopes parses length-prefixed messages. It returns the complete
// envelopes, the offset just after the last complete one, and whether the
// body ends exactly there.
func SplitEnvelopes(b []byte) (envs []Env, end int, exact bool) {
	off := 0
	for {
		if len(b)-off < 5 {
			return envs, off, len(b) == off
		}
		n := int(binary.BigEndian.Uint32(b[off+1 : off+5]))
		if len(b)-off-5 < n {
			return envs, off, false
		}
		envs = append(envs, Env{Flags: b[off], Data: b[off+5 : off+5+n], Off: off})
		off += 5 + n
	}
}

func AppendEnvelope(dst []byte, flags byte, data []byte) []byte {
	var p [5]byte
	p[0] = flags
	binary.BigEndian.PutUint32(p[1:], uint32(len(data)))
	dst = append(dst, p[:]...)
	return append(dst, data...)
}

type Detail struct {
	TypeURL string
	Value   []byte
}

type Error struct {
	Code    uint32
	Message string
	Details []Detail
}

type Response struct {
	Messages     [][]byte // payloads after decompression, still codec-encoded
	Compressed   []bool
	Err          *Error
	Header       http.Header // leading metadata
	Trailer      http.Header // trailing metadata
	Encoding     string
	TrailersOnly bool
}

// Decomp decompresses one message with the named algorithm.
type Decomp func(name string, data []byte) ([]byte, error)

var reserved = []string{"Grpc-", "Connect-", "Content-", "Accept-Encoding", "Trailer", "Te", "User-Agent", "Date", "Host"}

func isReserved(k string) bool {
	k = textproto.CanonicalMIMEHeaderKey(k)
	for _, r := range reserved {
		if strings.HasPrefix(k, r) {
			return true
		}
	}
	return false
}

// metadata returns the non-protocol keys of h (canonical keys).
func metadata(h http.Header, stripPrefix string) http.Header {
	out := http.Header{}
	for k, vs := range h {
		ck := textproto.CanonicalMIMEHeaderKey(k)
		if stripPrefix != "" {
			if !strings.HasPrefix(ck, stripPrefix) {
				continue
			}
			ck = textproto.CanonicalMIMEHeaderKey(strings.TrimPrefix(ck, stripPrefix))
		}
		if isReserved(ck) {
			continue
		}
		out[ck] = append(out[ck], vs...)
	}
	return out
}

// encodingOf reads an encoding header strictly: it is absent or names a
// content-coding; present-but-empty names nothing and is not grammatical.
func encodingOf(h http.Header, key string) (string, error) {
	v, n := single(h, key)
	if n > 0 && strings.TrimSpace(v) == "" {
		return "", fmt.Errorf("%s header is present but names no content-coding", key)
	}
	return v, nil
}

func single(h http.Header, key string) (string, int) {
	vs := h[textproto.CanonicalMIMEHeaderKey(key)]
	if len(vs) == 0 {
		return "", 0
	}
	return vs[0], len(vs)
}

// PercentDecodeStrict decodes a grpc-message value. Only printable ASCII is
// allowed on the wire and every '%' must be followed by two hex digits.
func PercentDecodeStrict(s string) (string, error) {
	var out []byte
	for i := 0; i < len(s); i++ {
		c := s[i]
		if c < 0x20 || c > 0x7e {
			return "", fmt.Errorf("grpc-message contains byte 0x%02x outside the percent-encoding alphabet", c)
		}
		if c != '%' {
			out = append(out, c)
			continue
		}
		if i+2 >= len(s) {
			return "", fmt.Errorf("grpc-message has a truncated escape at offset %d", i)
		}
		v, err := strconv.ParseUint(s[i+1:i+3], 16, 8)
		if err != nil {
			return "", fmt.Errorf("grpc-message has an invalid escape %q", s[i:i+3])
		}
		out = append(out, byte(v))
		i += 2
	}
	return string(out), nil
}

// PercentEncode encodes a message for grpc-message; upper selects the hex
// digit case (both are legal).
func PercentEncode(s string, upper bool) string {
	var b strings.Builder
	for i := 0; i < len(s); i++ {
		c := s[i]
		// Any byte may be escaped. Blanks at either end are escaped because
		// HTTP/1-style header blocks (HTTP/1.1 trailers, the gRPC-Web trailer
		// frame) strip optional whitespace around field values.
		edgeBlank := (c == ' ') && (i == 0 || i == len(s)-1)
		if c < 0x20 || c > 0x7e || c == '%' || edgeBlank {
			if upper {
				fmt.Fprintf(&b, "%%%02X", c)
			} else {
				fmt.Fprintf(&b, "%%%02x", c)
			}
			continue
		}
		b.WriteByte(c)
	}
	return b.String()
}

func decodeBin(s string) ([]byte, error) {
	s = strings.TrimRight(s, "=")
	return base64.RawStdEncoding.DecodeString(s)
}

// DecodeBin decodes a -bin metadata value (padded or unpadded base64).
func DecodeBin(s string) ([]byte, error) { return decodeBin(s) }

func EncodeBin(b []byte, padded bool) string {
	if padded {
		return base64.StdEncoding.EncodeToString(b)
	}
	return base64.RawStdEncoding.EncodeToString(b)
}

// parseStatusProto decodes google.rpc.Status.
func parseStatusProto(b []byte) (*Error, error) {
	e := &Error{}
	for len(b) > 0 {
		num, typ, n := protowire.ConsumeTag(b)
		if n < 0 {
			return nil, errors.New("status: bad tag")
		}
		b = b[n:]
		switch {
		case num == 1 && typ == protowire.VarintType:
			v, m := protowire.ConsumeVarint(b)
			if m < 0 {
				return nil, errors.New("status: bad code")
			}
			e.Code = uint32(int32(v))
			b = b[m:]
		case num == 2 && typ == protowire.BytesType:
			v, m := protowire.ConsumeBytes(b)
			if m < 0 {
				return nil, errors.New("status: bad message")
			}
			e.Message = string(v)
			b = b[m:]
		case num == 3 && typ == protowire.BytesType:
			v, m := protowire.ConsumeBytes(b)
			if m < 0 {
				return nil, errors.New("status: bad detail")
			}
			d, err := parseAnyProto(v)
			if err != nil {
				return nil, err
			}
			e.Details = append(e.Details, d)
			b = b[m:]
		default:
			m := protowire.ConsumeFieldValue(num, typ, b)
			if m < 0 {
				return nil, errors.New("status: bad field")
			}
			b = b[m:]
		}
	}
	return e, nil
}

func parseAnyProto(b []byte) (Detail, error) {
	var d Detail
	for len(b) > 0 {
		num, typ, n := protowire.ConsumeTag(b)
		if n < 0 {
			return d, errors.New("any: bad tag")
		}
		b = b[n:]
		if typ != protowire.BytesType {
			m := protowire.ConsumeFieldValue(num, typ, b)
			if m < 0 {
				return d, errors.New("any: bad field")
			}
			b = b[m:]
			continue
		}
		v, m := protowire.ConsumeBytes(b)
		if m < 0 {
			return d, errors.New("any: bad bytes")
		}
		switch num {
		case 1:
			d.TypeURL = string(v)
		case 2:
			d.Value = append([]byte(nil), v...)
		}
		b = b[m:]
	}
	return d, nil
}

// EncodeStatusProto encodes google.rpc.Status.
func EncodeStatusProto(e *Error) []byte {
	var b []byte
	if e.Code != 0 {
		b = protowire.AppendTag(b, 1, protowire.VarintType)
		b = protowire.AppendVarint(b, uint64(e.Code))
	}
	if e.Message != "" {
		b = protowire.AppendTag(b, 2, protowire.BytesType)
		b = protowire.AppendString(b, e.Message)
	}
	for _, d := range e.Details {
		var a []byte
		if d.TypeURL != "" {
			a = protowire.AppendTag(a, 1, protowire.BytesType)
			a = protowire.AppendString(a, d.TypeURL)
		}
		if len(d.Value) > 0 {
			a = protowire.AppendTag(a, 2, protowire.BytesType)
			a = protowire.AppendBytes(a, d.Value)
		}
		b = protowire.AppendTag(b, 3, protowire.BytesType)
		b = protowire.AppendBytes(b, a)
	}
	return b
}

// grpcStatus extracts the status from a trailer-like header block. found is
// false when there is no grpc-status at all.
func grpcStatus(h http.Header) (e *Error, found bool, err error) {
	st, n := single(h, "Grpc-Status")
	if n == 0 {
		return nil, false, nil
	}
	if n > 1 {
		return nil, true, fmt.Errorf("grpc-status appears %d times", n)
	}
	code, perr := strconv.ParseUint(st, 10, 32)
	if perr != nil || strings.TrimLeft(st, "0123456789") != "" {
		return nil, true, fmt.Errorf("grpc-status %q is not a decimal status code", st)
	}
	msgRaw, mn := single(h, "Grpc-Message")
	if mn > 1 {
		return nil, true, fmt.Errorf("grpc-message appears %d times", mn)
	}
	// A field value has no leading or trailing whitespace (RFC 9110 5.5, RFC
	// 9113 8.2.1): conformant HTTP stacks strip it or refuse the message, so
	// what a peer is handed is the trimmed value.
	msg, derr := PercentDecodeStrict(strings.Trim(msgRaw, " \t"))
	if derr != nil {
		return nil, true, derr
	}
	if !utf8.ValidString(msg) {
		return nil, true, errors.New("grpc-message does not decode to UTF-8")
	}
	if code == 0 {
		return nil, true, nil
	}
	out := &Error{Code: uint32(code), Message: msg}
	if det, dn := single(h, "Grpc-Status-Details-Bin"); dn > 0 {
		if dn > 1 {
			return nil, true, errors.New("grpc-status-details-bin appears more than once")
		}
		raw, berr := decodeBin(det)
		if berr != nil {
			return nil, true, fmt.Errorf("grpc-status-details-bin is not base64: %w", berr)
		}
		st, serr := parseStatusProto(raw)
		if serr != nil {
			return nil, true, serr
		}
		if st.Code != out.Code {
			return nil, true, fmt.Errorf("grpc-status-details-bin carries code %d, grpc-status %d", st.Code, out.Code)
		}
		// grpc-message is what the protocol defines; the Status proto repeats
		// it, and the two must agree - a peer that knows only the former must
		// get the text the application supplied.
		if st.Message != out.Message {
			return nil, true, fmt.Errorf("grpc-message decodes to %q, the Status in grpc-status-details-bin says %q", out.Message, st.Message)
		}
		out.Details = st.Details
	}
	return out, true, nil
}

func codecFromContentType(p Proto, streaming bool, ct string) (string, error) {
	switch p {
	case Connect:
		if streaming {
			if !strings.HasPrefix(ct, "application/connect+") {
				return "", fmt.Errorf("content-type %q is not application/connect+<codec>", ct)
			}
			return strings.TrimPrefix(ct, "application/connect+"), nil
		}
		if !strings.HasPrefix(ct, "application/") {
			return "", fmt.Errorf("content-type %q is not application/<codec>", ct)
		}
		return strings.TrimPrefix(ct, "application/"), nil
	case GRPC:
		if ct == "application/grpc" {
			return "proto", nil
		}
		if !strings.HasPrefix(ct, "application/grpc+") {
			return "", fmt.Errorf("content-type %q is not application/grpc[+codec]", ct)
		}
		return strings.TrimPrefix(ct, "application/grpc+"), nil
	default:
		if ct == "application/grpc-web" {
			return "proto", nil
		}
		if !strings.HasPrefix(ct, "application/grpc-web+") {
			return "", fmt.Errorf("content-type %q is not application/grpc-web[+codec]", ct)
		}
		return strings.TrimPrefix(ct, "application/grpc-web+"), nil
	}
}

func decompress(d Decomp, name string, data []byte) ([]byte, error) {
	if name == "" || name == "identity" {
		return nil, errors.New("message flagged compressed but the encoding header names no algorithm")
	}
	if d == nil {
		return nil, fmt.Errorf("no decompressor for %q", name)
	}
	return d(name, data)
}

// parseWebTrailers parses the payload of a gRPC-Web trailer frame: an
// HTTP/1-style header block, keys in any case.
func parseWebTrailers(b []byte) (http.Header, error) {
	h := http.Header{}
	for _, line := range strings.Split(string(b), "\r\n") {
		if line == "" {
			continue
		}
		i := strings.IndexByte(line, ':')
		if i <= 0 {
			return nil, fmt.Errorf("malformed trailer line %q", line)
		}
		k := textproto.CanonicalMIMEHeaderKey(strings.TrimSpace(line[:i]))
		h[k] = append(h[k], strings.TrimSpace(line[i+1:]))
	}
	return h, nil
}

type connectErrJSON struct {
	Code    string            `json:"code"`
	Message string            `json:"message"`
	Details []json.RawMessage `json:"details"`
}

func parseConnectError(raw json.RawMessage) (*Error, error) {
	var w connectErrJSON
	dec := json.NewDecoder(bytes.NewReader(raw))
	if err := dec.Decode(&w); err != nil {
		return nil, fmt.Errorf("connect error is not JSON: %w", err)
	}
	code, ok := CodeFromName(w.Code)
	if !ok {
		return nil, fmt.Errorf("connect error has unknown code %q", w.Code)
	}
	e := &Error{Code: code, Message: w.Message}
	for _, d := range w.Details {
		var a anypb.Any
		if err := protojson.Unmarshal(d, &a); err != nil {
			return nil, fmt.Errorf("connect error detail is not a google.protobuf.Any: %w", err)
		}
		e.Details = append(e.Details, Detail{TypeURL: a.GetTypeUrl(), Value: a.GetValue()})
	}
	return e, nil
}

type endStreamJSON struct {
	Error    json.RawMessage            `json:"error"`
	Metadata map[string]json.RawMessage `json:"metadata"`
}

// DecodeResponse strictly decodes a recorded response. reqCT is the request's
// Content-Type (the response must echo it, except unary Connect errors, which
// are application/json).
func DecodeResponse(p Proto, streaming bool, reqCT string, status int, hdr http.Header, body []byte, trailer http.Header, d Decomp) (*Response, error) {
	r := &Response{}
	ct, nct := single(hdr, "Content-Type")
	if nct > 1 {
		return nil, fmt.Errorf("response has %d Content-Type fields: %q", nct, hdr["Content-Type"])
	}
	if cl, n := single(hdr, "Content-Length"); n > 0 {
		// an HTTP message that declares a length has exactly that many body
		// bytes (net/http refuses to send anything else)
		if v, err := strconv.Atoi(strings.TrimSpace(cl)); n > 1 || err != nil || v != len(body) {
			return nil, fmt.Errorf("response declares Content-Length %q and has %d body bytes", hdr["Content-Length"], len(body))
		}
	}
	switch p {
	case Connect:
		if !streaming {
			return decodeConnectUnary(r, reqCT, ct, status, hdr, body, d)
		}
		if status != 200 {
			return nil, fmt.Errorf("connect streaming response has HTTP status %d", status)
		}
		if ct != reqCT {
			return nil, fmt.Errorf("response content-type %q does not echo the request's %q", ct, reqCT)
		}
		var encErr error
		if r.Encoding, encErr = encodingOf(hdr, "Connect-Content-Encoding"); encErr != nil {
			return nil, encErr
		}
		r.Header = metadata(hdr, "")
		envs, end, exact := SplitEnvelopes(body)
		if !exact {
			return nil, fmt.Errorf("body has %d trailing bytes that are not a complete envelope", len(body)-end)
		}
		for i, e := range envs {
			if e.Flags&^(FlagCompressed|FlagEndStream) != 0 {
				return nil, fmt.Errorf("envelope %d has unknown flag bits 0x%02x", i, e.Flags)
			}
			data := e.Data
			if e.Flags&FlagCompressed != 0 {
				var err error
				if data, err = decompress(d, r.Encoding, data); err != nil {
					return nil, fmt.Errorf("envelope %d: %w", i, err)
				}
			}
			if e.Flags&FlagEndStream != 0 {
				if i != len(envs)-1 {
					return nil, fmt.Errorf("data after the end-of-stream envelope")
				}
				var es endStreamJSON
				if err := json.Unmarshal(data, &es); err != nil {
					return nil, fmt.Errorf("end-of-stream payload is not JSON: %w", err)
				}
				r.Trailer = http.Header{}
				for k, raw := range es.Metadata {
					// the protocol defines each value as an array of strings
					var vs []string
					if err := json.Unmarshal(raw, &vs); err != nil || vs == nil {
						return nil, fmt.Errorf("end-of-stream metadata %q is %s, not an array of strings", k, raw)
					}
					ck := textproto.CanonicalMIMEHeaderKey(k)
					r.Trailer[ck] = append(r.Trailer[ck], vs...)
				}
				if len(es.Error) > 0 && string(es.Error) != "null" {
					ce, err := parseConnectError(es.Error)
					if err != nil {
						return nil, err
					}
					r.Err = ce
				}
				return r, nil
			}
			r.Messages = append(r.Messages, data)
			r.Compressed = append(r.Compressed, e.Flags&FlagCompressed != 0)
		}
		return nil, errors.New("connect stream does not end with an end-of-stream envelope")
	default:
		if status != 200 {
			return nil, fmt.Errorf("gRPC response has HTTP status %d", status)
		}
		if ct != reqCT {
			return nil, fmt.Errorf("response content-type %q does not echo the request's %q", ct, reqCT)
		}
		var encErr error
		if r.Encoding, encErr = encodingOf(hdr, "Grpc-Encoding"); encErr != nil {
			return nil, encErr
		}
		envs, end, exact := SplitEnvelopes(body)
		if !exact {
			return nil, fmt.Errorf("body has %d trailing bytes that are not a complete envelope", len(body)-end)
		}
		var webTrailer http.Header
		for i, e := range envs {
			allowed := byte(FlagCompressed)
			if p == GRPCWeb {
				allowed |= FlagTrailers
			}
			if e.Flags&^allowed != 0 {
				return nil, fmt.Errorf("envelope %d has unknown flag bits 0x%02x", i, e.Flags)
			}
			data := e.Data
			if e.Flags&FlagCompressed != 0 {
				var err error
				if data, err = decompress(d, r.Encoding, data); err != nil {
					return nil, fmt.Errorf("envelope %d: %w", i, err)
				}
			}
			if e.Flags&FlagTrailers != 0 {
				if i != len(envs)-1 {
					return nil, errors.New("data after the trailers frame")
				}
				var err error
				if webTrailer, err = parseWebTrailers(data); err != nil {
					return nil, err
				}
				continue
			}
			r.Messages = append(r.Messages, data)
			r.Compressed = append(r.Compressed, e.Flags&FlagCompressed != 0)
		}
		_, inHeaders, herr := grpcStatus(hdr)
		if herr != nil {
			return nil, herr
		}
		var src http.Header
		switch {
		case p == GRPC:
			_, inTrailers, _ := grpcStatus(trailer)
			switch {
			case inHeaders && inTrailers:
				return nil, errors.New("grpc-status in both headers and trailers")
			case inTrailers:
				src = trailer
			case inHeaders:
				if len(body) > 0 {
					return nil, errors.New("grpc-status in headers of a response with a body")
				}
				src, r.TrailersOnly = hdr, true
			default:
				return nil, errors.New("no grpc-status")
			}
		default:
			switch {
			case webTrailer != nil && inHeaders:
				return nil, errors.New("grpc-status in both headers and the trailers frame")
			case webTrailer != nil:
				src = webTrailer
			case inHeaders:
				if len(body) > 0 {
					return nil, errors.New("grpc-status in headers of a response with a body")
				}
				src, r.TrailersOnly = hdr, true
			default:
				return nil, errors.New("no grpc-status: neither a trailers frame nor a body-less response with status headers")
			}
		}
		ge, _, err := grpcStatus(src)
		if err != nil {
			return nil, err
		}
		r.Err = ge
		if r.TrailersOnly {
			r.Header = http.Header{}
			r.Trailer = metadata(hdr, "")
		} else {
			r.Header = metadata(hdr, "")
			r.Trailer = metadata(src, "")
		}
		return r, nil
	}
}

func decodeConnectUnary(r *Response, reqCT, ct string, status int, hdr http.Header, body []byte, d Decomp) (*Response, error) {
	r.Header = http.Header{}
	r.Trailer = metadata(hdr, "Trailer-")
	for k, vs := range metadata(hdr, "") {
		if !strings.HasPrefix(k, "Trailer-") {
			r.Header[k] = vs
		}
	}
	var encErr error
	if r.Encoding, encErr = encodingOf(hdr, "Content-Encoding"); encErr != nil {
		return nil, encErr
	}
	data := body
	if r.Encoding != "" && r.Encoding != "identity" && len(body) > 0 {
		var err error
		if data, err = decompress(d, r.Encoding, body); err != nil {
			return nil, err
		}
	}
	if status == 200 {
		if ct != reqCT {
			return nil, fmt.Errorf("response content-type %q does not echo the request's %q", ct, reqCT)
		}
		r.Messages = [][]byte{data}
		r.Compressed = []bool{r.Encoding != "" && r.Encoding != "identity"}
		return r, nil
	}
	if status < 400 || status > 599 {
		return nil, fmt.Errorf("unary connect error under HTTP status %d", status)
	}
	if ct != "application/json" {
		return nil, fmt.Errorf("unary connect error has content-type %q, want application/json", ct)
	}
	ce, err := parseConnectError(data)
	if err != nil {
		return nil, err
	}
	if want, ok := StableHTTPStatus[ce.Code]; ok && want != status {
		return nil, fmt.Errorf("code %s sent under HTTP status %d, specification says %d", CodeNames[ce.Code], status, want)
	}
	r.Err = ce
	return r, nil
}

// TerminatorArrived reports whether the delivered prefix of a response body
// (plus HTTP trailers, if delivered) contains the protocol's end-of-stream
// marker.
func TerminatorArrived(p Proto, streaming bool, hdr http.Header, prefix []byte, full int, trailer http.Header) bool {
	if p != Connect {
		// trailers-only: a body-less response whose headers carry the status
		if _, n := single(hdr, "Grpc-Status"); n > 0 && full == 0 {
			return true
		}
	}
	switch {
	case p == Connect && !streaming:
		return len(prefix) == full
	case p == Connect:
		envs, _, _ := SplitEnvelopes(prefix)
		for _, e := range envs {
			if e.Flags&FlagEndStream != 0 {
				return true
			}
		}
		return false
	case p == GRPCWeb:
		envs, _, _ := SplitEnvelopes(prefix)
		for _, e := range envs {
			if e.Flags&FlagTrailers != 0 {
				return true
			}
		}
		return false
	default:
		_, n := single(trailer, "Grpc-Status")
		return n > 0
	}
}

// ---------------------------------------------------------------- requests

type Request struct {
	Messages    [][]byte
	Compressed  []bool
	Encoding    string
	Codec       string
	Header      http.Header
	HasTimeout  bool
	Timeout     time.Duration
	TimeoutInf  bool
	ContentType string
}

// ParseGRPCTimeout parses a grpc-timeout value per the gRPC HTTP/2
// specification: 1..8 ASCII digits followed by one of H M S m u n.
func ParseGRPCTimeout(s string) (d time.Duration, unbounded bool, err error) {
	if len(s) < 2 {
		return 0, false, fmt.Errorf("timeout %q too short", s)
	}
	num, unit := s[:len(s)-1], s[len(s)-1]
	if len(num) > 8 {
		return 0, false, fmt.Errorf("timeout %q has more than 8 digits", s)
	}
	var v int64
	for i := 0; i < len(num); i++ {
		if num[i] < '0' || num[i] > '9' {
			return 0, false, fmt.Errorf("timeout %q has a non-digit", s)
		}
		v = v*10 + int64(num[i]-'0')
	}
	var u time.Duration
	switch unit {
	case 'H':
		u = time.Hour
	case 'M':
		u = time.Minute
	case 'S':
		u = time.Second
	case 'm':
		u = time.Millisecond
	case 'u':
		u = time.Microsecond
	case 'n':
		u = time.Nanosecond
	default:
		return 0, false, fmt.Errorf("timeout %q has unknown unit", s)
	}
	if v > int64((1<<63-1)/int64(u)) {
		return 0, true, nil
	}
	return time.Duration(v) * u, false, nil
}

// ParseConnectTimeout parses Connect-Timeout-Ms: 1..10 ASCII digits.
func ParseConnectTimeout(s string) (d time.Duration, unbounded bool, err error) {
	if len(s) == 0 || len(s) > 10 {
		return 0, false, fmt.Errorf("timeout %q must have 1..10 digits", s)
	}
	var v int64
	for i := 0; i < len(s); i++ {
		if s[i] < '0' || s[i] > '9' {
			return 0, false, fmt.Errorf("timeout %q has a non-digit", s)
		}
		v = v*10 + int64(s[i]-'0')
	}
	if v > int64((1<<63-1)/int64(time.Millisecond)) {
		return 0, true, nil
	}
	return time.Duration(v) * time.Millisecond, false, nil
}

// DecodeRequest strictly decodes a recorded request as a server of protocol p
// would.
func DecodeRequest(p Proto, streaming bool, method string, hdr http.Header, body []byte, d Decomp) (*Request, error) {
	r := &Request{Header: metadata(hdr, "")}
	if method != "POST" {
		return nil, fmt.Errorf("method %q, want POST", method)
	}
	ct, n := single(hdr, "Content-Type")
	if n != 1 {
		return nil, fmt.Errorf("content-type appears %d times", n)
	}
	r.ContentType = ct
	codec, err := codecFromContentType(p, streaming, ct)
	if err != nil {
		return nil, err
	}
	r.Codec = codec
	switch p {
	case Connect:
		if v, n := single(hdr, "Connect-Timeout-Ms"); n > 0 {
			if n > 1 {
				return nil, errors.New("connect-timeout-ms appears more than once")
			}
			r.HasTimeout = true
			if r.Timeout, r.TimeoutInf, err = ParseConnectTimeout(v); err != nil {
				return nil, err
			}
		}
		if !streaming {
			r.Encoding, _ = single(hdr, "Content-Encoding")
			data := body
			comp := r.Encoding != "" && r.Encoding != "identity"
			if comp && len(body) > 0 {
				if data, err = decompress(d, r.Encoding, body); err != nil {
					return nil, err
				}
			}
			r.Messages, r.Compressed = [][]byte{data}, []bool{comp}
			return r, nil
		}
		r.Encoding, _ = single(hdr, "Connect-Content-Encoding")
	default:
		if v, n := single(hdr, "Grpc-Timeout"); n > 0 {
			if n > 1 {
				return nil, errors.New("grpc-timeout appears more than once")
			}
			r.HasTimeout = true
			if r.Timeout, r.TimeoutInf, err = ParseGRPCTimeout(v); err != nil {
				return nil, err
			}
		}
		if p == GRPC {
			if te, _ := single(hdr, "Te"); te != "trailers" {
				return nil, fmt.Errorf("gRPC request without te: trailers (got %q)", te)
			}
		}
		r.Encoding, _ = single(hdr, "Grpc-Encoding")
	}
	if ce, n := single(hdr, "Content-Encoding"); n > 0 && ce != "identity" {
		// HTTP's own header speaks of the body as a whole; an enveloped body is
		// never coded as a whole (compression is per message, announced in the
		// protocol's own header), and a peer that honours Content-Encoding
		// cannot read this request
		return nil, fmt.Errorf("Content-Encoding %q on an enveloped request body, which is not coded as a whole", ce)
	}
	envs, end, exact := SplitEnvelopes(body)
	if !exact {
		return nil, fmt.Errorf("request body has %d trailing bytes that are not a complete envelope", len(body)-end)
	}
	for i, e := range envs {
		if e.Flags&^FlagCompressed != 0 {
			return nil, fmt.Errorf("request envelope %d has flag bits 0x%02x", i, e.Flags)
		}
		data := e.Data
		if e.Flags&FlagCompressed != 0 {
			if data, err = decompress(d, r.Encoding, data); err != nil {
				return nil, fmt.Errorf("request envelope %d: %w", i, err)
			}
		}
		r.Messages = append(r.Messages, data)
		r.Compressed = append(r.Compressed, e.Flags&FlagCompressed != 0)
	}
	return r, nil
}

// ---------------------------------------------------------------- payloads

// DecodeBytesValue decodes a google.protobuf.BytesValue in the named codec.
func DecodeBytesValue(codec string, payload []byte) ([]byte, error) {
	switch codec {
	case "proto":
		var out []byte
		b := payload
		for len(b) > 0 {
			num, typ, n := protowire.ConsumeTag(b)
			if n < 0 {
				return nil, errors.New("BytesValue: bad tag")
			}
			b = b[n:]
			if num == 1 && typ == protowire.BytesType {
				v, m := protowire.ConsumeBytes(b)
				if m < 0 {
					return nil, errors.New("BytesValue: bad value")
				}
				out = append([]byte{}, v...)
				b = b[m:]
				continue
			}
			m := protowire.ConsumeFieldValue(num, typ, b)
			if m < 0 {
				return nil, errors.New("BytesValue: bad field")
			}
			b = b[m:]
		}
		if out == nil {
			out = []byte{}
		}
		return out, nil
	case "json":
		var s string
		if err := json.Unmarshal(payload, &s); err != nil {
			return nil, fmt.Errorf("BytesValue JSON: %w", err)
		}
		out, err := base64.StdEncoding.DecodeString(s)
		if err != nil {
			if out, err = base64.RawStdEncoding.DecodeString(s); err != nil {
				if out, err = base64.URLEncoding.DecodeString(s); err != nil {
					return nil, fmt.Errorf("BytesValue JSON base64: %w", err)
				}
			}
		}
		return out, nil
	}
	return nil, fmt.Errorf("unknown codec %q", codec)
}

func EncodeBytesValue(codec string, v []byte) []byte {
	if codec == "json" {
		b, _ := json.Marshal(base64.StdEncoding.EncodeToString(v))
		return b
	}
	if len(v) == 0 {
		return []byte{}
	}
	var b []byte
	b = protowire.AppendTag(b, 1, protowire.BytesType)
	return protowire.AppendBytes(b, v)
}

// SortedKeys is a small helper for deterministic iteration.
func SortedKeys(h http.Header) []string {
	ks := make([]string, 0, len(h))
	for k := range h {
		ks = append(ks, k)
	}
	sort.Strings(ks)
	return ks
}

// ConnectErrorValid reports whether body is a Connect error in JSON with one
// of the 16 defined code names.
func ConnectErrorValid(body []byte) bool {
	_, err := parseConnectError(body)
	return err == nil
}

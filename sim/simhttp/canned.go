package simhttp

import (
	"fmt"
	"io"
	"net/http"
	"strconv"
	"time"
	"verif/sim/core"
)

// Canned is a complete response chosen by a byzantine or reference server:
// Do answers with it without running any handler.
type Canned struct {
	Status  int
	Header  http.Header
	Body    []byte
	Trailer http.Header // nil: none
	EndErr  error       // how the body ends (nil/io.EOF: clean)
	// OnRequest, if set, is called with the request headers as a server
	// would see them (reference-server worlds decide the reply from them).
	OnRequest func(h http.Header) *Canned
	// ReadRequest makes the stub consume the request body to EOF before
	// answering (reference servers need the bytes); the bytes are kept in
	// Exchange.Up.
	ReadRequest bool
	// DrainBeforeEnd: the server flushes this (partial) answer at once, then
	// reads the request to its end before it ends the response - as handlers
	// that answer early commonly do.
	DrainBeforeEnd bool
	// TrailerUpFront: Response.Trailer is filled in when Do returns, not when
	// the body has been read to its end - what an HTTPClient that builds its
	// responses in memory does (httptest.ResponseRecorder.Result()).
	TrailerUpFront bool
}

func (n *Net) doCanned(c *Call, req *http.Request) (*http.Response, error) {
	e := n.newExchange(c, req)
	c.setEx(e)
	can := c.Byz
	if can.ReadRequest {
		// collect the request body on the request goroutine itself, through
		// the gated link so that segmentation still applies
		buf := make([]byte, 32<<10)
		for {
			k, err := req.Body.Read(buf)
			if k > 0 {
				_ = e.Up.Push(buf[:k], true)
			}
			if err != nil {
				break
			}
		}
	}
	if can.OnRequest != nil {
		if r := can.OnRequest(e.ReqHeader.Clone()); r != nil {
			can = r
		}
	}
	drain := (can.DrainBeforeEnd || c.Byz.DrainBeforeEnd) && !c.Byz.ReadRequest
	e.mu.Lock()
	e.HandlerDone = !drain
	if drain && c.K.HTTP2 && can.Status > 299 {
		// net/http's HTTP/2 transport stops uploading the request body when it
		// sees a status above 299, and tells the server so only when the
		// response body is closed or has ended
		e.uploadStopped = true
		e.closedReq = true
		e.ClosedReqStep = e.Call.S.StepNow()
		closeBody(e.clientReq)
	}
	e.committed = true
	e.Status = can.Status
	e.RespHeader = can.Header.Clone()
	if e.RespHeader == nil {
		e.RespHeader = make(http.Header)
	}
	e.Trailer = can.Trailer
	e.setCommitFlag()
	if !drain {
		e.setOverFlag()
	}
	e.mu.Unlock()
	_ = e.Down.Push(can.Body, true)
	if can.Status == http.StatusSwitchingProtocols && !c.K.HTTP2 {
		// net/http hands the connection itself over as the body of a 101
		// answer: it has no end, and reading it is not guarded by the request's
		// context any more. Only Close lets go of it.
		e.mu.Lock()
		e.HandlerDone = false
		e.bodyIsConn = true
		e.updateDeaf()
		e.mu.Unlock()
	} else if drain {
		endErr := can.EndErr
		n.S.Go(c.ID+"/server.drain", func(*core.Task) {
			// the server: reads the request to its end, then ends the response
			buf := make([]byte, 32<<10)
			var err error
			for err == nil {
				_, err = e.Up.Read(buf, nil)
			}
			if err != io.EOF {
				return // reset
			}
			e.mu.Lock()
			defer e.mu.Unlock()
			if e.abortErr == nil {
				e.HandlerDone = true
				e.Down.Finish(endErr)
			}
		})
	} else {
		e.Down.Finish(can.EndErr)
	}
	n.S.Go(c.ID+"/pump", func(*core.Task) { e.runPump() })
	go e.runWatcher()
	n.S.Gate(c.ID+"/do", &e.dp)
	if err := req.Context().Err(); err != nil {
		e.Abort(err)
		return nil, c.ctxDoErr(req, err)
	}
	major, minor, proto := 1, 1, "HTTP/1.1"
	if c.K.HTTP2 {
		major, minor, proto = 2, 0, "HTTP/2.0"
	}
	resp := &http.Response{
		Status:        fmt.Sprintf("%d %s", can.Status, http.StatusText(can.Status)),
		StatusCode:    can.Status,
		Proto:         proto,
		ProtoMajor:    major,
		ProtoMinor:    minor,
		Header:        e.RespHeader.Clone(),
		ContentLength: -1,
		Request:       req,
	}
	if cl := e.RespHeader.Get("Content-Length"); cl != "" {
		if n, err := strconv.ParseInt(cl, 10, 64); err == nil && n >= 0 {
			resp.ContentLength = n
		}
	}
	announceTrailers(resp, c.K.DropTrailers)
	if can.TrailerUpFront && can.Trailer != nil {
		resp.Trailer = can.Trailer.Clone()
	}
	resp.Body = &respBody{e: e, resp: resp}
	e.resp = resp
	e.mu.Lock()
	e.RespReturned = true
	e.mu.Unlock()
	return resp, nil
}

// ServeRaw delivers a crafted request to the call's Route on the calling
// task: the request body is a pre-filled link (segmentation, EOF-with-data,
// cuts and end error apply), the response is collected without a reader.
func (n *Net) ServeRaw(c *Call, method, rawurl string, header http.Header, body []byte, endErr error) *Exchange {
	req, _ := http.NewRequest(method, rawurl, http.NoBody)
	e := n.newExchange(c, req)
	e.ReqHeader = canonHeader(header)
	c.setEx(e)
	e.Down = NewLink(n.S, c.ID+"/down", 1<<30)
	_ = e.Up.Push(body, true)
	e.Up.Finish(endErr)
	e.runHandler()
	return e
}

// resumedPred: the stalled upload may go on (it never does) or the exchange is over.
type resumedPred struct{ e *Exchange }

//go:norace
//go:noinline
func (p *resumedPred) Ready(time.Time) bool { return p.e.overFlag }

//go:norace
//go:noinline
func (p *resumedPred) Param(*core.Tape) int { return 0 }

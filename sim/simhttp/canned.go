package simhttp

import (
	"fmt"
	"net/http"
	"strconv"
	"verif/sim/core"
)

// Canned is a complete response chosen by a byzantine or reference server:
// Do answers with it without running any handler.
type Canned struct {
	Status  int
	Header  http.Header
	Body    []byte
	Trailer http.Header // nil: none
	EndErr  error       // how the body ends (nil/io.EOF: clean)
	// OnRequest, if set, is called with the request headers as a server
	// would see them (reference-server worlds decide the reply from them).
	OnRequest func(h http.Header) *Canned
	// ReadRequest makes the stub consume the request body to EOF before
	// answering (reference servers need the bytes); the bytes are kept in
	// Exchange.Up.
	ReadRequest bool
}

func (n *Net) doCanned(c *Call, req *http.Request) (*http.Response, error) {
	e := n.newExchange(c, req)
	c.setEx(e)
	can := c.Byz
	if can.ReadRequest {
		// collect the request body on the request goroutine itself, through
		// the gated link so that segmentation still applies
		buf := make([]byte, 32<<10)
		for {
			k, err := req.Body.Read(buf)
			if k > 0 {
				_ = e.Up.Push(buf[:k], true)
			}
			if err != nil {
				break
			}
		}
	}
	if can.OnRequest != nil {
		if r := can.OnRequest(e.ReqHeader.Clone()); r != nil {
			can = r
		}
	}
	e.mu.Lock()
	e.HandlerDone = true
	e.committed = true
	e.Status = can.Status
	e.RespHeader = can.Header.Clone()
	if e.RespHeader == nil {
		e.RespHeader = make(http.Header)
	}
	e.Trailer = can.Trailer
	e.setCommitFlag()
	e.setOverFlag()
	e.mu.Unlock()
	_ = e.Down.Push(can.Body, true)
	e.Down.Finish(can.EndErr)
	n.S.Go(c.ID+"/pump", func(*core.Task) { e.runPump() })
	go e.runWatcher()
	n.S.Gate(c.ID+"/do", &e.dp)
	if err := req.Context().Err(); err != nil {
		e.Abort(err)
		return nil, urlErr(req, err)
	}
	major, minor, proto := 1, 1, "HTTP/1.1"
	if c.K.HTTP2 {
		major, minor, proto = 2, 0, "HTTP/2.0"
	}
	resp := &http.Response{
		Status:        fmt.Sprintf("%d %s", can.Status, http.StatusText(can.Status)),
		StatusCode:    can.Status,
		Proto:         proto,
		ProtoMajor:    major,
		ProtoMinor:    minor,
		Header:        e.RespHeader.Clone(),
		ContentLength: -1,
		Request:       req,
	}
	if cl := e.RespHeader.Get("Content-Length"); cl != "" {
		if n, err := strconv.ParseInt(cl, 10, 64); err == nil && n >= 0 {
			resp.ContentLength = n
		}
	}
	resp.Body = &respBody{e: e, resp: resp}
	e.resp = resp
	e.mu.Lock()
	e.RespReturned = true
	e.mu.Unlock()
	return resp, nil
}

// ServeRaw delivers a crafted request to the call's Route on the calling
// task: the request body is a pre-filled link (segmentation, EOF-with-data,
// cuts and end error apply), the response is collected without a reader.
func (n *Net) ServeRaw(c *Call, method, rawurl string, header http.Header, body []byte, endErr error) *Exchange {
	req, _ := http.NewRequest(method, rawurl, http.NoBody)
	e := n.newExchange(c, req)
	e.ReqHeader = canonHeader(header)
	c.setEx(e)
	e.Down = NewLink(n.S, c.ID+"/down", 1<<30)
	_ = e.Up.Push(body, true)
	e.Up.Finish(endErr)
	e.runHandler()
	return e
}

package simhttp

import (
	"context"
	"errors"
	"fmt"
	"io"
	"net/http"
	"net/textproto"
	"net/url"
	"runtime"
	"sort"
	"strconv"
	"strings"
	"sync"
	"sync/atomic"
	"time"

	"verif/sim/core"
)

type ctxKey struct{}

type srvKey struct{}

// ServerCallOf finds the simulated call from a handler-side context.
func ServerCallOf(ctx context.Context) *Call {
	c, _ := ctx.Value(srvKey{}).(*Call)
	return c
}

// Knobs are the per-call transport parameters and fault plan, fixed before
// the call starts (generated from the tape by the workload).
type Knobs struct {
	HTTP10          bool          // crafted requests only: the request is HTTP/1.0 (no chunking, hence no trailers: net/http drops them silently)
	PumpLag         time.Duration // after forwarding request-body bytes the transport goroutine is busy this long before it reads again
	FinishLag       time.Duration // the end of the response (END_STREAM / last chunk) follows the handler's return this late
	MutateURL       bool          // the HTTPClient edits request.URL in place (per-call query parameter)
	HTTP2           bool
	UpWindow        int
	DownWindow      int
	UpFrag          int // 0 whole, 1 random, 2 one byte
	DownFrag        int
	UpEOFData       bool
	DownEOFData     bool
	AutoFlush       bool
	Lazy            bool // HTTP/2 only: never close the request body on its own after the handler returned
	PostAccept      int  // bytes accepted after the handler returned before the request body is closed (HTTP/2)
	ExtraHeaders    bool
	NoFlusher       bool          // the handler's ResponseWriter is not an http.Flusher (a wrapping middleware hides it)
	ArriveLag       time.Duration // the request reaches the handler this much (fake clock) after Do sent it
	H1LateClose     bool          // HTTP/1.1 over TLS: on cancellation the server hears of it before the client's socket is closed (see runWatcher)
	OpaqueDoErr     int           // the HTTPClient reports a request that failed because the context ended in its own words: 1 text only, 2 wrapping the other context error, 3 a stream-reset text (0: as net/http does)
	DoGivesUp       bool          // the HTTPClient gives up on its own account while it waits for the response (http.Client.Timeout): Do fails, the context is fine, and the transport may still be busy with the request
	H1LateCloseSlow bool          // ... and the socket\'s close is slow in coming
	H1Close         bool          // HTTP/1.1: the server closes the connection when request bytes keep coming after its answer (see runPump)
	HandBuiltResp   bool          // the HTTPClient is an in-memory fake that builds its http.Response by hand and leaves ContentLength at its zero value, whatever the body holds
	HoldAnswer      bool          // net/http's servers buffer: the answer leaves when the handler flushes, has written more than the buffer holds (2 KiB on HTTP/1.1, 4 KiB on HTTP/2), or returns - and an answer that is complete by then gets a Content-Length
	UpScript        []int         // scripted read sizes (enumeration worlds); nil: use UpFrag
	DownScript      []int
	OneByteMax      int // one-byte delivery applies only to the first OneByteMax bytes of a direction (0: all)

	// faults
	DoErr        error // Do fails before anything is sent
	DownCutAt    int   // -1 none
	DownCutErr   error
	DropTrailers bool
	UpCutAt      int // -1 none
	UpCutErr     error
	FailWriteAt  int // k-th ResponseWriter.Write fails (1-based; 0 none)
	FailWriteErr error
}

func DefaultKnobs() Knobs {
	return Knobs{HTTP2: true, UpWindow: 1 << 20, DownWindow: 1 << 20, DownCutAt: -1, UpCutAt: -1}
}

// Call is the simulation state of one client call; it travels in the call's
// context so that both the stub transport and the library's yield hook can
// find it.
type Call struct {
	ID      string
	S       *core.Sched
	K       Knobs
	Route   http.Handler
	Ctx     CtxDone
	YieldOn [NumPoints]bool // library yield points that park in this run
	SlowOn  [NumPoints]bool // ... and are "slow" (picked only when nothing else can run)
	Byz     *Canned         // if set, Do answers with this canned response instead of running Route

	// written through norace helpers only (several library goroutines touch
	// them and the harness must not add happens-before edges between them)
	ex           *Exchange
	urlSeen      string
	urlSet       bool
	requestStart time.Time
	readyStep    int // 1 + scheduler step at which the library's request goroutine finished (0: not yet)
	doCount      int
	bodyClose    int
	hits         [NumPoints]int
}

// Points are the library's named yield points (verifYield call sites).
var Points = []string{
	"write.enter", "write.ctxcheck", "write.pipe", "write.done",
	"closewrite.enter", "closewrite.pipe",
	"read.body", "closeread.discard", "closeread.close",
	"seterror.enter", "seterror.pipe", "ready.woken",
	"request.enter", "request.done", "request.validated", "request.finish",
	"receive.failed", "watch.woken",
}

const NumPoints = 18

var pointIndex = func() map[string]int {
	m := map[string]int{}
	for i, p := range Points {
		m[p] = i
	}
	if len(Points) != NumPoints {
		panic("NumPoints")
	}
	return m
}()

func PointIndex(p string) int {
	i, ok := pointIndex[p]
	if !ok {
		return -1
	}
	return i
}

//go:norace
//go:nosplit
//go:noinline
func (c *Call) hit(i int) { c.hits[i]++ }

//go:norace
//go:noinline
func (c *Call) Hits() [NumPoints]int { return c.hits }

//go:norace
//go:nosplit
//go:noinline
func (c *Call) incDo() { c.doCount++ }

//go:norace
//go:nosplit
//go:noinline
func (c *Call) incClose() { c.bodyClose++ }

//go:norace
//go:noinline
func (c *Call) setEx(e *Exchange) { c.ex = e }

//go:norace
//go:noinline
func (c *Call) Exchange() *Exchange { return c.ex }

//go:norace
//go:noinline
func (c *Call) DoCount() int { return c.doCount }

// DownReadOffset: response-body bytes consumed so far (-1 before the
// exchange exists). Read without synchronisation on purpose: the caller is a
// task and must not acquire happens-before edges from the harness.
//
//go:norace
//go:noinline
func (c *Call) DownReadOffset() int {
	if c.ex == nil || c.ex.Down == nil {
		return -1
	}
	return c.ex.Down.rd
}

//go:norace
//go:noinline
func (c *Call) noteURL(q string) { c.urlSeen, c.urlSet = q, true }

// EditURL is what an HTTPClient does that routes by editing the request it
// was handed (shard or tenant parameter, gateway prefix): legal for a
// user-supplied Do, and visible to other calls only if the library shares the
// URL between them.
func (c *Call) EditURL(req *http.Request) {
	if c.K.MutateURL && req.URL != nil {
		c.noteURL(req.URL.RawQuery)
		req.URL.RawQuery = "simcall=" + c.ID
	}
}

// URLAtDo returns the query string the request URL carried when Do was
// entered (a pristine request has none) and whether Do was reached.
//
//go:norace
//go:noinline
func (c *Call) URLAtDo() (string, bool) { return c.urlSeen, c.urlSet }

//go:norace
//go:noinline
func (c *Call) BodyCloses() int { return c.bodyClose }

func WithCall(ctx context.Context, c *Call) context.Context {
	return context.WithValue(ctx, ctxKey{}, c)
}

func CallOf(ctx context.Context) *Call {
	if ctx == nil {
		return nil
	}
	c, _ := ctx.Value(ctxKey{}).(*Call)
	return c
}

// Yield is installed as connect.VerifHooks.Yield.
func Yield(ctx context.Context, point string) {
	c := CallOf(ctx)
	if c == nil || c.S == nil {
		return
	}
	i, ok := pointIndex[point]
	if !ok {
		panic("simhttp: unknown yield point " + point)
	}
	c.hit(i)
	on := c.YieldOn[i]
	slow := c.SlowOn[i]
	if on {
		flags := 0
		if slow {
			flags = core.FlagSlow
		}
		c.S.GateOpt(c.ID+"/y/"+point, nil, flags)
	}
	switch point {
	case "request.finish":
		c.noteReady(c.S.StepNow())
	}
	if point == "write.enter" || point == "closewrite.enter" {
		// the first Write / CloseWrite is what starts the request: the instant
		// it gets past this point is when the request headers are final
		c.noteRequestStart(time.Now())
	}
}

//go:norace
//go:noinline
func (c *Call) noteReady(step int) {
	if c.readyStep == 0 {
		c.readyStep = step + 1
	}
}

// AnswerInHand: the library's request goroutine finished at an earlier
// scheduler step than the current one, so the library has the response (or
// the failure of Do) in hand and has acted on it.
//
//go:norace
//go:noinline
func (c *Call) AnswerInHand() bool { return c.readyStep != 0 && c.S.StepNow()+1 > c.readyStep }

//go:norace
//go:noinline
func (c *Call) noteRequestStart(t time.Time) {
	if c.requestStart.IsZero() {
		c.requestStart = t
	}
}

// RequestStart is the fake-clock instant at which the library started the
// request (zero if it never did).
//
//go:norace
//go:noinline
func (c *Call) RequestStart() time.Time { return c.requestStart }

// Exchange is one HTTP request/response pair.
type Exchange struct {
	bodyIsConn          bool   // 101 Switching Protocols: the response body is the connection itself
	lateWindow          bool   // between the two phases of an HTTP/1.1-over-TLS cancellation
	LateWindows         int    // how often that window opened
	upEOF               bool   // the pump has seen the end of the request body
	RespClose           bool   // HTTP/1.1: the answer announces that the server will close the connection (it has given up on the request)
	ConnClosedOnUpload  bool   // HTTP/1.1: the server closed the connection on a client that kept uploading after the answer
	everFlushed         bool   // the handler called Flush
	released            bool   // the answer's headers have left the server (always so at commit unless Knobs.HoldAnswer)
	held                []byte // HoldAnswer: what the handler wrote and the server still buffers
	HeldToEnd           bool   // HoldAnswer: the whole answer left at the handler's return
	ComputedLength      int64  // the Content-Length net/http added to a held answer (-1: none)
	written             int    // bytes the handler wrote
	snapTrailers        bool   // the headers as of the first write announced trailers (Trailer header or TrailerPrefix keys)
	UnchunkedNoTrailers bool   // HTTP/1.1: trailers were lost because the response was not chunked
	uploadStopped       bool   // HTTP/2, status above 299: the transport has stopped uploading the request body
	pumpInRead          bool
	CtxNoticedLate      bool // the context finished while nobody was watching it; it was noticed when the request-body read returned
	PumpErrLive         bool // the request body failed (not EOF) while the response was still open: stream reset
	PumpErrLate         bool // ... after the response had ended: ignored
	Call                *Call
	Up                  *Link // client -> handler (request body)
	Down                *Link // handler -> client (response body)

	mu              sync.Mutex
	ReqHeader       http.Header // as the handler sees it
	Method          string
	URL             string
	committed       bool
	Status          int
	RespHeader      http.Header // snapshot at commit, as the client sees it
	live            http.Header // the handler's live map
	Trailer         http.Header // computed at handler return
	HandlerDone     bool
	Panic           any
	PanicStack      string
	Writes          int
	FailedWrite     bool
	serverCtx       context.Context
	cancelSrv       context.CancelFunc
	clientReq       *http.Request
	resp            *http.Response
	abortErr        error
	postSeen        int
	closedReq       bool
	ClosedReqStep   int // scheduler step at which the transport closed the request body (-1: never)
	RespReturned    bool
	TrailerOverflow bool      // HTTP/1.1: the trailer block exceeded what net/http's client accepts
	ServeStart      time.Time // fake time at which ServeHTTP was entered
	HandlerDoneStep int

	// norace mirrors
	commitFlag bool
	overFlag   bool

	dp doPred
	wp watchPred
}

type doPred struct{ e *Exchange }

//go:norace
//go:noinline
func (p *doPred) Ready(now time.Time) bool {
	return p.e.commitFlag || p.e.overFlag || p.e.Call.Ctx.Done(now)
}

//go:norace
//go:noinline
func (p *doPred) Param(*core.Tape) int { return 0 }

type watchPred struct{ e *Exchange }

//go:norace
//go:noinline
func (p *watchPred) Ready(now time.Time) bool {
	return !p.e.overFlag && p.e.Call.Ctx.Done(now)
}

//go:norace
//go:noinline
func (p *watchPred) Param(*core.Tape) int { return 0 }

// Net implements connect.HTTPClient.
type Net struct {
	S *core.Sched
}

var errNoCall = errors.New("simhttp: request context carries no simulated call")

func urlErr(req *http.Request, err error) error {
	return &url.Error{Op: "Post", URL: req.URL.String(), Err: err}
}

// ctxDoErr is the error Do returns because the context ended. With the
// OpaqueDoErr knob the HTTPClient is a middleware that reports failures in its
// own words (formatted with %v): the cause is in the text, not in the chain.
func (c *Call) ctxDoErr(req *http.Request, err error) error {
	switch c.K.OpaqueDoErr {
	case 1:
		return fmt.Errorf("upstream request failed: %v", urlErr(req, err))
	case 2:
		// ... or in terms of its own machinery: a client that runs the request
		// under a context of its own reports that one's end
		other := context.Canceled
		if errors.Is(err, context.Canceled) {
			other = context.DeadlineExceeded
		}
		return fmt.Errorf("upstream request failed: %w", urlErr(req, other))
	case 3:
		// ... or passes on what its connection pool said when it tore the
		// stream down
		return urlErr(req, errors.New("stream error: stream ID 7; REFUSED_STREAM; received from peer"))
	}
	return urlErr(req, err)
}

// Do runs on the library's request goroutine.
func (n *Net) Do(req *http.Request) (*http.Response, error) {
	c := CallOf(req.Context())
	if c == nil {
		return nil, errNoCall
	}
	c.incDo()
	c.EditURL(req)
	if err := validHeaders(req.Header); err != nil {
		closeBody(req)
		return nil, urlErr(req, err)
	}
	if err := req.Context().Err(); err != nil {
		closeBody(req)
		return nil, c.ctxDoErr(req, err)
	}
	if c.K.DoErr != nil {
		closeBody(req)
		return nil, urlErr(req, c.K.DoErr)
	}
	if c.Byz != nil {
		return n.doCanned(c, req)
	}
	e := n.newExchange(c, req)
	c.setEx(e)
	if c.K.HTTP2 {
		// net/http's HTTP/2 transport encodes the request headers on a goroutine
		// of its own, which may still be at it when RoundTrip has already
		// returned because the context ended ("RoundTrip may read fields of the
		// request in a separate goroutine"). The stub reads the header map once
		// more at a later step, for nothing but that: whoever writes to the map
		// in the meantime races with the transport.
		go func() {
			n.S.GateOpt(c.ID+"/hdr.late", nil, core.FlagDaemon)
			touchHeader(req.Header)
		}()
	}
	if c.K.DoGivesUp {
		err := errors.New("net/http: request canceled (Client.Timeout exceeded while awaiting headers)")
		e.Abort(err)
		closeBody(req)
		return nil, urlErr(req, err)
	}
	n.S.Go(c.ID+"/handler", func(*core.Task) { e.runHandler() })
	n.S.Go(c.ID+"/pump", func(*core.Task) { e.runPump() })
	go e.runWatcher()
	n.S.Gate(c.ID+"/do", &e.dp)
	e.mu.Lock()
	defer e.mu.Unlock()
	if cerr := req.Context().Err(); cerr != nil || e.abortErr != nil && !e.HandlerDone {
		// The context finished, or the stream was reset, before the response
		// headers were handed to the caller: RoundTrip fails, whatever the
		// server wrote afterwards is never seen.
		err := e.abortErr
		if cerr != nil {
			err = cerr
		}
		e.abortLocked(err)
		if cerr != nil {
			return nil, c.ctxDoErr(req, err)
		}
		return nil, urlErr(req, err)
	}
	if !e.committed {
		// context finished (or the exchange died) before response headers
		err := e.abortErr
		if cerr := req.Context().Err(); cerr != nil {
			err = cerr
		}
		if err == nil {
			err = errors.New("simhttp: exchange ended without response")
		}
		e.abortLocked(err)
		if req.Context().Err() != nil {
			return nil, c.ctxDoErr(req, err)
		}
		return nil, urlErr(req, err)
	}
	major, minor, proto := 1, 1, "HTTP/1.1"
	if c.K.HTTP2 {
		major, minor, proto = 2, 0, "HTTP/2.0"
	}
	resp := &http.Response{
		Status:        fmt.Sprintf("%d %s", e.Status, http.StatusText(e.Status)),
		StatusCode:    e.Status,
		Proto:         proto,
		ProtoMajor:    major,
		ProtoMinor:    minor,
		Header:        e.RespHeader.Clone(),
		ContentLength: -1,
		Request:       req,
	}
	if e.ComputedLength >= 0 {
		resp.ContentLength = e.ComputedLength
	}
	if c.K.HandBuiltResp {
		resp.ContentLength = 0
	}
	announceTrailers(resp, c.K.DropTrailers)
	resp.Close = e.RespClose
	resp.Body = &respBody{e: e, resp: resp}
	e.resp = resp
	e.RespReturned = true
	e.updateDeaf()
	return resp, nil
}

// announceTrailers does what net/http's transports do with a Trailer header:
// it is removed from the headers, and every key it names is listed in
// Response.Trailer, mapped to nil until the trailers arrive.
func announceTrailers(resp *http.Response, dropped bool) {
	vs, ok := resp.Header["Trailer"]
	if !ok {
		return
	}
	delete(resp.Header, "Trailer")
	if dropped {
		return
	}
	for _, v := range vs {
		for _, k := range strings.Split(v, ",") {
			if k = textproto.CanonicalMIMEHeaderKey(strings.TrimSpace(k)); k != "" {
				if resp.Trailer == nil {
					resp.Trailer = http.Header{}
				}
				resp.Trailer[k] = nil
			}
		}
	}
}

func closeBody(req *http.Request) {
	if req.Body != nil {
		_ = req.Body.Close()
	}
}

func (n *Net) newExchange(c *Call, req *http.Request) *Exchange {
	e := &Exchange{Call: c, clientReq: req, Method: req.Method, URL: req.URL.String(), ClosedReqStep: -1, HandlerDoneStep: -1, ComputedLength: -1}
	e.dp.e = e
	e.wp.e = e
	e.Up = NewLink(n.S, c.ID+"/up", c.K.UpWindow)
	e.Down = NewLink(n.S, c.ID+"/down", c.K.DownWindow)
	e.Up.SetFrag(c.K.UpFrag, c.K.UpEOFData)
	e.Down.SetFrag(c.K.DownFrag, c.K.DownEOFData)
	e.Up.oneByteMax, e.Down.oneByteMax = c.K.OneByteMax, c.K.OneByteMax
	if c.K.UpScript != nil {
		e.Up.SetScript(c.K.UpScript, c.K.UpEOFData)
	}
	if c.K.DownScript != nil {
		e.Down.SetScript(c.K.DownScript, c.K.DownEOFData)
	}
	e.Down.SetCtx(&c.Ctx)
	if c.K.DownCutAt >= 0 {
		e.Down.SetCut(c.K.DownCutAt, c.K.DownCutErr)
	}
	if c.K.UpCutAt >= 0 {
		e.Up.SetCut(c.K.UpCutAt, c.K.UpCutErr)
	}
	e.ReqHeader = canonHeader(req.Header)
	e.live = make(http.Header)
	e.serverCtx, e.cancelSrv = context.WithCancel(context.WithValue(context.Background(), srvKey{}, c))
	return e
}

//go:norace
//go:noinline
func (e *Exchange) setCommitFlag() { e.commitFlag = true }

//go:norace
//go:noinline
func (e *Exchange) setOverFlag() { e.overFlag = true }

func (e *Exchange) abortLocked(err error) {
	if e.abortErr == nil {
		e.abortErr = err
	}
	e.Up.Abort(err)
	if !e.Down.Finished() || !e.HandlerDone {
		e.Down.Abort(err)
	}
	e.cancelSrv()
	if !e.closedReq {
		e.closedReq = true
		e.ClosedReqStep = e.Call.S.StepNow()
		closeBody(e.clientReq)
	}
	e.setOverFlag()
}

// PostSeen: request-body bytes that arrived after the handler was done.
//
//go:norace
//go:noinline
func (e *Exchange) PostSeen() int { return e.postSeen }

// UploadStopped: the HTTP/2 transport stopped uploading at a status above 299.
//
//go:norace
//go:noinline
func (e *Exchange) UploadStopped() bool { return e.uploadStopped }

// Abort tears the exchange down the way a stream reset / connection close
// does.
func (e *Exchange) Abort(err error) {
	e.mu.Lock()
	e.abortLocked(err)
	e.mu.Unlock()
}

func (e *Exchange) runWatcher() {
	// daemon: reacts to the client's context finishing at a scheduler-chosen
	// later step, as net/http's transport goroutines do.
	e.Call.S.GateOpt(e.Call.ID+"/ctxwatch", &e.wp, core.FlagDaemon)
	err := e.clientReq.Context().Err()
	if err == nil {
		return
	}
	if !e.Call.K.HTTP2 && e.Call.K.H1LateClose {
		// HTTP/1.1 over TLS: the transport cancels by closing the connection,
		// and a TLS connection says goodbye (close_notify) before its socket is
		// closed. The server may see that, cancel the handler and end the
		// response while the client's socket is still open: a body read that was
		// blocked since before the context ended can still return what the
		// server sent in reaction - net/http does not look at the context when
		// a read returns data or a clean EOF.
		e.mu.Lock()
		over := e.abortErr != nil
		if !over {
			e.lateWindow = true
			e.LateWindows++
			e.updateDeaf()
			e.Up.Abort(err)
			e.cancelSrv()
		}
		e.mu.Unlock()
		if !over {
			e.Call.S.GateOpt(e.Call.ID+"/ctxwatch.socket", nil, core.FlagDaemon)
			e.mu.Lock()
			e.lateWindow = false
			e.updateDeaf()
			e.mu.Unlock()
		}
	}
	e.Abort(err)
}

//go:norace
//go:noinline
func (e *Exchange) pumpErrLive() bool { return e.PumpErrLive }

// updateDeaf recomputes whether anybody is watching the client's context;
// call with mu held. net/http's HTTP/1.1 transport always is (its read loop
// selects on the context); the HTTP/2 transport, once RoundTrip has returned,
// leaves that to the request goroutine, which cannot while it is blocked
// reading the request body.
func (e *Exchange) updateDeaf() {
	// (HTTP/1.1 before the response: RoundTrip does notice the context, but it
	// returns only once the write loop has ended - mapRoundTripError waits for
	// it - and the write loop is blocked reading the request body.)
	e.Call.Ctx.SetDeaf(e.bodyIsConn || e.lateWindow || e.pumpInRead && (e.Call.K.HTTP2 && e.RespReturned || !e.Call.K.HTTP2 && !e.RespReturned))
}

func (e *Exchange) runPump() {
	req := e.clientReq
	tmp := make([]byte, 32<<10)
	var busyUntil time.Time
	for {
		if e.uploadStopped {
			// nothing more is uploaded; the request body is closed when the
			// response body is closed or has ended (abortLocked / Close do that)
			e.Call.S.Gate(e.Call.ID+"/up.stalled", &resumedPred{e})
			return
		}
		var pred core.Pred = e.Up.SpacePred()
		if !busyUntil.IsZero() {
			pred = &lagPred{inner: pred, until: busyUntil}
		}
		e.Call.S.Gate(e.Call.ID+"/up.pump", pred)
		e.mu.Lock()
		aborted := e.abortErr != nil
		done := e.HandlerDone
		e.mu.Unlock()
		if aborted {
			// abortLocked already closed the request body
			return
		}
		size := len(tmp)
		if !done {
			space := e.Up.Space()
			if space <= 0 {
				continue
			}
			if space < size {
				size = space
			}
		}
		// Sampled before the read, while every other goroutine is parked: has the
		// library's request goroutine finished at an earlier scheduler step? Then
		// the library has the answer in hand, and whatever this read still gets
		// out of the request body is sent on the client's own account.
		hasAnswer := e.Call.AnswerInHand()
		e.mu.Lock()
		e.pumpInRead = true
		e.updateDeaf()
		e.mu.Unlock()
		n, err := req.Body.Read(tmp[:size])
		e.mu.Lock()
		e.pumpInRead = false
		e.updateDeaf()
		done = e.HandlerDone
		late := e.Call.K.HTTP2 && e.RespReturned && e.abortErr == nil
		e.mu.Unlock()
		if cerr := req.Context().Err(); late && cerr != nil && err == nil {
			// back from the request body with data to send, the request
			// goroutine notices the finished context (it selects on it wherever
			// it waits except in that read) and resets the stream. (If the read
			// failed, the stream is reset with the read's error, below.)
			e.CtxNoticedLate = true
			e.Abort(cerr)
			return
		}
		if n > 0 {
			if done {
				// The handler is gone: the bytes go nowhere. HTTP/2 resets the
				// stream after a bounded amount; HTTP/1.1 keeps swallowing.
				e.mu.Lock()
				e.postSeen += n
				over := e.Call.K.HTTP2 && !e.Call.K.Lazy && e.postSeen > e.Call.K.PostAccept
				h1close := !e.Call.K.HTTP2 && e.RespClose && e.RespReturned && hasAnswer
				if h1close {
					// The server has given up on the request (RespClose) and closes the
					// connection once its answer is out; a client transport that is
					// still uploading gets a write error, closes its end, and whatever
					// of the response has not been read yet is gone. The stub charges
					// that only to request bytes that leave the client after the
					// library had the answer - announcement included - in hand: a
					// loss before that is nobody's fault and is not simulated.
					e.ConnClosedOnUpload = true
					if !e.Down.Consumed() {
						e.Down.Abort(errors.New("read tcp: use of closed network connection"))
					}
				}
				e.mu.Unlock()
				if over || h1close {
					e.closeReq()
					return
				}
			} else {
				_ = e.Up.Push(tmp[:n], true)
			}
			if lag := e.Call.K.PumpLag; lag > 0 {
				busyUntil = time.Now().Add(lag)
			}
		}
		if err != nil {
			if errors.Is(err, io.EOF) {
				e.mu.Lock()
				e.upEOF = true
				e.mu.Unlock()
				e.Up.Finish(io.EOF)
			} else if !done {
				// The client closed or failed the request body before
				// finishing it: the transport resets the stream.
				e.PumpErrLive = true
				e.Abort(fmt.Errorf("client disconnected: request body: %w", err))
			} else {
				e.PumpErrLate = true
			}
			return
		}
	}
}

func (e *Exchange) closeReq() {
	e.mu.Lock()
	if !e.closedReq {
		e.closedReq = true
		e.ClosedReqStep = e.Call.S.StepNow()
		closeBody(e.clientReq)
	}
	e.mu.Unlock()
}

func (e *Exchange) runHandler() {
	c := e.Call
	sreq, _ := http.NewRequestWithContext(e.serverCtx, e.Method, e.URL, &reqBody{e: e})
	sreq.Header = e.ReqHeader.Clone()
	sreq.ContentLength = -1
	if cl := e.ReqHeader.Get("Content-Length"); cl != "" {
		// net/http exposes a declared length to the handler (the body itself is
		// whatever actually arrives)
		if n, err := strconv.ParseInt(cl, 10, 64); err == nil && n >= 0 {
			sreq.ContentLength = n
		}
	}
	sreq.RequestURI = e.clientReq.URL.RequestURI()
	if c.K.HTTP2 {
		sreq.Proto, sreq.ProtoMajor, sreq.ProtoMinor = "HTTP/2.0", 2, 0
	} else {
		sreq.Proto, sreq.ProtoMajor, sreq.ProtoMinor = "HTTP/1.1", 1, 1
		if c.K.HTTP10 {
			sreq.Proto, sreq.ProtoMinor = "HTTP/1.0", 0
		}
	}
	if c.K.ArriveLag > 0 {
		// transit: the server's clock starts later than the client's
		c.S.Gate(c.ID+"/handler.arrive", &lagPred{until: time.Now().Add(c.K.ArriveLag)})
	}
	var rw http.ResponseWriter = &respWriter{e: e}
	if c.K.NoFlusher {
		rw = plainWriter{rw}
	}
	func() {
		defer func() {
			if r := recover(); r != nil {
				e.mu.Lock()
				e.Panic = r
				e.PanicStack = stackOf()
				e.mu.Unlock()
			}
		}()
		e.ServeStart = time.Now()
		c.Route.ServeHTTP(rw, sreq)
	}()
	if c.K.HoldAnswer {
		e.letGo(true)
	}
	// The end of the response (END_STREAM / last chunk) is a transport event of
	// its own, after whatever the handler flushed: other tasks may run between
	// the two.
	var fin core.Pred
	if c.K.FinishLag > 0 {
		fin = &lagPred{until: time.Now().Add(c.K.FinishLag)}
	}
	c.S.Gate(c.ID+"/handler.finish", fin)
	e.finishHandler()
}

func (e *Exchange) finishHandler() {
	e.mu.Lock()
	defer e.mu.Unlock()
	e.HandlerDone = true
	e.HandlerDoneStep = e.Call.S.StepNow()
	if e.Panic != nil {
		// net/http aborts the response: RST_STREAM(INTERNAL_ERROR) on HTTP/2,
		// connection close on HTTP/1.1.
		if e.committed && !e.released {
			// ... and what it still buffered, headers included, is never sent
			e.committed = false
		}
		var err error
		if e.Call.K.HTTP2 {
			err = errors.New("stream error: stream ID 1; INTERNAL_ERROR; received from peer")
			e.Down.Abort(err)
		} else {
			err = io.ErrUnexpectedEOF
			if e.committed {
				e.Down.Finish(io.ErrUnexpectedEOF)
			} else {
				err = io.EOF
			}
		}
		if e.abortErr == nil {
			e.abortErr = err
		}
		e.Up.Abort(errors.New("handler aborted"))
		e.cancelSrv()
		if !e.closedReq {
			e.closedReq = true
			e.ClosedReqStep = e.Call.S.StepNow()
			closeBody(e.clientReq)
		}
		e.setOverFlag()
		return
	}
	if !e.committed {
		e.commitLocked(http.StatusOK)
	}
	// trailers: TrailerPrefix keys set at any time plus keys declared in the
	// Trailer header before the headers were written.
	tr := make(http.Header)
	declared := map[string]bool{}
	for _, v := range e.RespHeaderRaw()["Trailer"] {
		for _, k := range strings.Split(v, ",") {
			declared[textproto.CanonicalMIMEHeaderKey(strings.TrimSpace(k))] = true
		}
	}
	for _, k := range sortedKeys(e.live) { // (sorted: map order must not decide anything in a simulated run)
		vs := e.live[k]
		if strings.HasPrefix(k, http.TrailerPrefix) {
			name := strings.TrimPrefix(k, http.TrailerPrefix)
			if e.Call.K.HTTP2 {
				// net/http's HTTP/2 server promotes an undeclared trailer by
				// assigning it to the canonical key: of two spellings of one
				// name the later one replaces the earlier (in the real server
				// "later" is map order; here it is the sort order)
				delete(tr, textproto.CanonicalMIMEHeaderKey(name))
			}
			addSanitized(tr, name, vs, e.Call.K.HTTP2)
		} else if declared[textproto.CanonicalMIMEHeaderKey(k)] {
			addSanitized(tr, k, vs, e.Call.K.HTTP2)
		}
	}
	e.Trailer = tr
	if !e.Call.K.HTTP2 && !e.everFlushed && e.written <= 2048 && !e.snapTrailers {
		// net/http's HTTP/1.1 server decides the framing when the first bytes
		// leave its 2 KiB buffer. If that is only now, the handler having
		// returned, and the headers as they were at the first write announce no
		// trailers, the response gets a Content-Length: it is not chunked, and
		// there is nowhere to put trailers added since.
		e.Trailer = http.Header{}
		e.UnchunkedNoTrailers = len(tr) > 0
	}
	if e.Call.K.HTTP10 && !e.Call.K.HTTP2 {
		// an HTTP/1.0 response is not chunked: there is nowhere to put trailers
		e.Trailer = http.Header{}
	}
	if !e.Call.K.HTTP2 {
		// net/http's HTTP/1.1 client refuses a chunked trailer block that does
		// not fit its 4 KiB read buffer (calibrated against the real transport)
		size := 2
		for k, vs := range tr {
			for _, v := range vs {
				size += len(k) + 2 + len(v) + 2
			}
		}
		if size > 4096 {
			e.TrailerOverflow = true
		}
	}
	if e.TrailerOverflow {
		e.Trailer = nil
		e.Down.Finish(errors.New("http: suspiciously long trailer after chunked body"))
	} else if e.FailedWrite {
		// the connection broke while the handler was writing: the client never
		// sees a clean end of the body, nor trailers
		e.Trailer = nil
		e.Down.Finish(errors.New("read tcp 10.0.0.1:443: connection reset by peer"))
	} else {
		e.Down.Finish(io.EOF)
	}
	e.cancelSrv()
	e.Up.Abort(errors.New("http: invalid Read on closed Body"))
	// What happens to a request body the handler did not finish reading.
	if e.Call.K.HTTP2 && !e.Call.K.Lazy && e.Call.K.PostAccept <= 0 && !e.closedReq {
		e.closedReq = true
		e.ClosedReqStep = e.Call.S.StepNow()
		closeBody(e.clientReq)
	}
	e.setOverFlag()
}

// RespHeaderRaw is the commit-time snapshot including Trailer declarations.
func (e *Exchange) RespHeaderRaw() http.Header { return e.RespHeader }

func (e *Exchange) commitLocked(status int) {
	if e.committed {
		return
	}
	e.committed = true
	e.Status = status
	snap := make(http.Header)
	for _, k := range sortedKeys(e.live) {
		vs := e.live[k]
		if strings.HasPrefix(k, http.TrailerPrefix) {
			e.snapTrailers = true
			continue
		}
		if textproto.CanonicalMIMEHeaderKey(k) == "Trailer" && len(vs) > 0 {
			e.snapTrailers = true
		}
		addSanitized(snap, k, vs, e.Call.K.HTTP2)
	}
	if e.Call.K.ExtraHeaders {
		snap["Date"] = []string{"Mon, 01 Jan 2024 00:00:00 GMT"}
	}
	e.RespHeader = snap
	if !e.Call.K.HoldAnswer {
		e.releaseLocked()
	}
}

// releaseLocked is the moment the answer's headers leave the server.
func (e *Exchange) releaseLocked() {
	if e.released {
		return
	}
	e.released = true
	if !e.Call.K.HTTP2 && e.Call.K.H1Close && !e.upEOF {
		// net/http's HTTP/1.1 server, about to answer while the request body has
		// not ended, first reads on for a bounded amount (256 KiB); if the end
		// is not within it, it gives up on the request and says so: the answer
		// carries "Connection: close". The stub lets that bound be exhausted
		// whenever the request has not ended by now.
		e.RespClose = true
	}
	e.setCommitFlag()
}

// holdLimit is how much of an answer net/http's server keeps to itself before
// the headers go out.
func (e *Exchange) holdLimit() int {
	if e.Call.K.HTTP2 {
		return 4096
	}
	return 2048
}

// letGo releases a held answer: the headers, then what was buffered. At the
// handler's return (final) a complete answer gets its Content-Length first.
// Runs on the handler's task, without the lock while it writes.
func (e *Exchange) letGo(final bool) {
	e.mu.Lock()
	if e.released || e.Panic != nil {
		e.mu.Unlock()
		return
	}
	if !e.committed {
		e.commitLocked(http.StatusOK)
	}
	if final {
		e.HeldToEnd = true
		_, hasCL := e.RespHeader["Content-Length"]
		_, hasTE := e.RespHeader["Transfer-Encoding"]
		bodyAllowed := e.Status >= 200 && e.Status != http.StatusNoContent && e.Status != http.StatusNotModified
		if !hasCL && !hasTE && bodyAllowed && (e.Call.K.HTTP2 || !e.snapTrailers) {
			e.ComputedLength = int64(len(e.held))
			e.RespHeader["Content-Length"] = []string{strconv.Itoa(len(e.held))}
		}
	}
	e.releaseLocked()
	held := e.held
	e.held = nil
	e.mu.Unlock()
	if len(held) > 0 {
		_, _ = e.Down.Write(held, false)
	}
}

// respWriter implements http.ResponseWriter and http.Flusher.
type respWriter struct{ e *Exchange }

func (w *respWriter) Header() http.Header { return w.e.live }

func (w *respWriter) WriteHeader(status int) {
	w.e.mu.Lock()
	w.e.commitLocked(status)
	w.e.mu.Unlock()
}

func (w *respWriter) Write(p []byte) (int, error) {
	e := w.e
	e.mu.Lock()
	e.commitLocked(http.StatusOK)
	e.Writes++
	k := e.Writes
	fail := e.Call.K.FailWriteAt > 0 && k >= e.Call.K.FailWriteAt
	if fail {
		e.FailedWrite = true
	}
	e.mu.Unlock()
	if fail {
		return 0, e.Call.K.FailWriteErr
	}
	e.mu.Lock()
	e.written += len(p)
	if !e.released {
		e.held = append(e.held, p...)
		over := len(e.held) > e.holdLimit()
		e.mu.Unlock()
		if over {
			e.letGo(false)
		}
		return len(p), nil
	}
	e.mu.Unlock()
	return e.Down.Write(p, e.Call.K.AutoFlush && !e.Call.K.NoFlusher)
}

func (w *respWriter) Flush() {
	w.e.mu.Lock()
	w.e.commitLocked(http.StatusOK)
	w.e.everFlushed = true
	w.e.mu.Unlock()
	w.e.letGo(false)
	w.e.Down.Flush()
}

// plainWriter hides everything but the three methods of http.ResponseWriter,
// as a middleware's wrapper commonly does.
type plainWriter struct{ http.ResponseWriter }

// reqBody is the handler's view of the request body.
type reqBody struct {
	e      *Exchange
	closed bool
}

func (b *reqBody) Read(p []byte) (int, error) {
	if b.closed {
		return 0, errors.New("http: invalid Read on closed Body")
	}
	return b.e.Up.Read(p, nil)
}

func (b *reqBody) Close() error {
	b.closed = true
	return nil
}

// respBody is the client's view of the response body.
type respBody struct {
	e      *Exchange
	resp   *http.Response
	closed atomic.Bool // net/http's bodies may be closed while another goroutine reads
}

func (b *respBody) Read(p []byte) (int, error) {
	if b.closed.Load() {
		return 0, errors.New("http: read on closed response body")
	}
	ctx := b.e.clientReq.Context()
	n, err := b.e.Down.Read(p, func() error {
		if b.e.Call.Ctx.Deaf() {
			return nil // nobody has told this stream about the context yet
		}
		if b.e.pumpErrLive() {
			return nil // the stream was reset because the request body failed: that error is reported
		}
		return ctx.Err()
	})
	if err == io.EOF {
		b.e.mu.Lock()
		if !b.e.Call.K.DropTrailers && b.e.Down.Consumed() && b.e.Down.cutAt < 0 && b.e.Trailer != nil {
			announced := b.resp.Trailer
			b.resp.Trailer = b.e.Trailer.Clone()
			for k := range announced {
				if _, ok := b.resp.Trailer[k]; !ok {
					b.resp.Trailer[k] = nil // announced, never sent
				}
			}
		}
		b.e.mu.Unlock()
	}
	return n, err
}

func (b *respBody) Close() error {
	b.e.Call.incClose()
	if b.closed.Swap(true) {
		return nil
	}
	e := b.e
	e.mu.Lock()
	defer e.mu.Unlock()
	if !(e.HandlerDone && e.Down.Consumed()) {
		e.abortLocked(errors.New("response body closed"))
	} else if !e.closedReq {
		e.closedReq = true
		e.ClosedReqStep = e.Call.S.StepNow()
		closeBody(e.clientReq)
	}
	return nil
}

func canonHeader(h http.Header) http.Header {
	out := make(http.Header, len(h))
	keys := make([]string, 0, len(h))
	for k := range h {
		keys = append(keys, k)
	}
	sort.Strings(keys)
	for _, k := range keys {
		ck := textproto.CanonicalMIMEHeaderKey(k)
		out[ck] = append(out[ck], h[k]...)
	}
	return out
}

func validToken(s string) bool {
	if s == "" {
		return false
	}
	for i := 0; i < len(s); i++ {
		c := s[i]
		if c <= ' ' || c >= 0x7f || strings.IndexByte("()<>@,;:\\\"/[]?={}", c) >= 0 {
			return false
		}
	}
	return true
}

func validValue(s string) bool {
	for i := 0; i < len(s); i++ {
		c := s[i]
		if (c < ' ' && c != '\t') || c == 0x7f {
			return false
		}
	}
	return true
}

// validHeaders mirrors the transport-side check net/http applies to outgoing
// requests.
func validHeaders(h http.Header) error {
	for k, vs := range h {
		if !validToken(k) {
			return fmt.Errorf("net/http: invalid header field name %q", k)
		}
		for _, v := range vs {
			if !validValue(v) {
				return fmt.Errorf("net/http: invalid header field value for %q", k)
			}
		}
	}
	return nil
}

// addSanitized mirrors what net/http's servers do to response header fields:
// invalid names are dropped; HTTP/1.1 replaces CR/LF by spaces and trims,
// HTTP/2 drops invalid values.
// touchHeader reads every entry of a header map, as an encoder would.
func touchHeader(h http.Header) int {
	n := 0
	for k, vs := range h {
		n += len(k)
		for _, v := range vs {
			n += len(v)
		}
	}
	return n
}

func sortedKeys(h http.Header) []string {
	keys := make([]string, 0, len(h))
	for k := range h {
		keys = append(keys, k)
	}
	sort.Strings(keys)
	return keys
}

func addSanitized(into http.Header, k string, vs []string, h2 bool) {
	if !validToken(k) {
		return
	}
	ck := textproto.CanonicalMIMEHeaderKey(k)
	for _, v := range vs {
		if h2 {
			if !validValue(v) {
				continue
			}
		} else {
			v = strings.NewReplacer("\n", " ", "\r", " ").Replace(v)
			v = textproto.TrimString(v)
		}
		into[ck] = append(into[ck], v)
	}
}

func stackOf() string {
	buf := make([]byte, 16<<10)
	return string(buf[:runtime.Stack(buf, false)])
}

// lagPred holds a gate closed until an instant on the fake clock (and then
// defers to the inner predicate, if any).
// After is a gate predicate that holds once the fake clock has reached t.
func After(t time.Time) core.Pred { return &lagPred{until: t} }

type lagPred struct {
	inner core.Pred
	until time.Time
}

//go:norace
//go:noinline
func (p *lagPred) Ready(now time.Time) bool {
	if now.Before(p.until) {
		return false
	}
	return p.inner == nil || p.inner.Ready(now)
}

//go:norace
//go:noinline
func (p *lagPred) Param(t *core.Tape) int {
	if p.inner == nil {
		return 0
	}
	return p.inner.Param(t)
}

// Package simhttp is the simulated HTTP layer: it stands in for net/http's
// transport and server between connect-go's client (HTTPClient.Do) and
// connect-go's Handler.ServeHTTP. Every read, write, delay and fault is a
// scheduler decision. It is a model of net/http's contract (DESIGN.md 3.3).
package simhttp

import (
	"io"
	"sync"
	"time"

	"verif/sim/core"
)

// Link is one direction of an exchange: a byte queue with a flow-control
// window, a deliverable watermark (unflushed bytes are not readable), an end
// condition, an abort state and an optional injected cut.
type Link struct {
	s    *core.Sched
	name string
	mu   sync.Mutex

	buf    []byte // everything ever written (kept as the record)
	marks  []int  // write boundaries (offsets after each write)
	rd     int
	avail  int // deliverable watermark
	fin    bool
	endErr error
	abort  error
	window int

	cutAt  int // -1: none; reader sees the stream end at this absolute offset
	cutErr error

	endSeenStep int // 1 + scheduler step at which the reader was first handed the end of the stream (0: not yet)
	endSeenAt   time.Time

	fragMode    int // 0 whole, 1 random, 2 one byte
	eofWithData bool
	wantRead    int
	oneByteMax  int
	script      []int // fragMode 3: k-th read returns script[k] bytes (then everything)
	scriptPos   int
	eofFixed    int // fragMode 3: 1 = deliver EOF together with the last data, 0 = separately

	// context-done knowledge for predicates
	ctxd *CtxDone

	// norace mirrors, maintained under mu
	readReady  bool
	writeReady bool
	nReadable  int
	atEnd      bool

	// stats
	Reads, SplitReads, EOFWithData int

	rp readPred
	wp writePred
}

// CtxDone lets predicates know, without touching the context's mutex, that a
// context is finished: either a flag set by the canceller or a fake-clock
// instant.
type CtxDone struct {
	cancelled int32
	deadline  time.Time
	// deaf: the transport currently has nobody watching the context (HTTP/2
	// after the response headers, its request goroutine blocked reading a
	// request body that is neither written nor closed): a finished context
	// has no effect until that read returns.
	deaf int32
}

//go:norace
//go:noinline
func (c *CtxDone) Done(now time.Time) bool {
	if c == nil {
		return false
	}
	if c.deaf != 0 {
		return false
	}
	if c.cancelled != 0 {
		return true
	}
	return !c.deadline.IsZero() && !now.Before(c.deadline)
}

//go:norace
//go:noinline
func (c *CtxDone) SetDeaf(d bool) {
	c.deaf = 0
	if d {
		c.deaf = 1
	}
}

//go:norace
//go:noinline
func (c *CtxDone) Deaf() bool { return c.deaf != 0 }

//go:norace
//go:noinline
func (c *CtxDone) SetCancelled() { c.cancelled = 1 }

//go:norace
//go:noinline
func (c *CtxDone) SetDeadline(t time.Time) { c.deadline = t }

func NewLink(s *core.Sched, name string, window int) *Link {
	if window < 1 {
		window = 1
	}
	l := &Link{s: s, name: name, window: window, cutAt: -1}
	l.rp.l = l
	l.wp.l = l
	l.refresh()
	return l
}

// limit is the offset at which the reader's view of the data ends for now.
func (l *Link) limit() int {
	lim := l.avail
	if l.cutAt >= 0 && l.cutAt < lim {
		lim = l.cutAt
	}
	return lim
}

func (l *Link) ended() (bool, error) {
	if l.cutAt >= 0 && l.rd >= l.cutAt {
		return true, l.cutErr
	}
	if l.fin && l.rd >= len(l.buf) {
		return true, l.endErr
	}
	return false, nil
}

// refresh recomputes the mirrors; call with mu held.
func (l *Link) refresh() {
	n := l.limit() - l.rd
	if n < 0 {
		n = 0
	}
	end, _ := l.ended()
	l.nReadable = n
	l.atEnd = end
	l.readReady = n > 0 || end || l.abort != nil
	l.writeReady = l.abort != nil || l.window-(len(l.buf)-l.rd) > 0
}

type readPred struct{ l *Link }

//go:norace
//go:noinline
func (p *readPred) Ready(now time.Time) bool {
	return p.l.readReady || p.l.ctxd.Done(now)
}

//go:norace
//go:noinline
func (p *readPred) Param(t *core.Tape) int {
	l := p.l
	n := l.nReadable
	if l.wantRead < n {
		n = l.wantRead
	}
	if n <= 0 {
		return 0
	}
	k := n
	switch l.fragMode {
	case 1:
		switch t.Choose(6, "frag") {
		case 0:
		case 1:
			k = 1
		case 2:
			k = 1 + t.Choose(min(n, 5), "fragsmall")
		case 3:
			k = (n + 1) / 2
		case 4:
			k = n - 1
		default:
			k = 1 + t.Choose(n, "fragany")
		}
	case 2:
		k = 1
		if l.oneByteMax > 0 && l.rd >= l.oneByteMax {
			k = n
		}
	case 3:
		if l.scriptPos < len(l.script) {
			k = l.script[l.scriptPos]
			l.scriptPos++
		}
		if k < 1 {
			k = 1
		}
		if k > n {
			k = n
		}
		return k<<1 | l.eofFixed
	}
	if k < 1 {
		k = 1
	}
	if k > n {
		k = n
	}
	v := k << 1
	if l.eofWithData && t.Choose(2, "eofwithdata") == 1 {
		v |= 1
	}
	return v
}

type writePred struct{ l *Link }

//go:norace
//go:noinline
func (p *writePred) Ready(now time.Time) bool { return p.l.writeReady }

//go:norace
//go:noinline
func (p *writePred) Param(t *core.Tape) int { return 0 }

// Read delivers bytes to the consumer. ctxErr, if non-nil, is consulted
// after the gate: a finished context makes the read fail the way net/http's
// bodies do.
func (l *Link) Read(p []byte, ctxErr func() error) (int, error) {
	if len(p) == 0 {
		return 0, nil
	}
	for {
		n, err, again := l.readOnce(p, ctxErr)
		if !again {
			return n, err
		}
	}
}

func (l *Link) readOnce(p []byte, ctxErr func() error) (int, error, bool) {
	l.mu.Lock()
	l.wantRead = len(p)
	l.mu.Unlock()
	param := l.s.Gate(l.name+".read", &l.rp)
	l.mu.Lock()
	defer l.mu.Unlock()
	defer l.refresh()
	l.Reads++
	if ctxErr != nil {
		// a finished context wins over whatever else tore the stream down:
		// net/http's bodies report the context's error once it is done
		if err := ctxErr(); err != nil {
			return 0, err, false
		}
	}
	if l.abort != nil {
		return 0, l.abort, false
	}
	lim := l.limit()
	n := lim - l.rd
	if n > 0 {
		k := param >> 1
		if k < 1 {
			k = 1
		}
		if k < n {
			n = k
		}
		if len(p) < n {
			n = len(p)
		}
		if n < lim-l.rd {
			l.SplitReads++
		}
		copy(p, l.buf[l.rd:l.rd+n])
		l.rd += n
		if param&1 == 1 {
			if end, err := l.ended(); end && err != nil {
				l.EOFWithData++
				l.noteEnd()
				return n, err, false
			}
		}
		return n, nil, false
	}
	if end, err := l.ended(); end {
		if err == nil {
			err = io.EOF
		}
		l.noteEnd()
		return 0, err, false
	}
	// Woken without data: park again.
	return 0, nil, true
}

func (l *Link) noteEnd() {
	if l.endSeenStep == 0 {
		l.endSeenStep = l.s.StepNow() + 1
		l.endSeenAt = time.Now()
	}
}

// EndSeen: the scheduler step and fake-clock instant at which the reader was
// first handed the end of the stream (ok false: it never was).
func (l *Link) EndSeen() (step int, at time.Time, ok bool) {
	l.mu.Lock()
	defer l.mu.Unlock()
	return l.endSeenStep - 1, l.endSeenAt, l.endSeenStep != 0
}

// Push appends without gating or window check (used by the pump, which gates
// on space itself).
func (l *Link) Push(p []byte, flush bool) error {
	l.mu.Lock()
	defer l.mu.Unlock()
	defer l.refresh()
	if l.abort != nil {
		return l.abort
	}
	l.buf = append(l.buf, p...)
	l.marks = append(l.marks, len(l.buf))
	if flush {
		l.avail = len(l.buf)
	}
	return nil
}

// Write blocks (parks) while the window is full.
func (l *Link) Write(p []byte, flush bool) (int, error) {
	total := 0
	for len(p) > 0 {
		l.s.Gate(l.name+".write", &l.wp)
		l.mu.Lock()
		if l.abort != nil {
			err := l.abort
			l.mu.Unlock()
			return total, err
		}
		space := l.window - (len(l.buf) - l.rd)
		if space <= 0 {
			l.mu.Unlock()
			continue
		}
		n := len(p)
		if n > space {
			n = space
		}
		l.buf = append(l.buf, p[:n]...)
		total += n
		p = p[n:]
		if flush || l.window-(len(l.buf)-l.rd) <= 0 {
			// a full buffer is flushed, as net/http's bufio layer does
			l.avail = len(l.buf)
		}
		if len(p) == 0 {
			l.marks = append(l.marks, len(l.buf))
		}
		l.refresh()
		l.mu.Unlock()
	}
	return total, nil
}

func (l *Link) Flush() {
	l.mu.Lock()
	l.avail = len(l.buf)
	l.refresh()
	l.mu.Unlock()
}

// Finish marks the end of the stream; the reader gets err (io.EOF for a
// clean end) after the remaining data.
func (l *Link) Finish(err error) {
	l.mu.Lock()
	if !l.fin {
		l.fin = true
		l.endErr = err
		l.avail = len(l.buf)
	}
	l.refresh()
	l.mu.Unlock()
}

// Abort fails pending and future reads and writes immediately.
func (l *Link) Abort(err error) {
	l.mu.Lock()
	if l.abort == nil {
		l.abort = err
	}
	l.refresh()
	l.mu.Unlock()
}

func (l *Link) Aborted() error {
	l.mu.Lock()
	defer l.mu.Unlock()
	return l.abort
}

// Space returns the free window.
func (l *Link) Space() int {
	l.mu.Lock()
	defer l.mu.Unlock()
	return l.window - (len(l.buf) - l.rd)
}

// Consumed reports whether the reader has seen the end.
func (l *Link) Consumed() bool {
	l.mu.Lock()
	defer l.mu.Unlock()
	end, _ := l.ended()
	return end
}

func (l *Link) Finished() bool {
	l.mu.Lock()
	defer l.mu.Unlock()
	return l.fin
}

// Bytes returns a copy of everything written so far.
func (l *Link) Bytes() []byte {
	l.mu.Lock()
	defer l.mu.Unlock()
	return append([]byte(nil), l.buf...)
}

func (l *Link) ReadOffset() int {
	l.mu.Lock()
	defer l.mu.Unlock()
	return l.rd
}

func (l *Link) SetCut(at int, err error) {
	l.mu.Lock()
	l.cutAt, l.cutErr = at, err
	l.refresh()
	l.mu.Unlock()
}

func (l *Link) SetFrag(mode int, eofWithData bool) {
	l.mu.Lock()
	l.fragMode, l.eofWithData = mode, eofWithData
	l.mu.Unlock()
}

func (l *Link) SetCtx(c *CtxDone) { l.ctxd = c }

// SpacePred is ready when the link has window space or is aborted.
func (l *Link) SpacePred() core.Pred { return &l.wp }

// SetScript makes reads return exactly the scripted fragment sizes.
func (l *Link) SetScript(script []int, eofWithData bool) {
	l.mu.Lock()
	l.fragMode = 3
	l.script = script
	l.scriptPos = 0
	l.eofFixed = 0
	if eofWithData {
		l.eofFixed = 1
	}
	l.mu.Unlock()
}

package world

import (
	"runtime"
	"strings"
	"testing"
	"testing/synctest"
)

// TestBubbleHeader pins the goroutine-header format bubbleLeaks relies on.
func TestBubbleHeader(t *testing.T) {
	synctest.Test(t, func(t *testing.T) {
		ch := make(chan int)
		go func() { <-ch }()
		synctest.Wait()
		buf := make([]byte, 1<<16)
		buf = buf[:runtime.Stack(buf, true)]
		gs := strings.Split(string(buf), "\n\n")
		head := strings.SplitN(gs[0], "\n", 2)[0]
		if bubbleRe.FindStringSubmatch(head) == nil {
			t.Fatalf("goroutine header has no bubble id: %q", head)
		}
		n := 0
		for _, g := range gs[1:] {
			if strings.Contains(strings.SplitN(g, "\n", 2)[0], bubbleRe.FindString(head)) && strings.Contains(g, "chan receive") && strings.Contains(g, "TestBubbleHeader.func1.1") {
				n++
			}
		}
		if n != 1 {
			t.Fatalf("expected 1 other goroutine in the bubble, found %d:\n%s", n, buf)
		}
		close(ch)
	})
}

package world

import (
	"fmt"

	"google.golang.org/protobuf/encoding/protojson"
	"google.golang.org/protobuf/proto"
)

// plain proto / JSON codecs (the library's own are not exported)
type pbCodec struct{ json bool }

func (c pbCodec) Name() string {
	if c.json {
		return "json"
	}
	return "proto"
}

func (c pbCodec) Marshal(m any) ([]byte, error) {
	pm, ok := m.(proto.Message)
	if !ok {
		return nil, fmt.Errorf("%T is not a proto.Message", m)
	}
	if c.json {
		return protojson.Marshal(pm)
	}
	return proto.Marshal(pm)
}

func (c pbCodec) Unmarshal(b []byte, m any) error {
	pm, ok := m.(proto.Message)
	if !ok {
		return fmt.Errorf("%T is not a proto.Message", m)
	}
	if c.json {
		return protojson.Unmarshal(b, pm)
	}
	return proto.Unmarshal(b, pm)
}

package world

import (
	"bufio"
	"bytes"
	"encoding/binary"
	"errors"
	"fmt"
	"io"
	"time"

	connect "github.com/bufbuild/connect-go"
)

// Custom compression algorithms "a", "b", "c": run-length encoding with a
// per-algorithm magic, so that decoding with the wrong algorithm fails
// loudly, truncation is detected, and highly compressible payloads (bombs)
// expand lazily in Read. Instances are instrumented.
//
// Format: magic[4] { uvarint(count>0) byte }* 0x00 fnv32(uncompressed)[4]

func magicOf(name string) [4]byte { return [4]byte{'S', 'I', 'M', name[0]} }

// compFault lets a run make the k-th operation of an algorithm fail.
type compFault struct {
	Op      string // "write", "close", "reset", "read"
	At      int    // 1-based count across the run for this algorithm; 0 = never
	WrapEOF bool   // the failure is reported with an error that wraps io.EOF (a sticky last-read error, say)
}

// faultErr is the error an injected failure reports.
func (a *algo) faultErr(what string) error {
	if a.fault.WrapEOF {
		return fmt.Errorf("sim: injected %s failure: %w", what, io.EOF)
	}
	return errors.New("sim: injected " + what + " failure")
}

type algo struct {
	name   string
	yield  func(key string) // scheduler gate: user-supplied (de)compressors may be descheduled mid-operation
	fault  compFault
	counts [4]int // write, close, reset, read (a map would be race-instrumented by the runtime)
	insts  int
	// instrumentation results
	Violations []string
	Resets     int
}

func opIndex(op string) int {
	switch op {
	case "write":
		return 0
	case "close":
		return 1
	case "reset":
		return 2
	default:
		return 3
	}
}

//go:norace
//go:noinline
func (a *algo) tick(op string) bool {
	i := opIndex(op)
	a.counts[i]++
	return a.fault.At > 0 && a.fault.Op == op && a.counts[i] == a.fault.At
}

//go:norace
//go:noinline
func (a *algo) violate(s string) { a.Violations = append(a.Violations, s) }

//go:norace
//go:noinline
func (a *algo) newID() int { a.insts++; return a.insts }

type simCompressor struct {
	pooled bool // lying in the library's pool (set by the pool hooks)
	a      *algo
	id     int
	w      io.Writer
	buf    bytes.Buffer
	active bool
	reset  bool
}

func (c *simCompressor) Reset(w io.Writer) {
	c.w = w
	c.buf.Reset()
	c.active = true
	c.reset = true
}

func (c *simCompressor) Write(p []byte) (int, error) {
	if c.pooled {
		c.a.violate(fmt.Sprintf("compressor %s#%d written to after it was returned to the pool", c.a.name, c.id))
	}
	if !c.reset {
		c.a.violate(fmt.Sprintf("compressor %s#%d written without Reset", c.a.name, c.id))
	}
	if c.a.tick("write") {
		return 0, c.a.faultErr("compressor write")
	}
	c.buf.Write(p)
	return len(p), nil
}

func (c *simCompressor) Close() error {
	c.reset = false
	if c.a.tick("close") {
		return c.a.faultErr("compressor close")
	}
	m := magicOf(c.a.name)
	out := make([]byte, 0, 16)
	out = append(out, m[:]...)
	data := c.buf.Bytes()
	var tmp [binary.MaxVarintLen64]byte
	for i := 0; i < len(data); {
		j := i
		for j < len(data) && data[j] == data[i] {
			j++
		}
		n := binary.PutUvarint(tmp[:], uint64(j-i))
		out = append(out, tmp[:n]...)
		out = append(out, data[i])
		i = j
	}
	out = append(out, 0)
	out = binary.BigEndian.AppendUint32(out, fnv32(data))
	_, err := c.w.Write(out)
	return err
}

func fnv32(b []byte) uint32 {
	h := uint32(2166136261)
	for _, c := range b {
		h ^= uint32(c)
		h *= 16777619
	}
	return h
}

type simDecompressor struct {
	pooled  bool // lying in the library's pool (set by the pool hooks)
	a       *algo
	id      int
	r       *bufio.Reader
	run     uint64
	b       byte
	sum     uint32
	inUse   bool
	yielded bool
	done    bool
	reset   bool
	closed  bool
}

func (d *simDecompressor) Reset(r io.Reader) error {
	if d.inUse {
		d.a.violate(fmt.Sprintf("decompressor %s#%d handed out (Reset) while another call is still reading from it", d.a.name, d.id))
	}
	d.reset = true
	d.closed = false
	d.run, d.done = 0, false
	d.sum = 2166136261
	if d.r == nil {
		d.r = bufio.NewReaderSize(r, 512)
	} else {
		d.r.Reset(r)
	}
	if d.a.tick("reset") {
		return d.a.faultErr("decompressor reset")
	}
	var m [4]byte
	if _, err := io.ReadFull(d.r, m[:]); err != nil {
		if errors.Is(err, io.EOF) {
			// the library resets with an empty reader when recycling
			d.done = true
			d.inUse = false
			return nil
		}
		return fmt.Errorf("sim %s: short header: %w", d.a.name, err)
	}
	if m != magicOf(d.a.name) {
		return fmt.Errorf("sim %s: bad magic %q", d.a.name, m[:])
	}
	d.inUse = true
	return nil
}

func (d *simDecompressor) Read(p []byte) (int, error) {
	if d.pooled {
		d.a.violate(fmt.Sprintf("decompressor %s#%d read from after it was returned to the pool (the next call to take it would share it)", d.a.name, d.id))
	}
	if !d.reset {
		d.a.violate(fmt.Sprintf("decompressor %s#%d read without Reset", d.a.name, d.id))
	}
	if d.a.tick("read") {
		return 0, d.a.faultErr("decompressor read")
	}
	if d.a.yield != nil && !d.yielded {
		d.yielded = true
		d.a.yield("algo/" + d.a.name + "/read")
	}
	n := 0
	for n < len(p) {
		if d.run > 0 {
			k := uint64(len(p) - n)
			if k > d.run {
				k = d.run
			}
			for i := uint64(0); i < k; i++ {
				p[n] = d.b
				n++
				d.sum ^= uint32(d.b)
				d.sum *= 16777619
			}
			d.run -= k
			continue
		}
		if d.done {
			break
		}
		cnt, err := binary.ReadUvarint(d.r)
		if err != nil {
			if n > 0 {
				return n, nil
			}
			return 0, fmt.Errorf("sim %s: truncated stream: %w", d.a.name, io.ErrUnexpectedEOF)
		}
		if cnt == 0 {
			d.done = true
			var sum [4]byte
			if _, err := io.ReadFull(d.r, sum[:]); err != nil {
				return n, fmt.Errorf("sim %s: missing checksum: %w", d.a.name, io.ErrUnexpectedEOF)
			}
			if binary.BigEndian.Uint32(sum[:]) != d.sum {
				return n, fmt.Errorf("sim %s: checksum mismatch", d.a.name)
			}
			if _, err := d.r.ReadByte(); err == nil {
				return n, fmt.Errorf("sim %s: data after checksum", d.a.name)
			}
			break
		}
		b, err := d.r.ReadByte()
		if err != nil {
			return n, fmt.Errorf("sim %s: truncated run: %w", d.a.name, io.ErrUnexpectedEOF)
		}
		d.run, d.b = cnt, b
	}
	if n == 0 && d.done {
		return 0, io.EOF
	}
	return n, nil
}

func (d *simDecompressor) Close() error {
	if d.a.tick("close") {
		d.reset, d.closed, d.inUse, d.yielded = false, true, false, false
		return d.a.faultErr("decompressor close")
	}
	d.reset = false
	d.closed = true
	d.inUse = false
	d.yielded = false
	return nil
}

func (a *algo) newCompressor() connect.Compressor {
	return &simCompressor{a: a, id: a.newID()}
}

func (a *algo) newDecompressor() connect.Decompressor {
	return &simDecompressor{a: a, id: a.newID()}
}

// rleEncode / rleDecode are the harness's own (instance-free) codec for the
// custom algorithms, used by oracles and by byzantine peers.
func rleEncode(name string, data []byte) []byte {
	var out bytes.Buffer
	c := &simCompressor{a: &algo{name: name}}
	c.Reset(&out)
	_, _ = c.Write(data)
	_ = c.Close()
	return out.Bytes()
}

func rleDecode(name string, data []byte, max int) ([]byte, error) {
	d := &simDecompressor{a: &algo{name: name}}
	if err := d.Reset(bytes.NewReader(data)); err != nil {
		return nil, err
	}
	var out bytes.Buffer
	_, err := io.Copy(&out, io.LimitReader(d, int64(max)+1))
	if err != nil {
		return nil, err
	}
	return out.Bytes(), nil
}

// simCodec wraps the library's own proto / JSON marshalling behind the
// exported Codec seam and fails on marked messages: a fault injected at the
// point where user data enters or leaves the wire format.
type simCodec struct {
	name   string
	inner  connect.Codec
	strict bool // marshals the service's own message type only
	// ownTypeEOF: decodes the service's own message type only and reports
	// anything else with an error that wraps io.EOF
	ownTypeEOF bool
	// slow: marshalling one of the service's messages takes this much fake
	// time (a large message, a slow serialiser); done is told when it ends
	slow time.Duration
	done func(time.Time)
}

// marshalFailMarker: a message whose value starts with this cannot be
// marshalled (as a proto3 string with invalid UTF-8 cannot).
var marshalFailMarker = []byte("\xffMARSHAL-FAILS")

func (c *simCodec) Name() string { return c.name }

// marshalFailEOFMarker: like marshalFailMarker, and the codec's complaint
// wraps io.EOF (a codec that streams from a source which ran dry).
var marshalFailEOFMarker = append(append([]byte(nil), marshalFailMarker...), []byte("/EOF")...)

func (c *simCodec) Marshal(m any) ([]byte, error) {
	if _, ok := m.(*Msg); !ok && c.strict {
		return nil, fmt.Errorf("sim codec: cannot marshal %T, only the service's messages", m)
	}
	if bv, ok := m.(*Msg); ok && bytes.HasPrefix(bv.GetValue(), marshalFailEOFMarker) {
		return nil, fmt.Errorf("sim: message cannot be marshalled: source ran dry: %w", io.EOF)
	}
	if bv, ok := m.(*Msg); ok && bytes.HasPrefix(bv.GetValue(), marshalFailMarker) {
		return nil, errors.New("sim: message cannot be marshalled")
	}
	if _, ok := m.(*Msg); ok && c.slow > 0 {
		time.Sleep(c.slow)
		if c.done != nil {
			c.done(time.Now())
		}
	}
	return c.inner.Marshal(m)
}

// unmarshalEOFMarker: a payload that starts with this makes the codec give
// up with an error that wraps io.EOF - what encoding/json's Decoder, gob and
// most stream decoders report for input that ends before a value does.
var unmarshalEOFMarker = []byte("\xfeEOF-FROM-CODEC")

func (c *simCodec) Unmarshal(b []byte, m any) error {
	if _, ok := m.(*Msg); !ok && c.ownTypeEOF {
		return fmt.Errorf("sim codec: cannot decode into %T: input ended before a value did: %w", m, io.EOF)
	}
	if bytes.HasPrefix(b, unmarshalEOFMarker) {
		return fmt.Errorf("sim codec: input ended before a value did: %w", io.EOF)
	}
	return c.inner.Unmarshal(b, m)
}

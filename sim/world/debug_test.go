package world

import (
	"encoding/json"
	"fmt"
	"os"
	"testing"

	"verif/sim/core"
)

// TestDebugReplay prints details of a replayed run (VERIF_DEBUG=<replay file>).
func TestDebugReplay(t *testing.T) {
	path := os.Getenv("VERIF_DEBUG")
	if path == "" {
		t.Skip()
	}
	InstallHooks()
	b, _ := os.ReadFile(path)
	var rec ViolationRec
	_ = json.Unmarshal(b, &rec)
	prop := Props[rec.Prop]
	debugHook = func(w *World) {
		for _, o := range w.Obs {
			fmt.Printf("final=%v finalset=%v recv=%d\nrawhdr=%v\nrawtrl=%v\nresphdr=%v\nresptrl=%v\n", o.Final, o.FinalSet, len(o.Recv), o.RawHeader, o.RawTrailer, o.RespHeader, o.RespTrailer)
			for _, op := range append(o.Ops, o.OpsRcv...) {
				fmt.Printf("  op %s arg=%d [%d..%d] err=%v msg=%d downread=%d\n", op.Op, op.Arg, op.Start, op.End, op.Err, len(op.Msg), op.DownRead)
			}
			fmt.Printf("  handler: entered=%d recv=%d recvend=%v senderrs=%v returned=%v err=%v\n", o.H.Entered, len(o.H.Recv), o.H.RecvEnd, o.H.SendErrs, o.H.Returned, o.H.ReturnErr)
		}
	}
	res := RunOne(t, prop, core.ReplayTape(rec.Tape), RunOpts{Tier: "quick", KeepTrace: true})
	for _, v := range res.Violations {
		fmt.Println("VIOLATION", v.Class, v.Msg)
	}
	for _, l := range res.Trace {
		fmt.Println(l)
	}
}

package world

import (
	"bytes"
	"context"
	"errors"
	"fmt"
	"google.golang.org/protobuf/encoding/protowire"
	"io"
	"net/http"
	"sort"
	"strings"
	"sync"
	"time"

	connect "github.com/bufbuild/connect-go"
	"google.golang.org/protobuf/proto"
	"google.golang.org/protobuf/types/known/anypb"
	"google.golang.org/protobuf/types/known/durationpb"
	"google.golang.org/protobuf/types/known/structpb"
	"google.golang.org/protobuf/types/known/wrapperspb"

	"verif/sim/core"
	"verif/sim/simhttp"
)

type Msg = wrapperspb.BytesValue

const callHeader = "X-Sim-Call"

// OpRec is what one client API call returned.
type OpRec struct {
	Op     string
	Arg    int
	Start  int // scheduler step at which the call started
	End    int
	StartT time.Time
	EndT   time.Time
	Err    error
	HasMsg bool
	Msg    []byte
	// DownRead: response-body bytes the client had consumed when the operation
	// returned (-1: no stub exchange)
	DownRead int
}

// HObs is what the handler side observed.
type HObs struct {
	NeverCancelled bool // calibration world: the handler waited for its context until the server shut down
	Entered        int
	EnterStep      int
	EnterTime      time.Time
	Recv           [][]byte
	RecvEnd        error
	RecvEndSet     bool
	SendErrs       []error
	Sent           int
	ReqHeader      http.Header
	HasDeadline    bool
	Deadline       time.Time
	Returned       bool
	ReturnStep     int
	ReturnTime     time.Time
	ReturnErr      error
	CtxErr         error
	Spec           connect.Spec
	Peer           string
	Panicked       bool
	PanicValue     any
	RecvErrs       []string
}

// CallObs is everything observed about one call.
type CallObs struct {
	Plan *CallPlan
	Call *simhttp.Call

	icptCancel context.CancelFunc
	liveCancel context.CancelFunc

	Ops          []OpRec
	OpsRcv       []OpRec
	Recv         [][]byte // copies taken at the instant the API yielded the message
	RecvRaw      []*Msg   // the uncopied originals handed to user code
	Final        error    // terminal outcome of the call (nil: success and clean end)
	FinalSet     bool
	FinalText    string // Error() at the instant the outcome was returned
	FinalMeta    string // error metadata at that instant
	RespHeader   http.Header
	RespTrailer  http.Header
	RawHeader    http.Header // uncopied
	RawTrailer   http.Header
	ForeignTouch string      // the error handed to this call already carried another call's annotation
	TrailerLater http.Header // the response trailers after further Receives past the end of the stream
	PeekHeader   http.Header // ResponseHeader() read before the first Receive
	Peeked       bool
	SentReq      *connect.Request[Msg]
	CancelStep   int
	CancelTime   time.Time
	StartTime    time.Time
	Recovered    []any // values passed to the WithRecover function
	InterceptLog []string

	H HObs
}

// World is one run's system under simulation.
type World struct {
	S         *core.Sched
	Net       *simhttp.Net
	Sc        *Scenario
	Obs       []*CallObs
	byID      map[string]*CallObs
	handlers  [][4]http.Handler
	clients   map[string]*connect.Client[Msg, Msg]
	algos     []*algo
	pools     *pools
	poolStats poolStats

	real     *realNet      // calibration world: real net/http instead of the stub
	shutdown chan struct{} // closed when the calibration world's server shuts down (nil otherwise)

	buildingClient bool
	faultAssigned  bool

	marshalMu   sync.Mutex
	MarshalEnds []time.Time // fake instants at which a slow client codec finished marshalling a message
	recoverErr  func(o *CallObs, v any) error
}

//go:norace
//go:noinline
func stepsNow(s *core.Sched) int { return s.Steps }

func (w *World) noteMarshalEnd(t time.Time) {
	w.marshalMu.Lock()
	w.MarshalEnds = append(w.MarshalEnds, t)
	w.marshalMu.Unlock()
}

func NewWorld(s *core.Sched, sc *Scenario) *World { return newWorld(s, sc, false) }

func newWorld(s *core.Sched, sc *Scenario, real bool) *World {
	w := &World{S: s, Sc: sc, Net: &simhttp.Net{S: s}, byID: map[string]*CallObs{}, clients: map[string]*connect.Client[Msg, Msg]{}}
	w.pools = newPools(sc.PoolFIFO, sc.PoolDrop)
	setPools(w.pools)
	for i := range sc.Handlers {
		w.handlers = append(w.handlers, w.buildHandlers(i, &sc.Handlers[i]))
	}
	if real {
		mux := http.NewServeMux()
		for i := range w.handlers {
			for k := KUnary; k <= KBidi; k++ {
				h := w.handlers[i][k]
				mux.Handle(procName(i, k), http.HandlerFunc(func(rw http.ResponseWriter, r *http.Request) {
					// make the call's observation record reachable from the server context
					if o := w.byID[r.Header.Get(callHeader)]; o != nil {
						r = r.WithContext(context.WithValue(r.Context(), obsKey{}, o))
					}
					h.ServeHTTP(rw, r)
				}))
			}
		}
		w.real = newRealNet(mux, int64(s.Tape.Choose(1<<30, "real.lag.seed")), func(r *http.Request) bool {
			o := w.byID[r.Header.Get(callHeader)]
			return o != nil && o.Plan.K.NoFlusher
		})
		w.shutdown = make(chan struct{})
		realShutdown = w.shutdown
	}
	for _, p := range sc.Calls {
		o := &CallObs{Plan: p, CancelStep: -1}
		c := &simhttp.Call{ID: p.ID, S: s, K: p.K, YieldOn: p.YieldOn, SlowOn: p.SlowOn}
		c.Route = w.handlers[p.Handler][p.Kind]
		c.Byz = p.Canned
		o.Call = c
		w.Obs = append(w.Obs, o)
		w.byID[p.ID] = o
		if p.Raw == nil {
			w.client(p) // build every client before tasks start
		}
	}
	return w
}

func procName(h int, k Kind) string {
	return fmt.Sprintf("/sim.v1.Svc%d/%s", h, [...]string{"Unary", "ClientStream", "ServerStream", "Bidi"}[k])
}

func (w *World) newAlgo(name string) *algo {
	a := &algo{name: name}
	if w.Sc.AlgoYield {
		a.yield = func(key string) { w.S.Gate(key, nil) }
	}
	if f := w.Sc.CompFault; f != nil {
		side := 0
		if w.buildingClient {
			side = 1
		}
		if side == w.Sc.CompFaultSide {
			a.fault = *f // every algorithm of that side fails its k-th such operation once
		}
	}
	w.algos = append(w.algos, a)
	return a
}

func (w *World) buildHandlers(idx int, cfg *HandlerCfg) [4]http.Handler {
	var opts []connect.HandlerOption
	for _, name := range cfg.Comp {
		a := w.newAlgo(name)
		opts = append(opts, connect.WithCompression(name, a.newDecompressor, a.newCompressor))
	}
	for _, name := range cfg.NilComp {
		opts = append(opts, connect.WithCompression(name, nil, nil))
	}
	if cfg.CompressMin > 0 {
		opts = append(opts, connect.WithCompressMinBytes(cfg.CompressMin))
	}
	if cfg.ReadMax > 0 {
		opts = append(opts, connect.WithReadMaxBytes(cfg.ReadMax))
	}
	if cfg.FailCodec || cfg.StrictCodec {
		opts = append(opts, connect.WithCodec(&simCodec{name: "proto", inner: pbCodec{}, strict: cfg.StrictCodec}), connect.WithCodec(&simCodec{name: "json", inner: pbCodec{json: true}, strict: cfg.StrictCodec}))
	}
	var ics []connect.HandlerOption
	for i := 0; i < cfg.NIntercept; i++ {
		ics = append(ics, connect.WithInterceptors(&tagInterceptor{w: w, tag: fmt.Sprintf("i%d", i)}))
	}
	if cfg.Recover {
		rec := connect.WithRecover(func(ctx context.Context, spec connect.Spec, hdr http.Header, v any) error {
			o := w.obsFromCtx(ctx)
			if o == nil {
				return connect.NewError(connect.CodeInternal, errors.New("sim: recover without call"))
			}
			o.Recovered = append(o.Recovered, v)
			if rp := o.Plan.RecoverErr; rp != nil {
				return rp.build(ctx)
			}
			return connect.NewError(connect.CodeAborted, fmt.Errorf("recovered: %v", v))
		})
		pos := cfg.RecoverPos
		if pos > len(ics) {
			pos = len(ics)
		}
		ics = append(ics[:pos], append([]connect.HandlerOption{rec}, ics[pos:]...)...)
	}
	opts = append(opts, ics...)
	if cfg.Scratch {
		opts = append(opts, connect.WithInterceptors(scratchInterceptor{}))
	}
	var out [4]http.Handler
	out[KUnary] = connect.NewUnaryHandler(procName(idx, KUnary), w.serveUnary, opts...)
	out[KClient] = connect.NewClientStreamHandler(procName(idx, KClient), w.serveClientStream, opts...)
	out[KServer] = connect.NewServerStreamHandler(procName(idx, KServer), w.serveServerStream, opts...)
	out[KBidi] = connect.NewBidiStreamHandler(procName(idx, KBidi), w.serveBidi, opts...)
	return out
}

type obsKey struct{}

// tagInterceptor records the order in which interceptors see a call and makes
// the call's observation record reachable from the handler context.
type tagInterceptor struct {
	w   *World
	tag string
}

func (t *tagInterceptor) WrapUnary(next connect.UnaryFunc) connect.UnaryFunc {
	return func(ctx context.Context, req connect.AnyRequest) (connect.AnyResponse, error) {
		if o := t.w.byID[req.Header().Get(callHeader)]; o != nil {
			o.InterceptLog = append(o.InterceptLog, t.tag+":in")
			returned := false
			defer func() {
				if returned {
					o.InterceptLog = append(o.InterceptLog, t.tag+":out")
				} else {
					o.InterceptLog = append(o.InterceptLog, t.tag+":panic") // a panic is unwinding through this interceptor
				}
			}()
			if o.Plan.InterceptorErr && t.tag == "i0" {
				returned = true
				return nil, o.Plan.HErr.build(ctx)
			}
			if typed, ok := req.(*connect.Request[Msg]); ok && o.Plan.MirrorBy == t.tag {
				// a traffic-mirroring interceptor: the very request object goes to
				// a shadow client (whose transport is down) before the call proceeds
				down := connect.NewClient[Msg, Msg](downDoer{}, "http://shadow.test/sim.v1.Shadow/Call")
				_, _ = down.CallUnary(ctx, typed)
			}
			resp, err := next(ctx, req)
			returned = true
			return resp, err
		}
		return next(ctx, req)
	}
}

func (t *tagInterceptor) WrapStreamingClient(next connect.StreamingClientFunc) connect.StreamingClientFunc {
	return next
}

func (t *tagInterceptor) WrapStreamingHandler(next connect.StreamingHandlerFunc) connect.StreamingHandlerFunc {
	return func(ctx context.Context, conn connect.StreamingHandlerConn) error {
		if o := t.w.byID[conn.RequestHeader().Get(callHeader)]; o != nil {
			o.InterceptLog = append(o.InterceptLog, t.tag+":in")
			returned := false
			defer func() {
				if returned {
					o.InterceptLog = append(o.InterceptLog, t.tag+":out")
				} else {
					o.InterceptLog = append(o.InterceptLog, t.tag+":panic") // a panic is unwinding through this interceptor
				}
			}()
			if o.Plan.InterceptorErr && t.tag == "i0" {
				returned = true
				return o.Plan.HErr.build(ctx)
			}
			if o.Plan.InterceptorErrAfter && t.tag == "i0" {
				// the handler has responded; the interceptor fails afterwards
				err := next(ctx, conn)
				returned = true
				if err != nil {
					return err
				}
				return o.Plan.HErr.build(ctx)
			}
			err := next(ctx, conn)
			returned = true
			return err
		}
		return next(ctx, conn)
	}
}

// touchErr is what user code may do with an error it was handed: annotate its
// metadata. (Only in worlds that ask for it.) An annotation made by another
// call must not be there already.
func (w *World) touchErr(o *CallObs, err error) {
	var ce *connect.Error
	if !w.Sc.TouchErrors || !errors.As(err, &ce) {
		return
	}
	if v := ce.Meta().Get("Z-Seen-By"); v != "" && v != o.Plan.ID {
		o.ForeignTouch = v
	}
	ce.Meta().Set("Z-Seen-By", o.Plan.ID)
}

// ownErr is the error the handler function itself returns (none when the
// plan's error comes from an interceptor that fails after the handler).
func (p *CallPlan) ownErr() *ErrPlan {
	if p.InterceptorErrAfter {
		return nil
	}
	return p.HErr
}

func (w *World) obsFromCtx(ctx context.Context) *CallObs {
	if o, ok := ctx.Value(obsKey{}).(*CallObs); ok {
		return o
	}
	if c := simhttp.ServerCallOf(ctx); c != nil {
		return w.byID[c.ID]
	}
	return nil
}

func (w *World) client(p *CallPlan) *connect.Client[Msg, Msg] {
	key := fmt.Sprintf("%d/%d/%d/%v", p.Client, p.Handler, p.Kind, w.real != nil && p.K.HTTP2)
	if c, ok := w.clients[key]; ok {
		return c
	}
	cfg := &w.Sc.Clients[p.Client]
	w.buildingClient = true
	defer func() { w.buildingClient = false }()
	var opts []connect.ClientOption
	switch cfg.Proto {
	case PGRPC:
		opts = append(opts, connect.WithGRPC())
	case PGRPCWeb:
		opts = append(opts, connect.WithGRPCWeb())
	}
	if cfg.JSON {
		opts = append(opts, connect.WithProtoJSON())
	}
	for _, name := range cfg.Accept {
		a := w.newAlgo(name)
		opts = append(opts, connect.WithAcceptCompression(name, a.newDecompressor, a.newCompressor))
	}
	for _, name := range cfg.NilAccept {
		opts = append(opts, connect.WithAcceptCompression(name, nil, nil))
	}
	if cfg.FailCodec || cfg.OwnTypeCodec || cfg.SlowMarshal > 0 {
		done := func(t time.Time) { w.noteMarshalEnd(t) }
		opts = append(opts, connect.WithCodec(&simCodec{name: "proto", inner: pbCodec{}, ownTypeEOF: cfg.OwnTypeCodec, slow: cfg.SlowMarshal, done: done}))
		if cfg.JSON {
			opts = append(opts, connect.WithCodec(&simCodec{name: "json", inner: pbCodec{json: true}, slow: cfg.SlowMarshal, done: done}))
		}
	}
	if cfg.SendComp != "" {
		opts = append(opts, connect.WithSendCompression(cfg.SendComp))
	}
	if cfg.Broken {
		opts = append(opts, connect.WithSendCompression("never-registered"))
	}
	if cfg.CompressMin > 0 {
		opts = append(opts, connect.WithCompressMinBytes(cfg.CompressMin))
	}
	if cfg.ReadMax > 0 {
		opts = append(opts, connect.WithReadMaxBytes(cfg.ReadMax))
	}
	if cfg.Hedge {
		opts = append(opts, connect.WithInterceptors(hedgeInterceptor{}))
	}
	if cfg.Scratch {
		opts = append(opts, connect.WithInterceptors(scratchInterceptor{}))
	}
	if cfg.DeadlineIcpt {
		opts = append(opts, connect.WithInterceptors(deadlineInterceptor{}))
	}
	var hc connect.HTTPClient = w.Net
	if w.real != nil {
		hc = &realClient{n: w.real, h2: p.K.HTTP2}
	}
	target := "http://sim.test" + procName(p.Handler, p.Kind)
	if cfg.OddURL {
		target += "?tenant=a#50%"
	}
	c := connect.NewClient[Msg, Msg](hc, target, opts...)
	w.clients[key] = c
	return c
}

// ---------------------------------------------------------------- handlers

func (w *World) enter(ctx context.Context, hdr http.Header, spec connect.Spec) *CallObs {
	o := w.byID[hdr.Get(callHeader)]
	if o == nil {
		return nil
	}
	h := &o.H
	h.Entered++
	h.EnterStep = stepsNow(w.S)
	h.EnterTime = time.Now()
	h.ReqHeader = hdr.Clone()
	h.Deadline, h.HasDeadline = ctx.Deadline()
	h.Spec = spec
	return o
}

// recvFailure is what a typical handler does with a broken request stream: it
// returns the error instead of answering.
func recvFailure(o *CallObs) error {
	if o.Plan.HErr == nil && o.H.RecvEndSet && o.H.RecvEnd != nil && !errors.Is(o.H.RecvEnd, io.EOF) {
		return o.H.RecvEnd
	}
	if o.Plan.ReturnSendErr {
		for _, e := range o.H.SendErrs {
			if e != nil {
				return e
			}
		}
	}
	return nil
}

func (w *World) leave(ctx context.Context, o *CallObs, err error) {
	o.H.Returned = true
	o.H.ReturnStep = stepsNow(w.S)
	o.H.ReturnTime = time.Now()
	o.H.ReturnErr = err
	o.H.CtxErr = ctx.Err()
}

// unknownMarker: a message whose value starts with this is sent with an
// additional field the schema does not know (a sender built from a newer
// schema); with the binary codec the receiver must find that field again.
var unknownMarker = []byte("\x01UNK:")

func unknownFieldFor(v []byte) []byte {
	payload := append([]byte("field from a newer schema "), byte(len(v)), byte(len(v)>>8))
	return protowire.AppendBytes(protowire.AppendTag(nil, 15, protowire.BytesType), payload)
}

func mkMsg(b []byte) *Msg {
	m := &Msg{Value: append([]byte(nil), b...)}
	if bytes.HasPrefix(b, unknownMarker) {
		m.ProtoReflect().SetUnknown(unknownFieldFor(b))
	}
	return m
}

// recvValue is what the receiving side's API yielded: the value, marked if
// the unknown field the sender attached did not arrive with it.
func (w *World) recvValue(o *CallObs, m *Msg) []byte {
	v := cloneBytes(m.Value)
	if bytes.HasPrefix(v, unknownMarker) && o.Plan.Raw == nil && !w.Sc.Clients[o.Plan.Client].JSON {
		if !bytes.Equal(m.ProtoReflect().GetUnknown(), unknownFieldFor(v)) {
			return append(v, []byte("|unknown field lost")...)
		}
	}
	return v
}

func cloneBytes(b []byte) []byte {
	if b == nil {
		return []byte{}
	}
	return append([]byte{}, b...)
}

func (e *ErrPlan) build(ctx context.Context) error {
	if e == nil {
		return nil
	}
	if e.CtxErr {
		select {
		case <-ctx.Done():
		case <-realShutdown: // calibration world only, see "waitctx"
		}
		return ctx.Err()
	}
	switch e.CtxKind {
	case 1:
		return context.Canceled
	case 2:
		return context.DeadlineExceeded
	case 3:
		return fmt.Errorf("handler gave up: %w", context.Canceled)
	case 4:
		return fmt.Errorf("handler gave up: %w", context.DeadlineExceeded)
	}
	if e.Plain {
		if e.WrapEOF {
			return fmt.Errorf("%s%w", strings.TrimSuffix(e.Msg, "EOF"), io.EOF)
		}
		return errors.New(e.Msg)
	}
	if e.Shared && e.built != nil {
		return e.built
	}
	var ce *connect.Error
	if e.NilErr {
		ce = connect.NewError(connect.Code(e.Code), nil)
	} else if e.WrapEOF {
		ce = connect.NewError(connect.Code(e.Code), fmt.Errorf("%s%w", strings.TrimSuffix(e.Msg, "EOF"), io.EOF))
	} else if e.WrapCtx != 0 {
		// e.Msg ends in the context error's text; the cause really wraps it
		cause := context.Canceled
		if e.WrapCtx == 2 {
			cause = context.DeadlineExceeded
		}
		base := strings.TrimSuffix(e.Msg, cause.Error())
		ce = connect.NewError(connect.Code(e.Code), fmt.Errorf("%s%w", base, cause))
	} else {
		ce = connect.NewError(connect.Code(e.Code), errors.New(e.Msg))
	}
	for _, d := range e.Details {
		a, err := d.any()
		if err == nil {
			ce.AddDetail(a)
		}
	}
	for k, vs := range e.Meta {
		for _, v := range vs {
			ce.Meta().Add(k, v)
		}
	}
	for k, vs := range e.ProxyMeta {
		for _, v := range vs {
			ce.Meta().Add(k, v)
		}
	}
	for k, vs := range e.RawMeta {
		ce.Meta()[k] = append(ce.Meta()[k], vs...)
	}
	var out error = ce
	if e.Wrapped {
		// code, message, details and metadata are those of the coded error in
		// the chain
		out = fmt.Errorf("while serving the call: %w", ce)
	}
	if e.Shared {
		e.built = out
	}
	return out
}

// any is the detail as the handler attaches it. Kind 4 is an Any whose
// message type is not linked into this binary - what a gateway holds when it
// passes on the details of an upstream error. Kind 5 is a linked message that
// protojson refuses to spell out.
func (d DetailPlan) any() (*anypb.Any, error) {
	if d.Kind == 4 {
		v := protowire.AppendString(protowire.AppendTag(nil, 1, protowire.BytesType), fmt.Sprintf("upstream %x", d.Data))
		return &anypb.Any{TypeUrl: "type.googleapis.com/sim.upstream.v1.NotLinkedHere", Value: v}, nil
	}
	if d.Kind == 5 {
		// linked, valid in binary, but without a JSON form: a Value with no kind set
		return anypb.New(&structpb.Value{})
	}
	return anypb.New(d.message())
}

func (d DetailPlan) message() proto.Message {
	switch d.Kind {
	case 0:
		return wrapperspb.String(fmt.Sprintf("détail %x", d.Data))
	case 1:
		return wrapperspb.Bytes(d.Data)
	case 2:
		n := int64(0)
		for _, b := range d.Data {
			n = n*131 + int64(b)
		}
		return durationpb.New(time.Duration(n % (1 << 50)))
	default:
		s, _ := structpb.NewStruct(map[string]any{"k": fmt.Sprintf("%x", d.Data)}) // one key: proto map order is random
		return s
	}
}

func (p *PanicPlan) value() any {
	switch p.Kind {
	case 0:
		return nil
	case 1:
		return errors.New(p.Text)
	case 2:
		return p.Text
	case 3:
		return struct {
			A string
			B int
		}{p.Text, 7}
	case 5:
		// an ordinary error that merely wraps the sentinel is not the sentinel
		return fmt.Errorf("%s: %w", p.Text, http.ErrAbortHandler)
	case 6:
		// values that cannot be compared or hashed
		return []string{p.Text, "slice"}
	case 7:
		return map[string]int{p.Text: 7}
	case 8:
		return struct {
			A string
			B []byte
		}{p.Text, []byte(p.Text)}
	case 9:
		return &struct{ A string }{p.Text}
	default:
		return http.ErrAbortHandler
	}
}

// realShutdown is the current calibration world's shutdown channel (nil in
// the simulated world: receiving from it blocks forever).
var realShutdown chan struct{}

type hstream struct {
	fwd  func() // unary: pass the received request object on to a downstream client
	recv func() ([]byte, error)
	send func([]byte) error
	hdr  func() http.Header
	trl  func() http.Header
}

// runProg interprets the handler program.
func (w *World) runProg(ctx context.Context, o *CallObs, st hstream) {
	p := o.Plan
	h := &o.H
	recvOne := func() bool {
		if h.RecvEndSet || st.recv == nil {
			return false
		}
		b, err := st.recv()
		if err != nil {
			if p.KeepReceiving && !errors.Is(err, io.EOF) && len(h.RecvErrs) < 4 {
				// a bidi handler that carries on after a rejected message
				h.RecvErrs = append(h.RecvErrs, err.Error())
				h.Recv = append(h.Recv, []byte("<rejected>"))
				return true
			}
			h.RecvEnd, h.RecvEndSet = err, true
			return false
		}
		h.Recv = append(h.Recv, b)
		return true
	}
	for _, op := range p.HProg {
		switch op.Op {
		case "recv":
			recvOne()
		case "drain":
			for recvOne() {
			}
		case "send":
			if st.send != nil && op.Arg < len(p.RespMsgs) {
				err := st.send(p.RespMsgs[op.Arg])
				h.SendErrs = append(h.SendErrs, err)
				if err == nil {
					h.Sent++
				} else if p.ReturnSendErr {
					return
				}
			}
		case "sethdr":
			if st.hdr != nil {
				merge(st.hdr(), p.RespHeader)
			}
		case "settrl":
			if st.trl != nil {
				merge(st.trl(), p.RespTrailer)
			}
		case "latehdr":
			if st.hdr != nil {
				merge(st.hdr(), p.LateHeader)
			}
		case "forward":
			if st.fwd != nil {
				st.fwd()
			}
		case "panic":
			v := p.HPanic.value()
			h.PanicValue, h.Panicked = v, true
			panic(v)
		case "waitctx":
			select {
			case <-ctx.Done():
			case <-w.shutdown:
				// calibration world only: net/http's HTTP/1.1 server cannot
				// notice a disconnect while the request body is not read to its
				// end; the handler is released when the server shuts down
				h.NeverCancelled = true
			}
		case "sleep":
			time.Sleep(time.Duration(op.Arg) * time.Microsecond)
		}
	}
}

func merge(into, from http.Header) {
	keys := make([]string, 0, len(from))
	for k := range from {
		keys = append(keys, k)
	}
	sort.Strings(keys)
	for _, k := range keys {
		if len(from[k]) == 0 {
			// a key without values: what req.Header().Values(absent) or an
			// announced, never-sent trailer of a forwarded response leaves behind
			if _, ok := into[k]; !ok {
				into[k] = nil
			}
			continue
		}
		for _, v := range from[k] {
			into.Add(k, v)
		}
	}
}

func (w *World) serveUnary(ctx context.Context, req *connect.Request[Msg]) (*connect.Response[Msg], error) {
	o := w.enter(ctx, req.Header(), req.Spec())
	if o == nil {
		return nil, connect.NewError(connect.CodeInternal, errors.New("sim: unknown call"))
	}
	o.H.Recv = append(o.H.Recv, w.recvValue(o, req.Msg))
	o.H.Peer = "unary"
	var err error
	defer func() { w.leave(ctx, o, err) }()
	w.runProg(ctx, o, hstream{fwd: func() {
		// the gateway pattern: the very request object is handed to another
		// client (whose transport is down)
		down := connect.NewClient[Msg, Msg](downDoer{}, "http://downstream.test/sim.v1.Down/Call")
		_, _ = down.CallUnary(ctx, req)
	}})
	if err = o.Plan.ownErr().build(ctx); err != nil {
		return nil, err
	}
	var body []byte
	if len(o.Plan.RespMsgs) > 0 {
		body = o.Plan.RespMsgs[0]
	}
	res := connect.NewResponse(mkMsg(body))
	merge(res.Header(), o.Plan.RespHeader)
	merge(res.Trailer(), o.Plan.RespTrailer)
	return res, nil
}

func (w *World) serveClientStream(ctx context.Context, stream *connect.ClientStream[Msg]) (*connect.Response[Msg], error) {
	o := w.enter(ctx, stream.RequestHeader(), connect.Spec{})
	if o == nil {
		return nil, connect.NewError(connect.CodeInternal, errors.New("sim: unknown call"))
	}
	var err error
	defer func() { w.leave(ctx, o, err) }()
	w.runProg(ctx, o, hstream{recv: func() ([]byte, error) {
		if stream.Receive() {
			return w.recvValue(o, stream.Msg()), nil
		}
		if e := stream.Err(); e != nil {
			return nil, e
		}
		return nil, io.EOF
	}})
	if err = recvFailure(o); err != nil {
		return nil, err
	}
	if err = o.Plan.ownErr().build(ctx); err != nil {
		return nil, err
	}
	var body []byte
	if len(o.Plan.RespMsgs) > 0 {
		body = o.Plan.RespMsgs[0]
	}
	res := connect.NewResponse(mkMsg(body))
	merge(res.Header(), o.Plan.RespHeader)
	merge(res.Trailer(), o.Plan.RespTrailer)
	return res, nil
}

func (w *World) serveServerStream(ctx context.Context, req *connect.Request[Msg], stream *connect.ServerStream[Msg]) error {
	o := w.enter(ctx, req.Header(), req.Spec())
	if o == nil {
		return connect.NewError(connect.CodeInternal, errors.New("sim: unknown call"))
	}
	o.H.Recv = append(o.H.Recv, w.recvValue(o, req.Msg))
	var err error
	defer func() { w.leave(ctx, o, err) }()
	w.runProg(ctx, o, hstream{
		send: func(b []byte) error { return stream.Send(mkMsg(b)) },
		hdr:  stream.ResponseHeader,
		trl:  stream.ResponseTrailer,
	})
	if err = recvFailure(o); err != nil {
		return err
	}
	err = o.Plan.ownErr().build(ctx)
	return err
}

func (w *World) serveBidi(ctx context.Context, stream *connect.BidiStream[Msg, Msg]) error {
	o := w.enter(ctx, stream.RequestHeader(), connect.Spec{})
	if o == nil {
		return connect.NewError(connect.CodeInternal, errors.New("sim: unknown call"))
	}
	var err error
	defer func() { w.leave(ctx, o, err) }()
	w.runProg(ctx, o, hstream{
		recv: func() ([]byte, error) {
			m, e := stream.Receive()
			if e != nil {
				return nil, e
			}
			return w.recvValue(o, m), nil
		},
		send: func(b []byte) error { return stream.Send(mkMsg(b)) },
		hdr:  stream.ResponseHeader,
		trl:  stream.ResponseTrailer,
	})
	if err = recvFailure(o); err != nil {
		return err
	}
	err = o.Plan.ownErr().build(ctx)
	return err
}

// ---------------------------------------------------------------- clients

type opPred struct{}

func (w *World) opGate(o *CallObs, op string) {
	w.S.Gate(o.Plan.ID+"/op/"+op, nil)
}

// Start launches the client tasks of every call. Calls with the same Task
// number run sequentially on one task.
func (w *World) Start() {
	groups := map[int][]*CallObs{}
	var order []int
	for _, o := range w.Obs {
		if _, ok := groups[o.Plan.Task]; !ok {
			order = append(order, o.Plan.Task)
		}
		groups[o.Plan.Task] = append(groups[o.Plan.Task], o)
	}
	for _, g := range order {
		calls := groups[g]
		w.S.Go(fmt.Sprintf("t%02d", g), func(t *core.Task) {
			for _, o := range calls {
				w.runCall(t, o)
			}
		})
	}
}

func (w *World) callCtx(o *CallObs) (context.Context, context.CancelFunc, func()) {
	base := context.WithValue(context.Background(), obsKey{}, o)
	ctx := simhttp.WithCall(base, o.Call)
	cancel := func() {}
	cleanup := func() {}
	o.StartTime = time.Now()
	if d := o.Plan.Deadline; d != 0 {
		o.Call.Ctx.SetDeadline(o.StartTime.Add(d))
		if o.Plan.InterceptDeadline {
			// the effective deadline comes from a client interceptor
			d = o.Plan.CallerDeadline
		}
		if d != 0 {
			var c context.CancelFunc
			ctx, c = context.WithTimeout(ctx, d)
			cleanup = c
		}
	}
	if o.Plan.LiveCtx {
		var c context.CancelFunc
		ctx, c = context.WithCancel(ctx)
		o.liveCancel = c // never called while the run lasts
	}
	if o.Plan.CancelTask || o.Plan.CancelBefore || hasCancelOp(o.Plan) {
		var c context.CancelFunc
		ctx, c = context.WithCancel(ctx)
		prev := cancel
		cancel = func() {
			if o.CancelStep < 0 {
				o.CancelStep = stepsNow(w.S)
				o.CancelTime = time.Now()
			}
			c()
			o.Call.Ctx.SetCancelled()
			prev()
		}
	}
	return ctx, cancel, cleanup
}

func hasCancelOp(p *CallPlan) bool {
	for _, op := range p.CProg {
		if op.Op == "cancel" {
			return true
		}
	}
	for _, op := range p.CProgRcv {
		if op.Op == "cancel" {
			return true
		}
	}
	return false
}

func (w *World) rec(o *CallObs, rcv bool, r OpRec) {
	r.End = stepsNow(w.S)
	r.EndT = time.Now()
	r.DownRead = o.Call.DownReadOffset()
	if rcv {
		o.OpsRcv = append(o.OpsRcv, r)
	} else {
		o.Ops = append(o.Ops, r)
	}
}

func (w *World) setFinal(o *CallObs, err error) {
	if err != nil {
		w.touchErr(o, err)
	}
	if !o.FinalSet {
		o.Final, o.FinalSet = err, true
		if err != nil {
			o.FinalText = err.Error()
			var ce *connect.Error
			if errors.As(err, &ce) {
				o.FinalMeta = hdrString(ce.Meta())
			}
		}
	}
}

func (w *World) runCall(t *core.Task, o *CallObs) {
	p := o.Plan
	if p.Raw != nil {
		w.runRaw(t, o)
		return
	}
	// The context is created in the same scheduler step as the call starts,
	// so that time.Until(deadline) inside the library equals the planned
	// duration exactly.
	w.opGate(o, "begin")
	ctx, cancel, cleanup := w.callCtx(o)
	defer cleanup()
	defer func() {
		if o.icptCancel != nil {
			o.icptCancel()
		}
	}()
	if p.CancelTask {
		w.S.Go(p.ID+"/canceller", func(*core.Task) {
			if w.real != nil && p.CancelDelay > 0 {
				time.Sleep(p.CancelDelay) // free-running world: no scheduler step to land on
			} else if p.CancelLate && p.CancelDelay > 0 {
				// Released at a scheduler-chosen step in any case; without this
				// gate that step is an early one far more often than not (the
				// canceller competes from the start), with it the instant lands
				// anywhere in the life of the call.
				w.S.Gate(p.ID+"/canceller.delay", simhttp.After(time.Now().Add(p.CancelDelay)))
			}
			cancel()
		})
	}
	if p.CancelBefore {
		w.opGate(o, "cancel")
		cancel()
	}
	client := w.client(p)
	switch p.Kind {
	case KUnary:
		t.SetWhere(p.ID + " CallUnary")
		var body []byte
		if len(p.ReqMsgs) > 0 {
			body = p.ReqMsgs[0]
		}
		req := connect.NewRequest(mkMsg(body))
		if prev := w.byID[p.ReuseRequestOf]; p.ReuseRequestOf != "" && prev != nil && prev.SentReq != nil {
			req = prev.SentReq // the caller re-sends the same Request object (same task, sequentially)
			req.Msg = mkMsg(body)
		}
		req.Header().Set(callHeader, p.ID)
		merge(req.Header(), p.ReqHeader)
		o.SentReq = req
		r := OpRec{Op: "unary", Start: stepsNow(w.S), StartT: time.Now()}
		res, err := client.CallUnary(ctx, req)
		r.Err = err
		if err == nil && res != nil {
			r.HasMsg, r.Msg = true, w.recvValue(o, res.Msg)
			o.Recv = append(o.Recv, r.Msg)
			o.RecvRaw = append(o.RecvRaw, res.Msg)
			o.RawHeader, o.RawTrailer = res.Header(), res.Trailer()
			o.RespHeader, o.RespTrailer = res.Header().Clone(), res.Trailer().Clone()
		}
		w.rec(o, false, r)
		w.setFinal(o, err)
	case KClient:
		stream := client.CallClientStream(ctx)
		stream.RequestHeader().Set(callHeader, p.ID)
		merge(stream.RequestHeader(), p.ReqHeader)
		for _, op := range p.CProg {
			switch op.Op {
			case "send":
				w.opGate(o, "send")
				t.SetWhere(p.ID + " Send")
				r := OpRec{Op: "send", Arg: op.Arg, Start: stepsNow(w.S), StartT: time.Now()}
				r.Err = stream.Send(mkMsg(p.ReqMsgs[op.Arg]))
				w.rec(o, false, r)
			case "sleep":
				// the caller is busy elsewhere for a while (fake clock)
				time.Sleep(time.Duration(op.Arg) * time.Microsecond)
			case "cancel":
				w.opGate(o, "cancel")
				cancel()
			}
		}
		if p.Abandon && o.CancelStep >= 0 {
			// the program finished by cancelling its context: nothing more is
			// called on the stream, and nothing may be left behind
			w.setFinal(o, context.Canceled)
			break
		}
		w.opGate(o, "closeandreceive")
		t.SetWhere(p.ID + " CloseAndReceive")
		r := OpRec{Op: "closeandreceive", Start: stepsNow(w.S), StartT: time.Now()}
		res, err := stream.CloseAndReceive()
		r.Err = err
		if err == nil && res != nil {
			r.HasMsg, r.Msg = true, w.recvValue(o, res.Msg)
			o.Recv = append(o.Recv, r.Msg)
			o.RecvRaw = append(o.RecvRaw, res.Msg)
			o.RawHeader, o.RawTrailer = res.Header(), res.Trailer()
			o.RespHeader, o.RespTrailer = res.Header().Clone(), res.Trailer().Clone()
		}
		w.rec(o, false, r)
		w.setFinal(o, err)
	case KServer:
		t.SetWhere(p.ID + " CallServerStream")
		var body []byte
		if len(p.ReqMsgs) > 0 {
			body = p.ReqMsgs[0]
		}
		req := connect.NewRequest(mkMsg(body))
		if prev := w.byID[p.ReuseRequestOf]; p.ReuseRequestOf != "" && prev != nil && prev.SentReq != nil {
			req = prev.SentReq // the Request object of an earlier unary call, sent again
			req.Msg = mkMsg(body)
		}
		req.Header().Set(callHeader, p.ID)
		merge(req.Header(), p.ReqHeader)
		r := OpRec{Op: "callserverstream", Start: stepsNow(w.S), StartT: time.Now()}
		stream, err := client.CallServerStream(ctx, req)
		r.Err = err
		w.rec(o, false, r)
		if err != nil {
			w.setFinal(o, err)
			break
		}
		stop := false
		for _, op := range p.CProg {
			if stop {
				break
			}
			switch op.Op {
			case "peekhdr":
				w.opGate(o, "peekhdr")
				t.SetWhere(p.ID + " ResponseHeader")
				o.PeekHeader = stream.ResponseHeader().Clone()
				o.Peeked = true
			case "recv", "recvall":
				for {
					w.opGate(o, "recv")
					t.SetWhere(p.ID + " Receive")
					r := OpRec{Op: "recv", Start: stepsNow(w.S), StartT: time.Now()}
					ok := stream.Receive()
					if ok {
						r.HasMsg, r.Msg = true, w.recvValue(o, stream.Msg())
						o.Recv = append(o.Recv, r.Msg)
						o.RecvRaw = append(o.RecvRaw, proto.Clone(stream.Msg()).(*Msg))
					} else {
						r.Err = stream.Err()
						if r.Err == nil {
							r.Err = io.EOF
						}
						w.setFinal(o, stream.Err())
						stop = true
					}
					w.rec(o, false, r)
					if !ok || op.Op == "recv" {
						break
					}
				}
			case "sleep":
				// the caller is busy elsewhere for a while (fake clock)
				time.Sleep(time.Duration(op.Arg) * time.Microsecond)
			case "cancel":
				w.opGate(o, "cancel")
				cancel()
			}
		}
		if p.RecvPastEnd && o.FinalSet {
			// one more Receive after the stream has reported its end (a drain
			// helper, a loop that checks Err() afterwards)
			w.opGate(o, "recv")
			t.SetWhere(p.ID + " Receive")
			r := OpRec{Op: "recvmore", Start: stepsNow(w.S), StartT: time.Now()}
			if stream.Receive() {
				r.HasMsg, r.Msg = true, w.recvValue(o, stream.Msg())
			} else if r.Err = stream.Err(); r.Err == nil {
				r.Err = io.EOF
			}
			w.rec(o, false, r)
		}
		if o.FinalSet {
			o.RawHeader, o.RawTrailer = stream.ResponseHeader(), stream.ResponseTrailer()
			o.RespHeader, o.RespTrailer = o.RawHeader.Clone(), o.RawTrailer.Clone()
		}
		w.opGate(o, "close")
		t.SetWhere(p.ID + " Close")
		r = OpRec{Op: "closeresp", Start: stepsNow(w.S), StartT: time.Now()}
		r.Err = stream.Close()
		w.rec(o, false, r)
		if p.CloseTwice {
			r = OpRec{Op: "closeresp", Start: stepsNow(w.S), StartT: time.Now()}
			r.Err = stream.Close()
			w.rec(o, false, r)
		}
	case KBidi:
		stream := client.CallBidiStream(ctx)
		stream.RequestHeader().Set(callHeader, p.ID)
		merge(stream.RequestHeader(), p.ReqHeader)
		run := func(t *core.Task, prog []COp, rcv bool) {
			stop := false
			for _, op := range prog {
				switch op.Op {
				case "send":
					w.opGate(o, "send")
					t.SetWhere(p.ID + " Send")
					r := OpRec{Op: "send", Arg: op.Arg, Start: stepsNow(w.S), StartT: time.Now()}
					r.Err = stream.Send(mkMsg(p.ReqMsgs[op.Arg]))
					w.rec(o, rcv, r)
				case "peekhdr":
					w.opGate(o, "peekhdr")
					t.SetWhere(p.ID + " ResponseHeader")
					o.PeekHeader = stream.ResponseHeader().Clone()
					o.Peeked = true
				case "closereq":
					w.opGate(o, "closereq")
					t.SetWhere(p.ID + " CloseRequest")
					r := OpRec{Op: "closereq", Start: stepsNow(w.S), StartT: time.Now()}
					r.Err = stream.CloseRequest()
					w.rec(o, rcv, r)
				case "recv", "recvall":
					for !stop {
						w.opGate(o, "recv")
						t.SetWhere(p.ID + " Receive")
						r := OpRec{Op: "recv", Start: stepsNow(w.S), StartT: time.Now()}
						m, err := stream.Receive()
						r.Err = err
						if err == nil {
							r.HasMsg, r.Msg = true, w.recvValue(o, m)
							o.Recv = append(o.Recv, r.Msg)
							o.RecvRaw = append(o.RecvRaw, m)
						} else {
							w.touchErr(o, err)
							stop = true
							if errors.Is(err, io.EOF) {
								w.setFinal(o, nil)
							} else {
								w.setFinal(o, err)
							}
							o.RawHeader, o.RawTrailer = stream.ResponseHeader(), stream.ResponseTrailer()
							o.RespHeader, o.RespTrailer = o.RawHeader.Clone(), o.RawTrailer.Clone()
						}
						w.rec(o, rcv, r)
						if op.Op == "recv" {
							break
						}
					}
				case "recvmore":
					// one more Receive even after an error (stickiness probes)
					w.opGate(o, "recv")
					t.SetWhere(p.ID + " Receive")
					r := OpRec{Op: "recvmore", Start: stepsNow(w.S), StartT: time.Now()}
					m, err := stream.Receive()
					r.Err = err
					if err == nil {
						r.HasMsg, r.Msg = true, w.recvValue(o, m)
					}
					o.TrailerLater = stream.ResponseTrailer().Clone()
					w.rec(o, rcv, r)
				case "closeresp":
					w.opGate(o, "closeresp")
					t.SetWhere(p.ID + " CloseResponse")
					r := OpRec{Op: "closeresp", Start: stepsNow(w.S), StartT: time.Now()}
					r.Err = stream.CloseResponse()
					w.rec(o, rcv, r)
				case "sleep":
					// the caller is busy elsewhere for a while (fake clock)
					time.Sleep(time.Duration(op.Arg) * time.Microsecond)
				case "cancel":
					w.opGate(o, "cancel")
					cancel()
				}
			}
		}
		if p.Split {
			done := w.S.Go(p.ID+"/rcv", func(t2 *core.Task) { run(t2, p.CProgRcv, true) })
			run(t, p.CProg, false)
			// join: the task group continues only when the receiver finished
			w.S.Gate(p.ID+"/join", &joinPred{t: done})
		} else {
			run(t, p.CProg, false)
		}
	}
	t.SetWhere("")
	_ = cancel
}

type joinPred struct{ t *core.Task }

//go:norace
//go:noinline
func (j *joinPred) Ready(time.Time) bool { return j.t.Finished() }

//go:norace
//go:noinline
func (j *joinPred) Param(*core.Tape) int { return 0 }

func (j *joinPred) ReadyNow() bool { return j.t.Finished() }

// hedgeInterceptor prepares a backup connection next to the primary one for
// every streaming call (and never uses it), tagging each attempt.
type hedgeInterceptor struct{}

func (hedgeInterceptor) WrapUnary(next connect.UnaryFunc) connect.UnaryFunc { return next }

func (hedgeInterceptor) WrapStreamingHandler(next connect.StreamingHandlerFunc) connect.StreamingHandlerFunc {
	return next
}

func (hedgeInterceptor) WrapStreamingClient(next connect.StreamingClientFunc) connect.StreamingClientFunc {
	return func(ctx context.Context, spec connect.Spec) connect.StreamingClientConn {
		primary := next(ctx, spec)
		backup := next(ctx, spec)
		primary.RequestHeader().Set("X-Attempt", "primary")
		backup.RequestHeader().Set("X-Attempt", "backup")
		return primary
	}
}

// scratchInterceptor is an inspecting interceptor that avoids allocations: it
// receives every streamed message into one scratch value per stream - the
// conn-level Receive, into a message that held the previous one - looks at it,
// and copies it into the message the caller passed.
type scratchInterceptor struct{}

func (scratchInterceptor) WrapUnary(next connect.UnaryFunc) connect.UnaryFunc { return next }

func (scratchInterceptor) WrapStreamingHandler(next connect.StreamingHandlerFunc) connect.StreamingHandlerFunc {
	return func(ctx context.Context, conn connect.StreamingHandlerConn) error {
		return next(ctx, &scratchHandlerConn{StreamingHandlerConn: conn})
	}
}

func (scratchInterceptor) WrapStreamingClient(next connect.StreamingClientFunc) connect.StreamingClientFunc {
	return func(ctx context.Context, spec connect.Spec) connect.StreamingClientConn {
		return &scratchClientConn{StreamingClientConn: next(ctx, spec)}
	}
}

// (two scratch values used in turn - double buffering - so that a message is
// also received into a value that last held the one before the previous one)
type scratchHandlerConn struct {
	connect.StreamingHandlerConn
	scratch [2]Msg
	n       int
}

func (c *scratchHandlerConn) Receive(m any) error {
	c.n++
	return viaScratch(c.StreamingHandlerConn.Receive, &c.scratch[c.n%2], m)
}

type scratchClientConn struct {
	connect.StreamingClientConn
	scratch [2]Msg
	n       int
}

func (c *scratchClientConn) Receive(m any) error {
	c.n++
	return viaScratch(c.StreamingClientConn.Receive, &c.scratch[c.n%2], m)
}

func viaScratch(receive func(any) error, scratch *Msg, m any) error {
	dst, ok := m.(*Msg)
	if !ok {
		return receive(m)
	}
	if err := receive(scratch); err != nil {
		return err
	}
	proto.Reset(dst)
	proto.Merge(dst, scratch)
	return nil
}

// deadlineInterceptor is the usual default-timeout interceptor: the call runs
// under a context the interceptor derives from the caller's.
type deadlineInterceptor struct{}

func icptDeadline(ctx context.Context) (context.Context, context.CancelFunc) {
	if o, ok := ctx.Value(obsKey{}).(*CallObs); ok && o.Plan.InterceptDeadline && o.Plan.Deadline > 0 {
		return context.WithTimeout(ctx, o.Plan.Deadline)
	}
	return ctx, func() {}
}

func (deadlineInterceptor) WrapUnary(next connect.UnaryFunc) connect.UnaryFunc {
	return func(ctx context.Context, req connect.AnyRequest) (connect.AnyResponse, error) {
		if !req.Spec().IsClient {
			return next(ctx, req)
		}
		ctx, cancel := icptDeadline(ctx)
		defer cancel()
		return next(ctx, req)
	}
}

func (deadlineInterceptor) WrapStreamingHandler(next connect.StreamingHandlerFunc) connect.StreamingHandlerFunc {
	return next
}

func (deadlineInterceptor) WrapStreamingClient(next connect.StreamingClientFunc) connect.StreamingClientFunc {
	return func(ctx context.Context, spec connect.Spec) connect.StreamingClientConn {
		ctx, cancel := icptDeadline(ctx)
		if o, ok := ctx.Value(obsKey{}).(*CallObs); ok {
			o.icptCancel = cancel
		}
		return next(ctx, spec)
	}
}

// downDoer is the transport of a downstream service that cannot be reached.
type downDoer struct{}

func (downDoer) Do(req *http.Request) (*http.Response, error) {
	if req.Body != nil {
		_ = req.Body.Close()
	}
	return nil, errors.New("sim: downstream unreachable")
}

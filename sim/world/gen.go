package world

import (
	"fmt"
	"time"

	"verif/sim/core"
	"verif/sim/simhttp"
)

var algoUniverse = []string{"a", "b", "c"}

// genSubset returns a random subset of the custom algorithms in random
// order (choice 0 everywhere: empty set).
func genSubset(t *core.Tape, label string) []string {
	var out []string
	pool := append([]string(nil), algoUniverse...)
	n := t.Choose(len(pool)+1, label+".n")
	for i := 0; i < n; i++ {
		j := t.Choose(len(pool), label+".pick")
		out = append(out, pool[j])
		pool = append(pool[:j], pool[j+1:]...)
	}
	return out
}

func genProto(t *core.Tape) Proto { return Proto(t.Choose(3, "proto")) }

func genKind(t *core.Tape) Kind { return Kind(t.Choose(4, "kind")) }

var cminChoices = []int{0, 1, 2, 16, 512, 1024}

func genClientCfg(t *core.Tape) ClientCfg {
	c := ClientCfg{Proto: genProto(t), JSON: t.Bool(1, 3, "json")}
	c.Accept = genSubset(t, "accept")
	switch t.Choose(3, "sendcomp") {
	case 1:
		c.SendComp = "gzip"
	case 2:
		if len(c.Accept) > 0 {
			c.SendComp = c.Accept[t.Choose(len(c.Accept), "sendcomp.which")]
		}
	}
	c.CompressMin = cminChoices[t.Choose(len(cminChoices), "ccmin")]
	return c
}

func genHandlerCfg(t *core.Tape) HandlerCfg {
	h := HandlerCfg{Comp: genSubset(t, "hcomp")}
	h.CompressMin = cminChoices[t.Choose(len(cminChoices), "hcmin")]
	return h
}

// fixCompat makes sure the client's send compression is supported by the
// handler (properties that are not about negotiation failures).
func fixCompat(c *ClientCfg, h *HandlerCfg) {
	if c.SendComp == "" || c.SendComp == "gzip" {
		return
	}
	for _, n := range h.Comp {
		if n == c.SendComp {
			return
		}
	}
	h.Comp = append(h.Comp, c.SendComp)
}

var windowChoices = []int{1 << 20, 64 << 10, 4096, 512, 64, 7, 1}

// genKnobs draws transport parameters: adversarial segmentation, windows,
// flushing; no faults.
func genKnobs(t *core.Tape, kind Kind) simhttp.Knobs {
	k := simhttp.DefaultKnobs()
	if kind != KBidi {
		k.HTTP2 = !t.Bool(1, 3, "http1")
	}
	k.UpWindow = windowChoices[t.Choose(len(windowChoices), "upwin")]
	k.DownWindow = windowChoices[t.Choose(len(windowChoices), "downwin")]
	k.UpFrag = t.Pick([]int{2, 3, 1}, "upfrag")
	k.DownFrag = t.Pick([]int{2, 3, 1}, "downfrag")
	k.OneByteMax = 600
	k.UpEOFData = t.Bool(1, 2, "upeofdata")
	k.DownEOFData = t.Bool(1, 2, "downeofdata")
	k.AutoFlush = t.Bool(1, 3, "autoflush")
	k.ExtraHeaders = t.Bool(1, 4, "extrahdr")
	if kind != KBidi {
		// a middleware whose ResponseWriter wrapper has no Flush (not for bidi
		// streams, whose lock-step programs need the handler's messages out
		// before it returns)
		k.NoFlusher = t.Bool(1, 6, "noflusher")
	}
	// a transport goroutine that is busy for a while after forwarding request
	// bytes (so it learns late how the request body ended), and an end of
	// response that follows the handler's return late
	lags := []time.Duration{3, 10, 30, 100, 300}
	if t.Bool(1, 4, "pumplag") {
		k.PumpLag = lags[t.Choose(len(lags), "pumplag.us")] * time.Microsecond
	}
	// an HTTPClient middleware whose errors do not wrap their cause
	if t.Bool(1, 5, "opaque.do.err") {
		k.OpaqueDoErr = 1 + t.Choose(3, "opaque.do.err.kind")
	}
	if t.Bool(1, 4, "arrivelag") {
		// transit time: a deadline sent as a timeout ends later on the server
		// than on the client
		k.ArriveLag = lags[t.Choose(len(lags), "arrivelag.us")] * time.Microsecond
	}
	if t.Bool(1, 4, "finishlag") {
		k.FinishLag = lags[t.Choose(len(lags), "finishlag.us")] * time.Microsecond
	}
	if !k.HTTP2 {
		k.H1Close = t.Bool(1, 2, "h1close")
		k.H1LateClose = t.Bool(1, 2, "h1lateclose")
		k.H1LateCloseSlow = k.H1LateClose && t.Bool(1, 2, "h1lateclose.slow")
	}
	// net/http's servers keep a small answer to themselves until the handler
	// flushes or returns (and then give it a Content-Length)
	k.HoldAnswer = t.Bool(1, 2, "holdanswer")
	// an HTTPClient that is an in-memory fake: its hand-built Response says
	// nothing true about the body's length
	k.HandBuiltResp = t.Bool(1, 8, "handbuilt.response")
	if k.HTTP2 {
		k.Lazy = t.Bool(1, 4, "lazy")
		if t.Bool(1, 2, "postaccept") {
			k.PostAccept = t.Choose(k.UpWindow+1, "postaccept.n")
		}
	}
	return k
}

// genYield picks the library yield points that park in this run and which
// of them are slow.
func genYield(t *core.Tape, p *CallPlan) {
	mode := t.Pick([]int{3, 3, 2}, "yieldmode")
	for i := 0; i < simhttp.NumPoints; i++ {
		switch mode {
		case 0: // none
		case 1: // random subset
			p.YieldOn[i] = t.Bool(1, 3, "yield.on")
		case 2: // all
			p.YieldOn[i] = true
		}
		if p.YieldOn[i] && t.Bool(1, 6, "yield.slow") {
			p.SlowOn[i] = true
		}
	}
}

// payload strata; cmin is the relevant compression threshold. Sizes are
// sizes of the BytesValue's value; the encoded message is 2-3 bytes longer
// (proto) or 4/3 as long (JSON), so the strata around the 512-byte pool seed
// and around the threshold are windows, not single values: every encoded
// size from a few bytes below to a few bytes above the boundary is hit.
func genSize(t *core.Tape, cmin int, tier string) int {
	switch t.Pick([]int{10, 3, 2, 2}, "size.stratum") {
	case 1: // encoded size straddles 512 (proto: value+3)
		return 498 + t.Choose(20, "size.near512")
	case 2: // JSON: base64 of n bytes is 4*ceil(n/3)+2 characters
		return 372 + t.Choose(16, "size.near512json")
	case 3:
		if cmin > 8 {
			return cmin - 6 + t.Choose(9, "size.nearcmin")
		}
	}
	base := []int{0, 1, 2, 5, 100, 511, 512, 513, 4096}
	if cmin > 1 {
		base = append(base, cmin-1, cmin, cmin+1)
	}
	w := make([]int, len(base))
	for i := range w {
		w[i] = 4
	}
	w[0] = 8
	base = append(base, 65536)
	w = append(w, 2)
	if tier == "thorough" {
		// 1 MiB, and values around the 8 MiB buffer recycle cap
		base = append(base, 1<<20, 8<<20-8, 8<<20+8)
		w = append(w, 1, 1, 1)
	}
	return base[t.Pick(w, "size")]
}

func genPayload(t *core.Tape, cmin int, tier string) []byte {
	n := genSize(t, cmin, tier)
	return t.Bytes(n, t.Pick([]int{1, 2, 2}, "bytes.kind"), "bytes")
}

func genMsgs(t *core.Tape, n, cmin int, tier string) [][]byte {
	out := make([][]byte, n)
	for i := range out {
		out[i] = genPayload(t, cmin, tier)
	}
	return out
}

func genCount(t *core.Tape, label string) int {
	// 0..8, occasionally more
	if t.Bool(1, 12, label+".long") {
		return 9 + t.Choose(16, label+".n")
	}
	return t.Choose(9, label)
}

func callID(i int) string { return fmt.Sprintf("c%02d", i) }

// stdPrograms fills in the plain, well-behaved client and handler programs
// for a call whose message lists are already set.
func stdPrograms(t *core.Tape, p *CallPlan) {
	switch p.Kind {
	case KUnary:
	case KClient:
		for i := range p.ReqMsgs {
			p.CProg = append(p.CProg, COp{Op: "send", Arg: i})
		}
		p.HProg = []HOp{{Op: "drain"}}
	case KServer:
		p.CProg = []COp{{Op: "recvall"}}
		p.HProg = append(p.HProg, HOp{Op: "sethdr"})
		for i := range p.RespMsgs {
			p.HProg = append(p.HProg, HOp{Op: "send", Arg: i})
		}
		p.HProg = append(p.HProg, HOp{Op: "settrl"})
	case KBidi:
		p.Split = t.Bool(1, 2, "split")
		var sends []COp
		for i := range p.ReqMsgs {
			sends = append(sends, COp{Op: "send", Arg: i})
		}
		sends = append(sends, COp{Op: "closereq"})
		if p.Split {
			p.CProg = sends
			p.CProgRcv = []COp{{Op: "recvall"}, {Op: "closeresp"}}
		} else {
			p.CProg = append(sends, COp{Op: "recvall"}, COp{Op: "closeresp"})
		}
		shape := 0
		if p.Split {
			shape = t.Choose(3, "hshape")
		}
		p.HProg = append(p.HProg, HOp{Op: "sethdr"})
		switch shape {
		case 0: // drain, then send everything
			p.HProg = append(p.HProg, HOp{Op: "drain"})
			for i := range p.RespMsgs {
				p.HProg = append(p.HProg, HOp{Op: "send", Arg: i})
			}
		case 1: // alternate
			n := len(p.ReqMsgs)
			if len(p.RespMsgs) > n {
				n = len(p.RespMsgs)
			}
			for i := 0; i < n; i++ {
				if i < len(p.ReqMsgs) {
					p.HProg = append(p.HProg, HOp{Op: "recv"})
				}
				if i < len(p.RespMsgs) {
					p.HProg = append(p.HProg, HOp{Op: "send", Arg: i})
				}
			}
			p.HProg = append(p.HProg, HOp{Op: "drain"})
		case 2: // send everything, then drain
			for i := range p.RespMsgs {
				p.HProg = append(p.HProg, HOp{Op: "send", Arg: i})
			}
			p.HProg = append(p.HProg, HOp{Op: "drain"})
		}
		p.HProg = append(p.HProg, HOp{Op: "settrl"})
	}
}

// boundSteps keeps the number of scheduler steps of a call reasonable: a
// window of w bytes costs about size/w pump steps per message.
func boundSteps(p *CallPlan) {
	m := 0
	for _, b := range p.ReqMsgs {
		if len(b) > m {
			m = len(b)
		}
	}
	for _, b := range p.RespMsgs {
		if len(b) > m {
			m = len(b)
		}
	}
	if min := m / 48; min > 1 {
		if p.K.UpWindow < min {
			p.K.UpWindow = min
		}
		if p.K.DownWindow < min {
			p.K.DownWindow = min
		}
	}
}

// genMessagesFor draws request and response message lists shaped by kind.
func genMessagesFor(t *core.Tape, p *CallPlan, ccmin, hcmin int, tier string) {
	nreq, nresp := 1, 1
	if p.Kind == KClient || p.Kind == KBidi {
		nreq = genCount(t, "nreq")
	}
	if p.Kind == KServer || p.Kind == KBidi {
		nresp = genCount(t, "nresp")
	}
	p.ReqMsgs = genMsgs(t, nreq, ccmin, tier)
	p.RespMsgs = genMsgs(t, nresp, hcmin, tier)
}

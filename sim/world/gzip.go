package world

import (
	"bytes"
	"compress/gzip"
	"io"
)

func gzipBytes(b []byte) []byte {
	var out bytes.Buffer
	w := gzip.NewWriter(&out)
	_, _ = w.Write(b)
	_ = w.Close()
	return out.Bytes()
}

func gunzipBytes(b []byte, max int) ([]byte, error) {
	r, err := gzip.NewReader(bytes.NewReader(b))
	if err != nil {
		return nil, err
	}
	return io.ReadAll(io.LimitReader(r, int64(max)+1))
}

var errEOF = io.EOF

package world

import (
	"bytes"
	"sync/atomic"

	connect "github.com/bufbuild/connect-go"

	"verif/sim/simhttp"
)

// Deterministic replacements for the library's sync.Pools (tag verif hooks).
//
// The free lists are touched only through norace helpers: tasks run one at a
// time, and the harness must not add happens-before edges between tasks that
// the real sync.Pool would not add. What sync.Pool does provide — an edge from
// Put(x) to the Get that returns x — is reproduced per entry with an atomic.

const (
	poolSlots = 512
	maxPools  = 128
	poison    = 0xDB
)

type freeList struct {
	owner any
	kind  int
	items [poolSlots]any
	sync  [poolSlots]atomic.Int32
	n     int
	head  int // FIFO read index
}

type poolStats struct {
	BufGets, BufPuts, BufReuse  int
	BufDropped                  int
	MaxReleasedCap              int
	CompGets, CompReuse         int
	DoublePutBuf, DoublePutComp int // the same object handed back while it is still in the pool
	Vanished                    int // entries dropped as if by a GC
}

type pools struct {
	lists [maxPools]freeList
	nl    int
	fifo  bool
	drop  uint32 // non-zero: entries vanish now and then, as a sync.Pool's do at a GC (LCG state)
	stats poolStats
}

var curPools *pools

var poolsCache []*pools

func newPools(fifo bool, drop uint32) *pools {
	if n := len(poolsCache); n > 0 {
		p := poolsCache[n-1]
		poolsCache = poolsCache[:n-1]
		p.fifo, p.drop = fifo, drop
		return p
	}
	return &pools{fifo: fifo, drop: drop}
}

// recycle clears the used part of a finished run's pools and keeps the
// structure for the next run.
func (p *pools) recycle() {
	for i := 0; i < p.nl; i++ {
		l := &p.lists[i]
		l.owner = nil
		clear(l.items[:])
		l.n, l.head = 0, 0
	}
	p.nl = 0
	p.stats = poolStats{}
	if len(poolsCache) < 4 {
		poolsCache = append(poolsCache, p)
	}
}

//go:norace
//go:noinline
func setPools(p *pools) { curPools = p }

//go:norace
//go:noinline
func getPools() *pools { return curPools }

//go:norace
//go:noinline
func (p *pools) find(owner any, kind int) *freeList {
	for i := 0; i < p.nl; i++ {
		if p.lists[i].owner == owner && p.lists[i].kind == kind {
			return &p.lists[i]
		}
	}
	if p.nl >= maxPools {
		return nil
	}
	l := &p.lists[p.nl]
	l.owner, l.kind = owner, kind
	p.nl++
	return l
}

//go:norace
//go:noinline
func (p *pools) take(owner any, kind int) any {
	l := p.find(owner, kind)
	if l == nil || l.n-l.head <= 0 {
		return nil
	}
	var idx int
	if p.fifo {
		idx = l.head
		l.head++
	} else {
		l.n--
		idx = l.n
	}
	l.sync[idx%poolSlots].Load() // acquire: pairs with the Store in give
	v := l.items[idx%poolSlots]
	l.items[idx%poolSlots] = nil
	if l.head == l.n {
		l.head, l.n = 0, 0
	}
	if p.drop != 0 {
		p.drop = p.drop*1664525 + 1013904223
		if (p.drop>>16)%4 == 0 {
			p.stats.Vanished++
			return nil
		}
	}
	return v
}

//go:norace
//go:noinline
func (p *pools) give(owner any, kind int, v any) bool {
	l := p.find(owner, kind)
	if l == nil || l.n-l.head >= poolSlots-1 || l.n >= 1<<30 {
		return false
	}
	for i := l.head; i < l.n; i++ {
		if l.items[i%poolSlots] == v {
			if kind == 2 {
				p.stats.DoublePutBuf++
			} else {
				p.stats.DoublePutComp++
			}
			break
		}
	}
	idx := l.n
	l.items[idx%poolSlots] = v
	l.sync[idx%poolSlots].Store(1) // release
	l.n++
	return true
}

//go:norace
//go:noinline
func bufGet(pool any) *bytes.Buffer {
	p := getPools()
	if p == nil {
		return nil
	}
	p.stats.BufGets++
	if v := p.take(pool, 2); v != nil {
		p.stats.BufReuse++
		return v.(*bytes.Buffer)
	}
	return nil
}

// bufRelease poisons every released buffer so that any later read through a
// stale alias yields 0xDB bytes instead of plausible data.
func bufRelease(pool any, b *bytes.Buffer) {
	p := getPools()
	if p == nil {
		return
	}
	c := b.Cap()
	noteRelease(p, c)
	b.Reset()
	if c > 8<<20 {
		c = 8 << 20 // enough to ruin any message; keeps giant buffers cheap
	}
	s := b.Bytes()[:c]
	for i := range s {
		s[i] = poison
	}
}

//go:norace
//go:noinline
func noteRelease(p *pools, c int) {
	p.stats.BufPuts++
	if c > p.stats.MaxReleasedCap {
		p.stats.MaxReleasedCap = c
	}
}

//go:norace
//go:noinline
func bufPut(pool any, b *bytes.Buffer) bool {
	p := getPools()
	if p == nil {
		return false
	}
	if !p.give(pool, 2, b) {
		p.stats.BufDropped++
	}
	return true
}

//go:norace
//go:noinline
func poolGet(pool any, kind int) any {
	p := getPools()
	if p == nil {
		return nil
	}
	p.stats.CompGets++
	v := p.take(pool, kind)
	if v != nil {
		p.stats.CompReuse++
		setPooled(v, false)
	}
	return v
}

// setPooled tells an instrumented (de)compressor whether it is lying in the
// pool: between Put and the next Get nobody may touch it.
//
//go:norace
//go:noinline
func setPooled(v any, pooled bool) {
	switch x := v.(type) {
	case *simDecompressor:
		x.pooled = pooled
	case *simCompressor:
		x.pooled = pooled
	}
}

//go:norace
//go:noinline
func poolPut(pool any, kind int, v any) bool {
	p := getPools()
	if p == nil {
		return false
	}
	p.give(pool, kind, v)
	setPooled(v, true)
	return true
}

// InstallHooks wires the simulator into connect-go's verif seams.
func InstallHooks() {
	connect.VerifHooks.Yield = simhttp.Yield
	connect.VerifHooks.BufferGet = bufGet
	connect.VerifHooks.BufferRelease = bufRelease
	connect.VerifHooks.BufferPut = bufPut
	connect.VerifHooks.PoolGet = poolGet
	connect.VerifHooks.PoolPut = poolPut
}

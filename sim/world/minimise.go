package world

import (
	"testing"

	"verif/sim/core"
)

// minimise shrinks a failing tape by delta debugging: truncate, zero blocks,
// delete blocks, lower single values. A candidate is accepted only if a fresh
// run yields a violation of the same class.
func minimise(t *testing.T, prop *Prop, tier string, tape []int, v Violation) *ViolationRec {
	runs := 0
	budget := 400
	fails := func(cand []int) (bool, *RunResult) {
		if runs >= budget {
			return false, nil
		}
		runs++
		res := RunOne(t, prop, core.ReplayTape(cand), RunOpts{Tier: tier})
		for _, x := range res.Violations {
			if x.Class == v.Class {
				return true, res
			}
		}
		return false, nil
	}
	cur := append([]int(nil), tape...)
	// trailing zeros are implicit
	trim := func(s []int) []int {
		for len(s) > 0 && s[len(s)-1] == 0 {
			s = s[:len(s)-1]
		}
		return s
	}
	cur = trim(cur)
	// 1. truncate suffix (binary search for the shortest failing prefix)
	lo, hi := 0, len(cur)
	for lo < hi && runs < budget {
		mid := (lo + hi) / 2
		if ok, _ := fails(cur[:mid]); ok {
			hi = mid
		} else {
			lo = mid + 1
		}
	}
	if hi < len(cur) {
		if ok, _ := fails(cur[:hi]); ok {
			cur = trim(append([]int(nil), cur[:hi]...))
		}
	}
	// 2. zero blocks, 3. delete blocks
	for size := len(cur) / 2; size >= 1 && runs < budget; size /= 2 {
		for i := 0; i+size <= len(cur) && runs < budget; {
			allZero := true
			for _, x := range cur[i : i+size] {
				if x != 0 {
					allZero = false
				}
			}
			if !allZero {
				cand := append([]int(nil), cur...)
				for j := i; j < i+size; j++ {
					cand[j] = 0
				}
				if ok, _ := fails(cand); ok {
					cur = cand
					i += size
					continue
				}
			}
			cand := append(append([]int(nil), cur[:i]...), cur[i+size:]...)
			if ok, _ := fails(cand); ok {
				cur = cand
				continue
			}
			i += size
		}
	}
	cur = trim(cur)
	// 4. lower single values
	for i := 0; i < len(cur) && runs < budget; i++ {
		for cur[i] > 0 && runs < budget {
			cand := append([]int(nil), cur...)
			cand[i] = cur[i] / 2
			if ok, _ := fails(cand); ok {
				cur = cand
			} else {
				break
			}
		}
	}
	cur = trim(cur)
	// final descriptive run
	final := RunOne(t, prop, core.ReplayTape(cur), RunOpts{Tier: tier, KeepTrace: true})
	rec := &ViolationRec{Prop: prop.ID, Class: v.Class, Msg: v.Msg, Tape: cur, OrigLen: len(tape), Tier: tier, Shrinks: runs}
	found := false
	for _, x := range final.Violations {
		if x.Class == v.Class {
			rec.Msg = x.Msg
			found = true
		}
	}
	if !found {
		// shrinking went wrong (should not happen: every accepted candidate failed) — fall back to the original
		rec.Tape = tape
		final = RunOne(t, prop, core.ReplayTape(tape), RunOpts{Tier: tier, KeepTrace: true})
	}
	rec.Hash = final.Hash
	rec.Trace = final.Trace
	if len(rec.Trace) > 200 {
		rec.Trace = rec.Trace[:200]
	}
	rec.Scenario = final.Sample
	return rec
}

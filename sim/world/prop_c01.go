package world

import (
	"bytes"
	"errors"
	"fmt"
	"io"

	"verif/sim/core"
)

// C01 — every message sent is received intact, in order, exactly once, in
// both directions, followed by a clean end of stream. Fault-free transport;
// segmentation, windows, flushing, scheduling and pool reuse adversarial.

func init() {
	register(&Prop{ID: "C01", Gen: genC01, Check: checkC01, HangIsViolation: false})
}

func genC01(t *core.Tape, tier string) *Scenario {
	sc := &Scenario{Prop: "C01", Notes: map[string]int{}}
	sc.PoolFIFO = t.Bool(1, 4, "poolfifo")
	if t.Bool(1, 6, "pooldrop") {
		sc.PoolDrop = uint32(1 + t.Choose(1<<20, "pooldrop.seed"))
	}
	h := genHandlerCfg(t)
	c := genClientCfg(t)
	fixCompat(&c, &h)
	if t.Bool(1, 6, "scratch.interceptor") {
		// an interceptor on one side that reads streamed messages through the
		// conn-level API into a scratch value it keeps per stream
		if t.Bool(1, 2, "scratch.on.client") {
			c.Scratch = true
		} else {
			h.Scratch = true
		}
		sc.Notes["interceptor_receives_into_scratch_value"]++
	}
	sc.Handlers = []HandlerCfg{h}
	sc.Clients = []ClientCfg{c}
	ncalls := 1 + t.Pick([]int{3, 2, 1}, "ncalls")
	for i := 0; i < ncalls; i++ {
		p := &CallPlan{ID: callID(i), Kind: genKind(t)}
		p.K = genKnobs(t, p.Kind)
		p.LiveCtx = t.Bool(1, 3, "live.ctx")
		genMessagesFor(t, p, c.CompressMin, h.CompressMin, tier)
		// zero-valued messages anywhere, in particular after non-zero ones
		if t.Bool(1, 2, "zeros") {
			for j := range p.ReqMsgs {
				if t.Bool(1, 3, "zero.req") {
					p.ReqMsgs[j] = []byte{}
					sc.Notes["zero_after_nonzero"] += boolInt(j > 0 && len(p.ReqMsgs[j-1]) > 0)
				}
			}
			for j := range p.RespMsgs {
				if t.Bool(1, 3, "zero.resp") {
					p.RespMsgs[j] = []byte{}
					sc.Notes["zero_after_nonzero"] += boolInt(j > 0 && len(p.RespMsgs[j-1]) > 0)
				}
			}
		}
		// a sender built from a newer schema: some messages carry a field the
		// receiver's schema does not know; the binary codec must deliver it
		if !c.JSON && t.Bool(1, 4, "unknown.fields") {
			for _, msgs := range []*[][]byte{&p.ReqMsgs, &p.RespMsgs} {
				for j := range *msgs {
					if t.Bool(1, 2, "unknown.here") {
						(*msgs)[j] = append(append([]byte(nil), unknownMarker...), (*msgs)[j]...)
						sc.Notes["messages_with_unknown_field"]++
					}
				}
			}
		}
		if len(p.ReqMsgs) > 0 && t.Bool(1, 10, "unsendable") {
			// one request message cannot be marshalled (as a proto3 string with
			// invalid UTF-8 cannot): that Send fails on the client, and nothing
			// the client did not send may reach the handler
			sc.Clients[0].FailCodec = true
			i := t.Choose(len(p.ReqMsgs), "unsendable.which")
			marker := marshalFailMarker
			if t.Bool(1, 3, "unsendable.eof") {
				marker = marshalFailEOFMarker // the codec's complaint wraps io.EOF
			}
			p.ReqMsgs[i] = append(append([]byte(nil), marker...), p.ReqMsgs[i]...)
			p.unsendable = i + 1
			sc.Notes["unsendable_request_message"]++
		}
		stdPrograms(t, p)
		boundSteps(p)
		genYield(t, p)
		// calls run sequentially on one task (pool reuse between calls) or
		// concurrently
		if t.Bool(1, 3, "concurrent") {
			p.Task = i
		} else if p.Kind == KUnary {
			// the caller re-uses the Request object of an earlier unary call for
			// a new message (a retry loop that keeps its Request)
			for _, q := range sc.Calls {
				if q.Kind == KUnary && q.Task == 0 && t.Bool(1, 2, "resend.request") {
					p.ReuseRequestOf = q.ID
					sc.Notes["request_object_resent"]++
					break
				}
			}
		}
		sc.Calls = append(sc.Calls, p)
	}
	return sc
}

func boolInt(b bool) int {
	if b {
		return 1
	}
	return 0
}

func isPoison(b []byte) bool {
	if len(b) < 4 {
		return false
	}
	n := 0
	for _, x := range b {
		if x == poison {
			n++
		}
	}
	return n*2 > len(b)
}

// seqMismatch compares the received sequence with the sent one and returns a
// violation class suffix and message ("" if equal).
func seqMismatch(sent, got [][]byte) (string, string) {
	for i := 0; i < len(sent) && i < len(got); i++ {
		if bytes.Equal(sent[i], got[i]) {
			continue
		}
		switch {
		case isPoison(got[i]):
			return "poisoned-payload", fmt.Sprintf("message %d contains released-buffer poison", i)
		case len(sent[i]) == 0 && i > 0 && bytes.Equal(got[i], got[i-1]):
			return "stale-fields-after-empty-message", fmt.Sprintf("message %d was sent zero-valued but arrived with the previous message's %d bytes", i, len(got[i]))
		case i+1 < len(sent) && bytes.Equal(got[i], sent[i+1]):
			return "message-lost", fmt.Sprintf("message %d missing (got message %d in its place)", i, i+1)
		case i > 0 && bytes.Equal(got[i], sent[i-1]):
			return "message-duplicated", fmt.Sprintf("message %d duplicated", i-1)
		default:
			return "content-mismatch", fmt.Sprintf("message %d differs: sent %d bytes, got %d bytes", i, len(sent[i]), len(got[i]))
		}
	}
	if len(got) < len(sent) {
		return "message-lost", fmt.Sprintf("received %d of %d messages", len(got), len(sent))
	}
	if len(got) > len(sent) {
		return "message-extra", fmt.Sprintf("received %d messages, %d were sent", len(got), len(sent))
	}
	return "", ""
}

func cfgTag(w *World, o *CallObs) string {
	c := w.Sc.Clients[o.Plan.Client]
	return c.Proto.String() + "/" + o.Plan.Kind.String()
}

func checkC01(w *World, st core.Status, r *RunResult) []Violation {
	var vs []Violation
	for _, o := range w.Obs {
		p := o.Plan
		if transportLimit(o, r) {
			continue
		}
		tag := cfgTag(w, o)
		add := func(class, msg string) {
			vs = append(vs, Violation{Class: "C01/" + class + "/" + tag, Msg: p.ID + ": " + msg})
		}
		if st != core.Done {
			continue
		}
		if p.unsendable > 0 {
			// the client could not marshal message unsendable-1: the call fails,
			// and the handler receives at most the messages sent before it
			r.Probes["unsendable_checked"]++
			// (a streaming program carries on after the failed Send: the other
			// messages are sent)
			var sent [][]byte
			for i, m := range p.ReqMsgs {
				if i != p.unsendable-1 {
					sent = append(sent, m)
				}
			}
			if len(o.H.Recv) > len(sent) {
				add("received-unsent-message", fmt.Sprintf("the client's Send of message %d failed (it cannot be marshalled), yet the handler received %d message(s): %q", p.unsendable-1, len(o.H.Recv), clip(bytes.Join(o.H.Recv, []byte("|")), 80)))
			} else if c, m := seqMismatch(sent[:len(o.H.Recv)], o.H.Recv); c != "" {
				add("received-unsent-message/"+c, m)
			}
			if (p.Kind == KUnary || p.Kind == KServer) && o.FinalSet && o.Final == nil {
				add("unsendable-call-succeeded", "the request message could not be sent, yet the call ended in success")
			}
			continue
		}
		if o.H.Entered != 1 {
			add("handler-entered", fmt.Sprintf("handler entered %d times", o.H.Entered))
			continue
		}
		if c, m := seqMismatch(p.ReqMsgs, o.H.Recv); c != "" {
			add("to-handler/"+c, m)
		}
		if p.Kind == KClient || p.Kind == KBidi {
			if !o.H.RecvEndSet || !errors.Is(o.H.RecvEnd, io.EOF) {
				add("to-handler/unclean-end", fmt.Sprintf("request stream did not end cleanly: %v", o.H.RecvEnd))
			}
		}
		for i, e := range o.H.SendErrs {
			if e != nil {
				add("handler-send-error", fmt.Sprintf("handler Send %d failed: %v", i, e))
			}
		}
		if !o.FinalSet || o.Final != nil {
			add("to-client/call-failed", fmt.Sprintf("call did not end in success: %v", o.Final))
			continue
		}
		if c, m := seqMismatch(p.RespMsgs, o.Recv); c != "" {
			add("to-client/"+c, m)
		}
		for _, op := range append(append([]OpRec{}, o.Ops...), o.OpsRcv...) {
			if op.Err != nil && !(op.Op == "recv" && errors.Is(op.Err, io.EOF)) {
				add("client-op-error", fmt.Sprintf("%s failed: %v", op.Op, op.Err))
			}
		}
		for i, m := range o.RecvRaw {
			if i < len(o.Recv) && !bytes.Equal(m.GetValue(), o.Recv[i]) {
				add("to-client/mutated-after-delivery", fmt.Sprintf("message %d changed after it was handed to user code", i))
			}
		}
		if len(p.ReqMsgs) > 0 || len(p.RespMsgs) > 0 {
			r.Probes["calls_checked"]++
		}
	}
	return vs
}

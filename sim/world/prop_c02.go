package world

import (
	"bytes"
	"encoding/base64"
	"errors"
	"fmt"
	"net/http"
	"sort"
	"strings"
	"unicode/utf8"

	connect "github.com/bufbuild/connect-go"
	"google.golang.org/protobuf/proto"
	"google.golang.org/protobuf/types/known/anypb"

	"verif/sim/core"
	"verif/sim/ref"
)

// C02 — handler errors reach the client with code, message, details and
// metadata. C11 — headers and trailers set by one side are observed by the
// other. Both run on the fault-free E2E world with adversarial schedules and
// segmentation; they share the scenario generator and differ in emphasis
// and oracle.

func init() {
	register(&Prop{ID: "C02", Gen: func(t *core.Tape, tier string) *Scenario { return genRich(t, tier, "C02") }, Check: checkC02})
	register(&Prop{ID: "C11", Gen: func(t *core.Tape, tier string) *Scenario { return genRich(t, tier, "C11") }, Check: checkC11})
}

var msgClasses = []string{"ascii", "empty", "nonascii", "control", "percent", "crlf", "blanks", "long", "mixed"}

func genErrMsg(t *core.Tape, notes map[string]int) string {
	cls := msgClasses[t.Choose(len(msgClasses), "errmsg.class")]
	notes["errmsg_"+cls]++
	switch cls {
	case "empty":
		return ""
	case "ascii":
		return "something went wrong: " + string(t.Bytes(1+t.Choose(12, "n"), 1, "m"))
	case "nonascii":
		return []string{"héllo wörld", "日本語のエラー", "ошибка 🚀", "ñ", " nbsp "}[t.Choose(5, "which")]
	case "control":
		return []string{"a\x00b", "\x01\x02\x03", "tab\there", "bell\x07", "\x7f del", "nul at end\x00"}[t.Choose(6, "which")]
	case "percent":
		return []string{"100%", "%", "%%", "%41", "50% off %2", "a%zzb", "%e4"}[t.Choose(7, "which")]
	case "crlf":
		return []string{"line1\nline2", "cr\rlf\r\n", "\n", "x\r\nGrpc-Status: 0"}[t.Choose(4, "which")]
	case "blanks":
		return []string{" leading", "trailing ", "  both  ", " ", "\tx\t", " leading é", " 100% leading", "trailing \x01 ", " é "}[t.Choose(9, "which")]
	case "long":
		return strings.Repeat("long message é ", 20+t.Choose(200, "n"))
	default:
		return "mixed % \n é \x00 end "
	}
}

func genValue(t *core.Tape) string {
	n := 1 + t.Choose(20, "val.n")
	b := make([]byte, n)
	for i := range b {
		b[i] = byte(0x21 + t.Choose(0x7e-0x21+1, "val.c"))
		if i > 0 && i < n-1 && t.Bool(1, 8, "val.sp") {
			b[i] = ' '
		}
	}
	return string(b)
}

// genMeta draws a header multimap with canonical keys under a private
// prefix; -Bin keys carry encoded binary values. bin records the original
// bytes per -Bin key.
func genMeta(t *core.Tape, prefix string, bin map[string][][]byte) http.Header {
	h := http.Header{}
	n := t.Choose(5, "meta.n")
	for i := 0; i < n; i++ {
		nv := 1 + t.Pick([]int{4, 2, 1}, "meta.nv")
		if t.Bool(1, 3, "meta.bin") {
			key := fmt.Sprintf("%s-%d-Bin", prefix, i)
			for j := 0; j < nv; j++ {
				raw := t.Bytes(t.Choose(33, "bin.n"), 2, "bin")
				enc := connect.EncodeBinaryHeader(raw)
				if t.Bool(1, 3, "bin.padded") {
					// user code (or a foreign peer) may pad its base64
					enc = base64.StdEncoding.EncodeToString(raw)
				}
				h.Add(key, enc)
				bin[key] = append(bin[key], raw)
			}
			continue
		}
		key := fmt.Sprintf("%s-%d", prefix, i)
		if t.Bool(1, 6, "meta.oddname") {
			// names that merely contain a protocol marker in the middle
			key = fmt.Sprintf("%s-%d-%s", prefix, i, []string{"Trailer-Id", "Grpc-Status-Like", "Trailer-", "Content-Typeish"}[t.Choose(4, "meta.odd")])
			key = http.CanonicalHeaderKey(key)
		}
		for j := 0; j < nv; j++ {
			h.Add(key, genValue(t))
		}
	}
	return h
}

func genErrPlan(t *core.Tape, notes map[string]int, bin map[string][][]byte) *ErrPlan {
	e := &ErrPlan{Code: uint32(1 + t.Choose(16, "err.code"))}
	switch t.Pick([]int{8, 1, 1}, "err.form") {
	case 1:
		e.Plain = true
		notes["err_plain"]++
	case 2:
		e.NilErr = true
		notes["err_nil_underlying"]++
	}
	e.Msg = genErrMsg(t, notes)
	if e.Plain && e.Msg == "" {
		e.Msg = "plain"
	}
	if !e.Plain && !e.NilErr && t.Bool(1, 8, "err.wraps.ctx") {
		// an explicitly coded error caused by a sub-operation's context error
		// (a backend call with its own timeout): the code is the handler's
		e.WrapCtx = 1 + t.Choose(2, "err.wraps.which")
		e.Msg = "backend call failed: " + map[int]string{1: "context canceled", 2: "context deadline exceeded"}[e.WrapCtx]
		notes["err_wraps_context_error"]++
	}
	if !e.NilErr && e.WrapCtx == 0 && t.Bool(1, 8, "err.wraps.eof") {
		// an error (coded or plain) whose cause wraps io.EOF - what a handler
		// holds when its backend hung up (net/http: Post "...": EOF): an error
		// like any other, not the end of anything
		e.WrapEOF = true
		e.Msg = "backend call failed: Post \"http://backend.internal/x\": EOF"
		notes["err_wraps_eof"]++
	}
	if !e.Plain && t.Bool(1, 6, "err.wrapped") {
		e.Wrapped = true
		notes["err_wrapped_coded"]++
	}
	if !e.Plain {
		nd := t.Pick([]int{3, 2, 1, 1}, "err.ndetails")
		for i := 0; i < nd; i++ {
			e.Details = append(e.Details, DetailPlan{Kind: t.Choose(4, "detail.kind"), Data: t.Bytes(t.Choose(40, "detail.n"), 1+t.Choose(2, "dk"), "detail")})
		}
		e.Meta = genMeta(t, "X-M", bin)
		if t.Bool(1, 10, "err.meta.key.without.values") {
			// a key that holds no values (the values of a header that was not
			// sent, stored under it): no metadata at all on the wire
			if e.RawMeta == nil {
				e.RawMeta = http.Header{}
			}
			e.RawMeta["X-M-Absent"] = nil
			notes["err_meta_key_without_values"]++
		} else if t.Bool(1, 8, "err.meta.raw.key") {
			// the same field name once more, under a map key written by hand in
			// another spelling: http.Header is a plain map, and a value stored
			// that way is metadata the application attached like any other
			name := "X-M-Raw"
			for _, k := range ref.SortedKeys(e.Meta) {
				if !strings.HasSuffix(k, "-Bin") {
					name = k
					break
				}
			}
			e.RawMeta = http.Header{strings.ToLower(name): {"raw-" + genValue(t)}}
			notes["err_meta_key_spelled_two_ways"]++
		}
		if nd > 0 {
			notes["err_with_details"]++
		}
	}
	return e
}

// earlyExitKnobs removes the artificial flow-control deadlock between a
// handler that answers before the client has finished sending and a client
// that is not reading yet (DESIGN 3.3: real transports buffer at least 64 KiB
// of response).
func earlyExitKnobs(p *CallPlan) {
	if p.Split {
		return
	}
	if p.K.DownWindow < 1<<20 {
		p.K.DownWindow = 1 << 20
	}
}

func genRich(t *core.Tape, tier, prop string) *Scenario {
	sc := &Scenario{Prop: prop, Notes: map[string]int{}}
	sc.PoolFIFO = t.Bool(1, 4, "poolfifo")
	if t.Bool(1, 6, "pooldrop") {
		sc.PoolDrop = uint32(1 + t.Choose(1<<20, "pooldrop.seed"))
	}
	h := genHandlerCfg(t)
	c := genClientCfg(t)
	fixCompat(&c, &h)
	sc.Handlers = []HandlerCfg{h}
	sc.Clients = []ClientCfg{c}
	p := &CallPlan{ID: callID(0), Kind: genKind(t)}
	p.K = genKnobs(t, p.Kind)
	genMessagesFor(t, p, c.CompressMin, h.CompressMin, "quick")
	for i := range p.ReqMsgs {
		if len(p.ReqMsgs[i]) > 4096 {
			p.ReqMsgs[i] = p.ReqMsgs[i][:4096]
		}
	}
	for i := range p.RespMsgs {
		if len(p.RespMsgs[i]) > 4096 {
			p.RespMsgs[i] = p.RespMsgs[i][:4096]
		}
	}
	p.bin = map[string][][]byte{}
	p.ReqHeader = genMeta(t, "X-Q", p.bin)
	p.RespHeader = genMeta(t, "X-H", p.bin)
	p.RespTrailer = genMeta(t, "X-T", p.bin)
	if prop == "C02" && c.Proto != PConnect && !c.JSON && t.Bool(1, 10, "client.own.type.codec") {
		// a client whose "proto" codec decodes the service's own messages only
		// and reports anything else with an error wrapping io.EOF: it cannot
		// read the Status proto, but a failed call must still be a failed call
		sc.Clients[0].OwnTypeCodec = true
		sc.Notes["client_codec_cannot_decode_status"]++
	}
	if prop == "C02" && !sc.Clients[0].OwnTypeCodec && t.Bool(1, 10, "strict.handler.codec") {
		// the same handler in C02: over gRPC and gRPC-Web the library answers
		// "internal: marshal protobuf status" whenever the Status cannot be
		// marshalled, details or not - the pinned suite requires exactly that
		// (TestGRPCMarshalStatusError), so code and text are not decided here;
		// that the failure is a failure, and its metadata, are. Over Connect
		// nothing needs the codec and the error must arrive as it is.
		sc.Handlers[0].StrictCodec = true
		sc.Notes["handler_codec_cannot_marshal_status"]++
	}
	if prop == "C11" && t.Bool(1, 8, "strict.handler.codec") {
		// the handler's codecs marshal the service's own messages and nothing
		// else: a gRPC Status cannot be built, the error's code and text are
		// lost to that - its metadata, plain header fields, need not be
		sc.Handlers[0].StrictCodec = true
		sc.Notes["handler_codec_cannot_marshal_status"]++
	}
	if prop == "C11" && t.Bool(1, 4, "wellknown.names") {
		// metadata under names HTTP itself knows but the protocols do not use:
		// ordinary end-to-end fields an application may set (all of them legal
		// in HTTP trailers too)
		names := []string{"Content-Language", "Content-Location", "Allow", "Link", "Etag", "Server-Timing"}
		p.ReqHeader.Add(names[t.Choose(len(names), "wk.q")], "q-"+genValue(t))
		p.RespHeader.Add(names[t.Choose(len(names), "wk.h")], "h-"+genValue(t))
		p.RespTrailer.Add(names[t.Choose(len(names), "wk.t")], "t-"+genValue(t))
		sc.Notes["well_known_metadata_names"]++
	}
	shared := t.Bool(1, 3, "shared.key")
	if shared {
		// the same key as response header and as trailer (and, below, as error
		// metadata), with distinct values
		p.RespHeader.Add("X-Shared", "from-header-"+genValue(t))
		p.RespTrailer.Add("X-Shared", "from-trailer-"+genValue(t))
		sc.Notes["shared_header_trailer_key"]++
	}
	stdPrograms(t, p)
	fail := t.Bool(1, 2, "fail")
	if prop == "C02" {
		fail = !t.Bool(1, 8, "succeed")
	}
	if fail {
		p.HErr = genErrPlan(t, sc.Notes, p.bin)
		if prop == "C02" && len(p.HErr.Details) > 0 && t.Bool(1, 6, "detail.not.linked") {
			// a gateway passing on an upstream error: one detail's message type
			// is not linked into this binary
			p.HErr.Details[t.Choose(len(p.HErr.Details), "detail.not.linked.which")].Kind = 4
			sc.Notes["detail_type_not_linked"]++
		} else if prop == "C02" && len(p.HErr.Details) > 0 && t.Bool(1, 8, "detail.no.json") {
			p.HErr.Details[t.Choose(len(p.HErr.Details), "detail.no.json.which")].Kind = 5
			sc.Notes["detail_without_json_form"]++
		}
		if shared && !p.HErr.Plain {
			if p.HErr.Meta == nil {
				p.HErr.Meta = http.Header{}
			}
			p.HErr.Meta.Add("X-Shared", "from-error-"+genValue(t))
		}
		// error after k messages: cut the handler program
		switch p.Kind {
		case KClient:
			if t.Bool(1, 2, "err.early") {
				// error before draining: receive only i messages
				i := t.Choose(len(p.ReqMsgs)+1, "err.after.recv")
				p.HProg = nil
				for j := 0; j < i; j++ {
					p.HProg = append(p.HProg, HOp{Op: "recv"})
				}
				if i < len(p.ReqMsgs) {
					sc.Notes["err_before_drain"]++
					earlyExitKnobs(p)
				}
			}
		case KServer, KBidi:
			// keep a prefix of the handler program; trailers may or may not have been set
			k := t.Choose(len(p.HProg)+1, "err.after.ops")
			if k < len(p.HProg) {
				p.HProg = append([]HOp(nil), p.HProg[:k]...)
				if t.Bool(1, 2, "err.settrl") {
					p.HProg = append(p.HProg, HOp{Op: "settrl"})
				}
				if p.Kind == KBidi {
					sc.Notes["err_before_drain"]++
					earlyExitKnobs(p)
				}
			}
		}
		if prop != "C05" && p.Kind == KClient && !p.HErr.Plain && p.HErr.CtxKind == 0 && t.Bool(1, 5, "err.from.interceptor.after") {
			// the handler drains the request and responds; a handler-side
			// interceptor fails afterwards: the message, then the error
			sc.Handlers[0].NIntercept = 1 + t.Choose(3, "nintercept")
			p.InterceptorErrAfter = true
			p.HProg = []HOp{{Op: "drain"}}
			sc.Notes["err_from_interceptor_after_response"]++
		} else if prop == "C02" && t.Bool(1, 5, "err.from.interceptor") {
			// the error comes from a handler-side interceptor: user code never
			// runs, nothing was sent before it
			sc.Handlers[0].NIntercept = 1 + t.Choose(3, "nintercept")
			p.InterceptorErr = true
			p.HProg = nil
			earlyExitKnobs(p) // the answer comes before the request is read, for every kind
			sc.Notes["err_from_interceptor"]++
		}
		sc.Notes["fail_"+p.Kind.String()]++
	} else {
		sc.Notes["ok_"+p.Kind.String()]++
	}
	if prop == "C11" && p.HErr != nil && (p.Kind == KServer || p.Kind == KBidi) && len(p.RespMsgs) > 0 && t.Bool(1, 8, "first.send.fails") {
		// the handler's first response message cannot be marshalled (fault at
		// the Codec seam), the handler carries on and ends with its error:
		// nothing has been sent, and the error's metadata must still arrive
		sc.Handlers[0].FailCodec = true
		p.RespMsgs[0] = append(append([]byte(nil), marshalFailMarker...), p.RespMsgs[0]...)
		sc.Notes["first_send_fails_in_codec"]++
	}
	if prop == "C11" && p.Kind == KUnary && c.Proto == PConnect && p.HErr != nil && !p.HErr.Plain && p.HErr.CtxKind == 0 && !p.InterceptorErrAfter && t.Bool(1, 5, "error.body.over.read.limit") {
		// the client's read limit is smaller than the error body: the error
		// cannot be decoded, but the headers (and with them the metadata) have
		// arrived all the same
		sc.Clients[0].ReadMax = 48
		p.HErr.Msg = "a rather long explanation of what went wrong, longer than the client's read limit allows: " + p.HErr.Msg
		p.RespMsgs = [][]byte{{}}
		sc.Notes["error_body_over_read_limit"]++
	}
	if prop == "C11" && (p.Kind == KServer || p.Kind == KBidi) && t.Bool(1, 3, "peek.header") {
		// the client looks at the response headers before its first Receive
		prog := &p.CProg
		if p.Split {
			prog = &p.CProgRcv
		}
		for i, op := range *prog {
			if op.Op == "recv" || op.Op == "recvall" {
				*prog = append((*prog)[:i:i], append([]COp{{Op: "peekhdr"}}, (*prog)[i:]...)...)
				sc.Notes["header_read_before_first_receive"]++
				break
			}
		}
	}
	boundSteps(p)
	genYield(t, p)
	sc.Calls = []*CallPlan{p}
	if p.HErr != nil && !p.HErr.Plain && p.HErr.CtxKind == 0 && !p.HErr.CtxErr && !p.InterceptorErr && t.Bool(1, 4, "sentinel.error") {
		// the handler returns a package-level sentinel: the same error value for
		// every call. Whatever the library does with it must not carry over.
		p.HErr.Shared = true
		for i := 1 + t.Choose(2, "sentinel.calls"); i > 0; i-- {
			q := *p
			q.ID = callID(len(sc.Calls))
			sc.Calls = append(sc.Calls, &q)
		}
		sc.Notes["sentinel_error_reused"]++
	} else if prop == "C02" && p.HErr != nil && !p.InterceptorErr && t.Bool(1, 3, "error.history") {
		// a history of failing calls through the same handler, each with an
		// error of its own: nothing of one error may show up in the next
		for i := 1 + t.Choose(2, "history.calls"); i > 0; i-- {
			q := *p
			q.ID = callID(len(sc.Calls))
			q.bin = map[string][][]byte{}
			for k, v := range p.bin {
				if !strings.HasPrefix(k, "X-M") {
					q.bin[k] = v
				}
			}
			q.HErr = genErrPlan(t, sc.Notes, q.bin)
			sc.Calls = append(sc.Calls, &q)
		}
		sc.Notes["error_history"]++
	}
	return sc
}

// extraValues reports a value of a generated key that the handler did not
// attach in this call (each attached value accounts for one occurrence).
func extraValues(got http.Header, attached ...http.Header) (string, bool) {
	keys := make([]string, 0, len(got))
	for k := range got {
		if strings.HasPrefix(k, "X-H") || strings.HasPrefix(k, "X-T") || strings.HasPrefix(k, "X-M") || k == "X-Shared" {
			keys = append(keys, k)
		}
	}
	sort.Strings(keys)
	for _, k := range keys {
		budget := map[string]int{}
		for _, a := range attached {
			for ak, vs := range a {
				if http.CanonicalHeaderKey(ak) != k {
					continue // (keys written by hand may be spelled differently)
				}
				for _, v := range vs {
					budget[v]++
				}
			}
		}
		for _, v := range got[k] {
			if budget[v] == 0 {
				return fmt.Sprintf("key %q carries %q, which the handler did not attach in this call (attached: %v)", k, got[k], budget), false
			}
			budget[v]--
		}
	}
	return "", true
}

// hasOp reports whether the handler program contains op.
func hasOp(p *CallPlan, op string) bool {
	for _, o := range p.HProg {
		if o.Op == op {
			return true
		}
	}
	return false
}

func sendsPlanned(p *CallPlan) int {
	n := 0
	for _, o := range p.HProg {
		if o.Op == "send" {
			n++
		}
	}
	return n
}

// containsValues: every value of want[k] appears in got[k], in order (as a
// subsequence), for every k.
func containsValues(got, want http.Header) (string, bool) {
	keys := make([]string, 0, len(want))
	for k := range want {
		keys = append(keys, k)
	}
	sort.Strings(keys)
	for _, k := range keys {
		g := got[http.CanonicalHeaderKey(k)]
		i := 0
		for _, v := range want[k] {
			found := false
			for i < len(g) {
				if g[i] == v {
					found = true
					i++
					break
				}
				i++
			}
			if !found {
				return fmt.Sprintf("key %q: want values %q in order, got %q", k, want[k], g), false
			}
		}
	}
	return "", true
}

// sameText compares an error text as received with the text the application
// supplied. Text that is not valid UTF-8 cannot travel as it is in any of the
// three protocols; what must arrive then is the same text with each invalid
// stretch replaced by something - compared here with the invalid bytes and the
// replacement characters both removed.
func sameText(want, got string) bool {
	if utf8.ValidString(want) {
		return want == got
	}
	return strings.ToValidUTF8(want, "") == strings.ReplaceAll(got, "\uFFFD", "")
}

func expectedError(p *CallPlan) (connect.Code, string) {
	e := p.HErr
	if e.Plain {
		return connect.CodeUnknown, e.Msg
	}
	if e.NilErr {
		return connect.Code(e.Code), ""
	}
	return connect.Code(e.Code), e.Msg
}

func msgClass(s string) string {
	switch {
	case s == "":
		return "empty"
	case strings.ContainsAny(s, "\r\n"):
		return "crlf"
	case strings.Contains(s, "%"):
		return "percent"
	case strings.TrimSpace(s) != s:
		return "blanks"
	}
	for i := 0; i < len(s); i++ {
		if s[i] < 0x20 || s[i] == 0x7f {
			return "control"
		}
		if s[i] >= 0x80 {
			return "nonascii"
		}
	}
	if len(s) > 200 {
		return "long"
	}
	return "ascii"
}

func checkC02(w *World, st core.Status, r *RunResult) []Violation {
	var vs []Violation
	if st != core.Done {
		return nil
	}
	for _, o := range w.Obs {
		p := o.Plan
		if transportLimit(o, r) {
			continue
		}
		tag := cfgTag(w, o)
		notLinked, noJSON := false, false
		if p.HErr != nil && p.Raw == nil && w.Sc.Clients[p.Client].Proto == PConnect {
			for _, d := range p.HErr.Details {
				notLinked = notLinked || d.Kind == 4
				noJSON = noJSON || d.Kind == 5
			}
		}
		add := func(class, msg string) {
			if notLinked {
				// one identifiable input (known finding: this era's Connect wire
				// format spells details out in JSON, which needs the type)
				class = "unlinked-detail-type"
				msg = "the error carries a detail whose message type is not linked into the binary: " + msg
			} else if noJSON {
				// the same wire-format limitation, reached by another input
				class = "detail-without-json-form"
				msg = "the error carries a detail that protojson cannot spell out (a google.protobuf.Value with no kind set): " + msg
			}
			vs = append(vs, Violation{Class: "C02/" + class + "/" + tag, Msg: p.ID + ": " + msg})
		}
		if p.HErr == nil {
			if !o.FinalSet || o.Final != nil {
				add("success-reported-as-error", fmt.Sprintf("handler succeeded, client got: %v", o.Final))
			}
			continue
		}
		r.Probes["error_calls_checked"]++
		if p.InterceptorErr && o.H.Entered != 0 {
			add("user-code-ran-after-interceptor-error", fmt.Sprintf("entered %d times", o.H.Entered))
		}
		if !o.FinalSet {
			add("no-outcome", "client program produced no final outcome")
			continue
		}
		if o.Final == nil {
			add("error-delivered-as-success", "handler returned an error, the client saw a clean, successful end")
			continue
		}
		if w.Sc.Clients[p.Client].OwnTypeCodec && w.Sc.Clients[p.Client].Proto != PConnect {
			// the client cannot decode the Status proto, so code and text are not
			// what is decided here - only that the failure is a failure
			r.Probes["client_cannot_decode_status"]++
			var ce *connect.Error
			if !errors.As(o.Final, &ce) || ce.Code() == 0 {
				add("not-a-connect-error", fmt.Sprintf("%T: %v", o.Final, o.Final))
			}
			continue
		}
		var ce *connect.Error
		if !errors.As(o.Final, &ce) {
			add("not-a-connect-error", fmt.Sprintf("%T: %v", o.Final, o.Final))
			continue
		}
		if w.Sc.Handlers[p.Handler].StrictCodec && w.Sc.Clients[p.Client].Proto != PConnect {
			// the handler's codec cannot marshal the Status: what becomes of code
			// and text is not decided here (see genRich) - the failure must be a
			// failure with a code, and the metadata, plain fields, must arrive
			r.Probes["handler_cannot_marshal_status"]++
			if ce.Code() == 0 {
				add("not-a-connect-error", fmt.Sprintf("code 0: %v", o.Final))
			}
			if !p.HErr.Plain {
				if why, ok := containsValues(ce.Meta(), p.HErr.Meta); !ok {
					add("metadata-missing", why)
				}
			}
			continue
		}
		if w.Sc.Handlers[p.Handler].StrictCodec {
			r.Probes["handler_cannot_marshal_status_error_checked_in_full"]++
		}
		wantCode, wantMsg := expectedError(p)
		if ce.Code() != wantCode {
			add("wrong-code", fmt.Sprintf("want code %v, got %v (%v)", wantCode, ce.Code(), ce))
		}
		if ce.Message() != wantMsg {
			add("message-altered/"+msgClass(wantMsg), fmt.Sprintf("want message %q, got %q", wantMsg, ce.Message()))
		}
		if !p.HErr.Plain {
			got := ce.Details()
			if len(got) != len(p.HErr.Details) {
				add("details-count", fmt.Sprintf("want %d details, got %d", len(p.HErr.Details), len(got)))
			} else {
				for i, d := range p.HErr.Details {
					want, _ := d.any()
					ga, ok := got[i].(*anypb.Any)
					if !ok {
						add("details-type", fmt.Sprintf("detail %d is %T", i, got[i]))
						continue
					}
					if ga.GetTypeUrl() != want.GetTypeUrl() || !sameAnyValue(ga, want) {
						add("details-differ", fmt.Sprintf("detail %d: want %s %x, got %s %x", i, want.GetTypeUrl(), want.GetValue(), ga.GetTypeUrl(), ga.GetValue()))
					}
				}
			}
			if why, ok := containsValues(ce.Meta(), p.HErr.RawMeta); !ok {
				add("metadata-missing/raw-key", why)
			}
			if why, ok := containsValues(ce.Meta(), p.HErr.Meta); !ok {
				add("metadata-missing", why)
			}
		} else if n := len(ce.Details()); n != 0 {
			// a plain Go error has no details
			add("details-on-plain-error", fmt.Sprintf("the handler returned a plain error, the client's error carries %d details", n))
		}
		// messages sent before the error are delivered first
		if p.Kind == KServer || p.Kind == KBidi {
			k := sendsPlanned(p)
			if c, m := seqMismatch(p.RespMsgs[:k], o.Recv); c != "" {
				add("messages-before-error/"+c, m)
			}
			if k > 0 {
				r.Probes["error_after_messages"]++
			}
		}
		if ex := o.Call.Exchange(); ex != nil && p.Kind == KUnary && w.Sc.Clients[p.Client].Proto == PConnect {
			if ex.Status >= 200 && ex.Status < 300 {
				add("unary-connect-error-with-2xx", fmt.Sprintf("HTTP status %d", ex.Status))
			}
		}
	}
	return vs
}

func sameAnyValue(a, b *anypb.Any) bool {
	if bytes.Equal(a.GetValue(), b.GetValue()) {
		return true
	}
	// Struct values may be re-encoded through JSON (map order): compare
	// semantically.
	ma, errA := a.UnmarshalNew()
	mb, errB := b.UnmarshalNew()
	return errA == nil && errB == nil && proto.Equal(ma, mb)
}

func checkC11(w *World, st core.Status, r *RunResult) []Violation {
	var vs []Violation
	if st != core.Done {
		return nil
	}
	for _, o := range w.Obs {
		p := o.Plan
		if transportLimit(o, r) {
			continue
		}
		tag := cfgTag(w, o)
		add := func(class, msg string) {
			vs = append(vs, Violation{Class: "C11/" + class + "/" + tag, Msg: p.ID + ": " + msg})
		}
		if o.H.Entered != 1 {
			add("handler-entered", fmt.Sprintf("handler entered %d times", o.H.Entered))
			continue
		}
		// request headers: exact per-key equality
		for k, want := range p.ReqHeader {
			got := o.H.ReqHeader[k]
			if strings.Join(got, "\x00") != strings.Join(want, "\x00") {
				add("request-header", fmt.Sprintf("key %q: client set %q, handler saw %q", k, want, got))
			}
		}
		if !o.FinalSet {
			add("no-outcome", "client program produced no final outcome")
			continue
		}
		hdrSet := p.Kind == KUnary || p.Kind == KClient || hasOp(p, "sethdr")
		trlSet := p.Kind == KUnary || p.Kind == KClient || hasOp(p, "settrl")
		if p.HErr == nil {
			if o.Final != nil {
				add("call-failed", fmt.Sprintf("%v", o.Final))
				continue
			}
			r.Probes["success_calls_checked"]++
			if o.Peeked && len(o.Recv) >= 1 && hdrSet {
				r.Probes["peeked_headers_checked"]++
				if why, ok := containsValues(o.PeekHeader, p.RespHeader); !ok {
					add("response-header-before-first-receive", why)
				}
			}
			if len(o.Recv) >= 1 {
				if why, ok := containsValues(o.RespHeader, p.RespHeader); hdrSet && !ok {
					add("response-header", why)
				}
				if why, ok := containsValues(o.RespTrailer, p.RespTrailer); trlSet && !ok {
					add("response-trailer", why)
				}
			} else {
				r.Probes["success_without_messages"]++
				union := o.RespHeader.Clone()
				for k, v := range o.RespTrailer {
					union[k] = append(union[k], v...)
				}
				if why, ok := containsValues(union, p.RespHeader); hdrSet && !ok {
					add("response-header-bodyless", why)
				}
				if why, ok := containsValues(union, p.RespTrailer); trlSet && !ok {
					add("response-trailer-bodyless", why)
				}
			}
			// binary values decode to the original bytes
			for k, raws := range p.bin {
				var got []string
				switch {
				case strings.HasPrefix(k, "X-H"):
					got = o.RespHeader[k]
					if len(o.Recv) == 0 {
						got = append(append([]string{}, got...), o.RespTrailer[k]...)
					}
					if !hdrSet {
						continue
					}
				case strings.HasPrefix(k, "X-T"):
					got = o.RespTrailer[k]
					if len(o.Recv) == 0 {
						got = append(append([]string{}, o.RespHeader[k]...), got...)
					}
					if !trlSet {
						continue
					}
				default:
					continue
				}
				if len(got) != len(raws) {
					continue // reported above as missing
				}
				for i, s := range got {
					dec, err := connect.DecodeBinaryHeader(s)
					if err != nil || !bytes.Equal(dec, raws[i]) {
						add("binary-value", fmt.Sprintf("key %q value %d: %q does not decode to %x (%v)", k, i, s, raws[i], err))
					}
				}
			}
			continue
		}
		// failure: everything set before the error is at least in the error's metadata
		if o.Final == nil {
			add("error-delivered-as-success", "handler failed, client saw success")
			continue
		}
		var ce *connect.Error
		if !errors.As(o.Final, &ce) {
			add("not-a-connect-error", fmt.Sprintf("%T: %v", o.Final, o.Final))
			continue
		}
		r.Probes["failed_calls_checked"]++
		if len(o.Recv) > 0 {
			r.Probes["failed_after_messages"]++
		}
		if !p.HErr.Plain {
			if why, ok := containsValues(ce.Meta(), p.HErr.Meta); !ok {
				add("error-metadata", why)
			}
			if why, ok := extraValues(ce.Meta(), p.HErr.Meta, p.HErr.RawMeta, p.RespHeader, p.RespTrailer); !ok {
				add("error-metadata-extra", why)
			}
			if why, ok := extraValues(o.RespTrailer, p.HErr.Meta, p.HErr.RawMeta, p.RespHeader, p.RespTrailer); !ok {
				add("response-trailer-extra", why)
			}
		}
		if p.Kind == KServer || p.Kind == KBidi {
			if hasOp(p, "sethdr") {
				if why, ok := containsValues(ce.Meta(), p.RespHeader); !ok {
					add("failure-header-not-in-metadata", why)
				}
			}
			if hasOp(p, "settrl") {
				if why, ok := containsValues(ce.Meta(), p.RespTrailer); !ok {
					add("failure-trailer-not-in-metadata", why)
				}
			}
		}
	}
	return vs
}

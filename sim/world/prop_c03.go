package world

import (
	"bytes"
	"errors"
	"fmt"
	"io"
	"net"
	"net/http"
	"sort"
	"strconv"
	"strings"
	"testing"

	connect "github.com/bufbuild/connect-go"

	"verif/sim/core"
	"verif/sim/ref"
	"verif/sim/simhttp"
)

// C03 — decoding does not depend on how the transport segments the bytes.
// C04 — a call succeeds only if the peer's end-of-stream marker arrived.
//
// Both are fault-enumeration worlds: a valid exchange is recorded from a
// fault-free E2E run, then re-delivered to the real receiver (response bytes
// to the client through HTTPClient.Do, request bytes to Handler.ServeHTTP)
// under every enumerated segmentation (C03) or cut (C04).

func init() {
	register(&Prop{ID: "C03", Direct: directC03})
	register(&Prop{ID: "C04", Direct: directC04})
}

// subRun executes a scenario to completion inside the current bubble.
func subRun(sc *Scenario, tape *core.Tape) (*World, core.Status, []string) {
	s := core.NewSched(tape)
	s.MaxSteps = 50000
	s.HangAfter = 30e9
	w := NewWorld(s, sc)
	w.Start()
	st := s.Run()
	var panics []string
	for _, tk := range s.Tasks {
		if pv, stack := tk.GetPanic(); pv != nil {
			panics = append(panics, fmt.Sprintf("task %s panicked: %v\n%s", tk.Name, pv, firstLines(stack, 25)))
		}
	}
	s.Kill()
	setPools(nil)
	if st == core.Done {
		s.Release()
		w.poolStats = w.pools.stats
		w.pools.recycle()
	}
	return w, st, panics
}

// genExchange draws one fault-free call with plain delivery (the recorded
// exchange).
func genExchange(t *core.Tape, maxMsgs int, small, oversize bool) *Scenario {
	sc := &Scenario{Notes: map[string]int{}}
	h := genHandlerCfg(t)
	c := genClientCfg(t)
	fixCompat(&c, &h)
	sc.Handlers = []HandlerCfg{h}
	sc.Clients = []ClientCfg{c}
	p := &CallPlan{ID: callID(0), Kind: genKind(t)}
	p.K = simhttp.DefaultKnobs()
	if p.Kind != KBidi {
		p.K.HTTP2 = !t.Bool(1, 3, "http1")
	}
	nreq, nresp := 1, 1
	if p.Kind == KClient || p.Kind == KBidi {
		nreq = t.Choose(maxMsgs+1, "nreq")
	}
	if p.Kind == KServer || p.Kind == KBidi {
		nresp = t.Choose(maxMsgs+1, "nresp")
	}
	size := func() []byte {
		if small {
			return t.Bytes([]int{0, 1, 2, 3}[t.Pick([]int{3, 3, 2, 1}, "size")], 1+t.Choose(2, "k"), "b")
		}
		return t.Bytes([]int{0, 1, 3, 17, 100, 600, 5000}[t.Pick([]int{3, 3, 3, 3, 2, 2, 1}, "size")], t.Choose(3, "k"), "b")
	}
	for i := 0; i < nreq; i++ {
		p.ReqMsgs = append(p.ReqMsgs, size())
	}
	for i := 0; i < nresp; i++ {
		p.RespMsgs = append(p.RespMsgs, size())
	}
	p.bin = map[string][][]byte{}
	if !small {
		p.RespHeader = genMeta(t, "X-H", p.bin)
		p.RespTrailer = genMeta(t, "X-T", p.bin)
	}
	stdPrograms(t, p)
	p.Split = false
	if p.Kind == KBidi {
		// half-duplex shape, so that the same client program runs against a
		// canned response
		var prog []COp
		for i := range p.ReqMsgs {
			prog = append(prog, COp{Op: "send", Arg: i})
		}
		p.CProg = append(prog, COp{Op: "closereq"}, COp{Op: "recvall"}, COp{Op: "closeresp"})
		p.CProgRcv = nil
		p.HProg = []HOp{{Op: "sethdr"}, {Op: "drain"}}
		for i := range p.RespMsgs {
			p.HProg = append(p.HProg, HOp{Op: "send", Arg: i})
		}
		p.HProg = append(p.HProg, HOp{Op: "settrl"})
	}
	if oversize && p.Kind == KBidi && len(p.ReqMsgs) >= 2 && t.Bool(1, 2, "oversize.midstream") {
		// a read limit on the handler, an over-limit message in the middle of
		// the request stream, and a handler that carries on receiving after
		// the rejection: what it sees afterwards must not depend on how the
		// bytes were segmented either
		sc.Handlers[0].ReadMax = 8
		p.ReqMsgs[len(p.ReqMsgs)/2] = t.Bytes(20+t.Choose(200, "oversize.n"), 2, "oversize")
		p.KeepReceiving = true
		sc.Notes["oversize_midstream"]++
	}
	if oversize && p.Kind == KUnary && c.Proto == PConnect && t.Bool(1, 2, "limit.at.body.size") {
		// a read limit of exactly the body size, one less or one more, on the
		// handler (request) or on the client (response): the verdict must not
		// depend on whether EOF arrives with the last byte
		codec := "proto"
		if c.JSON {
			codec = "json"
		}
		delta := t.Choose(3, "limit.delta") - 1
		if t.Bool(1, 2, "limit.on.client") {
			if n := len(ref.EncodeBytesValue(codec, p.RespMsgs[0])) + delta; n > 0 {
				sc.Clients[0].ReadMax = n
			}
		} else if n := len(ref.EncodeBytesValue(codec, p.ReqMsgs[0])) + delta; n > 0 {
			sc.Handlers[0].ReadMax = n
		}
		sc.Notes["limit_at_body_size"]++
	}
	if t.Bool(1, 4, "fail") {
		p.HErr = genErrPlan(t, sc.Notes, p.bin)
		// (one name under two map keys is merged in map order, which differs
		// from one delivery of the same bytes to the next: not for a check that
		// compares deliveries byte by byte)
		p.HErr.RawMeta = nil
		if small {
			p.HErr.Msg, p.HErr.Details, p.HErr.Meta = "no", nil, nil
		}
	}
	sc.Calls = []*CallPlan{p}
	return sc
}

// outcome is the comparable summary of what a receiver observed.
type outcome struct {
	Msgs     [][]byte
	Err      string
	Code     connect.Code
	Details  int
	Header   string
	Trailer  string
	Meta     string
	Entered  int
	RecvEnd  string
	Response string // handler side: status + body + trailers
}

func hdrString(h http.Header, skip ...string) string {
	var ks []string
	for k := range h {
		drop := false
		for _, s := range skip {
			if k == s {
				drop = true
			}
		}
		if !drop {
			ks = append(ks, k)
		}
	}
	sort.Strings(ks)
	var b strings.Builder
	for _, k := range ks {
		fmt.Fprintf(&b, "%s=%q;", k, h[k])
	}
	return b.String()
}

func clientOutcome(o *CallObs) outcome {
	out := outcome{Msgs: o.Recv}
	if o.Final != nil {
		out.Err = o.Final.Error()
		var ce *connect.Error
		if errors.As(o.Final, &ce) {
			out.Code = ce.Code()
			out.Details = len(ce.Details())
			out.Meta = hdrString(ce.Meta(), "Date", "Content-Length")
		}
	}
	out.Header = hdrString(o.RespHeader, "Date", "Content-Length")
	out.Trailer = hdrString(o.RespTrailer)
	return out
}

func handlerOutcome(o *CallObs) outcome {
	out := outcome{Msgs: o.H.Recv, Entered: o.H.Entered}
	out.Meta = strings.Join(o.H.RecvErrs, "|")
	if o.H.RecvEndSet && o.H.RecvEnd != nil {
		if errors.Is(o.H.RecvEnd, io.EOF) {
			out.RecvEnd = "EOF"
		} else {
			out.RecvEnd = o.H.RecvEnd.Error()
		}
	}
	if ex := o.Call.Exchange(); ex != nil {
		out.Response = fmt.Sprintf("%d|%s|%x|%s", ex.Status, hdrString(ex.RespHeader, "Date"), ex.Down.Bytes(), hdrString(ex.Trailer))
	}
	return out
}

func (a outcome) diff(b outcome) string {
	if len(a.Msgs) != len(b.Msgs) {
		return fmt.Sprintf("message count %d vs %d", len(a.Msgs), len(b.Msgs))
	}
	for i := range a.Msgs {
		if !bytes.Equal(a.Msgs[i], b.Msgs[i]) {
			return fmt.Sprintf("message %d differs", i)
		}
	}
	switch {
	case a.Err != b.Err:
		return fmt.Sprintf("error %q vs %q", a.Err, b.Err)
	case a.Code != b.Code:
		return fmt.Sprintf("code %v vs %v", a.Code, b.Code)
	case a.Details != b.Details:
		return fmt.Sprintf("details %d vs %d", a.Details, b.Details)
	case a.Header != b.Header:
		return fmt.Sprintf("headers %s vs %s", a.Header, b.Header)
	case a.Trailer != b.Trailer:
		return fmt.Sprintf("trailers %s vs %s", a.Trailer, b.Trailer)
	case a.Meta != b.Meta:
		return fmt.Sprintf("error metadata %s vs %s", a.Meta, b.Meta)
	case a.Entered != b.Entered:
		return fmt.Sprintf("user code entered %d vs %d times", a.Entered, b.Entered)
	case a.RecvEnd != b.RecvEnd:
		return fmt.Sprintf("request stream end %q vs %q", a.RecvEnd, b.RecvEnd)
	case a.Response != b.Response:
		return "response bytes differ (" + firstDiff(a.Response, b.Response) + ")"
	}
	return ""
}

// recorded is a recorded valid exchange.
type recorded struct {
	sc       *Scenario
	plan     *CallPlan
	proto    Proto
	reqHdr   http.Header
	reqBody  []byte
	status   int
	respHdr  http.Header
	respBody []byte
	trailer  http.Header
	writes   int
	client   outcome
	handler  outcome
	// declLen: the peer that re-delivers complete bodies declares their length
	// (Content-Length), as peers other than connect-go's client do
	declLen bool
}

func record(t *core.Tape, sc *Scenario, r *RunResult) *recorded {
	w, st, panics := subRun(sc, core.ReplayTape(nil))
	if st != core.Done || len(panics) > 0 {
		r.Inconclusive = fmt.Sprintf("baseline exchange did not complete: %v %v", st, panics)
		return nil
	}
	o := w.Obs[0]
	ex := o.Call.Exchange()
	if ex == nil || !o.FinalSet {
		r.Inconclusive = "baseline exchange has no outcome"
		return nil
	}
	if ex.TrailerOverflow {
		// HTTP/1.1 cannot carry this exchange's trailer block: not a valid
		// exchange to re-deliver
		r.Probes["skipped_http1_trailer_overflow"]++
		r.Status = "done"
		return nil
	}
	rec := &recorded{sc: sc, plan: o.Plan, proto: sc.Clients[0].Proto,
		reqHdr: ex.ReqHeader.Clone(), reqBody: ex.Up.Bytes(), status: ex.Status,
		respHdr: ex.RespHeader.Clone(), respBody: ex.Down.Bytes(), trailer: ex.Trailer.Clone(), writes: ex.Writes,
		client: clientOutcome(o), handler: handlerOutcome(o)}
	// sanity: the baseline is a fault-free exchange and must itself be right
	if o.Plan.HErr == nil && o.Final != nil && sc.Handlers[0].ReadMax == 0 && sc.Clients[0].ReadMax == 0 {
		r.Violations = append(r.Violations, Violation{Class: "C0X/baseline-failed", Msg: fmt.Sprintf("fault-free baseline exchange failed: %v", o.Final)})
		return nil
	}
	return rec
}

// clientRedelivery builds the scenario that replays the recorded response to
// the same client program.
func (rec *recorded) clientRedelivery(body []byte, endErr error, trailer http.Header, script []int, eofWithData bool) *Scenario {
	p := *rec.plan
	p.K = simhttp.DefaultKnobs()
	p.K.HTTP2 = rec.plan.K.HTTP2
	p.K.DownScript = script
	if script == nil {
		p.K.DownScript = []int{}
	}
	p.K.DownEOFData = eofWithData
	hdr := rec.respHdr.Clone()
	if rec.declLen && len(body) == len(rec.respBody) {
		hdr.Set("Content-Length", strconv.Itoa(len(body)))
	}
	p.Canned = &simhttp.Canned{Status: rec.status, Header: hdr, Body: body, Trailer: trailer, EndErr: endErr}
	sc := *rec.sc
	sc.Calls = []*CallPlan{&p}
	return &sc
}

// handlerRedelivery builds the scenario that serves the recorded request
// bytes straight into the handler.
func (rec *recorded) handlerRedelivery(body []byte, endErr error, script []int, eofWithData bool) *Scenario {
	p := *rec.plan
	p.K = simhttp.DefaultKnobs()
	p.K.HTTP2 = rec.plan.K.HTTP2
	p.K.UpScript = script
	if script == nil {
		p.K.UpScript = []int{}
	}
	p.K.UpEOFData = eofWithData
	hdr := rec.reqHdr.Clone()
	if rec.declLen && len(body) == len(rec.reqBody) {
		hdr.Set("Content-Length", strconv.Itoa(len(body)))
	}
	p.Raw = &RawReq{Method: "POST", Header: hdr, Body: body, EndErr: endErr}
	sc := *rec.sc
	sc.Calls = []*CallPlan{&p}
	return &sc
}

// splits enumerates segmentations of n bytes. Small n: all 2^(n-1)
// compositions; otherwise targeted and random ones. boundaries are the
// offsets of envelope prefixes and payload ends.
func splits(t *core.Tape, n int, boundaries []int, exhaustiveMax int) (out [][]int, exhaustive bool) {
	if n == 0 {
		return [][]int{{}}, true
	}
	if n <= exhaustiveMax {
		for mask := 0; mask < 1<<(n-1); mask++ {
			var s []int
			run := 1
			for i := 0; i < n-1; i++ {
				if mask&(1<<i) != 0 {
					s = append(s, run)
					run = 1
				} else {
					run++
				}
			}
			s = append(s, run)
			out = append(out, s)
		}
		return out, true
	}
	rep := func(k int) []int {
		var s []int
		for i := 0; i < n; i += k {
			s = append(s, k)
		}
		return s
	}
	out = append(out, []int{n}, rep(1), rep(2), rep(3), rep(7))
	// a single split at every interesting offset
	seen := map[int]bool{}
	for _, b := range boundaries {
		for d := -1; d <= 6; d++ {
			if k := b + d; k > 0 && k < n && !seen[k] {
				seen[k] = true
				out = append(out, []int{k, n - k})
			}
		}
	}
	// one-byte reads across each prefix, whole reads elsewhere
	for _, b := range boundaries {
		if b+5 <= n {
			var s []int
			if b > 0 {
				s = append(s, b)
			}
			s = append(s, 1, 1, 1, 1, 1)
			out = append(out, s)
		}
	}
	for i := 0; i < 12; i++ {
		var s []int
		left := n
		for left > 0 {
			k := 1 + t.Choose(min(left, 1+t.Choose(40, "split.max")), "split.k")
			s = append(s, k)
			left -= k
		}
		out = append(out, s)
	}
	return out, false
}

func envelopeBoundaries(body []byte, enveloped bool) []int {
	if !enveloped {
		return []int{0, len(body)}
	}
	var b []int
	envs, end, _ := ref.SplitEnvelopes(body)
	for _, e := range envs {
		b = append(b, e.Off, e.Off+5)
	}
	return append(b, end)
}

func protoTag(rec *recorded) string {
	return rec.proto.String() + "/" + rec.plan.Kind.String()
}

func directC03(tt *testing.T, tape *core.Tape, tier string, r *RunResult) {
	exhaustiveMax := 9
	if tier == "thorough" {
		exhaustiveMax = 13
	}
	small := tape.Bool(1, 2, "small.bodies")
	sc := genExchange(tape, 3, small, true)
	sc.Prop = "C03"
	rec := record(tape, sc, r)
	if rec == nil {
		return
	}
	r.Status = "done"
	enveloped := !(rec.proto == PConnect && rec.plan.Kind == KUnary)
	if !enveloped && tape.Bool(1, 2, "declare.length") {
		rec.declLen = true
		r.Probes["bodies_with_declared_length"]++
	}
	tag := protoTag(rec)
	addV := func(class, msg string) {
		if len(r.Violations) < 4 {
			r.Violations = append(r.Violations, Violation{Class: "C03/" + class + "/" + tag, Msg: msg})
		}
	}
	complete := true
	deliveries := 0
	// response bytes -> client
	ss, exh := splits(tape, len(rec.respBody), envelopeBoundaries(rec.respBody, enveloped || rec.status != 200), exhaustiveMax)
	complete = complete && exh
	for _, s := range ss {
		for _, eofData := range []bool{false, true} {
			w, st, panics := subRun(rec.clientRedelivery(rec.respBody, io.EOF, rec.trailer, s, eofData), core.ReplayTape(nil))
			deliveries++
			r.Steps += w.S.Steps
			switch {
			case len(panics) > 0:
				addV("response/panic", panics[0])
			case st != core.Done:
				addV("response/hang", fmt.Sprintf("segmentation %v eof-with-data=%v: %s", s, eofData, w.hangReport()))
			default:
				if d := rec.client.diff(clientOutcome(w.Obs[0])); d != "" {
					class := "response/outcome-differs"
					if inPrefix(s, rec.respBody, enveloped) {
						class = "response/prefix-split-rejected"
					}
					addV(class, fmt.Sprintf("response body (%d bytes) delivered as %v (EOF with last data: %v) vs in one piece: %s", len(rec.respBody), s, eofData, d))
				}
			}
		}
	}
	// request bytes -> handler
	ss, exh = splits(tape, len(rec.reqBody), envelopeBoundaries(rec.reqBody, enveloped), exhaustiveMax)
	complete = complete && exh
	for _, s := range ss {
		for _, eofData := range []bool{false, true} {
			w, st, panics := subRun(rec.handlerRedelivery(rec.reqBody, io.EOF, s, eofData), core.ReplayTape(nil))
			deliveries++
			r.Steps += w.S.Steps
			switch {
			case len(panics) > 0:
				addV("request/panic", panics[0])
			case st != core.Done:
				addV("request/hang", fmt.Sprintf("segmentation %v eof-with-data=%v: %s", s, eofData, w.hangReport()))
			default:
				if d := rec.handler.diff(handlerOutcome(w.Obs[0])); d != "" {
					class := "request/outcome-differs"
					if inPrefix(s, rec.reqBody, enveloped) {
						class = "request/prefix-split-rejected"
					}
					addV(class, fmt.Sprintf("request body (%d bytes) delivered as %v (EOF with last data: %v) vs in one piece: %s", len(rec.reqBody), s, eofData, d))
				}
			}
		}
	}
	r.Probes["deliveries"] += deliveries
	r.Probes["exchanges"]++
	if complete {
		r.Probes["exchanges_enumerated_exhaustively"]++
	}
	r.Probes["enumeration_complete"] = 1
	r.Nontrivial = deliveries > 2
	r.Sig = fmt.Sprintf("%s|%x|%x|%d", tag, rec.reqBody, rec.respBody, deliveries)
	if len(r.Sig) > 200 {
		r.Sig = fmt.Sprintf("%s|%d|%d|%x", tag, len(rec.reqBody), len(rec.respBody), core.Mix(uint64(len(rec.reqBody)), uint64(deliveries)))
	}
	r.Hash = r.Sig
	r.Sample = map[string]any{"exchange": describeRecorded(rec), "deliveries": deliveries, "exhaustive": complete}
}

// inPrefix reports whether some read boundary of s falls strictly inside a
// 5-byte envelope prefix.
func inPrefix(s []int, body []byte, enveloped bool) bool {
	if !enveloped {
		return false
	}
	envs, _, _ := ref.SplitEnvelopes(body)
	off := 0
	for _, k := range s[:max(0, len(s)-1)] {
		off += k
		for _, e := range envs {
			if off > e.Off && off < e.Off+5 {
				return true
			}
		}
	}
	return false
}

func describeRecorded(rec *recorded) map[string]any {
	return map[string]any{
		"proto": rec.proto.String(), "kind": rec.plan.Kind.String(), "http2": rec.plan.K.HTTP2,
		"request_bytes": len(rec.reqBody), "response_bytes": len(rec.respBody), "status": rec.status,
		"handler_error": rec.plan.HErr != nil, "req_msgs": len(rec.plan.ReqMsgs), "resp_msgs": len(rec.plan.RespMsgs),
		"send_compression": rec.sc.Clients[0].SendComp, "codec_json": rec.sc.Clients[0].JSON,
	}
}

// ------------------------------------------------------------------- C04

type cutCond struct {
	name string
	err  error
}

var cutConds = []cutCond{
	{"eof", io.EOF},
	{"unexpected-eof", io.ErrUnexpectedEOF},
	{"conn-reset", errors.New("read tcp 10.0.0.1:443: connection reset by peer")},
	// a transport error that has io.EOF in its chain (a wrapped body, a
	// non-net/http transport): only io.EOF itself is the end of a stream
	{"error-wrapping-eof", &net.OpError{Op: "read", Net: "tcp", Err: io.EOF}},
	{"rst-cancel", errors.New("stream error: stream ID 1; CANCEL; received from peer")},
	{"rst-internal", errors.New("stream error: stream ID 1; INTERNAL_ERROR; received from peer")},
	// a reset with NO_ERROR before the body is complete (RFC 9113 8.1.1 allows
	// it after a complete response only): still a body that was cut short
	{"rst-no-error", errors.New("stream error: stream ID 1; NO_ERROR; received from peer")},
}

// withoutRejected drops the placeholders a keep-receiving handler records for
// failed Receives.
func withoutRejected(msgs [][]byte) [][]byte {
	var out [][]byte
	for _, m := range msgs {
		if string(m) != "<rejected>" {
			out = append(out, m)
		}
	}
	return out
}

func isPrefixOf(got, all [][]byte) bool {
	if len(got) > len(all) {
		return false
	}
	for i := range got {
		if !bytes.Equal(got[i], all[i]) {
			return false
		}
	}
	return true
}

func directC04(tt *testing.T, tape *core.Tape, tier string, r *RunResult) {
	small := tape.Bool(1, 2, "small.bodies")
	// (a third of the exchanges with a read limit on the handler, an over-limit
	// message in the middle of a bidi request and a handler that carries on
	// receiving: a cut inside the message being skipped is a cut all the same)
	sc := genExchange(tape, 3, small, tape.Bool(1, 3, "oversize.exchange"))
	sc.Prop = "C04"
	if sc.Calls[0].Kind == KBidi && tape.Bool(1, 2, "keep.receiving") {
		// a handler that calls Receive again after a failed one (logging the
		// error and carrying on): what it is told then must not be "the client
		// finished cleanly"
		sc.Calls[0].KeepReceiving = true
		r.Probes["handler_keeps_receiving"]++
	}
	rec := record(tape, sc, r)
	if rec == nil {
		return
	}
	r.Status = "done"
	streaming := !(rec.proto == PConnect && rec.plan.Kind == KUnary)
	tag := protoTag(rec)
	addV := func(class, msg string) {
		if len(r.Violations) < 4 {
			r.Violations = append(r.Violations, Violation{Class: "C04/" + class + "/" + tag, Msg: msg})
		}
	}
	maxEnum := 300
	if tier == "thorough" {
		maxEnum = 2048
	}
	offsets := func(n int, bounds []int) ([]int, bool) {
		if n <= maxEnum {
			out := make([]int, n+1)
			for i := range out {
				out[i] = i
			}
			return out, true
		}
		seen := map[int]bool{0: true, n: true}
		for _, b := range bounds {
			for d := -2; d <= 6; d++ {
				if k := b + d; k >= 0 && k <= n {
					seen[k] = true
				}
			}
		}
		for i := 0; i < 60; i++ {
			seen[tape.Choose(n+1, "cut.random")] = true
		}
		var out []int
		for k := range seen {
			out = append(out, k)
		}
		sort.Ints(out)
		return out, false
	}
	deliveries := 0
	complete := true
	// ---- response cut at every offset
	offs, exh := offsets(len(rec.respBody), envelopeBoundaries(rec.respBody, streaming || rec.status != 200))
	complete = complete && exh
	for _, k := range offs {
		for _, cond := range cutConds {
			for _, withTrailers := range []bool{true, false} {
				full := k == len(rec.respBody)
				clean := cond.err == io.EOF
				if withTrailers && !(full && clean) {
					continue // trailers only ever follow a complete, cleanly ended body
				}
				var trl http.Header
				if withTrailers {
					trl = rec.trailer
				}
				// the last bytes may arrive together with the end condition
				eofData := (k+len(cond.name))%2 == 0
				w, st, panics := subRun(rec.clientRedelivery(rec.respBody[:k], cond.err, trl, nil, eofData), core.ReplayTape(nil))
				deliveries++
				r.Steps += w.S.Steps
				where := fmt.Sprintf("response body cut at %d/%d, ending with %s, trailers delivered: %v", k, len(rec.respBody), cond.name, withTrailers)
				if len(panics) > 0 {
					addV("response/panic", where+": "+panics[0])
					continue
				}
				if st != core.Done {
					addV("response/hang", where+": "+w.hangReport())
					continue
				}
				o := w.Obs[0]
				got := clientOutcome(o)
				arrived := ref.TerminatorArrived(ref.Proto(rec.proto), streaming, rec.respHdr, rec.respBody[:k], len(rec.respBody), trl)
				unaryCleanCut := rec.proto == PConnect && !streaming && clean && !full
				if !unaryCleanCut && !isPrefixOf(got.Msgs, rec.client.Msgs) {
					addV("response/messages-not-a-prefix", where+": delivered messages are not a prefix of those sent")
				}
				switch {
				case full && clean && withTrailers:
					// nothing was injected: identical to the baseline
					if d := rec.client.diff(got); d != "" {
						addV("response/unfaulted-differs", where+": "+d)
					}
				case !arrived:
					if rec.proto == PConnect && !streaming && clean {
						r.Probes["dontcare_unary_connect_clean_cut"]++
						if o.Final != nil {
							var ce *connect.Error
							if !errors.As(o.Final, &ce) || ce.Code() == 0 {
								addV("response/uncoded-error", where+fmt.Sprintf(": %v", o.Final))
							}
						}
						continue
					}
					r.Probes["cuts_before_terminator"]++
					if !o.FinalSet || o.Final == nil {
						class := "response/success-without-terminator"
						addV(class, where+fmt.Sprintf(": the call reported success (%d messages) although the terminator never arrived", len(got.Msgs)))
						continue
					}
					var ce *connect.Error
					if !errors.As(o.Final, &ce) || ce.Code() == 0 {
						addV("response/uncoded-error", where+fmt.Sprintf(": %v", o.Final))
					}
				default:
					// terminator arrived, fault strictly after it: either outcome,
					// but an error must be coded
					r.Probes["dontcare_fault_after_terminator"]++
					if o.Final != nil {
						var ce *connect.Error
						if !errors.As(o.Final, &ce) || ce.Code() == 0 {
							addV("response/uncoded-error", where+fmt.Sprintf(": %v", o.Final))
						}
					}
				}
			}
		}
	}
	// ---- gRPC (status in HTTP trailers) behind an HTTPClient that builds its
	// responses in memory: Response.Trailer is complete from the start, so it
	// proves nothing about the body - a body that fails is a failed call
	if rec.proto == PGRPC && len(rec.trailer) > 0 {
		for _, k := range offs {
			for _, cond := range cutConds[1:] {
				sc2 := rec.clientRedelivery(rec.respBody[:k], cond.err, rec.trailer, nil, (k+len(cond.name))%2 == 0)
				sc2.Calls[0].Canned.TrailerUpFront = true
				w, st, panics := subRun(sc2, core.ReplayTape(nil))
				deliveries++
				r.Steps += w.S.Steps
				where := fmt.Sprintf("response body cut at %d/%d, ending with %s, trailers present from the start", k, len(rec.respBody), cond.name)
				if len(panics) > 0 {
					addV("response/panic", where+": "+panics[0])
					continue
				}
				if st != core.Done {
					addV("response/hang", where+": "+w.hangReport())
					continue
				}
				o := w.Obs[0]
				r.Probes["cuts_with_trailers_up_front"]++
				if !o.FinalSet || o.Final == nil {
					addV("response/success-on-failed-body", where+fmt.Sprintf(": the call reported success (%d messages) although reading the body failed", len(o.Recv)))
					continue
				}
				var ce *connect.Error
				if !errors.As(o.Final, &ce) || ce.Code() == 0 {
					addV("response/uncoded-error", where+fmt.Sprintf(": %v", o.Final))
				}
			}
		}
	}
	// ---- request cut at every offset
	offs, exh = offsets(len(rec.reqBody), envelopeBoundaries(rec.reqBody, streaming))
	complete = complete && exh
	envs, _, _ := ref.SplitEnvelopes(rec.reqBody)
	atBoundary := func(k int) bool {
		if !streaming {
			return k == len(rec.reqBody)
		}
		if k == len(rec.reqBody) || k == 0 {
			return true
		}
		for _, e := range envs {
			if e.Off == k {
				return true
			}
		}
		return false
	}
	for _, k := range offs {
		for _, cond := range cutConds[:4] {
			clean := cond.err == io.EOF
			full := k == len(rec.reqBody)
			if full && clean {
				continue // the unfaulted request (covered by C03)
			}
			eofData := (k+len(cond.name))%2 == 1
			w, st, panics := subRun(rec.handlerRedelivery(rec.reqBody[:k], cond.err, nil, eofData), core.ReplayTape(nil))
			deliveries++
			r.Steps += w.S.Steps
			where := fmt.Sprintf("request body cut at %d/%d, ending with %s", k, len(rec.reqBody), cond.name)
			if len(panics) > 0 {
				addV("request/panic", where+": "+panics[0])
				continue
			}
			if st != core.Done {
				addV("request/hang", where+": "+w.hangReport())
				continue
			}
			o := w.Obs[0]
			if rec.proto == PConnect && !streaming && clean {
				// the HTTP layer reported a complete body: nothing tells the
				// library that bytes are missing
				r.Probes["dontcare_unary_connect_clean_cut"]++
				continue
			}
			if !isPrefixOf(withoutRejected(o.H.Recv), withoutRejected(rec.handler.Msgs)) {
				addV("request/messages-not-a-prefix", where+": the handler received messages that are not a prefix of those sent")
			}
			midMessage := !atBoundary(k) || !clean
			if !midMessage {
				r.Probes["request_cut_at_boundary_clean"]++
				continue // indistinguishable from a client that sent fewer messages
			}
			r.Probes["request_cut_mid_message_or_failed"]++
			switch rec.plan.Kind {
			case KClient, KBidi:
				if o.H.Entered == 1 && o.H.RecvEndSet && (o.H.RecvEnd == nil || errors.Is(o.H.RecvEnd, io.EOF)) {
					addV("request/clean-end-after-failure", where+fmt.Sprintf(": the handler saw a clean end of the request stream after %d messages", len(o.H.Recv)))
				}
			default:
				// single-message kinds: user code runs only with the complete message
				if o.H.Entered == 1 && len(envs) > 0 && k < envs[0].Off+5+len(envs[0].Data) {
					addV("request/user-code-ran-on-incomplete-message", where)
				}
			}
		}
	}
	// ---- live: the k-th ResponseWriter.Write fails
	for k := 1; k <= rec.writes; k++ {
		p := *rec.plan
		p.K.FailWriteAt = k
		p.K.FailWriteErr = errors.New("write tcp 10.0.0.1:443: broken pipe")
		sc2 := *rec.sc
		sc2.Calls = []*CallPlan{&p}
		w, st, panics := subRun(&sc2, core.ReplayTape(nil))
		deliveries++
		r.Steps += w.S.Steps
		where := fmt.Sprintf("ResponseWriter.Write %d of %d fails", k, rec.writes)
		if len(panics) > 0 {
			addV("write-failure/panic", where+": "+panics[0])
			continue
		}
		if st != core.Done {
			addV("write-failure/hang", where+": "+w.hangReport())
			continue
		}
		o := w.Obs[0]
		r.Probes["write_failures"]++
		if !isPrefixOf(o.Recv, rec.client.Msgs) {
			addV("write-failure/messages-not-a-prefix", where)
		}
		if !o.FinalSet || o.Final == nil {
			addV("write-failure/success", where+fmt.Sprintf(": the call reported success with %d messages", len(o.Recv)))
		} else {
			var ce *connect.Error
			if !errors.As(o.Final, &ce) || ce.Code() == 0 {
				addV("write-failure/uncoded-error", where+fmt.Sprintf(": %v", o.Final))
			}
		}
	}
	// ---- live: the transport fails before any response header (Do returns
	// an error): never a clean end, whatever the error wraps
	for _, de := range []struct {
		name string
		err  error
	}{
		{"eof", io.EOF}, // net/http: Post "...": EOF when the server drops the connection
		{"unexpected-eof", io.ErrUnexpectedEOF},
		{"conn-reset", errors.New("read tcp 10.0.0.1:443: connection reset by peer")},
		{"goaway", errors.New("http2: server sent GOAWAY and closed the connection")},
	} {
		p := *rec.plan
		p.K.DoErr = de.err
		sc2 := *rec.sc
		sc2.Calls = []*CallPlan{&p}
		w, st, panics := subRun(&sc2, core.ReplayTape(nil))
		deliveries++
		r.Steps += w.S.Steps
		where := "HTTPClient.Do fails with " + de.name
		if len(panics) > 0 {
			addV("do-failure/panic", where+": "+panics[0])
			continue
		}
		if st != core.Done {
			addV("do-failure/hang", where+": "+w.hangReport())
			continue
		}
		o := w.Obs[0]
		r.Probes["do_failures"]++
		if len(o.Recv) > 0 {
			addV("do-failure/messages-delivered", where)
		}
		if !o.FinalSet || o.Final == nil {
			addV("do-failure/success", where+": the call reported a clean, successful end although no response ever arrived")
		} else {
			var ce *connect.Error
			if !errors.As(o.Final, &ce) || ce.Code() == 0 {
				addV("do-failure/uncoded-error", where+fmt.Sprintf(": %v", o.Final))
			}
		}
		for _, op := range append(append([]OpRec{}, o.Ops...), o.OpsRcv...) {
			if (op.Op == "recv" || op.Op == "recvmore") && op.Err != nil && errors.Is(op.Err, io.EOF) {
				addV("do-failure/receive-reports-eof", where+fmt.Sprintf(": Receive returned an error wrapping io.EOF (%v), which callers read as the end of the stream", op.Err))
			}
		}
	}
	// ---- live: the uplink fails after k bytes (sampled offsets): the handler's
	// request reads break mid-call while the real client is running
	if len(rec.reqBody) > 0 && rec.plan.HErr == nil {
		step := len(rec.reqBody)/6 + 1
		for k := 0; k <= len(rec.reqBody); k += step {
			p := *rec.plan
			p.K.UpCutAt = k
			p.K.UpCutErr = errors.New("read tcp 10.0.0.2:443: connection reset by peer")
			sc2 := *rec.sc
			sc2.Calls = []*CallPlan{&p}
			w, st, panics := subRun(&sc2, core.ReplayTape(nil))
			deliveries++
			r.Steps += w.S.Steps
			where := fmt.Sprintf("uplink fails after %d of %d request bytes", k, len(rec.reqBody))
			if len(panics) > 0 {
				addV("uplink-failure/panic", where+": "+panics[0])
				continue
			}
			if st != core.Done {
				addV("uplink-failure/hang", where+": "+w.hangReport())
				continue
			}
			o := w.Obs[0]
			r.Probes["uplink_failures"]++
			if !isPrefixOf(withoutRejected(o.H.Recv), withoutRejected(rec.handler.Msgs)) {
				addV("uplink-failure/messages-not-a-prefix", where)
			}
			if k < len(rec.reqBody) {
				if o.FinalSet && o.Final == nil && (rec.plan.Kind == KClient || rec.plan.Kind == KBidi || len(o.H.Recv) == 0) {
					addV("uplink-failure/success", where+": the call reported success although the handler never got the whole request")
				}
				if (rec.plan.Kind == KClient || rec.plan.Kind == KBidi) && o.H.RecvEndSet && (o.H.RecvEnd == nil || errors.Is(o.H.RecvEnd, io.EOF)) {
					addV("uplink-failure/handler-saw-clean-end", where)
				}
			}
		}
	}
	// ---- live: the client side of a still-open bidi call fails (its Receive
	// rejects a response) while the handler is reading: the handler must not
	// see a clean end of the request stream.
	// (Not for gRPC over HTTP trailers: there a failed Receive first drains the
	// body to reach the trailers, which by design waits for the handler, and
	// this handler waits for the client - a deadlock of the two programs, not
	// of the library.)
	liveSched := 0
	if rec.plan.Kind == KBidi && rec.proto != PGRPC {
		for _, mode := range []string{"oversize", "cut", "oversize", "cut", "oversize", "cut", "oversize", "cut"} {
			p := *rec.plan
			p.K = simhttp.DefaultKnobs()
			p.HErr = nil
			p.ReqMsgs = [][]byte{{1}, {2}}
			p.RespMsgs = [][]byte{bytes.Repeat([]byte{'r'}, 40)}
			p.Split = false
			p.CProg = []COp{{Op: "send", Arg: 0}, {Op: "recvall"}, {Op: "closeresp"}}
			p.CProgRcv = nil
			p.HProg = []HOp{{Op: "recv"}, {Op: "send", Arg: 0}, {Op: "drain"}}
			sc2 := *rec.sc
			sc2.Clients = append([]ClientCfg(nil), rec.sc.Clients...)
			if mode == "oversize" {
				sc2.Clients[0].ReadMax = 8
			} else {
				p.K.DownCutAt = 7
				p.K.DownCutErr = io.ErrUnexpectedEOF
			}
			sc2.Calls = []*CallPlan{&p}
			// the first pair under the default schedule, the others under
			// schedules drawn from the exchange's own bytes: who gets to run
			// first after the failure - the client closing, the transport
			// forwarding the end of the request - decides what the handler sees
			tape := core.ReplayTape(nil)
			if liveSched >= 2 {
				tape = core.NewTape(core.Mix(hashBytes(rec.respBody)+uint64(len(rec.reqBody)), uint64(liveSched)))
			}
			liveSched++
			w, st, panics := subRun(&sc2, tape)
			deliveries++
			r.Steps += w.S.Steps
			where := "client Receive fails (" + mode + ") while the request stream is still open"
			if len(panics) > 0 {
				addV("client-failure/panic", where+": "+panics[0])
				continue
			}
			if st != core.Done {
				addV("client-failure/hang", where+": "+w.hangReport())
				continue
			}
			o := w.Obs[0]
			r.Probes["client_failures_with_open_request"]++
			if o.FinalSet && o.Final == nil {
				addV("client-failure/success", where+": the call ended in success")
			}
			if o.H.RecvEndSet && (o.H.RecvEnd == nil || errors.Is(o.H.RecvEnd, io.EOF)) {
				addV("client-failure/handler-saw-clean-end", where+fmt.Sprintf(": the handler saw a clean end of the request stream after %d message(s) although the client never closed its side", len(o.H.Recv)))
			}
		}
	}
	r.Probes["deliveries"] += deliveries
	r.Probes["exchanges"]++
	if complete {
		r.Probes["exchanges_enumerated_exhaustively"]++
	}
	r.Probes["enumeration_complete"] = 1
	r.Nontrivial = deliveries > 2
	r.Sig = fmt.Sprintf("%s|%d|%d|%x", tag, len(rec.reqBody), len(rec.respBody), core.Mix(hashBytes(rec.reqBody), hashBytes(rec.respBody)))
	r.Hash = r.Sig
	r.Sample = map[string]any{"exchange": describeRecorded(rec), "deliveries": deliveries, "every_offset": complete}
}

func hashBytes(b []byte) uint64 {
	h := uint64(14695981039346656037)
	for _, c := range b {
		h ^= uint64(c)
		h *= 1099511628211
	}
	return h
}

func firstDiff(a, b string) string {
	i := 0
	for i < len(a) && i < len(b) && a[i] == b[i] {
		i++
	}
	lo := max(0, i-30)
	return fmt.Sprintf("at %d: ...%.60s vs ...%.60s", i, a[lo:], b[lo:])
}

package world

import (
	"bytes"
	"errors"
	"fmt"
	"net/http"
	"strings"

	connect "github.com/bufbuild/connect-go"
	"google.golang.org/protobuf/types/known/anypb"

	"verif/sim/core"
	"verif/sim/ref"
	"verif/sim/simhttp"
)

// C05 — bytes on the wire conform to the Connect, gRPC and gRPC-Web
// protocols. Three refinement worlds against the independent reference codec
// (package ref): (0) real client <-> real handler, every recorded exchange is
// strictly decoded by ref and must yield what the programs supplied; (1) real
// client <-> ref server answering in a randomly chosen legal form; (2) ref
// client -> real handler with randomly chosen legal request forms.

func init() {
	register(&Prop{ID: "C05", Gen: genC05, Check: checkC05})
}

func refDetails(e *ErrPlan) []ref.Detail {
	var out []ref.Detail
	for _, d := range e.Details {
		a, err := anypb.New(d.message())
		if err == nil {
			out = append(out, ref.Detail{TypeURL: a.GetTypeUrl(), Value: a.GetValue()})
		}
	}
	return out
}

func genC05(t *core.Tape, tier string) *Scenario {
	mode := t.Choose(3, "c05.mode")
	if mode == 0 {
		sc := genRich(t, tier, "C05")
		sc.Notes["mode_e2e_recorded"]++
		sc.Calls[0].c05mode = 0
		return sc
	}
	sc := &Scenario{Prop: "C05", Notes: map[string]int{}}
	h := genHandlerCfg(t)
	c := genClientCfg(t)
	fixCompat(&c, &h)
	sc.Handlers = []HandlerCfg{h}
	sc.Clients = []ClientCfg{c}
	p := &CallPlan{ID: callID(0), Kind: genKind(t), c05mode: mode}
	p.K = genKnobs(t, p.Kind)
	p.K.DownWindow, p.K.UpWindow = 1<<20, 1<<20
	codec := "proto"
	if c.JSON {
		codec = "json"
	}
	streaming := !(c.Proto == PConnect && p.Kind == KUnary)
	nreq, nresp := 1, 1
	if p.Kind == KClient || p.Kind == KBidi {
		nreq = t.Choose(4, "nreq")
	}
	if p.Kind == KServer || p.Kind == KBidi {
		nresp = t.Choose(4, "nresp")
	}
	for i := 0; i < nreq; i++ {
		p.ReqMsgs = append(p.ReqMsgs, t.Bytes([]int{0, 1, 30, 600}[t.Choose(4, "sz")], 1, "m"))
	}
	for i := 0; i < nresp; i++ {
		p.RespMsgs = append(p.RespMsgs, t.Bytes([]int{0, 1, 30, 600}[t.Choose(4, "sz")], 1, "m"))
	}
	p.bin = map[string][][]byte{}
	p.ReqHeader = genMeta(t, "X-Q", p.bin)
	p.RespHeader = genMeta(t, "X-H", p.bin)
	p.RespTrailer = genMeta(t, "X-T", p.bin)
	if mode != 1 && t.Bool(1, 5, "trailer.key.without.values") {
		// a trailer key that holds no values - the handler stored the (absent)
		// values of a request header under it, or passed on the trailers of a
		// backend response in which an announced trailer never came: on the wire
		// that is no trailer at all
		p.RespTrailer[[]string{"X-Echo", "Grpc-Status-Details-Bin", "X-T-Unset"}[t.Choose(3, "trailer.nil.key")]] = nil
		sc.Notes["trailer_key_without_values"]++
	}
	stdPrograms(t, p)
	if p.Kind == KBidi {
		p.Split = false
		var prog []COp
		for i := range p.ReqMsgs {
			prog = append(prog, COp{Op: "send", Arg: i})
		}
		p.CProg = append(prog, COp{Op: "closereq"}, COp{Op: "recvall"}, COp{Op: "closeresp"})
		p.CProgRcv = nil
		p.HProg = []HOp{{Op: "sethdr"}, {Op: "drain"}}
		for i := range p.RespMsgs {
			p.HProg = append(p.HProg, HOp{Op: "send", Arg: i})
		}
		p.HProg = append(p.HProg, HOp{Op: "settrl"})
	}
	if t.Bool(1, 3, "fail") {
		p.HErr = genErrPlan(t, sc.Notes, p.bin)
		p.HErr.NilErr = false
		if mode == 1 {
			p.HErr.Plain = false // the reference server sends a code of its choosing
		} else if p.HErr.WrapCtx == 0 && !p.HErr.WrapEOF && t.Bool(1, 6, "err.text.not.utf8") {
			// an error whose text quotes bytes that are not valid UTF-8 (a peer's
			// payload, a panic value): no protocol can carry it as it is, but code,
			// the rest of the text, details and metadata must still arrive
			p.HErr.Msg = []string{"bad frame \xff\xfe\x80", "\xc3 truncated rune", "caf\xe9 latin-1", "ok \xf0\x9f then text"}[t.Choose(4, "err.text.not.utf8.which")]
			sc.Notes["err_text_not_utf8"]++
		}
		if mode == 2 && t.Bool(1, 4, "proxied.status.keys") {
			// a handler that passes an upstream gRPC error's metadata through:
			// the wire must still carry exactly one status, the handler's own
			p.HErr.ProxyMeta = http.Header{"Grpc-Status": {"5"}, "Grpc-Message": {"upstream said no"}}
			sc.Notes["proxied_status_keys"]++
		} else if mode == 2 && t.Bool(1, 4, "forwarded.client.error") {
			// the gateway pattern: the handler returns the error a connect-go
			// client gave it for a backend call - whose metadata holds the
			// backend response's headers, entity headers included
			p.HErr.ProxyMeta = http.Header{
				"Content-Type":     {"application/json"},
				"Content-Length":   {"61"},
				"Date":             {"Mon, 28 Sep 2026 10:00:00 GMT"},
				"Accept-Encoding":  {"gzip"},
				"Content-Encoding": {"gzip"},
			}
			if t.Bool(1, 2, "forwarded.no.encoding") {
				delete(p.HErr.ProxyMeta, "Content-Encoding")
			}
			if t.Bool(1, 2, "forwarded.grpc.backend") {
				// ... of a gRPC backend that compressed with an algorithm of its own
				p.HErr.ProxyMeta = http.Header{
					"Content-Type":         {"application/grpc+proto"},
					"Grpc-Encoding":        {"zl"},
					"Grpc-Accept-Encoding": {"zl,gzip"},
					"Date":                 {"Mon, 28 Sep 2026 10:00:00 GMT"},
				}
			}
			sc.Notes["forwarded_client_error"]++
		}
		if p.Kind == KServer || p.Kind == KBidi {
			// the error follows k messages
			k := t.Choose(len(p.RespMsgs)+1, "err.after")
			p.RespMsgs = p.RespMsgs[:k]
			var prog []HOp
			sent := 0
			for _, op := range p.HProg {
				if op.Op == "send" {
					if sent >= k {
						continue
					}
					sent++
				}
				prog = append(prog, op)
			}
			p.HProg = prog
		}
	}
	if mode == 2 && p.HErr == nil && (p.Kind == KUnary || p.Kind == KClient) && t.Bool(1, 5, "forwarded.response") {
		// the gateway pattern, success flavour: the handler returns the
		// *Response a backend client gave it, header block and all
		p.RespHeader = p.RespHeader.Clone()
		if p.RespHeader == nil {
			p.RespHeader = http.Header{}
		}
		for k, v := range map[string]string{"Content-Type": "application/grpc+proto", "Content-Length": "7", "Grpc-Encoding": "zl", "Grpc-Accept-Encoding": "zl,gzip", "Date": "Mon, 28 Sep 2026 10:00:00 GMT"} {
			p.RespHeader.Set(k, v)
		}
		sc.Notes["forwarded_response"]++
	}
	o := ref.EncOpts{PadBin: t.Bool(1, 2, "padbin"), UpperHex: t.Bool(1, 2, "upperhex"), LowerKeys: t.Bool(1, 2, "lowerkeys"), BareCT: t.Bool(1, 3, "barect"), OmitDetails: t.Bool(1, 2, "omitdetails"), NameIdentity: t.Bool(1, 3, "nameidentity")}
	compressEvery := t.Choose(3, "compress.every")
	if mode == 1 {
		// ---- real client <-> reference server
		sc.Notes["mode_ref_server"]++
		var refErr *ref.Error
		if p.HErr != nil {
			refErr = &ref.Error{Code: p.HErr.Code, Message: p.HErr.Msg, Details: refDetails(p.HErr)}
		}
		var payloads [][]byte
		for _, m := range p.RespMsgs {
			payloads = append(payloads, ref.EncodeBytesValue(codec, m))
		}
		if (p.Kind == KUnary || p.Kind == KClient) && refErr != nil {
			if (c.Proto != PConnect || p.Kind == KClient) && len(payloads) == 1 && t.Bool(1, 3, "message.then.error") {
				// legal on the wire: the one response message, then a non-OK
				// status - the call's outcome is that status
				sc.Notes["unary_message_then_error"]++
			} else {
				payloads = nil
			}
		}
		// (a successful answer: a client that learns of an error may stop sending)
		answerFirst := p.Kind != KBidi && refErr == nil && t.Bool(1, 3, "answer.first")
		if answerFirst {
			// a full-duplex peer (a proxy in front of a gRPC backend that sends
			// its headers at once): the answer is on its way before the request
			// has been read, the response ends once the request has; the request
			// must still arrive whole
			sc.Notes["ref_server_answers_before_reading"]++
		}
		p.Canned = &simhttp.Canned{ReadRequest: !answerFirst, DrainBeforeEnd: answerFirst, OnRequest: func(reqHdr http.Header) *simhttp.Canned {
			oo := o
			oo.BareCT = false // the response echoes the request's content type
			accept := reqHdr.Get("Grpc-Accept-Encoding")
			if c.Proto == PConnect {
				accept = reqHdr.Get("Connect-Accept-Encoding")
				if !streaming {
					accept = reqHdr.Get("Accept-Encoding")
				}
			}
			if compressEvery > 0 && strings.Contains(accept, "gzip") {
				oo.Encoding, oo.Compress = "gzip", compressWith
				oo.CompressMsg = func(i int) bool { return i%compressEvery == 0 }
			}
			if len(payloads) == 0 && c.Proto != PConnect {
				oo.TrailersOnly = compressEvery != 1
			}
			hdr, trl := p.RespHeader, p.RespTrailer
			if refErr != nil {
				// error metadata travels with the error
				trl = trl.Clone()
				for k, v := range p.HErr.Meta {
					trl[k] = append(trl[k], v...)
				}
			}
			status, header, body, trailer := ref.EncodeResponse(ref.Proto(c.Proto), streaming, codec, oo, payloads, refErr, hdr, trl)
			return &simhttp.Canned{Status: status, Header: header, Body: body, Trailer: trailer}
		}}
	} else {
		// ---- reference client -> real handler
		sc.Notes["mode_ref_client"]++
		if compressEvery > 0 {
			o.Encoding, o.Compress = "gzip", compressWith
			if len(h.Comp) > 0 && t.Bool(1, 2, "custom.alg") {
				o.Encoding = h.Comp[t.Choose(len(h.Comp), "alg")]
			}
			o.CompressMsg = func(i int) bool { return i%compressEvery == 0 }
		}
		var payloads [][]byte
		for _, m := range p.ReqMsgs {
			payloads = append(payloads, ref.EncodeBytesValue(codec, m))
		}
		meta := p.ReqHeader.Clone()
		if o.PadBin {
			// -bin request metadata may be padded
			for k, raws := range p.bin {
				if strings.HasPrefix(k, "X-Q") {
					meta[k] = nil
					for _, raw := range raws {
						meta[k] = append(meta[k], ref.EncodeBin(raw, true))
					}
				}
			}
		}
		if o.BareCT && (c.Proto == PConnect || codec != "proto") {
			o.BareCT = false
		}
		timeout := ""
		if t.Bool(1, 3, "timeout") {
			timeout = "50"
			if c.Proto != PConnect {
				timeout = []string{"50S", "000050S", "3M", "1H"}[t.Choose(4, "to")]
			}
		}
		hdr := ref.RequestHeader(ref.Proto(c.Proto), streaming, codec, o, timeout, meta)
		accept := []string{"", "gzip", "identity", "gzip, identity"}[t.Choose(4, "accept")]
		if accept != "" {
			name := "Grpc-Accept-Encoding"
			if c.Proto == PConnect {
				name = "Connect-Accept-Encoding"
				if !streaming {
					name = "Accept-Encoding"
				}
			}
			hdr[name] = []string{accept}
		}
		if p.HErr == nil && len(p.RespMsgs) > 0 && t.Bool(1, 4, "marshal.fails") {
			// the handler's j-th response message cannot be marshalled (fault
			// at the Codec seam); like any handler it returns Send's error
			sc.Handlers[0].FailCodec = true
			j := t.Choose(len(p.RespMsgs), "marshal.fails.at")
			p.RespMsgs[j] = append(append([]byte{}, marshalFailMarker...), p.RespMsgs[j]...)
			p.ReturnSendErr = true
			p.marshalFailAt = j
			p.marshalFails = true
			sc.Notes["marshal_failure_planned"]++
		}
		p.Raw = &RawReq{Method: "POST", Header: hdr, Body: ref.EncodeRequestBody(ref.Proto(c.Proto), streaming, o, payloads)}
		p.K.HTTP2 = p.K.HTTP2 || p.Kind == KBidi
	}
	genYield(t, p)
	sc.Calls = []*CallPlan{p}
	return sc
}

func sameDetails(got []ref.Detail, want []ref.Detail) bool {
	if len(got) != len(want) {
		return false
	}
	for i := range got {
		if got[i].TypeURL != want[i].TypeURL {
			return false
		}
		if !bytes.Equal(got[i].Value, want[i].Value) && !sameAnyValue(&anypb.Any{TypeUrl: got[i].TypeURL, Value: got[i].Value}, &anypb.Any{TypeUrl: want[i].TypeURL, Value: want[i].Value}) {
			return false
		}
	}
	return true
}

func checkC05(w *World, st core.Status, r *RunResult) []Violation {
	var vs []Violation
	if st != core.Done {
		return nil
	}
	for _, o := range w.Obs {
		p := o.Plan
		if transportLimit(o, r) {
			continue
		}
		ccfg := w.Sc.Clients[p.Client]
		proto := ccfg.Proto
		tag := proto.String() + "/" + p.Kind.String()
		add := func(class, msg string) {
			vs = append(vs, Violation{Class: "C05/" + class + "/" + tag, Msg: p.ID + ": " + msg})
		}
		ex := o.Call.Exchange()
		if ex == nil {
			continue
		}
		codec := "proto"
		if ccfg.JSON {
			codec = "json"
		}
		streaming := !(proto == PConnect && p.Kind == KUnary)
		reqCT := ex.ReqHeader.Get("Content-Type")
		decodeAll := func(payloads [][]byte) ([][]byte, error) {
			var out [][]byte
			for i, pl := range payloads {
				v, err := ref.DecodeBytesValue(codec, pl)
				if err != nil {
					return nil, fmt.Errorf("message %d: %w", i, err)
				}
				out = append(out, v)
			}
			return out, nil
		}
		// ---- what the real client wrote (modes 0 and 1)
		if p.c05mode != 2 {
			clientOK := true
			for _, op := range append(append([]OpRec{}, o.Ops...), o.OpsRcv...) {
				if op.Op == "send" && op.Err != nil {
					clientOK = false
				}
			}
			if clientOK && handlerDrainsRequest(p) {
				r.Probes["client_requests_decoded"]++
				req, err := ref.DecodeRequest(ref.Proto(proto), streaming, ex.Method, ex.ReqHeader, ex.Up.Bytes(), harnessDecomp)
				if err != nil {
					add("client-request-not-conformant", fmt.Sprintf("request headers %v body %q: %v", ex.ReqHeader, clip(ex.Up.Bytes(), 80), err))
				} else {
					got, derr := decodeAll(req.Messages)
					if derr != nil {
						add("client-request-payload", derr.Error())
					} else if c, m := seqMismatch(p.ReqMsgs, got); c != "" {
						add("client-request-messages/"+c, m)
					}
					if req.Codec != codec {
						add("client-request-codec", fmt.Sprintf("content-type %q names codec %q, client uses %q", reqCT, req.Codec, codec))
					}
					if why, ok := containsValues(req.Header, p.ReqHeader); !ok {
						add("client-request-metadata", why)
					}
				}
			}
		}
		// ---- what the real handler wrote (modes 0 and 2)
		if p.c05mode != 1 {
			r.Probes["handler_responses_decoded"]++
			resp, err := ref.DecodeResponse(ref.Proto(proto), streaming, reqCT, ex.Status, ex.RespHeader, ex.Down.Bytes(), ex.Trailer, harnessDecomp)
			if err != nil {
				add("handler-response-not-conformant", fmt.Sprintf("HTTP %d headers %v body %q trailers %v: %v", ex.Status, ex.RespHeader, clip(ex.Down.Bytes(), 100), ex.Trailer, err))
				continue
			}
			// the encoding the response names is one the client used or
			// advertised, and it is named once
			for _, key := range []string{"Grpc-Encoding", "Connect-Content-Encoding", "Content-Encoding"} {
				vals := ex.RespHeader[key]
				if len(vals) > 1 {
					add("handler-response-not-conformant", fmt.Sprintf("%s appears %d times: %q", key, len(vals), vals))
				}
				for _, v := range vals {
					if v == "" || v == "identity" || v == "gzip" {
						continue
					}
					ok := false
					for _, rk := range []string{"Grpc-Encoding", "Connect-Content-Encoding", "Content-Encoding", "Grpc-Accept-Encoding", "Connect-Accept-Encoding", "Accept-Encoding"} {
						for _, rv := range ex.ReqHeader[rk] {
							for _, name := range strings.FieldsFunc(rv, func(r rune) bool { return r == ',' || r == ' ' }) {
								ok = ok || name == v
							}
						}
					}
					if !ok {
						add("handler-response-not-conformant", fmt.Sprintf("response names the encoding %q (%s), which the request neither used nor advertised", v, key))
					}
				}
			}
			got, derr := decodeAll(resp.Messages)
			if derr != nil {
				add("handler-response-payload", derr.Error())
			}
			wantMsgs := p.RespMsgs
			if p.Kind == KServer || p.Kind == KBidi {
				wantMsgs = p.RespMsgs[:min(sendsPlanned(p), len(p.RespMsgs))]
			} else if p.HErr != nil {
				wantMsgs = nil
			}
			if p.marshalFails {
				// well-formed failure: the messages before the unmarshallable one,
				// then a coded error - never a bare success or a half-written frame
				r.Probes["marshal_failures_checked"]++
				if len(wantMsgs) > p.marshalFailAt {
					wantMsgs = wantMsgs[:p.marshalFailAt]
				}
				if resp.Err == nil {
					add("marshal-failure-answered-with-success", fmt.Sprintf("response message %d could not be marshalled, the wire carries success", p.marshalFailAt))
				}
				if derr == nil {
					if c, m := seqMismatch(wantMsgs, got); c != "" {
						add("handler-response-messages/"+c, m)
					}
				}
				continue
			}
			if p.c05mode == 2 && o.H.Entered == 0 {
				add("conformant-request-rejected", fmt.Sprintf("the reference client's request %v body %q never reached user code; response error %+v", p.Raw.Header, clip(p.Raw.Body, 60), resp.Err))
				continue
			}
			if derr == nil {
				if c, m := seqMismatch(wantMsgs, got); c != "" {
					add("handler-response-messages/"+c, m)
				}
			}
			for i, comp := range resp.Compressed {
				if comp && (resp.Encoding == "" || resp.Encoding == "identity") {
					add("compressed-flag-without-encoding", fmt.Sprintf("message %d flagged compressed, encoding header %q", i, resp.Encoding))
				}
			}
			switch {
			case p.HErr == nil && resp.Err != nil:
				add("handler-response-error", fmt.Sprintf("handler succeeded, wire carries error %+v", resp.Err))
			case p.HErr != nil && resp.Err == nil:
				add("handler-response-error", "handler failed, wire carries success")
			case p.HErr != nil:
				code, msg := expectedError(p)
				if resp.Err.Code != uint32(code) || !sameText(msg, resp.Err.Message) {
					add("handler-response-error", fmt.Sprintf("handler returned code %d %q, wire carries code %d %q", code, msg, resp.Err.Code, resp.Err.Message))
				}
				if !p.HErr.Plain && !sameDetails(resp.Err.Details, refDetails(p.HErr)) {
					add("handler-response-details", fmt.Sprintf("details on the wire %+v, handler attached %+v", resp.Err.Details, refDetails(p.HErr)))
				}
			}
			// metadata as the protocol carries it
			union := resp.Header.Clone()
			for k, v := range resp.Trailer {
				union[k] = append(union[k], v...)
			}
			hdrSet := p.Kind == KUnary || p.Kind == KClient || hasOp(p, "sethdr")
			trlSet := p.Kind == KUnary || p.Kind == KClient || hasOp(p, "settrl")
			if p.HErr != nil && (p.Kind == KUnary || p.Kind == KClient) {
				hdrSet, trlSet = false, false
			}
			if hdrSet {
				want := p.RespHeader.Clone()
				for _, k := range []string{"Content-Type", "Content-Length", "Grpc-Encoding", "Grpc-Accept-Encoding", "Date"} {
					// (a forwarded Response's message headers are not metadata)
					want.Del(k)
				}
				if why, ok := containsValues(union, want); !ok {
					add("handler-response-header-metadata", why)
				}
			}
			if trlSet {
				if why, ok := containsValues(union, p.RespTrailer); !ok {
					add("handler-response-trailer-metadata", why)
				}
			}
			if p.HErr != nil && !p.HErr.Plain {
				if why, ok := containsValues(union, p.HErr.Meta); !ok {
					add("handler-response-error-metadata", why)
				}
			}
			if p.c05mode == 2 {
				// the handler decoded the reference client's request to the same values
				r.Probes["ref_client_requests"]++
				wantReq := p.ReqMsgs
				if c, m := seqMismatch(wantReq[:min(len(wantReq), len(o.H.Recv))], o.H.Recv); c != "" {
					add("conformant-request-misdecoded/"+c, m)
				}
				if handlerDrainsRequest(p) && len(o.H.Recv) != len(wantReq) {
					add("conformant-request-misdecoded/count", fmt.Sprintf("handler received %d of %d messages (end: %v)", len(o.H.Recv), len(wantReq), o.H.RecvEnd))
				}
				for k, want := range p.ReqHeader {
					gotv := o.H.ReqHeader[k]
					if strings.HasSuffix(k, "-Bin") {
						// padded and unpadded forms are the same value
						ok := len(gotv) == len(want)
						for i := 0; ok && i < len(want); i++ {
							a, e1 := connect.DecodeBinaryHeader(gotv[i])
							b, e2 := ref.DecodeBin(want[i])
							ok = e1 == nil && e2 == nil && bytes.Equal(a, b)
						}
						if !ok {
							add("conformant-request-bin-metadata", fmt.Sprintf("key %q: sent %q, handler sees %q (helpers do not decode to the same bytes)", k, want, gotv))
						}
						continue
					}
					if strings.Join(gotv, "\x00") != strings.Join(want, "\x00") {
						add("conformant-request-metadata", fmt.Sprintf("key %q: sent %q, handler sees %q", k, want, gotv))
					}
				}
			}
		}
		// ---- the real client decoding the reference server (mode 1)
		if p.c05mode == 1 {
			r.Probes["ref_server_responses"]++
			if !o.FinalSet {
				add("conformant-response-no-outcome", "client produced no outcome")
				continue
			}
			wantMsgs := p.RespMsgs
			if (p.Kind == KUnary || p.Kind == KClient) && p.HErr != nil {
				wantMsgs = nil
			}
			if p.HErr == nil {
				if o.Final != nil {
					add("conformant-response-rejected", fmt.Sprintf("reference server answered OK (headers %v, body %q, trailers %v), client reports %v", ex.RespHeader, clip(ex.Down.Bytes(), 80), ex.Trailer, o.Final))
					continue
				}
			} else {
				var ce *connect.Error
				if o.Final == nil {
					add("conformant-error-lost", "reference server sent an error, client reports success")
					continue
				}
				if !errors.As(o.Final, &ce) || uint32(ce.Code()) != p.HErr.Code || ce.Message() != p.HErr.Msg {
					add("conformant-error-misdecoded", fmt.Sprintf("reference server sent code %d %q (headers %v, body %q, trailers %v), client reports %v", p.HErr.Code, p.HErr.Msg, ex.RespHeader, clip(ex.Down.Bytes(), 120), ex.Trailer, o.Final))
				} else {
					var gd []ref.Detail
					for _, d := range ce.Details() {
						if a, ok := d.(*anypb.Any); ok {
							gd = append(gd, ref.Detail{TypeURL: a.GetTypeUrl(), Value: a.GetValue()})
						}
					}
					if !sameDetails(gd, refDetails(p.HErr)) {
						add("conformant-error-details", fmt.Sprintf("client sees details %+v, reference server sent %+v", gd, refDetails(p.HErr)))
					}
					if why, ok := containsValues(ce.Meta(), p.HErr.Meta); !ok {
						add("conformant-error-metadata", why)
					}
				}
			}
			if c, m := seqMismatch(wantMsgs, o.Recv); c != "" {
				add("conformant-response-messages/"+c, m)
			}
			if o.Final == nil {
				union := o.RespHeader.Clone()
				for k, v := range o.RespTrailer {
					union[k] = append(union[k], v...)
				}
				if why, ok := containsValues(union, p.RespHeader); !ok {
					add("conformant-response-header-metadata", why)
				}
				if why, ok := containsValues(union, p.RespTrailer); !ok {
					add("conformant-response-trailer-metadata", why)
				}
			}
		}
	}
	return vs
}

// handlerDrainsRequest: did the other side read the whole request, so that
// the recorded request body is complete?
func handlerDrainsRequest(p *CallPlan) bool {
	if p.Canned != nil || p.Raw != nil {
		return true
	}
	return handlerDrains(p)
}

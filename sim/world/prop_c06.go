package world

import (
	"encoding/json"
	"errors"
	"fmt"
	"io"
	"net/http"
	"strconv"
	"strings"

	connect "github.com/bufbuild/connect-go"

	"verif/sim/core"
	"verif/sim/ref"
	"verif/sim/simhttp"
)

// C06 — whatever a server sends, the client fails safely with a coded
// non-OK error. A byzantine server behind HTTPClient.Do answers with (i)
// mutated valid responses, (ii) grammar-aware adversarial fields, (iii)
// random responses; delivery is segmented and scheduled by the tape.

func init() {
	register(&Prop{ID: "C06", Gen: genC06, Check: checkC06, HangIsViolation: true})
}

func compressWith(name string, data []byte) []byte {
	if name == "gzip" {
		return gzipBytes(data)
	}
	return rleEncode(name, data)
}

// genValidResponse builds a conformant response for the call with the
// reference encoder.
func genValidResponse(t *core.Tape, proto Proto, kind Kind, codec string, nmsgs int, withErr bool) (*simhttp.Canned, *ref.Error, http.Header) {
	streaming := !(proto == PConnect && kind == KUnary)
	o := ref.EncOpts{PadBin: t.Bool(1, 2, "padbin"), UpperHex: t.Bool(1, 2, "upperhex"), LowerKeys: t.Bool(1, 2, "lowerkeys"), BareCT: false}
	if t.Bool(1, 3, "enc") {
		o.Encoding = "gzip"
		o.Compress = compressWith
		o.CompressMsg = func(i int) bool { return i%2 == 0 }
	}
	var msgs [][]byte
	for i := 0; i < nmsgs; i++ {
		msgs = append(msgs, ref.EncodeBytesValue(codec, t.Bytes(t.Choose(40, "m.n"), 1, "m")))
	}
	var e *ref.Error
	if withErr {
		e = &ref.Error{Code: uint32(1 + t.Choose(16, "code")), Message: "byz " + string(t.Bytes(3, 1, "em"))}
	}
	if len(msgs) == 0 && proto != PConnect {
		o.TrailersOnly = t.Bool(1, 2, "trailersonly")
	}
	trl := http.Header{}
	if t.Bool(1, 2, "trl") {
		trl["X-Byz-Trailer"] = []string{"tv"}
		if t.Bool(1, 2, "trl2") {
			trl["X-Byz-Multi"] = []string{"a", "b"}
		}
	}
	hdr := http.Header{}
	if t.Bool(1, 2, "hdr") {
		hdr["X-Byz-Header"] = []string{"hv"}
	}
	status, header, body, trailer := ref.EncodeResponse(ref.Proto(proto), streaming, codec, o, msgs, e, hdr, trl)
	return &simhttp.Canned{Status: status, Header: header, Body: body, Trailer: trailer}, e, trl
}

var weirdStatuses = []int{0, 100, 101, 199, 201, 204, 206, 301, 304, 400, 401, 403, 404, 405, 408, 409, 412, 413, 415, 429, 431, 499, 500, 501, 502, 503, 504, 505, 599, 600, 999}

var documentedHTTP = map[int]connect.Code{
	401: connect.CodeUnauthenticated, 403: connect.CodePermissionDenied, 404: connect.CodeUnimplemented,
	429: connect.CodeUnavailable, 502: connect.CodeUnavailable, 503: connect.CodeUnavailable, 504: connect.CodeUnavailable,
}

func randHeader(t *core.Tape) http.Header {
	h := http.Header{}
	names := []string{"Content-Type", "Grpc-Status", "Grpc-Message", "Grpc-Status-Details-Bin", "Grpc-Encoding", "Content-Encoding",
		"Connect-Content-Encoding", "Trailer-X", "X-Any", "Content-Length", "Trailer", "Grpc-Accept-Encoding", "Connect-Accept-Encoding"}
	vals := []string{"", "0", "1", "16", "17", "-1", "4294967295", "99999999999", "abc", "gzip", "identity", "br", "application/grpc", "application/grpc+proto",
		"application/grpc-web+proto", "application/connect+proto", "application/proto", "application/json", "text/html", "%zz%", "CAE", "CAESA2FiYw", "====", "x y", "a,b"}
	n := t.Choose(6, "rh.n")
	for i := 0; i < n; i++ {
		k := names[t.Choose(len(names), "rh.k")]
		for j := 1 + t.Choose(2, "rh.nv"); j > 0; j-- {
			h[k] = append(h[k], vals[t.Choose(len(vals), "rh.v")])
		}
	}
	return h
}

var badConnectJSON = []string{
	`{"message":"Forbidden"}`, `{"code":"code_0","message":"x"}`, `{"code":"","message":"x"}`, `{"code":"nope"}`, `{"code":7}`,
	`{"code":"internal","message":{"a":1}}`, `{"code":"internal","details":"x"}`, `{"code":"internal","details":[{"@type":"nope","value":"AA"}]}`,
	`{"code":"internal","details":[{"type":"google.protobuf.StringValue","value":"!!!"}]}`, `{`, `[]`, `null`, `"str"`, `{"code":"code_4294967296"}`,
	`{"code":"code_17","message":"seventeen"}`, `{"code":"CANCELED"}`, `{"unknown_field":1,"code":"internal"}`, ``, `{"code":"internal"} trailing`,
	`<html><body>502 Bad Gateway</body></html>`,
}

var badEndStream = []string{
	`{"error":{"message":"boom"}}`, `{"error":{"code":"code_0"}}`, `{"error":{}}`, `{"error":null}`, `{"error":"str"}`, `{"metadata":{"x-foo":["bar"]}}`,
	`{"metadata":{"X-FOO":["bar"],"x-foo":["baz"]}}`, `{"metadata":{"x-foo":"bar"}}`, `{"metadata":[]}`, `{`, ``, `null`, `[]`, `{"error":{"code":"nope"}}`,
	`{"error":{"code":"internal","details":[{"@type":"x","value":"!"}]}}`, `{"error":{"code":"code_99"},"metadata":{"a b":["c"]}}`,
}

type byzInfo struct {
	class     string
	lookupKey string // canonical key the peer sent in non-canonical casing inside an in-body block
	lookupVal string
	httpOnly  bool // non-200 without any protocol-level error: the code must derive from the status
}

func genC06(t *core.Tape, tier string) *Scenario {
	sc := &Scenario{Prop: "C06", Notes: map[string]int{}}
	sc.Handlers = []HandlerCfg{{}}
	c := ClientCfg{Proto: genProto(t), JSON: t.Bool(1, 3, "json")}
	if t.Bool(1, 4, "readmax") {
		c.ReadMax = []int{1, 8, 64}[t.Choose(3, "readmax.n")]
	}
	sc.Clients = []ClientCfg{c}
	p := &CallPlan{ID: callID(0), Kind: genKind(t)}
	p.K = genKnobs(t, p.Kind)
	nreq := 1
	if p.Kind == KClient || p.Kind == KBidi {
		nreq = t.Choose(3, "nreq")
	}
	for i := 0; i < nreq; i++ {
		p.ReqMsgs = append(p.ReqMsgs, smallPayload(t))
	}
	stdPrograms(t, p)
	if p.Kind == KBidi {
		p.Split = false
		var prog []COp
		for i := range p.ReqMsgs {
			prog = append(prog, COp{Op: "send", Arg: i})
		}
		p.CProg = append(prog, COp{Op: "closereq"}, COp{Op: "recvall"}, COp{Op: "recvmore"}, COp{Op: "closeresp"})
		p.CProgRcv = nil
	}
	codec := "proto"
	if c.JSON {
		codec = "json"
	}
	streaming := !(c.Proto == PConnect && p.Kind == KUnary)
	nmsgs := 1
	if p.Kind == KServer || p.Kind == KBidi {
		nmsgs = t.Choose(4, "nresp")
	}
	info := &byzInfo{}
	can, _, _ := genValidResponse(t, c.Proto, p.Kind, codec, nmsgs, t.Bool(1, 3, "witherr"))
	switch t.Pick([]int{3, 4, 2}, "byz.family") {
	case 0: // (i) mutate a valid response
		info.class = "mutated"
		for n := 1 + t.Choose(3, "mut.n"); n > 0; n-- {
			switch t.Choose(12, "mut.op") {
			case 0:
				if len(can.Body) > 0 {
					can.Body = append([]byte(nil), can.Body...)
					can.Body[t.Choose(len(can.Body), "mut.off")] ^= byte(1 << t.Choose(8, "mut.bit"))
				}
			case 1:
				if len(can.Body) > 0 {
					can.Body = can.Body[:t.Choose(len(can.Body), "mut.trunc")]
				}
			case 2:
				can.Body = append(append([]byte(nil), can.Body...), t.Bytes(1+t.Choose(12, "mut.app"), 2, "g")...)
			case 3:
				can.Status = weirdStatuses[t.Choose(len(weirdStatuses), "mut.status")]
			case 4:
				can.Header = can.Header.Clone()
				can.Header.Del([]string{"Content-Type", "Grpc-Status", "Grpc-Encoding", "Content-Encoding"}[t.Choose(4, "mut.del")])
			case 5:
				can.Header = can.Header.Clone()
				can.Header["Content-Type"] = []string{[]string{"application/grpc", "application/grpc-web+proto", "application/connect+json", "application/json", "text/plain", ""}[t.Choose(6, "mut.ct")]}
			case 6:
				can.Trailer = nil
			case 7:
				if can.Trailer != nil {
					can.Trailer = can.Trailer.Clone()
					can.Trailer["Grpc-Status"] = append(can.Trailer["Grpc-Status"], "7")
				}
			case 8:
				if len(can.Body) >= 5 {
					can.Body = append([]byte(nil), can.Body...)
					can.Body[0] |= []byte{0x02, 0x80, 0x04, 0x40, 0x01}[t.Choose(5, "mut.flag")]
				}
			case 9:
				if len(can.Body) >= 5 {
					can.Body = append([]byte(nil), can.Body...)
					copy(can.Body[1:5], [][]byte{{0xff, 0xff, 0xff, 0xff}, {0, 0, 0, 0}, {0, 0, 1, 0}, {0x7f, 0xff, 0xff, 0xff}}[t.Choose(4, "mut.len")])
				}
			case 10:
				can.Header = can.Header.Clone()
				can.Header[[]string{"Grpc-Encoding", "Content-Encoding", "Connect-Content-Encoding"}[t.Choose(3, "mut.enc")]] = []string{[]string{"br", "gzip", "identity", ""}[t.Choose(4, "mut.encv")]}
			case 11:
				can.EndErr = []error{io.ErrUnexpectedEOF, errors.New("connection reset by peer"), errors.New("stream error: stream ID 3; PROTOCOL_ERROR; received from peer")}[t.Choose(3, "mut.end")]
			}
		}
	case 1: // (ii) grammar-aware adversarial fields
		info.class = "adversarial"
		unknownEnc := false
		switch {
		case c.Proto == PConnect && !streaming:
			can.Status = weirdStatuses[9+t.Choose(len(weirdStatuses)-9, "adv.status")]
			can.Header = http.Header{"Content-Type": {[]string{"application/json", "text/html", "application/proto"}[t.Choose(3, "adv.ct")]}}
			can.Body = []byte(badConnectJSON[t.Choose(len(badConnectJSON), "adv.json")])
			if t.Bool(1, 3, "adv.bodyfails") {
				// the error body cannot be read to its end: no protocol-level
				// error is available, whatever the bytes so far look like
				can.EndErr = []error{io.ErrUnexpectedEOF, errors.New("read tcp 10.0.0.1:443: connection reset by peer")}[t.Choose(2, "adv.bodyfails.how")]
				sc.Notes["nonok_body_read_failure"]++
			}
			if t.Bool(1, 4, "adv.encoding") {
				// an intermediary's error page in an encoding the client does not
				// know: certainly no protocol-level error
				can.Header["Content-Encoding"] = []string{[]string{"br", "deflate", "zstd", "GZIP", "gzip, gzip"}[t.Choose(5, "adv.encoding.v")]}
				sc.Notes["nonok_unknown_encoding"]++
				unknownEnc = true
			}
			info.httpOnly = unknownEnc || can.EndErr != nil || !strings.Contains(string(can.Body), `"code":"internal"`) && !strings.Contains(string(can.Body), `"code":"code_17"`) && !strings.Contains(string(can.Body), `"code":"code_4294967296"`) && !strings.Contains(string(can.Body), `"code":7`)
		case c.Proto == PConnect:
			js := badEndStream[t.Choose(len(badEndStream), "adv.end")]
			body := []byte{}
			for i := 0; i < nmsgs; i++ {
				body = ref.AppendEnvelope(body, 0, ref.EncodeBytesValue(codec, []byte{byte(i)}))
			}
			can.Body = ref.AppendEnvelope(body, ref.FlagEndStream, []byte(js))
			can.Status = 200
			if strings.Contains(js, `"x-foo":["bar"]`) && !strings.Contains(js, "X-FOO") {
				info.lookupKey, info.lookupVal = "X-Foo", "bar"
			}
		default:
			// gRPC / gRPC-Web status fields
			st := []string{"", "0", "00", "5", "-1", "17", "4294967295", "4294967296", "abc", "5 ", "0x5", "١"}[t.Choose(12, "adv.status")]
			tr := http.Header{}
			if st != "" || t.Bool(1, 2, "adv.emptystatus") {
				tr["Grpc-Status"] = []string{st}
			}
			switch t.Choose(6, "adv.details") {
			case 1:
				tr["Grpc-Status-Details-Bin"] = []string{"!!!not-base64"}
			case 2:
				tr["Grpc-Status-Details-Bin"] = []string{ref.EncodeBin(ref.EncodeStatusProto(&ref.Error{Code: 0, Message: "hi"}), false)}
			case 3:
				tr["Grpc-Status-Details-Bin"] = []string{ref.EncodeBin([]byte{0xff, 0xff, 0xff}, true)}
			case 4:
				tr["Grpc-Status-Details-Bin"] = []string{ref.EncodeBin(ref.EncodeStatusProto(&ref.Error{Code: 9, Message: "other"}), true)}
			}
			if t.Bool(2, 3, "adv.msg") {
				// percent-encoding grammar and its near misses, concatenated
				segs := []string{"ok", "%20", "%4", "%", "%zz", "%E4%B8%AD", "%e4%b8", "\xff", " ", "%25", "%0", "thing"}
				msg := ""
				for n := 1 + t.Choose(4, "adv.msg.n"); n > 0; n-- {
					msg += segs[t.Choose(len(segs), "adv.msg.seg")]
				}
				tr["Grpc-Message"] = []string{msg}
			}
			body := []byte{}
			for i := 0; i < nmsgs; i++ {
				body = ref.AppendEnvelope(body, 0, ref.EncodeBytesValue(codec, []byte{byte(i)}))
			}
			can.Status = 200
			can.Header = http.Header{"Content-Type": {ref.ContentType(ref.Proto(c.Proto), true, codec, false)}}
			switch {
			case t.Bool(1, 4, "adv.inheaders"):
				for k, v := range tr {
					can.Header[k] = v
				}
				can.Trailer = nil
				if t.Bool(1, 2, "adv.bodyless") {
					body = nil
				}
			case c.Proto == PGRPCWeb:
				block := ""
				lower := t.Bool(1, 2, "adv.lower")
				for _, k := range ref.SortedKeys(tr) {
					kk := k
					if lower {
						kk = strings.ToLower(k)
					}
					block += kk + ": " + tr[k][0] + "\r\n"
				}
				if t.Bool(1, 2, "adv.webmeta") {
					block += "x-foo: bar\r\n"
					info.lookupKey, info.lookupVal = "X-Foo", "bar"
				}
				if t.Bool(1, 6, "adv.webgarbage") {
					block = "garbage without colon\r\n" + block
					info.lookupKey = ""
				}
				body = ref.AppendEnvelope(body, ref.FlagTrailers, []byte(block))
				can.Trailer = nil
			default:
				can.Trailer = tr
			}
			can.Body = body
		}
	default: // (iii) random
		info.class = "random"
		can.Status = weirdStatuses[t.Choose(len(weirdStatuses), "rnd.status")]
		can.Header = randHeader(t)
		can.Body = t.Bytes(t.Choose(64, "rnd.n"), 2, "rnd.body")
		if t.Bool(1, 2, "rnd.trl") {
			can.Trailer = randHeader(t)
		} else {
			can.Trailer = nil
		}
	}
	// canonical keys at the HTTP level, as real transports deliver them
	can.Header = canonKeys(can.Header)
	if can.Trailer != nil {
		can.Trailer = canonKeys(can.Trailer)
	}
	if t.Bool(1, 6, "announced.trailers") {
		// trailers announced in a Trailer header and never sent: net/http lists
		// every announced key in Response.Trailer, mapped to nil
		tr := http.Header{}
		for k, v := range can.Trailer {
			tr[k] = v
		}
		for _, k := range []string{"Grpc-Status", "Grpc-Message", "Grpc-Status-Details-Bin", "X-Announced"} {
			if _, ok := tr[k]; !ok && t.Bool(1, 2, "announced.key") {
				tr[k] = nil
			}
		}
		can.Trailer = tr
		sc.Notes["announced_unsent_trailers"]++
	}
	if info.class != "adversarial" && sc.Clients[0].ReadMax == 0 {
		// A hostile length prefix makes a client without a read limit reserve up
		// to 4 GiB by design; keep the simulated process small.
		sc.Clients[0].ReadMax = []int{64, 4096, 1 << 20}[t.Choose(3, "readmax.forced")]
	}
	if info.lookupKey != "" {
		sc.Clients[0].ReadMax = 0 // the metadata block itself must not trip the read limit
	}
	if can.Status > 299 && !(c.Proto == PConnect && p.Kind == KUnary) && t.Bool(1, 3, "drain.before.end") {
		// The server answers early and ends the response only once it has read the
		// request to its end; over HTTP/2 the transport stops uploading at the
		// sight of the status, so that end comes only if the client lets go of
		// the response. (Not for unary Connect calls, which need the whole body of
		// a non-200 answer to find the error in it.)
		can.DrainBeforeEnd = true
		sc.Notes["byz_drain_before_end"]++
	}
	sc.Notes["byz_"+info.class]++
	p.Canned = can
	p.byz = info
	genYield(t, p)
	sc.Calls = []*CallPlan{p}
	return sc
}

func canonKeys(h http.Header) http.Header {
	out := http.Header{}
	for _, k := range ref.SortedKeys(h) {
		ck := http.CanonicalHeaderKey(k)
		out[ck] = append(out[ck], h[k]...)
	}
	return out
}

func checkC06(w *World, st core.Status, r *RunResult) []Violation {
	var vs []Violation
	if st != core.Done {
		return nil
	}
	for _, o := range w.Obs {
		p := o.Plan
		proto := w.Sc.Clients[p.Client].Proto
		tag := proto.String() + "/" + p.Kind.String()
		add := func(class, msg string) {
			vs = append(vs, Violation{Class: "C06/" + class + "/" + tag, Msg: fmt.Sprintf("%s: HTTP %d, headers %v, %d body bytes %q, trailers %v: %s", p.ID, p.Canned.Status, p.Canned.Header, len(p.Canned.Body), clip(p.Canned.Body, 80), p.Canned.Trailer, msg)})
		}
		all := append(append([]OpRec{}, o.Ops...), o.OpsRcv...)
		for _, op := range all {
			if op.Err == nil {
				continue
			}
			if op.Op == "recv" && errors.Is(op.Err, io.EOF) {
				var ce *connect.Error
				if errors.As(op.Err, &ce) && ce.Code() == 0 {
					add("zero-code/"+op.Op, fmt.Sprintf("%s returned an EOF-wrapping *connect.Error with code 0: %v", op.Op, op.Err))
				}
				continue
			}
			if op.Op == "send" && errors.Is(op.Err, io.EOF) {
				continue
			}
			var ce *connect.Error
			if !errors.As(op.Err, &ce) {
				add("uncoded-error/"+op.Op, fmt.Sprintf("%s returned %T: %v", op.Op, op.Err, op.Err))
				continue
			}
			if ce.Code() == 0 {
				add("zero-code/"+op.Op, fmt.Sprintf("%s returned an error with the zero (OK) code: %v", op.Op, op.Err))
			}
		}
		if o.FinalSet && o.Final != nil {
			r.Probes["calls_failed"]++
			var ce *connect.Error
			if errors.As(o.Final, &ce) {
				if want, ok := documentedHTTP[p.Canned.Status]; ok && p.byz.httpOnly {
					r.Probes["http_status_mapping_checked"]++
					if ce.Code() != want {
						add("http-status-code/"+strconv.Itoa(p.Canned.Status), fmt.Sprintf("code %v, want %v (derived from HTTP %d)", ce.Code(), want, p.Canned.Status))
					}
				}
				if proto == PConnect && p.Kind == KUnary && p.Canned.Status != 200 && !p.byz.httpOnly {
					// no valid protocol-level error can be read from this response
					// (the body fails before its end, or is not a Connect error):
					// the code derives from the HTTP status
					body := p.Canned.Body
					unreadable := p.Canned.EndErr != nil && p.Canned.EndErr != io.EOF
					if enc := p.Canned.Header.Get("Content-Encoding"); !unreadable && enc == "gzip" {
						if d, err := gunzipBytes(body, 1<<20); err == nil {
							body = d
						}
					}
					if want, ok := documentedHTTP[p.Canned.Status]; ok && (unreadable || !jsonObject(body)) && w.Sc.Clients[p.Client].ReadMax == 0 {
						r.Probes["http_status_mapping_checked"]++
						if ce.Code() != want {
							add("http-status-code/"+strconv.Itoa(p.Canned.Status), fmt.Sprintf("code %v, want %v (derived from HTTP %d; the response carries no readable valid error)", ce.Code(), want, p.Canned.Status))
						}
					}
				}
				if p.Canned.Status != 200 && proto != PConnect {
					if want, ok := documentedHTTP[p.Canned.Status]; ok {
						r.Probes["http_status_mapping_checked"]++
						if ce.Code() != want {
							add("http-status-code/"+strconv.Itoa(p.Canned.Status), fmt.Sprintf("code %v, want %v (derived from HTTP %d)", ce.Code(), want, p.Canned.Status))
						}
					}
				}
			}
		} else if o.FinalSet {
			r.Probes["calls_succeeded"]++
			if p.Canned.Status != 200 {
				add("success-on-non-200", fmt.Sprintf("the call reported success although the response status is %d", p.Canned.Status))
			}
		}
		// case-insensitive lookups for keys sent inside in-body blocks
		if p.byz.lookupKey != "" && o.RawTrailer != nil {
			r.Probes["case_lookup_checked"]++
			found := o.RawTrailer.Get(p.byz.lookupKey) == p.byz.lookupVal
			if !found && o.Final != nil {
				var ce *connect.Error
				if errors.As(o.Final, &ce) {
					found = ce.Meta().Get(p.byz.lookupKey) == p.byz.lookupVal
				}
			}
			if !found {
				add("case-sensitive-lookup", fmt.Sprintf("peer sent metadata %s=%s in lower case; neither ResponseTrailer().Get nor Error.Meta().Get finds it (trailer map: %v)", p.byz.lookupKey, p.byz.lookupVal, o.RawTrailer))
			}
		}
	}
	return vs
}

func clip(b []byte, n int) string {
	if len(b) > n {
		return string(b[:n]) + "..."
	}
	return string(b)
}

// jsonObject: is the body a JSON object at all? (What the library makes of
// odd but parseable error objects - unknown code names, code_17 - is not
// pinned by the statement.)
func jsonObject(b []byte) bool {
	var m map[string]json.RawMessage
	return json.Unmarshal(b, &m) == nil && m != nil
}

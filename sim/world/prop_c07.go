package world

import (
	"bytes"
	"errors"
	"fmt"
	"io"
	"net/http"
	"strconv"
	"strings"

	"verif/sim/core"
	"verif/sim/ref"
)

// C07 — whatever a client sends, the handler rejects it safely. A byzantine
// client drives Handler.ServeHTTP with (i) mutated valid requests, (ii)
// grammar-aware adversarial requests with a documented outcome, (iii) random
// requests; the request body is delivered with tape-chosen segmentation.

func init() {
	register(&Prop{ID: "C07", Gen: genC07, Check: checkC07, HangIsViolation: true})
}

// anyErrorCode: the request must be refused, the statement names no code.
const anyErrorCode = 0xffff

type c07Info struct {
	class     string
	proto     Proto // protocol the valid base request used
	wantCode  uint32
	noEntry   bool // user code must not run
	supported []string
}

func harnessDecomp(name string, data []byte) ([]byte, error) {
	if name == "gzip" {
		return gunzipBytes(data, 64<<20)
	}
	if name == "a" || name == "b" || name == "c" {
		return rleDecode(name, data, 64<<20)
	}
	return nil, fmt.Errorf("unknown algorithm %q", name)
}

// selectProtocol says which protocol a Content-Type selects on a handler of
// the given kind serving the proto and json codecs.
func selectProtocol(kind Kind, ct string) (Proto, bool, bool) {
	for _, codec := range []string{"proto", "json"} {
		switch ct {
		case "application/" + codec:
			if kind == KUnary {
				return PConnect, false, true
			}
		case "application/connect+" + codec:
			if kind != KUnary {
				return PConnect, true, true
			}
		case "application/grpc+" + codec:
			return PGRPC, true, true
		case "application/grpc-web+" + codec:
			return PGRPCWeb, true, true
		}
	}
	switch ct {
	case "application/grpc":
		return PGRPC, true, true
	case "application/grpc-web":
		return PGRPCWeb, true, true
	}
	return 0, false, false
}

func genC07(t *core.Tape, tier string) *Scenario {
	sc := &Scenario{Prop: "C07", Notes: map[string]int{}}
	h := HandlerCfg{Comp: genSubset(t, "hcomp")}
	if t.Bool(1, 3, "readmax") {
		h.ReadMax = []int{1, 16, 64, 1024}[t.Choose(4, "readmax.n")]
	}
	sc.Handlers = []HandlerCfg{h}
	proto := genProto(t)
	sc.Clients = []ClientCfg{{Proto: proto}}
	p := &CallPlan{ID: callID(0), Kind: genKind(t)}
	p.K = genKnobs(t, p.Kind)
	if p.Kind == KBidi {
		p.K.HTTP2 = true
	}
	p.K.DownWindow = 1 << 30
	codec := []string{"proto", "json"}[t.Choose(2, "codec")]
	streaming := !(proto == PConnect && p.Kind == KUnary)
	nreq := 1
	if p.Kind == KClient || p.Kind == KBidi {
		nreq = t.Choose(4, "nreq")
	}
	var payloads [][]byte
	for i := 0; i < nreq; i++ {
		v := t.Bytes(t.Choose(24, "m.n"), 1, "m")
		p.ReqMsgs = append(p.ReqMsgs, v)
		payloads = append(payloads, ref.EncodeBytesValue(codec, v))
	}
	p.RespMsgs = [][]byte{{7}}
	switch p.Kind {
	case KClient:
		p.HProg = []HOp{{Op: "drain"}}
	case KServer:
		p.HProg = []HOp{{Op: "send", Arg: 0}}
	case KBidi:
		p.HProg = []HOp{{Op: "drain"}, {Op: "send", Arg: 0}}
	}
	o := ref.EncOpts{}
	if t.Bool(1, 3, "enc") {
		o.Encoding = "gzip"
		o.Compress = compressWith
		o.CompressMsg = func(i int) bool { return true }
	}
	hdr := ref.RequestHeader(ref.Proto(proto), streaming, codec, o, "", http.Header{"X-Byz": {"1"}})
	body := ref.EncodeRequestBody(ref.Proto(proto), streaming, o, payloads)
	method := "POST"
	info := &c07Info{proto: proto, supported: append([]string{"gzip"}, h.Comp...)}
	encHeader := "Grpc-Encoding"
	if proto == PConnect {
		encHeader = "Connect-Content-Encoding"
		if !streaming {
			encHeader = "Content-Encoding"
		}
	}
	firstLen := 0
	if len(payloads) > 0 {
		firstLen = len(payloads[0])
	}
	lyingLength := false
	switch t.Pick([]int{2, 6, 3, 2}, "byz.family") {
	case 0:
		info.class = "valid"
	case 1: // adversarial with a documented outcome
		switch t.Choose(10, "adv") {
		case 9:
			// a unary or server-streaming request is exactly one message: more
			// bytes after it - a second message, stray bytes, the beginning of
			// another envelope - are malformed framing
			if !(p.Kind == KUnary || p.Kind == KServer) || !streaming || nreq == 0 {
				info.class = "valid"
				break
			}
			info.class, info.wantCode = "bytes-after-single-message", anyErrorCode
			body = append([]byte(nil), body...)
			switch t.Choose(4, "after.what") {
			case 0:
				body = ref.AppendEnvelope(body, 0, ref.EncodeBytesValue(codec, []byte("second")))
			case 1:
				body = append(body, t.Bytes(1+t.Choose(4, "after.n"), 2, "after")...)
			case 2:
				body = append(body, 0, 0, 0, 0, 9, 'x', 'y')
			default:
				body = ref.AppendEnvelope(body, 0, []byte{0xff, 0xff, 0xff})
			}
		case 0:
			info.class, info.wantCode, info.noEntry = "unknown-compression", 12, true
			hdr[encHeader] = []string{[]string{"br", "zstd", "x", "GZIP", "deflate"}[t.Choose(5, "alg")]}
			if t.Bool(1, 4, "alg.list") {
				// a list of codings, on one line or - the same thing to HTTP - on
				// two: not an algorithm the handler knows, whatever its first item
				hdr[encHeader] = [][]string{{"gzip, br"}, {"gzip", "br"}, {"gzip", "gzip"}, {"identity", "zstd"}}[t.Choose(4, "alg.list.which")]
				sc.Notes["c07_compression_list"]++
			}
		case 1:
			info.class, info.wantCode, info.noEntry = "invalid-timeout", 3, true
			s, class := genTimeoutString(t, proto != PConnect, sc.Notes)
			if class != "malformed" {
				s = "soon"
			}
			name := "Grpc-Timeout"
			if proto == PConnect {
				name = "Connect-Timeout-Ms"
			}
			hdr[name] = []string{s}
		case 2:
			if nreq == 0 {
				info.class = "valid"
				break
			}
			info.class, info.wantCode = "undecodable-payload", 3
			bad := []byte{0xff, 0xff, 0xff, 0xff}
			if codec == "json" {
				bad = [][]byte{[]byte(`{"not a string"`), {0xff, 0xfe}, []byte("\"abc\xff\""), []byte(`{"value": 7}`), []byte("nul\x00l")}[t.Choose(5, "bad.json")]
			} else if t.Bool(1, 2, "bad.proto.variant") {
				bad = [][]byte{{0x0a, 0x7f, 'x'}, {0x08}, {0x0a, 0xff, 0xff, 0xff, 0xff, 0x0f}}[t.Choose(3, "bad.proto")]
			}
			if streaming && t.Bool(1, 4, "bad.codec.eof") {
				// a user-supplied codec whose complaint wraps io.EOF: still an
				// undecodable payload, not the end of the request
				sc.Handlers[0].FailCodec = true
				bad = append(append([]byte(nil), unmarshalEOFMarker...), 'x')
				sc.Notes["codec_error_wraps_eof"]++
			}
			body = ref.EncodeRequestBody(ref.Proto(proto), streaming, ref.EncOpts{}, [][]byte{bad})
			if (p.Kind == KClient || p.Kind == KBidi) && t.Bool(1, 2, "bad.in.the.middle") {
				// ... between two good messages
				good := ref.EncodeBytesValue(codec, []byte("ok"))
				body = ref.EncodeRequestBody(ref.Proto(proto), streaming, ref.EncOpts{}, [][]byte{good, bad, good})
			}
			delete(hdr, encHeader)
			info.noEntry = p.Kind == KUnary || p.Kind == KServer
		case 3:
			if nreq == 0 {
				info.class = "valid"
				break
			}
			info.class, info.wantCode = "corrupt-compressed", 3
			hdr[encHeader] = []string{"gzip"}
			garbage := []byte("this is not gzip data at all")
			if streaming {
				body = ref.AppendEnvelope(nil, ref.FlagCompressed, garbage)
			} else {
				body = garbage
			}
			info.noEntry = p.Kind == KUnary || p.Kind == KServer
		case 4:
			if nreq == 0 || sc.Handlers[0].ReadMax == 0 {
				sc.Handlers[0].ReadMax = 16
			}
			info.class, info.wantCode = "oversize", 3
			big := ref.EncodeBytesValue(codec, bytes.Repeat([]byte{'z'}, sc.Handlers[0].ReadMax+1+t.Choose(200, "over")))
			body = ref.EncodeRequestBody(ref.Proto(proto), streaming, ref.EncOpts{}, [][]byte{big})
			delete(hdr, encHeader)
			info.noEntry = p.Kind == KUnary || p.Kind == KServer
		case 5:
			if !streaming || len(body) < 2 {
				info.class = "valid"
				break
			}
			info.class = "truncated-framing"
			// cut strictly inside an envelope
			envs, _, _ := ref.SplitEnvelopes(body)
			e := envs[t.Choose(len(envs), "trunc.env")]
			cut := e.Off + 1 + t.Choose(4+len(e.Data), "trunc.at")
			if cut >= e.Off+5+len(e.Data) {
				cut = e.Off + 4
			}
			body = body[:cut]
			info.noEntry = (p.Kind == KUnary || p.Kind == KServer)
		case 6:
			info.class, info.noEntry = "wrong-method", true
			method = []string{"GET", "PUT", "DELETE", "HEAD", "OPTIONS", "post"}[t.Choose(6, "method")]
		case 7:
			info.class, info.noEntry = "wrong-content-type", true
			hdr["Content-Type"] = []string{[]string{"application/grpc+xml", "application/connect", "application/json; charset=utf-8", "text/plain", "", "application/grpc-web-text", "APPLICATION/GRPC", "application/connect+proto "}[t.Choose(8, "ct")]}
			if p.Kind != KUnary && hdr["Content-Type"][0] == "application/json; charset=utf-8" {
				hdr["Content-Type"] = []string{"application/json"}
			}
		case 8:
			if p.Kind != KBidi {
				info.class = "valid"
				break
			}
			info.class, info.noEntry = "bidi-over-http1", true
			p.K.HTTP2 = false
		}
	case 2: // mutated
		info.class = "mutated"
		for n := 1 + t.Choose(3, "mut.n"); n > 0; n-- {
			switch t.Choose(9, "mut.op") {
			case 8:
				// a declared length the body does not have: net/http reports the
				// missing bytes as an unexpected EOF at the end of the body
				if proto == PConnect && !streaming {
					n := []int64{int64(len(body)) + 1, int64(len(body)) + 1000, 1 << 40, 1 << 60}[t.Choose(4, "mut.cl")]
					hdr["Content-Length"] = []string{strconv.FormatInt(n, 10)}
					lyingLength = true
					sc.Notes["lying_content_length"]++
				}
			case 0:
				if len(body) > 0 {
					body = append([]byte(nil), body...)
					off := t.Choose(len(body), "mut.off")
					if h.ReadMax == 0 && off%(5+firstLen+1) < 3 && streaming {
						off = len(body) - 1 // keep length prefixes small when the handler has no read limit
					}
					body[off] ^= byte(1 << t.Choose(8, "mut.bit"))
				}
			case 1:
				if len(body) > 0 {
					body = body[:t.Choose(len(body), "mut.trunc")]
				}
			case 2:
				body = append(append([]byte(nil), body...), t.Bytes(1+t.Choose(9, "mut.app"), 1, "g")...)
			case 3:
				delete(hdr, []string{"Content-Type", "Te", encHeader}[t.Choose(3, "mut.del")])
			case 4:
				if streaming && len(body) >= 5 {
					body = append([]byte(nil), body...)
					body[0] |= []byte{0x02, 0x80, 0x04, 0x40, 0x01}[t.Choose(5, "mut.flag")]
				}
			case 5:
				hdr[encHeader] = []string{[]string{"gzip", "identity", "", "a", "b", "c"}[t.Choose(6, "mut.enc")]}
			case 6:
				hdr["Content-Type"] = []string{[]string{"application/grpc", "application/grpc-web", "application/proto", "application/json", "application/connect+json", "application/grpc+json", "application/grpc-web+json"}[t.Choose(7, "mut.ct")]}
			case 7:
				if streaming && len(body) >= 5 && h.ReadMax > 0 {
					body = append([]byte(nil), body...)
					copy(body[1:5], [][]byte{{0xff, 0xff, 0xff, 0xff}, {0, 0, 1, 0}, {0x7f, 0xff, 0xff, 0xff}}[t.Choose(3, "mut.len")])
				}
			}
		}
	default: // random
		info.class = "random"
		if h.ReadMax == 0 {
			sc.Handlers[0].ReadMax = 4096
		}
		method = []string{"POST", "POST", "POST", "GET", "PATCH"}[t.Choose(5, "rnd.method")]
		hdr = randHeader(t)
		cts := []string{"application/grpc", "application/grpc+proto", "application/grpc-web+json", "application/connect+proto", "application/proto", "application/json", "application/connect+json"}
		if t.Bool(3, 4, "rnd.ct") {
			hdr["Content-Type"] = []string{cts[t.Choose(len(cts), "rnd.ctv")]}
		}
		body = t.Bytes(t.Choose(48, "rnd.n"), 2, "rnd.body")
	}
	unenveloped := false
	if ct := hdr["Content-Type"]; len(ct) == 1 && (ct[0] == "application/proto" || ct[0] == "application/json") {
		// unary Connect bodies carry no length prefix a peer could lie in
		unenveloped = true
	}
	if (info.class == "mutated") && sc.Handlers[0].ReadMax == 0 && !unenveloped {
		// a hostile length prefix makes a handler without a read limit reserve
		// up to 4 GiB by design; keep the simulated process small
		sc.Handlers[0].ReadMax = []int{64, 4096, 1 << 20}[t.Choose(3, "readmax.forced")]
	}
	endErr := error(nil)
	if info.class == "mutated" && t.Bool(1, 4, "enderr") {
		endErr = []error{io.ErrUnexpectedEOF, errors.New("connection reset by peer")}[t.Choose(2, "enderr.which")]
	}
	if lyingLength && endErr == nil {
		endErr = io.ErrUnexpectedEOF
	}
	sc.Notes["c07_"+info.class]++
	if !p.K.HTTP2 && t.Bool(1, 6, "http10") {
		// HTTP/1.0: no chunking, no trailers. Whatever the handler answers must
		// still be well-formed for the protocol the Content-Type selects.
		p.K.HTTP10 = true
		sc.Notes["http_1_0"]++
	}
	p.Raw = &RawReq{Method: method, Header: canonKeys(hdr), Body: body, EndErr: endErr}
	p.c07 = info
	sc.Calls = []*CallPlan{p}
	return sc
}

// decodablePrefix independently decodes the request's messages as far as
// they are well-formed.
func decodablePrefix(proto Proto, streaming bool, codec, encoding string, body []byte) [][]byte {
	var out [][]byte
	one := func(flags byte, data []byte, unaryComp bool) bool {
		if len(data) == 0 {
			// an empty payload is the zero message whatever the compressed flag
			// says (nothing to decompress)
			out = append(out, []byte{})
			return true
		}
		if flags&ref.FlagCompressed != 0 || unaryComp {
			d, err := harnessDecomp(encoding, data)
			if err != nil {
				return false
			}
			data = d
		}
		v, err := ref.DecodeBytesValue(codec, data)
		if err != nil {
			return false
		}
		out = append(out, v)
		return true
	}
	if !streaming {
		one(0, body, encoding != "" && encoding != "identity" && len(body) > 0)
		return out
	}
	envs, _, _ := ref.SplitEnvelopes(body)
	for _, e := range envs {
		if e.Flags&^ref.FlagCompressed != 0 {
			break
		}
		if !one(e.Flags, e.Data, false) {
			break
		}
	}
	return out
}

func checkC07(w *World, st core.Status, r *RunResult) []Violation {
	var vs []Violation
	if st != core.Done {
		return nil
	}
	for _, o := range w.Obs {
		p := o.Plan
		info := p.c07
		ex := o.Call.Exchange()
		if ex == nil {
			continue
		}
		ct := p.Raw.Header.Get("Content-Type")
		tag := info.class + "/" + p.Kind.String()
		add := func(class, msg string) {
			vs = append(vs, Violation{Class: "C07/" + class + "/" + tag, Msg: fmt.Sprintf("%s: %s %s, headers %v, %d body bytes %q: %s", p.ID, p.Raw.Method, httpVersionOf(p), p.Raw.Header, len(p.Raw.Body), clip(p.Raw.Body, 60), msg)})
		}
		r.Sig = fmt.Sprintf("%016x", core.Mix(hashBytes([]byte(p.Raw.Method+"|"+hdrString(p.Raw.Header)+"|"+p.Kind.String())), hashBytes(p.Raw.Body)))
		r.Nontrivial = info.class != "valid"
		if ex.Panic != nil {
			add("panic-escaped", fmt.Sprintf("ServeHTTP panicked: %v\n%s", ex.Panic, firstLines(ex.PanicStack, 25)))
			continue
		}
		if o.H.Entered > 1 {
			add("user-code-ran-twice", fmt.Sprintf("user code entered %d times", o.H.Entered))
		}
		if info.noEntry && o.H.Entered != 0 {
			add("user-code-ran", "user code ran although the request had to be rejected first")
		}
		respBody := ex.Down.Bytes()
		// which protocol did the request select?
		proto, streaming, selected := selectProtocol(p.Kind, ct)
		switch {
		case p.Kind == KBidi && !p.K.HTTP2:
			selected = false
			if ex.Status != 505 {
				add("bidi-http1-status", fmt.Sprintf("HTTP status %d, want 505", ex.Status))
			}
		case p.Raw.Method != "POST":
			selected = false
			if ex.Status != 405 {
				add("method-status", fmt.Sprintf("HTTP status %d, want 405", ex.Status))
			}
		case selected && p.K.HTTP10 && proto == PGRPC && ex.Status == 505:
			// gRPC reports every outcome in HTTP trailers and HTTP/1.0 has
			// none: no well-formed gRPC response exists, a bare 505 says so
			selected = false
			r.Probes["grpc_over_http10_refused"]++
		case !selected:
			if ex.Status != 415 {
				add("content-type-status", fmt.Sprintf("HTTP status %d for Content-Type %q, want 415", ex.Status, ct))
			}
		}
		if !selected {
			r.Probes["bare_rejections"]++
			if len(respBody) != 0 {
				add("bare-rejection-with-body", fmt.Sprintf("%d-byte body on a %d response", len(respBody), ex.Status))
			}
			if o.H.Entered != 0 {
				add("user-code-ran", "user code ran for a request no protocol accepts")
			}
			continue
		}
		r.Probes["protocol_selected"]++
		codec := "proto"
		if strings.HasSuffix(ct, "json") {
			codec = "json"
		}
		resp, err := ref.DecodeResponse(ref.Proto(proto), streaming, ct, ex.Status, ex.RespHeader, respBody, ex.Trailer, harnessDecomp)
		if err != nil {
			add("malformed-response", fmt.Sprintf("response (HTTP %d, headers %v, body %q, trailers %v) is not well-formed %s: %v", ex.Status, ex.RespHeader, clip(respBody, 80), ex.Trailer, proto, err))
			continue
		}
		// what user code received is a prefix of what the request decodes to
		encName := "Grpc-Encoding"
		if proto == PConnect {
			encName = "Connect-Content-Encoding"
			if !streaming {
				encName = "Content-Encoding"
			}
		}
		if p.Raw.EndErr == nil || len(o.H.Recv) > 0 {
			want := decodablePrefix(proto, streaming, codec, p.Raw.Header.Get(encName), p.Raw.Body)
			if !isPrefixOf(o.H.Recv, want) {
				add("received-not-decodable-prefix", fmt.Sprintf("user code received %d message(s) %q that are not a prefix of the %d the request decodes to", len(o.H.Recv), o.H.Recv, len(want)))
			}
		}
		if info.wantCode != 0 && info.proto == proto {
			r.Probes["documented_code_checked"]++
			switch {
			case resp.Err == nil:
				add("rejected-request-succeeded", fmt.Sprintf("class %s answered with success", info.class))
			case info.wantCode == anyErrorCode:
				// any error will do; success will not
			case info.class == "oversize":
				if resp.Err.Code != 3 && resp.Err.Code != 8 {
					add("wrong-code", fmt.Sprintf("oversize message answered with code %d (%s), want invalid_argument or resource_exhausted", resp.Err.Code, resp.Err.Message))
				}
			case resp.Err.Code != info.wantCode:
				add("wrong-code", fmt.Sprintf("class %s answered with code %d (%s), want %d", info.class, resp.Err.Code, resp.Err.Message, info.wantCode))
			}
			if info.class == "unknown-compression" && resp.Err != nil {
				for _, name := range info.supported {
					if !strings.Contains(resp.Err.Message, name) {
						add("unsupported-compression-message", fmt.Sprintf("error message %q does not list supported algorithm %q", resp.Err.Message, name))
					}
				}
			}
		}
		if info.class == "truncated-framing" && info.proto == proto {
			r.Probes["truncated_checked"]++
			if resp.Err == nil {
				add("truncated-request-succeeded", "a request cut inside an envelope was answered with success")
			}
		}
	}
	return vs
}

func httpVersionOf(p *CallPlan) string {
	switch {
	case p.K.HTTP2:
		return "HTTP/2"
	case p.K.HTTP10:
		return "HTTP/1.0"
	}
	return "HTTP/1.1"
}

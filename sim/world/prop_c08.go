package world

import (
	"bytes"
	"errors"
	"fmt"
	"net/http"
	"strings"

	connect "github.com/bufbuild/connect-go"

	"verif/sim/core"
	"verif/sim/ref"
	"verif/sim/simhttp"
)

// C08 — compression is negotiated so both sides can decode, is lossless, and
// a corrupt compressed message affects only its own call. Histories of calls
// (sequential or concurrent) through one shared handler set and one shared
// client, over an algorithm universe {gzip, a, b, c} with instrumented custom
// algorithms, deterministic LIFO (de)compressor pools, corrupt payloads and
// injected compressor failures.

func init() {
	register(&Prop{ID: "C08", Gen: genC08, Check: checkC08})
}

func compressible(t *core.Tape, n int) []byte {
	if n == 0 {
		return []byte{}
	}
	b := bytes.Repeat([]byte{byte('a' + t.Choose(26, "c.b"))}, n)
	// a few distinct bytes so that the value identifies the message
	for i := 0; i < 3 && i < n; i++ {
		b[t.Choose(n, "c.pos")] = byte('A' + t.Choose(26, "c.v"))
	}
	return b
}

func supportedBy(h *HandlerCfg) []string { return append([]string{"gzip"}, h.Comp...) }

func contains(list []string, s string) bool {
	for _, x := range list {
		if x == s {
			return true
		}
	}
	return false
}

func genC08(t *core.Tape, tier string) *Scenario {
	sc := &Scenario{Prop: "C08", Notes: map[string]int{}}
	h := HandlerCfg{Comp: genSubset(t, "hcomp")}
	h.CompressMin = []int{0, 1, 8, 64, 512}[t.Choose(5, "hcmin")]
	c := ClientCfg{Proto: genProto(t), JSON: t.Bool(1, 4, "json"), Accept: genSubset(t, "accept")}
	c.CompressMin = []int{0, 1, 8, 64, 512}[t.Choose(5, "ccmin")]
	switch t.Choose(3, "sendcomp") {
	case 1:
		c.SendComp = "gzip"
	case 2:
		if len(c.Accept) > 0 {
			c.SendComp = c.Accept[t.Choose(len(c.Accept), "sendcomp.which")]
		}
	}
	fixCompat(&c, &h)
	if t.Bool(1, 5, "nil.constructors") {
		// an algorithm "registered" with nil constructors: documented as a
		// no-op, so the side behaves exactly as if the call were not there
		name := append([]string{"gzip"}, algoUniverse...)[t.Choose(1+len(algoUniverse), "nil.which")]
		in := func(l []string) bool {
			for _, x := range l {
				if x == name {
					return true
				}
			}
			return false
		}
		if t.Bool(1, 2, "nil.on.client") {
			if !in(c.Accept) {
				c.NilAccept = []string{name}
			}
		} else if !in(h.Comp) {
			h.NilComp = []string{name}
		}
		sc.Notes["nil_constructor_registration"]++
	}
	sc.AlgoYield = t.Bool(1, 2, "algo.yield")
	h.ReadMax, c.ReadMax = 1<<20, 1<<20
	sc.Handlers = []HandlerCfg{h}
	if t.Bool(1, 2, "second.handler.set") {
		// a second handler set with its own algorithms in the same process:
		// whatever one handler decided must not leak into the other
		h2 := HandlerCfg{Comp: genSubset(t, "hcomp2"), CompressMin: h.CompressMin, ReadMax: 1 << 20}
		fixCompat(&c, &h2)
		sc.Handlers = append(sc.Handlers, h2)
		sc.Notes["two_handler_sets"]++
	}
	sc.Clients = []ClientCfg{c}
	if c.SendComp != "" && t.Bool(1, 3, "second.client") {
		// a second client for the same service that does not compress what it
		// sends: a Request object that went out through the first one may be
		// sent again through this one
		c2 := c
		c2.SendComp = ""
		c2.Accept = nil // ... and knows gzip only
		if t.Bool(1, 2, "second.client.protocol") {
			// ... and speaks another protocol (a gateway's backend client)
			c2.Proto = Proto((int(c.Proto) + 1 + t.Choose(2, "second.client.protocol.which")) % 3)
			sc.Notes["second_client_other_protocol"]++
		}
		sc.Clients = append(sc.Clients, c2)
		sc.Notes["second_client_without_send_compression"]++
	}
	codec := "proto"
	if c.JSON {
		codec = "json"
	}
	ncalls := 2 + t.Choose(4, "ncalls")
	concurrent := t.Bool(1, 2, "concurrent")
	sizes := []int{0, 1, 5, 7, 8, 9, 60, 63, 64, 66, 300, 509, 512, 515, 3000}
	for i := 0; i < ncalls; i++ {
		p := &CallPlan{ID: callID(i), Kind: genKind(t), Handler: t.Choose(len(sc.Handlers), "handler")}
		p.K = genKnobs(t, p.Kind)
		nreq, nresp := 1, 1
		if p.Kind == KClient || p.Kind == KBidi {
			nreq = 1 + t.Choose(3, "nreq")
		}
		if p.Kind == KServer || p.Kind == KBidi {
			nresp = 1 + t.Choose(3, "nresp")
		}
		for j := 0; j < nreq; j++ {
			p.ReqMsgs = append(p.ReqMsgs, compressible(t, sizes[t.Choose(len(sizes), "size")]))
		}
		for j := 0; j < nresp; j++ {
			p.RespMsgs = append(p.RespMsgs, compressible(t, sizes[t.Choose(len(sizes), "size")]))
		}
		stdPrograms(t, p)
		if concurrent {
			p.Task = i % 2
		}
		resent := false
		if len(sc.Clients) > 1 && !concurrent && (p.Kind == KUnary || p.Kind == KServer) {
			for _, q := range sc.Calls {
				if q.Kind == KUnary && q.Client == 0 && q.bad == "" && q.Handler == p.Handler && t.Bool(1, 2, "resend.through.second.client") {
					p.Client, p.ReuseRequestOf = 1, q.ID
					resent = true
					sc.Notes["request_resent_through_other_client"]++
					break
				}
			}
		}
		if !resent {
			makeBad(t, sc, p, &c, &sc.Handlers[p.Handler], codec, t.Pick([]int{5, 2, 2, 1}, "badness"))
		}
		if !p.Split {
			earlyExitKnobs(p) // a call may fail early (corrupt neighbour, injected failure)
		}
		boundSteps(p)
		genYield(t, p)
		sc.Calls = append(sc.Calls, p)
	}
	// an instrumented custom (de)compressor told to fail once
	if t.Bool(1, 3, "compfault") {
		sc.CompFault = &compFault{Op: []string{"write", "close", "reset", "read"}[t.Choose(4, "fault.op")], At: 1 + t.Choose(6, "fault.at"), WrapEOF: t.Bool(1, 3, "fault.wraps.eof")}
		sc.CompFaultSide = t.Choose(2, "fault.side")
		sc.Notes["compressor_fault_planned"]++
	}
	return sc
}

// makeBad turns a planned call into a corrupt compressed request served
// straight into the shared handler (badness 1) or a call answered by a
// corrupt compressed response (badness 2); badness 0 leaves it valid.
func makeBad(t *core.Tape, sc *Scenario, p *CallPlan, c *ClientCfg, h *HandlerCfg, codec string, badness int) {
	streaming := !(c.Proto == PConnect && p.Kind == KUnary)
	switch badness {
	case 1: // a corrupt compressed request straight into the shared handler
		alg := supportedBy(h)[t.Choose(1+len(h.Comp), "raw.alg")]
		orig := compressible(t, 200)
		p.badOriginal = orig
		payload := ref.EncodeBytesValue(codec, orig)
		comp := compressWith(alg, payload)
		kind := t.Choose(5, "corrupt.kind")
		switch kind {
		case 4: // only the trailing checksum is wrong: the data decompresses, the final Read fails
			comp = append([]byte(nil), comp...)
			comp[len(comp)-2] ^= 0x01
		case 0:
			comp = append([]byte(nil), comp...)
			comp[len(comp)/2] ^= 0x5a
		case 1:
			comp = comp[:len(comp)/2]
		case 2:
			other := "gzip"
			if alg == "gzip" {
				other = "a"
			}
			comp = compressWith(other, payload)
		case 3: // bomb: expands far beyond the read limit
			if alg == "gzip" {
				comp = gzipBytes(make([]byte, 4<<20))
			} else {
				comp = rleEncode(alg, make([]byte, 4<<20))
			}
		}
		o := ref.EncOpts{Encoding: alg}
		hdr := ref.RequestHeader(ref.Proto(c.Proto), streaming, codec, o, "", nil)
		var body []byte
		if streaming {
			body = ref.AppendEnvelope(nil, ref.FlagCompressed, comp)
		} else {
			body = comp
		}
		p.Raw = &RawReq{Method: "POST", Header: hdr, Body: body}
		p.K.HTTP2 = true
		p.bad = fmt.Sprintf("corrupt-request-%d", kind)
		sc.Notes["bad_corrupt_request"]++
	case 2: // a corrupt compressed response to the shared client
		alg := append([]string{"gzip"}, c.Accept...)[t.Choose(1+len(c.Accept), "can.alg")]
		orig := compressible(t, 200)
		p.badOriginal = orig
		payload := ref.EncodeBytesValue(codec, orig)
		comp := compressWith(alg, payload)
		kind := t.Choose(4, "corrupt.kind")
		switch kind {
		case 3:
			comp = append([]byte(nil), comp...)
			comp[len(comp)-2] ^= 0x01
		case 0:
			comp = append([]byte(nil), comp...)
			comp[len(comp)/2] ^= 0x5a
		case 1:
			comp = comp[:len(comp)/2]
		case 2:
			other := "gzip"
			if alg == "gzip" {
				other = "b"
			}
			comp = compressWith(other, payload)
		}
		ct := ref.ContentType(ref.Proto(c.Proto), streaming, codec, false)
		hdr := http.Header{"Content-Type": {ct}}
		var body []byte
		var trailer http.Header
		switch {
		case !streaming:
			hdr["Content-Encoding"] = []string{alg}
			body = comp
		case c.Proto == PConnect:
			hdr["Connect-Content-Encoding"] = []string{alg}
			body = ref.AppendEnvelope(nil, ref.FlagCompressed, comp)
			body = ref.AppendEnvelope(body, ref.FlagEndStream, []byte("{}"))
		case c.Proto == PGRPCWeb:
			hdr["Grpc-Encoding"] = []string{alg}
			body = ref.AppendEnvelope(nil, ref.FlagCompressed, comp)
			body = ref.AppendEnvelope(body, ref.FlagTrailers, []byte("grpc-status: 0\r\n"))
		default:
			hdr["Grpc-Encoding"] = []string{alg}
			body = ref.AppendEnvelope(nil, ref.FlagCompressed, comp)
			trailer = http.Header{"Grpc-Status": {"0"}}
		}
		p.Canned = &simhttp.Canned{Status: 200, Header: hdr, Body: body, Trailer: trailer}
		if p.Kind == KBidi {
			p.Split = false
			var prog []COp
			for j := range p.ReqMsgs {
				prog = append(prog, COp{Op: "send", Arg: j})
			}
			p.CProg = append(prog, COp{Op: "closereq"}, COp{Op: "recvall"}, COp{Op: "closeresp"})
			p.CProgRcv = nil
		}
		p.bad = fmt.Sprintf("corrupt-response-%d", kind)
		sc.Notes["bad_corrupt_response"]++
	case 3: // compressed with an algorithm the handler lacks (reference client)
		lacking := ""
		for _, a := range []string{"a", "b", "c", "zstd"} {
			if !contains(supportedBy(h), a) {
				lacking = a
				break
			}
		}
		o := ref.EncOpts{Encoding: lacking}
		hdr := ref.RequestHeader(ref.Proto(c.Proto), streaming, codec, o, "", nil)
		payload := []byte("whatever")
		var body []byte
		if streaming {
			body = ref.AppendEnvelope(nil, ref.FlagCompressed, payload)
		} else {
			body = payload
		}
		p.Raw = &RawReq{Method: "POST", Header: hdr, Body: body}
		p.K.HTTP2 = true
		p.bad = "unsupported-compression"
		sc.Notes["unsupported_compression_calls"]++
	default:
		sc.Notes["good_calls"]++
	}
}

func acceptHeaderName(proto Proto, streaming bool) string {
	switch {
	case proto != PConnect:
		return "Grpc-Accept-Encoding"
	case streaming:
		return "Connect-Accept-Encoding"
	default:
		return "Accept-Encoding"
	}
}

func encodingHeaderName(proto Proto, streaming bool) string {
	switch {
	case proto != PConnect:
		return "Grpc-Encoding"
	case streaming:
		return "Connect-Content-Encoding"
	default:
		return "Content-Encoding"
	}
}

func splitList(s string) []string {
	return strings.FieldsFunc(s, func(r rune) bool { return r == ',' || r == ' ' })
}

func checkC08(w *World, st core.Status, r *RunResult) []Violation {
	var vs []Violation
	if st != core.Done {
		return nil
	}
	ccfg := w.Sc.Clients[0]
	codec := "proto"
	if ccfg.JSON {
		codec = "json"
	}
	faultFired := 0
	for _, a := range w.algos {
		if a.fault.At > 0 && a.counts[opIndex(a.fault.Op)] >= a.fault.At {
			faultFired++
		}
		for _, v := range a.Violations {
			vs = append(vs, Violation{Class: "C08/pooled-instance-misuse", Msg: v})
		}
	}
	if faultFired > 0 {
		r.Probes["compressor_fault_fired"]++
	}
	failedGood := 0
	for _, o := range w.Obs {
		p := o.Plan
		if transportLimit(o, r) {
			continue
		}
		h := &w.Sc.Handlers[p.Handler]
		ccfg := w.Sc.Clients[p.Client]
		tag := ccfg.Proto.String() + "/" + p.Kind.String()
		add := func(class, msg string) {
			vs = append(vs, Violation{Class: "C08/" + class + "/" + tag, Msg: p.ID + ": " + msg})
		}
		ex := o.Call.Exchange()
		streaming := !(ccfg.Proto == PConnect && p.Kind == KUnary)
		switch {
		case strings.HasPrefix(p.bad, "corrupt-request"):
			// its own call fails; user code sees no undecodable message
			if ex == nil {
				continue
			}
			r.Probes["corrupt_requests_checked"]++
			resp, err := ref.DecodeResponse(ref.Proto(ccfg.Proto), streaming, p.Raw.Header.Get("Content-Type"), ex.Status, ex.RespHeader, ex.Down.Bytes(), ex.Trailer, harnessDecomp)
			if err != nil {
				if faultFired == 0 {
					add("corrupt-request/response-malformed", err.Error())
				}
			} else if len(o.H.Recv) == 1 && bytes.Equal(o.H.Recv[0], p.badOriginal) {
				// the flipped bit was one the format does not care about (deflate
				// padding): the message still decodes to exactly what was sent
				r.Probes["benign_corruptions"]++
				continue
			} else if resp.Err == nil {
				add("corrupt-request/answered-with-success", fmt.Sprintf("%s answered OK", p.bad))
			}
			if len(o.H.Recv) > 0 {
				add("corrupt-request/delivered-to-user-code", fmt.Sprintf("user code received %d message(s) from a request whose only message is corrupt", len(o.H.Recv)))
			}
			continue
		case p.bad == "unsupported-compression":
			if ex == nil {
				continue
			}
			r.Probes["unsupported_compression_checked"]++
			resp, err := ref.DecodeResponse(ref.Proto(ccfg.Proto), streaming, p.Raw.Header.Get("Content-Type"), ex.Status, ex.RespHeader, ex.Down.Bytes(), ex.Trailer, harnessDecomp)
			switch {
			case err != nil:
				if faultFired == 0 {
					add("unsupported-compression/response-malformed", err.Error())
				}
			case resp.Err == nil || resp.Err.Code != 12:
				add("unsupported-compression/wrong-code", fmt.Sprintf("answered with %+v, want unimplemented", resp.Err))
			default:
				for _, name := range supportedBy(h) {
					if !strings.Contains(resp.Err.Message, name) {
						add("unsupported-compression/message", fmt.Sprintf("error message %q does not list supported algorithm %q", resp.Err.Message, name))
					}
				}
			}
			if o.H.Entered != 0 {
				add("unsupported-compression/user-code-ran", "user code ran")
			}
			continue
		case strings.HasPrefix(p.bad, "corrupt-response"):
			r.Probes["corrupt_responses_checked"]++
			var ce *connect.Error
			if o.FinalSet && o.Final == nil && len(o.Recv) == 1 && bytes.Equal(o.Recv[0], p.badOriginal) {
				r.Probes["benign_corruptions"]++
				continue
			}
			if !o.FinalSet || o.Final == nil {
				diffAt := -1
				if len(o.Recv) == 1 {
					for i := range o.Recv[0] {
						if i >= len(p.badOriginal) || o.Recv[0][i] != p.badOriginal[i] {
							diffAt = i
							break
						}
					}
				}
				add("corrupt-response/reported-success", fmt.Sprintf("%s (encoding %v): client reported success with %d message(s); first difference from the original value at byte %d of %d/%d", p.bad, p.Canned.Header, len(o.Recv), diffAt, len(p.badOriginal), recvLen(o)))
			} else if !errors.As(o.Final, &ce) || ce.Code() == 0 {
				add("corrupt-response/uncoded", fmt.Sprintf("%v", o.Final))
			}
			if len(o.Recv) > 0 {
				add("corrupt-response/delivered", "a message was delivered from a response whose only message is corrupt")
			}
			continue
		}
		// ---- a good call: exactly its solo outcome, whatever its neighbours did
		if ex == nil || !o.FinalSet {
			add("good-call/no-outcome", "no outcome")
			continue
		}
		if o.Final != nil {
			failedGood++
			var ce *connect.Error
			if faultFired == 0 {
				add("good-call/failed", fmt.Sprintf("a valid call failed (%v) in a history with bad neighbours %v", o.Final, badList(w)))
			} else if !errors.As(o.Final, &ce) || ce.Code() == 0 {
				add("good-call/uncoded", fmt.Sprintf("%v", o.Final))
			}
			continue
		}
		r.Probes["good_calls_checked"]++
		// a message whose Send failed (injected compressor failure) was never
		// sent: the expectation is what the successful Sends passed in
		wantResp, wantReq := p.RespMsgs, p.ReqMsgs
		if faultFired > 0 {
			wantResp, wantReq = nil, nil
			k := 0
			for _, op := range p.HProg {
				if op.Op == "send" {
					if k < len(o.H.SendErrs) && o.H.SendErrs[k] == nil {
						wantResp = append(wantResp, p.RespMsgs[op.Arg])
					}
					k++
				}
			}
			if p.Kind == KUnary || p.Kind == KClient {
				wantResp = p.RespMsgs
			}
			for _, op := range append(append([]OpRec{}, o.Ops...), o.OpsRcv...) {
				if op.Op == "send" && op.Err == nil {
					wantReq = append(wantReq, p.ReqMsgs[op.Arg])
				}
			}
			if p.Kind == KUnary || p.Kind == KServer {
				wantReq = p.ReqMsgs
			}
		}
		if c, m := seqMismatch(wantResp, o.Recv); c != "" {
			add("good-call/to-client/"+c, m)
		}
		if c, m := seqMismatch(wantReq, o.H.Recv); c != "" {
			add("good-call/to-handler/"+c, m)
		}
		if faultFired > 0 {
			continue // wire-level expectations below assume every Send succeeded
		}
		// ---- negotiation, from the raw exchange
		supported := supportedBy(h)
		reqEnc := ex.ReqHeader.Get(encodingHeaderName(ccfg.Proto, streaming))
		advertised := splitList(ex.ReqHeader.Get(acceptHeaderName(ccfg.Proto, streaming)))
		respEnc := ex.RespHeader.Get(encodingHeaderName(ccfg.Proto, streaming))
		if respEnc != "" && respEnc != "identity" {
			r.Probes["responses_with_encoding"]++
			if !contains(supported, respEnc) {
				add("negotiation/unsupported-by-handler", fmt.Sprintf("response encoding %q, handler supports %v", respEnc, supported))
			}
			if !contains(advertised, respEnc) && respEnc != reqEnc {
				add("negotiation/not-advertised", fmt.Sprintf("response encoding %q; client advertised %v and sent %q", respEnc, advertised, reqEnc))
			}
		}
		first := ""
		for _, a := range advertised {
			if contains(supported, a) {
				first = a
				break
			}
		}
		if (reqEnc == "" || reqEnc == "identity") && streaming {
			r.Probes["negotiation_preference_checked"]++
			if respEnc != first && !(first == "" && respEnc == "identity") {
				add("negotiation/preference", fmt.Sprintf("request uncompressed, client advertised %v, handler supports %v: response encoding %q, want %q", advertised, supported, respEnc, first))
			}
		}
		// ---- per message: threshold, flag, losslessness (strict decode by ref)
		resp, err := ref.DecodeResponse(ref.Proto(ccfg.Proto), streaming, ex.ReqHeader.Get("Content-Type"), ex.Status, ex.RespHeader, ex.Down.Bytes(), ex.Trailer, harnessDecomp)
		if err != nil {
			add("response-not-decodable", err.Error())
		} else {
			for i, pl := range resp.Messages {
				v, derr := ref.DecodeBytesValue(codec, pl)
				if derr != nil || i >= len(p.RespMsgs) || !bytes.Equal(v, p.RespMsgs[i]) {
					add("response-lossy", fmt.Sprintf("message %d on the wire does not decompress/decode to what the handler sent (%v)", i, derr))
					continue
				}
				if resp.Compressed[i] {
					r.Probes["compressed_response_messages"]++
					if len(pl) < h.CompressMin {
						add("threshold/response-below-minimum-compressed", fmt.Sprintf("message %d: %d encoded bytes < compress-min-bytes %d but sent compressed", i, len(pl), h.CompressMin))
					}
					if !streaming && (first == "" && reqEnc == "") {
						add("negotiation/unary-compressed-without-agreement", fmt.Sprintf("unary response compressed with %q", resp.Encoding))
					}
				}
			}
		}
		req, err := ref.DecodeRequest(ref.Proto(ccfg.Proto), streaming, ex.Method, ex.ReqHeader, ex.Up.Bytes(), harnessDecomp)
		if err != nil {
			add("request-not-decodable", err.Error())
		} else {
			for i, pl := range req.Messages {
				v, derr := ref.DecodeBytesValue(codec, pl)
				if derr != nil || i >= len(p.ReqMsgs) || !bytes.Equal(v, p.ReqMsgs[i]) {
					add("request-lossy", fmt.Sprintf("message %d on the wire does not decompress/decode to what the client sent (%v)", i, derr))
					continue
				}
				if req.Compressed[i] {
					r.Probes["compressed_request_messages"]++
					if len(pl) < ccfg.CompressMin {
						add("threshold/request-below-minimum-compressed", fmt.Sprintf("message %d: %d encoded bytes < compress-min-bytes %d but sent compressed", i, len(pl), ccfg.CompressMin))
					}
					if ccfg.SendComp == "" {
						add("request-compressed-without-send-compression", fmt.Sprintf("message %d compressed with %q", i, req.Encoding))
					}
				}
			}
		}
	}
	if faultFired > 0 && failedGood > faultFired {
		vs = append(vs, Violation{Class: "C08/fault-spread", Msg: fmt.Sprintf("%d injected compressor failure(s) made %d valid calls fail", faultFired, failedGood)})
	}
	if w.pools.stats.CompReuse > 0 {
		r.Probes["histories_with_pool_reuse"]++
	}
	if n := w.pools.stats.DoublePutComp; n > 0 {
		vs = append(vs, Violation{Class: "C08/pool-double-put/compressor", Msg: fmt.Sprintf("a (de)compressor was returned to its pool %d time(s) while already in it (history: %v): two later calls will share it", n, badList(w))})
	}
	if n := w.pools.stats.DoublePutBuf; n > 0 {
		vs = append(vs, Violation{Class: "C08/pool-double-put/buffer", Msg: fmt.Sprintf("a buffer was returned to its pool %d time(s) while already in it", n)})
	}
	return vs
}

func badList(w *World) []string {
	var out []string
	for _, o := range w.Obs {
		if o.Plan.bad != "" {
			out = append(out, o.Plan.ID+":"+o.Plan.bad)
		}
	}
	return out
}

func recvLen(o *CallObs) int {
	if len(o.Recv) == 0 {
		return 0
	}
	return len(o.Recv[0])
}

package world

import (
	"bytes"
	"errors"
	"fmt"
	"net/http"
	"strconv"
	"strings"

	connect "github.com/bufbuild/connect-go"

	"verif/sim/core"
	"verif/sim/ref"
	"verif/sim/simhttp"
)

// C09 — read limits are enforced exactly, before a message reaches user
// code. Honest senders straddle the limit at every stream position (with and
// without compression); byzantine senders lie about lengths, flag oversized
// envelopes as protocol blocks, declare false Content-Lengths and send
// decompression bombs. The verif pool hook reports the largest buffer the
// receiver ever held.

func init() {
	register(&Prop{ID: "C09", Gen: genC09, Check: checkC09, HangIsViolation: true})
}

type c09Info struct {
	mode      int // 0 honest, handler limited; 1 honest, client limited; 2 byzantine request; 3 byzantine response
	n         int
	firstOver int // index of the first message that exceeds the limit (-1: none)
	wire      []int
	plain     []int
	attack    string
	validPre  int // byzantine: number of valid small messages before the attack
}

// valueForEncodedSize returns a BytesValue value whose encoding in the codec
// has exactly (or, for JSON, at least and as close as possible to) size
// bytes.
func valueForEncodedSize(codec string, size int, fill byte) []byte {
	if size <= 0 {
		return []byte{}
	}
	n := size
	if codec == "json" {
		n = (size-2)*3/4 + 3 // base64 plus quotes; start just above the answer
	}
	for n >= 0 {
		v := bytes.Repeat([]byte{fill}, n)
		if len(ref.EncodeBytesValue(codec, v)) <= size {
			return v
		}
		n--
	}
	return []byte{}
}

var c09Limits = []int{1, 2, 5, 64, 512, 1024, 65536}

func genC09(t *core.Tape, tier string) *Scenario {
	sc := &Scenario{Prop: "C09", Notes: map[string]int{}}
	h := HandlerCfg{}
	c := ClientCfg{Proto: genProto(t), JSON: t.Bool(1, 4, "json")}
	codec := "proto"
	if c.JSON {
		codec = "json"
	}
	info := &c09Info{firstOver: -1}
	info.mode = t.Pick([]int{3, 3, 3, 3}, "c09.mode")
	n := c09Limits[t.Choose(len(c09Limits), "limit")]
	if t.Bool(1, 4, "limit.random") {
		n = 3 + t.Choose(5000, "limit.n")
	}
	p := &CallPlan{ID: callID(0)}
	switch info.mode {
	case 0, 2:
		p.Kind = []Kind{KClient, KBidi, KUnary, KServer}[t.Choose(4, "kind")]
	default:
		p.Kind = []Kind{KServer, KBidi, KUnary, KClient}[t.Choose(4, "kind")]
		if c.Proto != PGRPC && n < 256 {
			// the limit also applies to the protocol's own end-of-stream block
			// (Connect end-of-stream JSON, gRPC-Web trailer frame), which is not a
			// message: keep it above that block's size
			n = 256
		}
	}
	info.n = n
	p.K = genKnobs(t, p.Kind)
	p.K.UpWindow, p.K.DownWindow = 1<<20, 1<<20
	streaming := !(c.Proto == PConnect && p.Kind == KUnary)
	comp := ""
	if t.Bool(1, 3, "compress") {
		comp = "gzip"
		if t.Bool(1, 2, "custom") {
			comp = "a"
			h.Comp = []string{"a"}
			c.Accept = []string{"a"}
		}
	}
	sizeAround := func() (int, string) {
		switch t.Pick([]int{2, 3, 3, 2, 1}, "size.class") {
		case 0:
			return t.Choose(n+1, "size.small") / 2, "small"
		case 1:
			return n - 1, "n-1"
		case 2:
			return n, "n"
		case 3:
			return n + 1, "n+1"
		default:
			return n*3 + 17, ">>n"
		}
	}
	switch info.mode {
	case 0, 1:
		// honest sender
		count := 1
		multi := (info.mode == 0 && (p.Kind == KClient || p.Kind == KBidi)) || (info.mode == 1 && (p.Kind == KServer || p.Kind == KBidi))
		if multi {
			count = 1 + t.Choose(5, "count")
		}
		var msgs [][]byte
		for i := 0; i < count; i++ {
			sz, cls := sizeAround()
			var v []byte
			if comp != "" && t.Bool(1, 2, "bomb") {
				// compressible: small on the wire, large after decompression
				big := []int{n + 1, n * 2, n*8 + 100, 1 << 16, 1 << 20}[t.Choose(5, "bomb.size")]
				if tier == "thorough" && t.Bool(1, 4, "bomb.huge") {
					big = 16 << 20
				}
				v = make([]byte, big)
				cls = "bomb"
			} else {
				v = valueForEncodedSize(codec, sz, byte('a'+i))
				if c.JSON || comp != "" {
					// incompressible so that the wire size is about the plain size
					v = t.Bytes(len(v), 2, "rnd")
				}
			}
			sc.Notes["size_"+cls]++
			msgs = append(msgs, v)
		}
		if info.mode == 0 {
			h.ReadMax = n
			c.SendComp = comp
			p.ReqMsgs = msgs
			p.RespMsgs = [][]byte{{1}}
			if p.Kind == KUnary || p.Kind == KServer {
				p.ReqMsgs = msgs[:1]
			}
		} else {
			c.ReadMax = n
			if comp != "" {
				// the handler compresses when the client accepts it
				h.CompressMin = 0
			}
			p.RespMsgs = msgs
			p.ReqMsgs = [][]byte{{1}}
			if p.Kind == KUnary || p.Kind == KClient {
				p.RespMsgs = msgs[:1]
			}
		}
		stdPrograms(t, p)
		if p.Kind == KBidi {
			p.Split = false
			var prog []COp
			for i := range p.ReqMsgs {
				prog = append(prog, COp{Op: "send", Arg: i})
			}
			p.CProg = append(prog, COp{Op: "closereq"}, COp{Op: "recvall"}, COp{Op: "closeresp"})
			p.CProgRcv = nil
			p.HProg = []HOp{{Op: "drain"}}
			for i := range p.RespMsgs {
				p.HProg = append(p.HProg, HOp{Op: "send", Arg: i})
			}
		}
		earlyExitKnobs(p)
	default:
		// byzantine sender: a few valid small messages, then the attack
		info.validPre = t.Choose(3, "valid.pre")
		single := (info.mode == 2 && (p.Kind == KUnary || p.Kind == KServer)) || (info.mode == 3 && (p.Kind == KUnary || p.Kind == KClient))
		if !streaming || single {
			// single-message directions never read past their first message
			info.validPre = 0
		}
		var body []byte
		var pre [][]byte
		for i := 0; i < info.validPre; i++ {
			v := []byte{byte('0' + i)}
			if len(ref.EncodeBytesValue(codec, v)) > n {
				v = []byte{}
			}
			pre = append(pre, v)
			body = ref.AppendEnvelope(body, 0, ref.EncodeBytesValue(codec, v))
		}
		encoding := ""
		hdrExtra := http.Header{}
		attacks := []string{"declared-4g-3-present", "declared-n+1-nothing", "declared-1m-actual-1m", "flagged-endstream-1m", "flagged-trailers-1m", "bomb", "content-length-lie"}
		info.attack = attacks[t.Choose(len(attacks), "attack")]
		if !streaming && info.attack != "bomb" && info.attack != "content-length-lie" {
			info.attack = []string{"bomb", "content-length-lie", "plain-1m", "plain-1m-length-understated"}[t.Choose(4, "attack.unary")]
		}
		if streaming && info.attack == "content-length-lie" {
			info.attack = "declared-4g-3-present"
		}
		big := bytes.Repeat([]byte{'Z'}, 1<<20)
		prefix := func(flags byte, declared uint32) []byte {
			return []byte{flags, byte(declared >> 24), byte(declared >> 16), byte(declared >> 8), byte(declared)}
		}
		switch info.attack {
		case "declared-4g-3-present":
			body = append(append(body, prefix(0, 0xffffffff)...), 'a', 'b', 'c')
		case "declared-n+1-nothing":
			body = append(body, prefix(0, uint32(n+1))...)
		case "declared-1m-actual-1m":
			body = append(append(body, prefix(0, 1<<20)...), big...)
		case "flagged-endstream-1m":
			body = append(append(body, prefix(ref.FlagEndStream, 1<<20)...), big...)
		case "flagged-trailers-1m":
			body = append(append(body, prefix(ref.FlagTrailers, 1<<20)...), big...)
		case "plain-1m":
			body = big
		case "plain-1m-length-understated":
			// the declared length fits the limit, the body does not: what a
			// handler sees behind a middleware that rewrites or inflates the
			// body and leaves the header as it came (net/http itself cuts a
			// request body at its Content-Length)
			body = big
			hdrExtra["Content-Length"] = []string{strconv.Itoa([]int{1, n, (n + 1) / 2}[t.Choose(3, "understated")])}
		case "content-length-lie":
			body = []byte{1, 2, 3, 4, 5}
			hdrExtra["Content-Length"] = []string{strconv.Itoa(64 << 20)}
		case "bomb":
			encoding = "gzip"
			payload := gzipBytes(make([]byte, 4<<20))
			if streaming {
				body = ref.AppendEnvelope(body, ref.FlagCompressed, payload)
			} else {
				body = payload
			}
		}
		sc.Notes["attack_"+info.attack]++
		p.ReqMsgs, p.RespMsgs = pre, [][]byte{{1}}
		if info.mode == 2 {
			h.ReadMax = n
			o := ref.EncOpts{Encoding: encoding}
			hdr := ref.RequestHeader(ref.Proto(c.Proto), streaming, codec, o, "", nil)
			for k, v := range hdrExtra {
				hdr[k] = v
			}
			endErr := error(nil)
			if info.attack == "content-length-lie" {
				endErr = errors.New("unexpected EOF")
			}
			p.Raw = &RawReq{Method: "POST", Header: hdr, Body: body, EndErr: endErr}
			p.K.HTTP2 = true
			switch p.Kind {
			case KClient, KBidi:
				p.HProg = []HOp{{Op: "drain"}}
			}
		} else {
			c.ReadMax = n
			p.RespMsgs = pre
			ct := ref.ContentType(ref.Proto(c.Proto), streaming, codec, false)
			hdr := http.Header{"Content-Type": {ct}}
			if encoding != "" {
				hdr[encodingHeaderName(c.Proto, streaming)] = []string{encoding}
			}
			for k, v := range hdrExtra {
				hdr[k] = v
			}
			var trailer http.Header
			if c.Proto == PGRPC {
				trailer = http.Header{"Grpc-Status": {"0"}}
			}
			status := 200
			if !streaming && (info.attack == "bomb" || info.attack == "plain-1m") && t.Bool(1, 2, "attack.in.error.body") {
				// the oversized / highly compressible payload is the body of an
				// error response
				status = []int{429, 503, 400}[t.Choose(3, "attack.status")]
				hdr["Content-Type"] = []string{"application/json"}
				js := []byte(`{"code":"resource_exhausted","message":"` + strings.Repeat("Z", 1<<20) + `"}`)
				if info.attack == "bomb" {
					js = gzipBytes([]byte(`{"code":"resource_exhausted","message":"` + strings.Repeat("Z", 4<<20) + `"}`))
				}
				body = js
				info.attack += "-error-body"
				sc.Notes["attack_in_error_body"]++
			}
			p.Canned = &simhttp.Canned{Status: status, Header: hdr, Body: body, Trailer: trailer}
			stdPrograms(t, p)
			if p.Kind == KBidi {
				p.Split = false
				p.CProg = []COp{{Op: "send", Arg: 0}, {Op: "closereq"}, {Op: "recvall"}, {Op: "closeresp"}}
				p.CProgRcv = nil
				p.ReqMsgs = [][]byte{{1}}
			} else {
				p.ReqMsgs = [][]byte{{1}}
				if p.Kind == KClient {
					p.CProg = []COp{{Op: "send", Arg: 0}}
				}
			}
		}
	}
	if info.mode >= 2 {
		// megabyte bodies: whole or large reads keep the step count sane
		p.K.UpFrag, p.K.DownFrag = t.Choose(2, "frag"), t.Choose(2, "frag")
	}
	sc.Handlers = []HandlerCfg{h}
	sc.Clients = []ClientCfg{c}
	sc.Notes[fmt.Sprintf("mode_%d", info.mode)]++
	p.c09 = info
	boundSteps(p)
	genYield(t, p)
	sc.Calls = []*CallPlan{p}
	return sc
}

func limitCode(err error) (connect.Code, bool) {
	var ce *connect.Error
	if !errors.As(err, &ce) {
		return 0, false
	}
	return ce.Code(), ce.Code() == connect.CodeInvalidArgument || ce.Code() == connect.CodeResourceExhausted
}

func checkC09(w *World, st core.Status, r *RunResult) []Violation {
	var vs []Violation
	if st != core.Done {
		return nil
	}
	ccfg := w.Sc.Clients[0]
	codec := "proto"
	if ccfg.JSON {
		codec = "json"
	}
	for _, o := range w.Obs {
		p := o.Plan
		info := p.c09
		tag := ccfg.Proto.String() + "/" + p.Kind.String()
		add := func(class, msg string) {
			vs = append(vs, Violation{Class: "C09/" + class + "/" + tag, Msg: fmt.Sprintf("%s: limit %d: %s", p.ID, info.n, msg)})
		}
		ex := o.Call.Exchange()
		if ex == nil {
			continue
		}
		switch info.mode {
		case 0, 1:
			// sizes as they really were on the wire and after decompression,
			// computed by the harness from the recorded bytes
			streaming := !(ccfg.Proto == PConnect && p.Kind == KUnary)
			var sent [][]byte
			var wire []int
			var enc string
			var body []byte
			if info.mode == 0 {
				sent, body = p.ReqMsgs, ex.Up.Bytes()
				enc = ex.ReqHeader.Get(encodingHeaderName(ccfg.Proto, streaming))
			} else {
				sent, body = p.RespMsgs, ex.Down.Bytes()
				enc = ex.RespHeader.Get(encodingHeaderName(ccfg.Proto, streaming))
			}
			if streaming {
				envs, _, _ := ref.SplitEnvelopes(body)
				for _, e := range envs {
					if e.Flags&^ref.FlagCompressed == 0 {
						wire = append(wire, len(e.Data))
					}
				}
			} else {
				wire = []int{len(body)}
			}
			_ = enc
			firstOver := -1
			for i, v := range sent {
				u := len(ref.EncodeBytesValue(codec, v))
				wv := u
				if i < len(wire) {
					wv = wire[i]
				}
				if wv > info.n || u > info.n {
					firstOver = i
					break
				}
				if i >= len(wire) {
					break // the sender stopped early (the receiver had already failed)
				}
			}
			var got [][]byte
			var failure error
			if info.mode == 0 {
				got = o.H.Recv
				if o.H.RecvEndSet && o.H.RecvEnd != nil && !isEOF(o.H.RecvEnd) {
					failure = o.H.RecvEnd
				}
				if (p.Kind == KUnary || p.Kind == KServer) && o.H.Entered == 0 {
					failure = o.Final
				}
			} else {
				got = o.Recv
				failure = o.Final
			}
			if firstOver < 0 {
				r.Probes["within_limit_checked"]++
				if c, m := seqMismatch(sent, got); c != "" {
					add("within-limit-not-delivered/"+c, fmt.Sprintf("every message is within the limit (encoded sizes %v), yet: %s (failure: %v)", encSizes(codec, sent), m, failure))
				}
				if info.mode == 1 && o.Final != nil {
					add("within-limit-call-failed", fmt.Sprintf("every message is within the limit, the call failed: %v", o.Final))
				}
				continue
			}
			r.Probes["over_limit_checked"]++
			if len(got) > firstOver {
				add("over-limit-delivered", fmt.Sprintf("message %d exceeds the limit (encoded %d bytes) but the application received %d message(s)", firstOver, len(ref.EncodeBytesValue(codec, sent[firstOver])), len(got)))
			} else if c, m := seqMismatch(sent[:len(got)], got); c != "" {
				add("before-limit-corrupted/"+c, m)
			}
			if len(got) < firstOver && failure == nil {
				add("within-limit-lost", fmt.Sprintf("messages before the oversize one (index %d) were lost: got %d", firstOver, len(got)))
			}
			if failure == nil {
				if o.FinalSet && o.Final == nil {
					add("over-limit-call-succeeded", fmt.Sprintf("message %d exceeds the limit but the call succeeded", firstOver))
				}
			} else if code, ok := limitCode(failure); !ok {
				add("over-limit-wrong-code", fmt.Sprintf("message %d exceeds the limit; failure %v has code %v, want invalid_argument or resource_exhausted", firstOver, failure, code))
			}
			if o.FinalSet && o.Final == nil {
				add("over-limit-call-succeeded", fmt.Sprintf("message %d exceeds the limit but the client saw success", firstOver))
			}
		default:
			r.Probes["attacks_checked"]++
			var got [][]byte
			if info.mode == 2 {
				got = o.H.Recv
			} else {
				got = o.Recv
			}
			if !isPrefixOf(got, p.validPrefix()) {
				add("attack-delivered/"+info.attack, fmt.Sprintf("the application received %d message(s) %q; only the %d valid ones before the attack may be delivered", len(got), clip(bytes.Join(got, []byte("|")), 60), info.validPre))
			}
			if info.mode == 3 && o.FinalSet && o.Final == nil {
				add("attack-succeeded/"+info.attack, "the call reported success")
			}
			if info.mode == 2 {
				resp, err := ref.DecodeResponse(ref.Proto(ccfg.Proto), !(ccfg.Proto == PConnect && p.Kind == KUnary), p.Raw.Header.Get("Content-Type"), ex.Status, ex.RespHeader, ex.Down.Bytes(), ex.Trailer, harnessDecomp)
				if err == nil && resp.Err == nil {
					add("attack-succeeded/"+info.attack, "the handler answered with success")
				}
			}
			// buffering bound: the largest buffer the receiver released
			bound := 4*info.n + 64<<10
			if o.Final != nil && len(o.Final.Error()) > bound {
				add("attack-delivered-in-error/"+info.attack, fmt.Sprintf("the error handed to the application carries %d bytes of the peer's payload (bound %d)", len(o.Final.Error()), bound))
			}
			if max := w.pools.stats.MaxReleasedCap; max > bound {
				add("buffered-beyond-limit/"+info.attack, fmt.Sprintf("the receiver held a %d-byte buffer for one message (bound %d)", max, bound))
			}
			r.Probes["max_released_cap_seen"] = maxInt(r.Probes["max_released_cap_seen"], w.pools.stats.MaxReleasedCap)
		}
	}
	return vs
}

func (p *CallPlan) validPrefix() [][]byte {
	if p.c09.mode == 2 {
		return p.ReqMsgs
	}
	return p.RespMsgs
}

func encSizes(codec string, msgs [][]byte) []int {
	var out []int
	for _, m := range msgs {
		out = append(out, len(ref.EncodeBytesValue(codec, m)))
	}
	return out
}

func isEOF(err error) bool { return errors.Is(err, errEOF) }

func maxInt(a, b int) int {
	if a > b {
		return a
	}
	return b
}

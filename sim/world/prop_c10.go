package world

import (
	"fmt"
	"math"
	"net/http"
	"strings"
	"time"

	"verif/sim/core"
	"verif/sim/ref"
)

// C10 — deadlines propagate to the handler and are never extended. Only
// decidable on a controlled clock: the context is created in the same
// scheduler step in which the library encodes the timeout, so the remaining
// time at encode time is exactly the planned duration.

func init() {
	register(&Prop{ID: "C10", Gen: genC10, Check: checkC10})
}

var unitChars = []byte{'n', 'u', 'm', 'S', 'M', 'H'}
var unitDur = []time.Duration{time.Nanosecond, time.Microsecond, time.Millisecond, time.Second, time.Minute, time.Hour}

func pow10(k int) int64 {
	v := int64(1)
	for i := 0; i < k; i++ {
		v *= 10
	}
	return v
}

// genDuration stratifies over every unit x digit-count boundary, the Connect
// 10-digit limit, the int64 limit, and log-uniform random values.
func genDuration(t *core.Tape, notes map[string]int) time.Duration {
	switch t.Pick([]int{4, 2, 2, 3}, "dur.class") {
	case 0: // 10^k * unit +- delta
		u := t.Choose(6, "dur.unit")
		k := t.Choose(9, "dur.k")
		notes["dur_boundary"]++
		base := float64(pow10(k)) * float64(unitDur[u])
		if base > float64(math.MaxInt64)-10 {
			return time.Duration(math.MaxInt64 - int64(t.Choose(3, "dur.max")))
		}
		d := time.Duration(pow10(k)) * unitDur[u]
		delta := []time.Duration{0, -1, 1, -time.Duration(unitDur[u]), time.Duration(unitDur[u])}[t.Choose(5, "dur.delta")]
		if d+delta > 0 {
			return d + delta
		}
		return d
	case 1: // around 10^10 ms (Connect's 10-digit limit)
		notes["dur_connect_limit"]++
		d := time.Duration(pow10(10)) * time.Millisecond
		return d + []time.Duration{0, -1, 1, -time.Millisecond, time.Millisecond, -time.Millisecond - 1}[t.Choose(6, "dur.delta")]
	case 2: // around the int64 limit and gRPC's 8-digit hour range
		notes["dur_int64_limit"]++
		return time.Duration(math.MaxInt64 - int64(t.Choose(1000, "dur.max"))*int64([]time.Duration{1, time.Microsecond, time.Hour}[t.Choose(3, "dur.scale")]))
	default: // log-uniform
		notes["dur_random"]++
		bits := 1 + t.Choose(62, "dur.bits")
		v := int64(1) << uint(bits)
		v += int64(t.Choose(1<<30, "dur.low")) % v
		return time.Duration(v)
	}
}

func digits(t *core.Tape, n int, leadingZeros bool) string {
	b := make([]byte, n)
	for i := range b {
		b[i] = byte('0' + t.Choose(10, "digit"))
	}
	if !leadingZeros && n > 0 && b[0] == '0' {
		b[0] = '1'
	}
	return string(b)
}

// genTimeoutString returns a header value and its class: "gram", "malformed"
// or "dontcare".
func genTimeoutString(t *core.Tape, grpc bool, notes map[string]int) (string, string) {
	maxd := 10
	if grpc {
		maxd = 8
	}
	unit := ""
	if grpc {
		unit = string(unitChars[t.Choose(6, "unit")])
	}
	switch t.Pick([]int{6, 1, 1, 1, 1, 1, 1, 1, 1, 1, 1, 1}, "ts.class") {
	case 0:
		notes["ts_grammatical"]++
		n := 1 + t.Choose(maxd, "ndigits")
		return digits(t, n, t.Bool(1, 4, "leadzero")) + unit, "gram"
	case 1: // missing unit / unit present where none belongs
		notes["ts_unit_missing_or_extra"]++
		if grpc {
			return digits(t, 1+t.Choose(7, "n"), false), "malformed"
		}
		return digits(t, 1+t.Choose(5, "n"), false) + string(unitChars[t.Choose(6, "unit")]), "malformed"
	case 2: // unknown or wrong-case unit
		notes["ts_unknown_unit"]++
		if !grpc {
			return digits(t, 3, false) + "ms", "malformed"
		}
		return digits(t, 1+t.Choose(7, "n"), false) + string("hsUNxd%"[t.Choose(7, "badunit")]), "malformed"
	case 3: // empty number
		notes["ts_empty_number"]++
		if t.Bool(1, 3, "ts.empty.value") {
			// the header is there and says nothing: no number (and no unit)
			notes["ts_empty_value"]++
			return "", "malformed"
		}
		if grpc {
			return unit, "malformed"
		}
		return "ms", "malformed"
	case 4: // decimal point
		notes["ts_decimal_point"]++
		return "1.5" + unit, "malformed"
	case 5: // hex / exponent / underscore
		notes["ts_non_decimal"]++
		return []string{"0x10", "1e3", "1_000", "0b11", "A5"}[t.Choose(5, "w")] + unit, "malformed"
	case 6: // non-ASCII digits
		notes["ts_non_ascii_digits"]++
		return []string{"٣٤", "１２", "५"}[t.Choose(3, "w")] + unit, "malformed"
	case 7: // embedded space
		notes["ts_embedded_space"]++
		return "1 0" + unit, "malformed"
	case 8: // a sign is not a digit: the grammars say "positive integer as ASCII string of at most N digits"
		notes["ts_sign"]++
		return string("+-"[t.Choose(2, "sign")]) + digits(t, 1+t.Choose(3, "n"), false) + unit, "malformed"
	case 9: // too many digits
		notes["ts_too_many_digits"]++
		n := maxd + 1 + t.Choose(4, "extra")
		s := digits(t, n, false) + unit
		return s, "malformed"
	case 10: // too many characters but the magnitude fits (leading zeros)
		notes["ts_leading_zero_overlong"]++
		return strings.Repeat("0", maxd) + digits(t, 1, false) + unit, "dontcare"
	default: // arbitrary printable bytes
		notes["ts_arbitrary"]++
		n := 1 + t.Choose(8, "n")
		b := make([]byte, n)
		for i := range b {
			b[i] = byte(0x21 + t.Choose(0x7e-0x21+1, "c"))
		}
		s := string(b)
		// classify with the reference grammar
		var err error
		if grpc {
			_, _, err = ref.ParseGRPCTimeout(s)
		} else {
			_, _, err = ref.ParseConnectTimeout(s)
		}
		if err == nil {
			return s, "gram"
		}
		return s, "malformed"
	}
}

func rawContentType(p Proto, k Kind, json bool) string {
	codec := "proto"
	if json {
		codec = "json"
	}
	switch p {
	case PConnect:
		if k == KUnary {
			return "application/" + codec
		}
		return "application/connect+" + codec
	case PGRPC:
		return "application/grpc+" + codec
	default:
		return "application/grpc-web+" + codec
	}
}

func genC10(t *core.Tape, tier string) *Scenario {
	sc := &Scenario{Prop: "C10", Notes: map[string]int{}}
	sc.Handlers = []HandlerCfg{{}}
	proto := genProto(t)
	c := ClientCfg{Proto: proto}
	sc.Clients = []ClientCfg{c}
	p := &CallPlan{ID: callID(0)}
	p.K = genKnobs(t, KUnary)
	p.K.UpWindow, p.K.DownWindow = 1<<20, 1<<20
	if t.Bool(1, 2, "wire.to.handler") {
		// (b) a peer-chosen header string straight into the handler
		sc.Notes["mode_wire_to_handler"]++
		p.Kind = []Kind{KClient, KBidi, KServer, KUnary}[t.Choose(4, "kind")]
		if p.Kind == KBidi {
			p.K.HTTP2 = true
		}
		s, class := genTimeoutString(t, proto != PConnect, sc.Notes)
		hdr := http.Header{}
		hdr.Set("Content-Type", rawContentType(proto, p.Kind, false))
		if proto == PGRPC {
			hdr.Set("Te", "trailers")
		}
		name := "Connect-Timeout-Ms"
		if proto != PConnect {
			name = "Grpc-Timeout"
		}
		hdr.Set(name, s)
		if class == "gram" && t.Bool(1, 8, "timeout.repeated") {
			// the field twice: HTTP reads that as one comma-separated list,
			// which is not a timeout, whatever the two lines say
			other := []string{"banana", "1", s}[t.Choose(3, "timeout.second")]
			if proto != PConnect {
				other = []string{"banana", "1S", s}[t.Choose(3, "timeout.second")]
			}
			hdr[name] = []string{s, other}
			class = "malformed"
			s = s + ", " + other
			sc.Notes["timeout_header_repeated"]++
		}
		var body []byte
		switch {
		case proto == PConnect && p.Kind == KUnary:
		case p.Kind == KUnary || p.Kind == KServer:
			body = ref.AppendEnvelope(nil, 0, nil)
		}
		p.Raw = &RawReq{Method: "POST", Header: hdr, Body: body}
		p.TimeoutString, p.TimeoutClass = s, class
		p.RespMsgs = [][]byte{{}}
		if p.Kind == KClient || p.Kind == KBidi {
			p.HProg = []HOp{{Op: "drain"}}
		}
	} else {
		// (a)(c)(d) client deadline -> wire -> handler
		p.Kind = genKind(t)
		if p.Kind == KBidi {
			p.K.HTTP2 = true
		}
		p.ReqMsgs = [][]byte{{1}}
		p.RespMsgs = [][]byte{{2}}
		stdPrograms(t, p)
		if t.Bool(1, 6, "no.deadline") {
			sc.Notes["mode_no_deadline"]++
		} else {
			sc.Notes["mode_client_deadline"]++
			p.Deadline = genDuration(t, sc.Notes)
			if t.Bool(1, 3, "deadline.from.interceptor") {
				// the deadline the call runs under is set by a client interceptor
				// (default-timeout interceptor); the caller's own context has none
				// or a longer one
				sc.Clients[0].DeadlineIcpt = true
				p.InterceptDeadline = true
				if t.Bool(1, 2, "caller.has.longer.deadline") && p.Deadline < 1<<61 {
					p.CallerDeadline = p.Deadline*time.Duration(2+t.Choose(3, "caller.factor")) + time.Duration(t.Choose(1000, "caller.extra"))*time.Millisecond
				}
				sc.Notes["deadline_from_interceptor"]++
			}
		}
	}
	if p.Raw == nil && (p.Kind == KClient || p.Kind == KBidi) && p.Deadline > 4*time.Microsecond && p.Deadline < time.Minute && t.Bool(1, 3, "idle.before.first.send") {
		// the caller creates the stream and does something else before it first
		// sends: what goes on the wire then must fit the time remaining then
		p.PreSendSleep = p.Deadline / time.Duration(2+t.Choose(6, "idle.div"))
		us := int(p.PreSendSleep / time.Microsecond)
		p.PreSendSleep = time.Duration(us) * time.Microsecond
		p.CProg = append([]COp{{Op: "sleep", Arg: us}}, p.CProg...)
		sc.Notes["idle_before_first_send"]++
	}
	if p.Raw == nil && p.Kind == KUnary && p.Deadline > 4*time.Microsecond && p.Deadline < time.Minute && t.Bool(1, 3, "slow.marshal") {
		// a codec that takes its time over the request message: a unary Connect
		// request cannot start before its body is ready (its headers say how it
		// is compressed), so the timeout it carries must fit what remains then
		us := int(p.Deadline / time.Duration(2+t.Choose(6, "marshal.div")) / time.Microsecond)
		sc.Clients[0].SlowMarshal = time.Duration(us) * time.Microsecond
		sc.Notes["slow_request_marshal"]++
	}
	genYield(t, p)
	sc.Calls = []*CallPlan{p}
	if p.Raw == nil && p.Kind == KUnary && p.Deadline > 0 && t.Bool(1, 2, "resend.request") {
		// the caller sends the very same Request object again, this time with a
		// shorter deadline: the timeout on the wire must be the new one
		q := *p
		q.ID = callID(1)
		q.ReuseRequestOf = p.ID
		q.Deadline = p.Deadline/time.Duration(2+t.Choose(1000, "resend.div")) + 1
		if t.Bool(1, 3, "resend.without.deadline") {
			q.Deadline = 0 // ... or with no deadline at all: then no timeout may be sent
		} else if t.Bool(1, 4, "resend.beyond.the.header") {
			// ... or with one too far away for the protocol's header to express
			// (Connect: 10 digits of milliseconds; gRPC: 8 digits of hours)
			q.Deadline = []time.Duration{200 * 24 * time.Hour, 1<<63 - 1}[t.Choose(2, "resend.far")]
			q.InterceptDeadline, q.CallerDeadline = false, 0 // the caller's own context carries it
			sc.Notes["request_object_resent_with_inexpressible_deadline"]++
		}
		sc.Calls = append(sc.Calls, &q)
		sc.Notes["request_object_resent"]++
	}
	return sc
}

func checkC10(w *World, st core.Status, r *RunResult) []Violation {
	var vs []Violation
	if st != core.Done {
		return nil
	}
	for _, o := range w.Obs {
		p := o.Plan
		proto := w.Sc.Clients[p.Client].Proto
		tag := proto.String() + "/" + p.Kind.String()
		add := func(class, msg string) {
			vs = append(vs, Violation{Class: "C10/" + class + "/" + proto.String(), Msg: p.ID + " (" + tag + "): " + msg})
		}
		ex := o.Call.Exchange()
		if ex == nil {
			continue
		}
		parse := ref.ParseConnectTimeout
		name := "Connect-Timeout-Ms"
		if proto != PConnect {
			parse, name = ref.ParseGRPCTimeout, "Grpc-Timeout"
		}
		if p.Raw != nil {
			s, class := p.TimeoutString, p.TimeoutClass
			switch class {
			case "gram":
				val, unbounded, err := parse(s)
				if err != nil {
					add("harness-classification", fmt.Sprintf("%q classified grammatical but the reference parser says %v", s, err))
					continue
				}
				r.Probes["grammatical_checked"]++
				if o.H.Entered == 0 {
					if p.Kind == KUnary && !unbounded && val < 50*time.Microsecond {
						continue // expired before the unary function could run: it is not called
					}
					add("grammatical-timeout-rejected", fmt.Sprintf("%s: %q is grammatical but user code did not run (HTTP %d)", name, s, ex.Status))
					continue
				}
				if unbounded {
					if o.H.HasDeadline {
						add("unrepresentable-timeout-bounded", fmt.Sprintf("%s: %q exceeds the runtime's range, yet the handler got a deadline", name, s))
					}
					continue
				}
				if !o.H.HasDeadline {
					add("timeout-ignored", fmt.Sprintf("%s: %q: handler context has no deadline", name, s))
				} else if got := o.H.Deadline.Sub(ex.ServeStart); got != val {
					add("timeout-not-exact", fmt.Sprintf("%s: %q: handler deadline is %v after the request arrived, want %v", name, s, got, val))
				}
			case "malformed":
				r.Probes["malformed_checked"]++
				if o.H.Entered != 0 {
					add("malformed-timeout-ran-user-code", fmt.Sprintf("%s: %q is malformed but user code ran", name, s))
				}
				resp, err := ref.DecodeResponse(ref.Proto(proto), p.Kind != KUnary || proto != PConnect, p.Raw.Header.Get("Content-Type"), ex.Status, ex.RespHeader, ex.Down.Bytes(), ex.Trailer, nil)
				if err != nil {
					add("malformed-timeout-response-undecodable", fmt.Sprintf("%s: %q: response is not well-formed: %v", name, s, err))
				} else if resp.Err == nil || resp.Err.Code != 3 {
					add("malformed-timeout-wrong-code", fmt.Sprintf("%s: %q: response error %+v, want invalid_argument", name, s, resp.Err))
				}
			default:
				r.Probes["dontcare_strings"]++
			}
			continue
		}
		// client deadline -> header -> handler deadline
		hv := ex.ReqHeader[name]
		d := p.Deadline
		dmax := d // the most that can have remained when the header was made final
		if rs := o.Call.RequestStart(); d > 0 && !rs.IsZero() {
			// The header is made final when the library starts the request:
			// somewhere between the beginning of the caller's first request-side
			// operation and the first write reaching the transport (the caller may
			// have been idle since it created the stream, and every scheduling
			// step costs a microsecond of fake time). d is the least that can have
			// remained then, dmax the most.
			d -= rs.Sub(o.StartTime)
			dmax = d
			for _, op := range o.Ops {
				switch op.Op {
				case "send", "closereq", "unary", "closeandreceive", "callserverstream":
					if !op.StartT.IsZero() && op.StartT.Before(rs) {
						dmax = p.Deadline - op.StartT.Sub(o.StartTime)
					}
				}
				if dmax != d {
					break
				}
			}
			if proto == PConnect && p.Kind == KUnary {
				// ... and a unary Connect request starts only once its body has
				// been marshalled: with a slow codec that is the later bound
				for _, me := range w.MarshalEnds {
					if !me.Before(o.StartTime) && !me.After(rs) {
						if m := p.Deadline - me.Sub(o.StartTime); m < dmax {
							dmax = m
							r.Probes["timeout_judged_after_slow_marshal"]++
						}
					}
				}
			}
			if d <= 0 {
				r.Probes["deadline_passed_before_request"]++
				continue
			}
		}
		if d == 0 {
			r.Probes["no_deadline_checked"]++
			if len(hv) != 0 {
				add("timeout-without-deadline", fmt.Sprintf("no client deadline but %s: %q was sent", name, hv))
			}
			if o.H.Entered == 1 && o.H.HasDeadline {
				add("handler-deadline-without-client-deadline", "handler context has a deadline although the client had none")
			}
			continue
		}
		r.Probes["deadline_checked"]++
		if len(hv) > 1 {
			add("timeout-header-duplicated", fmt.Sprintf("%s sent %d times", name, len(hv)))
			continue
		}
		expressible := true
		if proto == PConnect {
			expressible = d/time.Millisecond < time.Duration(pow10(10))
			if expressible != (dmax/time.Millisecond < time.Duration(pow10(10))) {
				// the remaining time crossed the 10-digit limit while the request
				// was being started: either answer is right
				r.Probes["expressibility_boundary_crossed"]++
				continue
			}
			if d < time.Millisecond {
				// expressible as 0: not longer than the time remaining, short by
				// less than the granularity - and the handler gets a deadline
				r.Probes["connect_sub_millisecond"]++
			}
		}
		if len(hv) == 0 {
			if expressible {
				add("timeout-not-sent", fmt.Sprintf("client deadline %v but no %s header", d, name))
			} else {
				r.Probes["inexpressible_sent_as_none"]++
				if o.H.Entered == 1 && o.H.HasDeadline {
					add("handler-deadline-without-header", "no timeout header, yet the handler has a deadline")
				}
			}
			continue
		}
		val, unbounded, err := parse(hv[0])
		if err != nil {
			add("ungrammatical-timeout-sent", fmt.Sprintf("client sent %s: %q: %v", name, hv[0], err))
			continue
		}
		if !expressible {
			add("inexpressible-timeout-truncated", fmt.Sprintf("deadline %v cannot be expressed, but %s: %q was sent", d, name, hv[0]))
			continue
		}
		if unbounded {
			add("timeout-overflows", fmt.Sprintf("client sent %s: %q which exceeds the runtime's range", name, hv[0]))
			continue
		}
		if val > dmax {
			add("timeout-extended", fmt.Sprintf("remaining %v at most, sent %q = %v", dmax, hv[0], val))
		}
		loss := d - val
		if proto == PConnect {
			if loss >= time.Millisecond {
				add("timeout-too-short", fmt.Sprintf("remaining %v, sent %q = %v (lost %v, granularity 1ms)", d, hv[0], val, loss))
			}
		} else if float64(loss) >= float64(d)*1e-4 && loss > 0 {
			add("timeout-too-short", fmt.Sprintf("remaining %v, sent %q = %v (lost %v >= 0.01%%)", d, hv[0], val, loss))
		}
		if o.H.Entered == 1 {
			if !o.H.HasDeadline {
				add("handler-without-deadline", fmt.Sprintf("client sent %s: %q, handler context has no deadline", name, hv[0]))
			} else if got := o.H.Deadline.Sub(ex.ServeStart); got != val {
				add("handler-deadline-differs", fmt.Sprintf("client sent %q = %v, handler deadline is %v after arrival", hv[0], val, got))
			}
		}
	}
	return vs
}

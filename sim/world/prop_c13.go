package world

import (
	"bytes"
	"errors"
	"fmt"
	"strings"
	"time"

	connect "github.com/bufbuild/connect-go"

	"verif/sim/core"
)

// C13 — concurrent calls on shared clients and handlers never interfere.
// G tasks x K calls with pairwise-distinct tagged payloads of mixed
// protocols, codecs, compressions, kinds and sizes over ONE handler set and
// a few shared clients; bidi streams with separate sender and receiver
// tasks. Two builds run the same tapes: the deterministic build (schedule
// decided at every transport operation and library yield point, poisoned
// LIFO pools, double-Put detection) and a -race build with
// happens-before-free gates.

func init() {
	register(&Prop{ID: "C13", Gen: genC13, Check: checkC13, MaxSteps: 60000})
}

func tagged(t *core.Tape, id, dir string, i int) []byte {
	n := []int{0, 3, 40, 200, 505, 520, 1500, 6000}[t.Pick([]int{1, 3, 3, 3, 2, 2, 2, 1}, "size")]
	head := fmt.Sprintf("<%s:%s:%d>", id, dir, i)
	b := make([]byte, 0, len(head)+n)
	b = append(b, head...)
	fill := byte('a' + t.Choose(26, "fill"))
	for j := 0; j < n; j++ {
		b = append(b, fill)
	}
	return b
}

func genC13(t *core.Tape, tier string) *Scenario {
	sc := &Scenario{Prop: "C13", Notes: map[string]int{}}
	sc.PoolFIFO = t.Bool(1, 5, "poolfifo")
	if t.Bool(1, 6, "pooldrop") {
		sc.PoolDrop = uint32(1 + t.Choose(1<<20, "pooldrop.seed"))
	}
	sc.AlgoYield = t.Bool(1, 2, "algo.yield")
	sc.TouchErrors = t.Bool(1, 2, "touch.errors")
	h := genHandlerCfg(t)
	// a read limit far above every payload bounds the damage of a misframed
	// stream (a garbage length prefix would otherwise reserve gigabytes)
	h.ReadMax = 1 << 20
	sc.Handlers = []HandlerCfg{h}
	nclients := 1 + t.Choose(3, "nclients")
	for i := 0; i < nclients; i++ {
		c := genClientCfg(t)
		c.ReadMax = 1 << 20
		c.Hedge = t.Bool(1, 4, "hedge")
		fixCompat(&c, &sc.Handlers[0])
		sc.Clients = append(sc.Clients, c)
	}
	// an HTTPClient that edits the request it is handed (per-call routing)
	mutURL := t.Bool(1, 2, "httpclient.edits.url")
	broken := -1
	if t.Bool(1, 6, "broken.client") {
		// one more client, misconfigured: every call on it fails with the error
		// NewClient recorded - each call with its own, as far as the caller can tell
		sc.Clients = append(sc.Clients, ClientCfg{Proto: genProto(t), Broken: true, ReadMax: 1 << 20})
		broken = len(sc.Clients) - 1
		sc.Notes["broken_client"]++
	}
	g := 2 + t.Choose(5, "tasks")
	k := 1 + t.Choose(3, "calls.per.task")
	n := 0
	for task := 0; task < g; task++ {
		for j := 0; j < k; j++ {
			p := &CallPlan{ID: callID(n), Kind: genKind(t), Client: t.Choose(nclients, "client"), Task: task}
			n++
			if broken >= 0 && t.Bool(1, 4, "on.broken.client") {
				p.Client = broken
			}
			p.K = genKnobs(t, p.Kind)
			p.K.MutateURL = mutURL
			// a context that can be cancelled (so the library watches it) and
			// outlives the call: one more library goroutine per call
			p.LiveCtx = t.Bool(1, 3, "live.ctx")
			nreq, nresp := 1, 1
			if p.Kind == KClient || p.Kind == KBidi {
				nreq = t.Choose(4, "nreq")
			}
			if p.Kind == KServer || p.Kind == KBidi {
				nresp = t.Choose(4, "nresp")
			}
			for i := 0; i < nreq; i++ {
				p.ReqMsgs = append(p.ReqMsgs, tagged(t, p.ID, "req", i))
			}
			for i := 0; i < nresp; i++ {
				p.RespMsgs = append(p.RespMsgs, tagged(t, p.ID, "resp", i))
			}
			p.bin = map[string][][]byte{}
			p.ReqHeader = genMeta(t, "X-Q", p.bin)
			p.RespHeader = genMeta(t, "X-H", p.bin)
			p.RespTrailer = genMeta(t, "X-T", p.bin)
			p.RespHeader.Set("X-Owner", p.ID)
			p.RespTrailer.Set("X-Owner-Trailer", p.ID)
			stdPrograms(t, p)
			if t.Bool(1, 5, "fail") {
				p.HErr = &ErrPlan{Code: uint32(1 + t.Choose(16, "err.code")), Msg: "failure of " + p.ID + " " + string(t.Bytes(t.Choose(30, "err.n"), 1, "err"))}
				p.HErr.Meta = map[string][]string{"X-Err-Owner": {p.ID}}
			}
			// an intermediary that strips HTTP trailers: the gRPC call fails, and
			// its error is its own
			if sc.Clients[p.Client].Proto == PGRPC && p.HErr == nil && t.Bool(1, 5, "drop.trailers") {
				p.K.DropTrailers = true
				sc.Notes["trailers_dropped"]++
			}
			// closing a finished response twice (defer Close() plus an explicit
			// Close()) is ordinary client code
			if t.Bool(1, 3, "close.twice") {
				for _, prog := range []*[]COp{&p.CProg, &p.CProgRcv} {
					for i, op := range *prog {
						if op.Op == "closeresp" {
							*prog = append((*prog)[:i+1:i+1], append([]COp{{Op: "closeresp"}}, (*prog)[i+1:]...)...)
							sc.Notes["closed_twice"]++
							break
						}
					}
				}
				if p.Kind == KServer {
					p.CloseTwice = true
					sc.Notes["closed_twice"]++
				}
			}
			// a caller that calls Receive once more after the stream has ended (a
			// drain helper, a loop that looks at Err() afterwards): whatever the
			// library kept of the end of the stream is looked at again
			if (p.Kind == KServer || p.Kind == KBidi) && t.Bool(1, 3, "receive.past.end") {
				if p.Kind == KServer {
					p.RecvPastEnd = true
				}
				for _, prog := range []*[]COp{&p.CProg, &p.CProgRcv} {
					for i, op := range *prog {
						if op.Op == "recvall" && p.Kind == KBidi {
							*prog = append((*prog)[:i+1:i+1], append([]COp{{Op: "recvmore"}}, (*prog)[i+1:]...)...)
							break
						}
					}
				}
				sc.Notes["receive_past_end"]++
			}
			// now and then a neighbour is a corrupt compressed request or response
			if t.Bool(1, 8, "bad.neighbour") {
				cc := sc.Clients[p.Client]
				codec := "proto"
				if cc.JSON {
					codec = "json"
				}
				makeBad(t, sc, p, &cc, &sc.Handlers[0], codec, 1+t.Choose(2, "badness"))
			}
			if !p.Split {
				earlyExitKnobs(p)
			}
			boundSteps(p)
			genYield(t, p)
			if p.Kind == KUnary && p.bad == "" && p.K.HTTP2 && p.Client != broken && t.Bool(1, 4, "retry.after.deadline") {
				// a retry: the caller (or a retry interceptor) sends the very same
				// Request again after a first attempt that its deadline cut short -
				// while the transport may not be through with that attempt yet
				q := *p
				q.ID = callID(n)
				n++
				q.bad = "expired-attempt" // judged only for what it does to the others
				q.Deadline = time.Duration(1+t.Choose(12, "retry.deadline.us")) * time.Microsecond
				if t.Bool(1, 3, "retry.after.client.timeout") {
					// ... or that the HTTPClient itself gave up on (its own timeout),
					// under a context that never ends
					q.Deadline = 0
					q.K.DoGivesUp = true
					sc.Notes["retried_after_client_timeout"]++
				}
				q.ReqHeader = nil
				q.ReqMsgs = [][]byte{tagged(t, q.ID, "req", 0)}
				q.RespMsgs = [][]byte{tagged(t, q.ID, "resp", 0)}
				q.RespHeader, q.RespTrailer, q.HErr = map[string][]string{"X-Owner": {q.ID}}, map[string][]string{"X-Owner-Trailer": {q.ID}}, nil
				q.LiveCtx = false
				p.ReuseRequestOf = q.ID
				sc.Calls = append(sc.Calls, &q)
				sc.Notes["retried_after_deadline"]++
			}
			sc.Calls = append(sc.Calls, p)
		}
	}
	sc.Notes["calls"] += n
	sc.Notes["tasks"] += g
	return sc
}

func foreignTag(id string, b []byte) string {
	i := bytes.IndexByte(b, '<')
	for i >= 0 && i < len(b) {
		j := bytes.IndexByte(b[i:], '>')
		if j < 0 {
			break
		}
		tag := string(b[i+1 : i+j])
		parts := strings.Split(tag, ":")
		if len(parts) == 3 && strings.HasPrefix(parts[0], "c") && parts[0] != id {
			return parts[0]
		}
		k := bytes.IndexByte(b[i+1:], '<')
		if k < 0 {
			break
		}
		i += 1 + k
	}
	return ""
}

func checkC13(w *World, st core.Status, r *RunResult) []Violation {
	var vs []Violation
	if st != core.Done {
		return nil
	}
	for _, o := range w.Obs {
		p := o.Plan
		if transportLimit(o, r) {
			continue
		}
		tag := w.Sc.Clients[p.Client].Proto.String() + "/" + p.Kind.String()
		add := func(class, msg string) {
			vs = append(vs, Violation{Class: "C13/" + class + "/" + tag, Msg: p.ID + ": " + msg})
		}
		// the request handed to the user's HTTPClient is this call's own: an edit
		// another call's HTTPClient made to its request URL is not visible here
		if q, ok := o.Call.URLAtDo(); ok {
			r.Probes["request_url_checked"]++
			if q != "" {
				add("cross-talk/request-url", fmt.Sprintf("the request handed to HTTPClient.Do already carried %q, the edit made to another call's request URL", q))
			}
		}
		if o.ForeignTouch != "" {
			add("cross-talk/error-object", fmt.Sprintf("the error handed to this call is the very object handed to call %s (it carries that call's annotation)", o.ForeignTouch))
		}
		// nothing of another call shows up in this one
		for i, m := range o.Recv {
			if who := foreignTag(p.ID, m); who != "" {
				add("cross-talk/to-client", fmt.Sprintf("response message %d carries call %s's payload", i, who))
			}
		}
		for i, m := range o.H.Recv {
			if who := foreignTag(p.ID, m); who != "" {
				add("cross-talk/to-handler", fmt.Sprintf("request message %d carries call %s's payload", i, who))
			}
		}
		if v := o.RespHeader.Get("X-Owner"); v != "" && v != p.ID {
			add("cross-talk/header", fmt.Sprintf("response header of call %s", v))
		}
		if v := o.RespTrailer.Get("X-Owner-Trailer"); v != "" && v != p.ID {
			add("cross-talk/trailer", fmt.Sprintf("response trailer of call %s", v))
		}
		if p.bad != "" {
			continue // a corrupt neighbour: only its effect on the others matters here
		}
		if w.Sc.Clients[p.Client].Broken {
			if o.FinalSet && o.Final == nil {
				add("solo/broken-client-succeeded", "a call on a client whose construction failed ended in success")
			}
			continue
		}
		// the solo expectation
		if o.H.Entered != 1 {
			add("solo/handler-entered", fmt.Sprintf("handler entered %d times", o.H.Entered))
			continue
		}
		if handlerDrains(p) {
			if c, m := seqMismatch(p.ReqMsgs, o.H.Recv); c != "" {
				add("solo/to-handler/"+c, m)
			}
		}
		for k, want := range p.ReqHeader {
			if strings.Join(o.H.ReqHeader[k], "\x00") != strings.Join(want, "\x00") {
				add("solo/request-header", fmt.Sprintf("key %q: sent %q, handler saw %q", k, want, o.H.ReqHeader[k]))
			}
		}
		if !o.FinalSet {
			add("solo/no-outcome", "no outcome")
			continue
		}
		wantResp := p.RespMsgs
		if p.Kind == KServer || p.Kind == KBidi {
			wantResp = p.RespMsgs[:min(sendsPlanned(p), len(p.RespMsgs))]
		}
		if w.Sc.Clients[p.Client].Hedge && p.Kind != KUnary {
			r.Probes["hedged_calls_checked"]++
			if got := o.H.ReqHeader.Get("X-Attempt"); got != "primary" {
				add("cross-talk/request-header-of-sibling-connection", fmt.Sprintf("the handler saw X-Attempt=%q on the primary connection", got))
			}
		}
		if p.K.DropTrailers {
			// the call fails (no grpc-status ever arrives); the error belongs to it
			r.Probes["dropped_trailer_calls_checked"]++
			var ce *connect.Error
			if o.Final == nil || !errors.As(o.Final, &ce) || ce.Code() == 0 {
				add("solo/dropped-trailers-outcome", fmt.Sprintf("trailers were stripped, client got %v", o.Final))
			} else {
				if v := ce.Meta().Get("X-Owner"); v != "" && v != p.ID {
					add("cross-talk/error-metadata", fmt.Sprintf("the error's metadata carries call %s's response header", v))
				}
				if o.FinalMeta != "" && hdrString(ce.Meta()) != o.FinalMeta {
					add("intact/error-metadata", fmt.Sprintf("error metadata changed after the error was returned: %s -> %s", o.FinalMeta, hdrString(ce.Meta())))
				}
			}
			continue
		}
		if p.HErr == nil {
			if o.Final != nil {
				add("solo/call-failed", fmt.Sprintf("%v", o.Final))
				continue
			}
			if c, m := seqMismatch(wantResp, o.Recv); c != "" {
				add("solo/to-client/"+c, m)
			}
			union := o.RespHeader.Clone()
			for k, v := range o.RespTrailer {
				union[k] = append(union[k], v...)
			}
			if why, ok := containsValues(union, p.RespHeader); !ok {
				add("solo/response-header", why)
			}
			if why, ok := containsValues(union, p.RespTrailer); !ok {
				add("solo/response-trailer", why)
			}
		} else {
			var ce *connect.Error
			if o.Final == nil || !errors.As(o.Final, &ce) || ce.Code() != connect.Code(p.HErr.Code) || ce.Message() != p.HErr.Msg {
				add("solo/error", fmt.Sprintf("handler returned code %d %q, client got %v", p.HErr.Code, p.HErr.Msg, o.Final))
			} else if ce.Meta().Get("X-Err-Owner") != p.ID {
				add("cross-talk/error-metadata", fmt.Sprintf("error metadata owner %q", ce.Meta().Get("X-Err-Owner")))
			}
			if p.Kind == KServer || p.Kind == KBidi {
				if c, m := seqMismatch(wantResp, o.Recv); c != "" {
					add("solo/to-client/"+c, m)
				}
			}
			if o.FinalText != "" && o.Final != nil && o.Final.Error() != o.FinalText {
				add("intact/error-text", fmt.Sprintf("error text changed after it was returned: %q -> %q", o.FinalText, o.Final.Error()))
			}
		}
		// values handed to user code stay intact while and after other calls run
		for i, m := range o.RecvRaw {
			if i < len(o.Recv) && !bytes.Equal(m.GetValue(), o.Recv[i]) {
				add("intact/message", fmt.Sprintf("response message %d changed after it was handed to user code (poison: %v)", i, isPoison(m.GetValue())))
			}
		}
		if o.RawHeader != nil && hdrString(o.RawHeader) != hdrString(o.RespHeader) {
			add("intact/header", "response header map changed after it was handed to user code")
		}
		if o.RawTrailer != nil && hdrString(o.RawTrailer) != hdrString(o.RespTrailer) {
			add("intact/trailer", "response trailer map changed after it was handed to user code")
		}
		r.Probes["calls_checked"]++
	}
	if n := w.pools.stats.DoublePutBuf; n > 0 {
		vs = append(vs, Violation{Class: "C13/pool-double-put/buffer", Msg: fmt.Sprintf("a buffer was returned to its pool %d time(s) while already in it: two later users will share it", n)})
	}
	if n := w.pools.stats.DoublePutComp; n > 0 {
		vs = append(vs, Violation{Class: "C13/pool-double-put/compressor", Msg: fmt.Sprintf("a (de)compressor was returned to its pool %d time(s) while already in it", n)})
	}
	for _, a := range w.algos {
		for _, v := range a.Violations {
			vs = append(vs, Violation{Class: "C13/pooled-instance-shared", Msg: v})
		}
	}
	if w.pools.stats.BufReuse > 0 {
		r.Probes["runs_with_buffer_reuse"]++
	}
	return vs
}

package world

import (
	"errors"
	"fmt"
	"io"
	"net/http"
	"regexp"
	"runtime"
	"strings"

	connect "github.com/bufbuild/connect-go"

	"verif/sim/core"
	"verif/sim/simhttp"
)

// C14 — every call terminates and releases what it acquired. Transport
// fault-free, scheduling adversarial: programs over {Send, CloseRequest,
// Receive, CloseResponse, cancel} against handler programs {receive i, send
// j, drain or not, return nil|E}, tiny windows, and slow-point sets at the
// library's yield points (every single point and every pair, by tape).

func init() {
	register(&Prop{ID: "C14", Gen: genC14, Check: checkC14, HangIsViolation: true})
}

func smallPayload(t *core.Tape) []byte {
	sizes := []int{0, 1, 10, 100, 600, 3000, 20000}
	return t.Bytes(sizes[t.Pick([]int{2, 3, 4, 4, 2, 2, 1}, "size")], 1, "bytes")
}

func genHandlerProg(t *core.Tape, p *CallPlan, sc *Scenario) {
	n, m := len(p.ReqMsgs), len(p.RespMsgs)
	p.HProg = nil
	switch p.Kind {
	case KUnary:
	case KClient:
		i := t.Choose(n+2, "h.recvs")
		for k := 0; k < i; k++ {
			p.HProg = append(p.HProg, HOp{Op: "recv"})
		}
		if t.Bool(1, 2, "h.drain") {
			p.HProg = append(p.HProg, HOp{Op: "drain"})
		}
	case KServer:
		j := t.Choose(m+1, "h.sends")
		for k := 0; k < j; k++ {
			p.HProg = append(p.HProg, HOp{Op: "send", Arg: k})
		}
	case KBidi:
		i := t.Choose(n+2, "h.recvs")
		j := t.Choose(m+1, "h.sends")
		shape := t.Choose(3, "h.shape")
		ri, sj := 0, 0
		for ri < i || sj < j {
			switch shape {
			case 0: // receive first
				if ri < i {
					p.HProg = append(p.HProg, HOp{Op: "recv"})
					ri++
				} else {
					p.HProg = append(p.HProg, HOp{Op: "send", Arg: sj})
					sj++
				}
			case 1: // send first
				if sj < j {
					p.HProg = append(p.HProg, HOp{Op: "send", Arg: sj})
					sj++
				} else {
					p.HProg = append(p.HProg, HOp{Op: "recv"})
					ri++
				}
			default: // alternate
				if ri < i {
					p.HProg = append(p.HProg, HOp{Op: "recv"})
					ri++
				}
				if sj < j {
					p.HProg = append(p.HProg, HOp{Op: "send", Arg: sj})
					sj++
				}
			}
		}
		if t.Bool(1, 2, "h.drain") {
			p.HProg = append(p.HProg, HOp{Op: "drain"})
		}
	}
	if t.Bool(1, 3, "h.err") {
		p.HErr = &ErrPlan{Code: uint32(1 + t.Choose(16, "err.code")), Msg: "handler says no"}
	}
}

// handlerDrains reports whether the handler program reads the request stream
// to its end.
func handlerDrains(p *CallPlan) bool {
	if p.Kind == KUnary || p.Kind == KServer {
		return true
	}
	recvs := 0
	for _, op := range p.HProg {
		switch op.Op {
		case "drain":
			return true
		case "recv":
			recvs++
		}
	}
	sends := 0
	for _, op := range p.CProg {
		if op.Op == "send" {
			sends++
		}
	}
	return recvs > sends
}

func genSlow(t *core.Tape, p *CallPlan, sc *Scenario) {
	for i := range p.YieldOn {
		p.YieldOn[i] = true
		p.SlowOn[i] = false
	}
	switch t.Pick([]int{2, 3, 3, 2}, "slowmode") {
	case 0: // no slow points, all yields park
	case 1: // a single point
		a := t.Choose(simhttp.NumPoints, "slow.a")
		p.SlowOn[a] = true
		sc.Notes[fmt.Sprintf("slow_single_%02d", a)]++
	case 2: // a pair
		a := t.Choose(simhttp.NumPoints, "slow.a")
		b := t.Choose(simhttp.NumPoints, "slow.b")
		p.SlowOn[a], p.SlowOn[b] = true, true
		if a > b {
			a, b = b, a
		}
		sc.Notes[fmt.Sprintf("slow_pair_%02d_%02d", a, b)]++
	default: // random subset, some yields off
		for i := range p.YieldOn {
			p.YieldOn[i] = t.Bool(2, 3, "yield.on")
			p.SlowOn[i] = p.YieldOn[i] && t.Bool(1, 4, "yield.slow")
		}
	}
}

func genC14(t *core.Tape, tier string) *Scenario {
	sc := &Scenario{Prop: "C14", Notes: map[string]int{}}
	sc.PoolFIFO = t.Bool(1, 4, "poolfifo")
	if t.Bool(1, 6, "pooldrop") {
		sc.PoolDrop = uint32(1 + t.Choose(1<<20, "pooldrop.seed"))
	}
	h := HandlerCfg{}
	c := ClientCfg{Proto: genProto(t), JSON: t.Bool(1, 4, "json")}
	if t.Bool(1, 4, "gzip") {
		c.SendComp = "gzip"
	}
	sc.Handlers = []HandlerCfg{h}
	sc.Clients = []ClientCfg{c}
	p := &CallPlan{ID: callID(0), Kind: genKind(t)}
	p.K = genKnobs(t, p.Kind)
	p.K.NoFlusher = false // these programs wait, inside the handler, for the client to have seen what the handler sent
	nreq, nresp := 1, 1
	if p.Kind == KClient || p.Kind == KBidi {
		nreq = t.Choose(6, "nreq")
	}
	if p.Kind == KServer || p.Kind == KBidi {
		nresp = t.Choose(6, "nresp")
	}
	for i := 0; i < nreq; i++ {
		p.ReqMsgs = append(p.ReqMsgs, smallPayload(t))
	}
	for i := 0; i < nresp; i++ {
		p.RespMsgs = append(p.RespMsgs, smallPayload(t))
	}
	genHandlerProg(t, p, sc)
	if (p.Kind == KServer || p.Kind == KBidi) && t.Bool(1, 2, "h.trailers") {
		p.RespTrailer = http.Header{"X-T": {"t1", "t2"}, "X-U": {"u"}}
		p.HProg = append(p.HProg, HOp{Op: "settrl"})
	}
	// client program
	cancelAt := -1
	byCancel := t.Bool(1, 4, "end.by.cancel")
	if !byCancel && t.Bool(1, 8, "refused.by.protocol") {
		// the client compresses with an algorithm the handler does not have:
		// the call is refused (unimplemented) before a byte of the request body
		// is read - while a Send larger than the window is still blocked
		sc.Clients[0].SendComp = "a"
		sc.Clients[0].Accept = []string{"a"}
		sc.Clients[0].CompressMin = 0
		p.protoRefused = true
		p.HErr = nil
		sc.Notes["refused_by_protocol"]++
	} else if !byCancel && t.Bool(1, 6, "refused.by.interceptor") {
		// a handler-side interceptor refuses the call: user code never runs and
		// the request is never read, so a Send larger than the window is still
		// blocked when the call ends on the other side
		sc.Handlers[0].NIntercept = 1
		p.InterceptorErr = true
		p.HProg = nil
		p.HErr = &ErrPlan{Code: uint32(1 + t.Choose(16, "err.code")), Msg: "interceptor says no"}
		sc.Notes["refused_by_interceptor"]++
	}
	switch p.Kind {
	case KUnary:
	case KClient:
		for i := range p.ReqMsgs {
			p.CProg = append(p.CProg, COp{Op: "send", Arg: i})
		}
		if byCancel {
			cancelAt = t.Choose(len(p.CProg)+1, "cancel.at")
			p.CProg = append(p.CProg[:cancelAt:cancelAt], append([]COp{{Op: "cancel"}}, p.CProg[cancelAt:]...)...)
			if cancelAt > 0 && cancelAt == len(p.CProg)-1 && t.Bool(1, 2, "abandon.after.cancel") {
				// Send, ..., cancel() - and nothing more, not even CloseAndReceive
				p.Abandon = true
				sc.Notes["abandoned_after_cancel"]++
			}
		}
	case KServer:
		p.CProg = []COp{{Op: "recvall"}}
		if byCancel {
			k := t.Choose(3, "cancel.after.recvs")
			p.CProg = nil
			for i := 0; i < k; i++ {
				p.CProg = append(p.CProg, COp{Op: "recv"})
			}
			p.CProg = append(p.CProg, COp{Op: "cancel"}, COp{Op: "recvall"})
		}
	case KBidi:
		p.Split = t.Bool(1, 2, "split")
		var sends []COp
		for i := range p.ReqMsgs {
			sends = append(sends, COp{Op: "send", Arg: i})
		}
		extraSends := 0
		if t.Bool(1, 3, "extra.sends") && len(p.ReqMsgs) > 0 {
			// more Sends than the handler will read: they must not block forever
			extraSends = 1 + t.Choose(4, "extra.n")
			for i := 0; i < extraSends; i++ {
				sends = append(sends, COp{Op: "send", Arg: t.Choose(len(p.ReqMsgs), "extra.which")})
			}
		}
		sends = append(sends, COp{Op: "closereq"})
		rcv := []COp{{Op: "recvall"}}
		for i := t.Choose(3, "recvmore"); i > 0; i-- {
			rcv = append(rcv, COp{Op: "recvmore"})
		}
		rcv = append(rcv, COp{Op: "closeresp"})
		if byCancel {
			// the context is cancelled at a random point of the sender
			// program; the remaining operations still run (and must return)
			cancelAt = t.Choose(len(sends)+1, "cancel.at")
			rest := sends[cancelAt:]
			if t.Bool(1, 2, "cancel.ends.request.side") {
				// finishing by cancellation: no CloseRequest afterwards, at most one
				// more (failing) Send, then straight to the response side
				var kept []COp
				for _, op := range rest {
					if op.Op == "send" && len(kept) == 0 {
						kept = append(kept, op)
					}
				}
				hasSendBefore := false
				for _, op := range sends[:cancelAt] {
					hasSendBefore = hasSendBefore || op.Op == "send"
				}
				if len(kept) == 0 && !hasSendBefore {
					// the discipline: the request side is started before the
					// response side is used
					kept = []COp{{Op: "closereq"}}
				} else {
					sc.Notes["cancel_without_closerequest"]++
					if !p.Split && t.Bool(1, 3, "cancel.then.close") {
						// cancel(); CloseResponse() - no Receive in between that
						// would notice the finished context
						rcv = []COp{{Op: "closeresp"}}
						sc.Notes["cancel_then_closeresponse"]++
					}
				}
				rest = kept
			}
			pre := []COp{{Op: "cancel"}}
			if !p.Split && cancelAt > 0 && len(p.HProg) > 0 && p.HProg[0].Op == "send" && t.Bool(1, 2, "recv.before.cancel") {
				// the response has certainly begun when the context is cancelled
				// (the handler sends before it receives, so this Receive returns)
				pre = []COp{{Op: "recv"}, {Op: "cancel"}}
				sc.Notes["receive_before_cancel"]++
			}
			sends = append(sends[:cancelAt:cancelAt], append(pre, rest...)...)
		}
		if p.Split {
			p.CProg, p.CProgRcv = sends, rcv
		} else {
			p.CProg = append(sends, rcv...)
		}
	}
	if byCancel {
		sc.Notes["end_by_cancel"]++
	}
	if (p.Kind == KClient || p.Kind == KBidi) && len(p.ReqMsgs) > 1 && !p.protoRefused && t.Bool(1, 8, "unsendable.message") {
		// one request message (not the first) cannot be marshalled: its Send
		// fails on the client - with the codec's complaint while the call is
		// live, with the end of the stream once the call is known to be over
		sc.Clients[0].FailCodec = true
		i := 1 + t.Choose(len(p.ReqMsgs)-1, "unsendable.which")
		p.ReqMsgs[i] = append(append([]byte(nil), marshalFailMarker...), p.ReqMsgs[i]...)
		sc.Notes["unsendable_later_message"]++
	}
	if !byCancel && t.Bool(1, 3, "live.ctx") {
		// the caller's context is a server's request context: it can be
		// cancelled, so the library watches it, but it outlives the call
		p.LiveCtx = true
		sc.Notes["cancellable_context_outlives_call"]++
	}
	if !byCancel && !p.InterceptorErr && !p.protoRefused && t.Bool(1, 16, "odd.url") {
		// a base URL that the library's own check accepts and net/http's request
		// constructor refuses: no request can be built, let alone sent - every
		// operation must still return, with a coded error
		sc.Clients[0].OddURL = true
		p.doFails = true
		sc.Notes["unbuildable_request_url"]++
	} else if !byCancel && !p.InterceptorErr && !p.protoRefused && t.Bool(1, 10, "do.fails") {
		// nothing answers at that address: Do fails, there is no response - and
		// still nothing may be left behind
		p.K.DoErr = errors.New("dial tcp 10.0.0.9:443: connect: connection refused")
		p.doFails = true
		sc.Notes["do_fails"]++
	}
	if p.Kind == KBidi && !byCancel && !p.InterceptorErr && !p.protoRefused && !p.doFails && len(p.ReqMsgs) > 0 && len(p.RespMsgs) > 0 && t.Bool(1, 6, "lockstep.readlimit") {
		// Lock-step conversation (send, receive, send, receive, ..., close)
		// with a client read limit that one of the responses exceeds: that
		// Receive fails locally, and it must return although the handler is
		// waiting for the client's next message.
		n := min(len(p.ReqMsgs), len(p.RespMsgs))
		p.Split = false
		p.HProg, p.CProg, p.CProgRcv = nil, nil, nil
		for i := 0; i < n; i++ {
			p.HProg = append(p.HProg, HOp{Op: "recv"}, HOp{Op: "send", Arg: i})
			p.CProg = append(p.CProg, COp{Op: "send", Arg: i}, COp{Op: "recv"})
			if len(p.RespMsgs[i]) > 8 {
				p.RespMsgs[i] = p.RespMsgs[i][:8]
			}
		}
		p.HProg = append(p.HProg, HOp{Op: "drain"})
		p.CProg = append(p.CProg, COp{Op: "closereq"}, COp{Op: "recvall"}, COp{Op: "closeresp"})
		p.RespMsgs = p.RespMsgs[:n]
		k := t.Choose(n, "oversize.which")
		p.RespMsgs[k] = t.Bytes(40+t.Choose(100, "oversize.n"), 1, "oversize")
		sc.Clients[0].ReadMax = 16
		p.HErr = nil
		p.clientLimit = true
		sc.Notes["lockstep_client_read_limit"]++
	}
	if !p.Split {
		earlyExitKnobs(p)
	}
	boundSteps(p)
	genSlow(t, p, sc)
	sc.Calls = []*CallPlan{p}
	return sc
}

var bubbleRe = regexp.MustCompile(`synctest bubble (\d+)`)

// bubbleLeaks returns the stacks of goroutines of the current bubble that
// still have a connect-go frame.
func bubbleLeaks() []string {
	buf := make([]byte, 2<<20)
	buf = buf[:runtime.Stack(buf, true)]
	gs := strings.Split(string(buf), "\n\n")
	if len(gs) == 0 {
		return nil
	}
	m := bubbleRe.FindStringSubmatch(strings.SplitN(gs[0], "\n", 2)[0])
	if m == nil {
		return nil
	}
	mine := "synctest bubble " + m[1]
	var out []string
	for _, g := range gs[1:] {
		head := strings.SplitN(g, "\n", 2)[0]
		if !strings.Contains(head, mine) {
			continue
		}
		if strings.Contains(g, "github.com/bufbuild/connect-go.") {
			out = append(out, g)
		}
	}
	return out
}

func usedCancel(o *CallObs) bool { return o.CancelStep >= 0 }

func checkC14(w *World, st core.Status, r *RunResult) []Violation {
	var vs []Violation
	for _, o := range w.Obs {
		p := o.Plan
		if transportLimit(o, r) {
			continue
		}
		tag := cfgTag(w, o)
		add := func(class, msg string) {
			vs = append(vs, Violation{Class: "C14/" + class + "/" + tag, Msg: p.ID + ": " + msg})
		}
		if st != core.Done {
			continue // the hang itself is reported by the runner
		}
		if p.doFails {
			// no exchange, no handler: what is decided is that every operation
			// returned (the runner reports hangs), that failures are coded, that
			// the call did not succeed, and - below - that nothing is left behind
			r.Probes["do_failed_calls_terminated"]++
			for _, op := range append(append([]OpRec{}, o.Ops...), o.OpsRcv...) {
				var ce *connect.Error
				if op.Err != nil && !errors.Is(op.Err, io.EOF) && (!errors.As(op.Err, &ce) || ce.Code() == 0) {
					add("uncoded-error/do-failed", fmt.Sprintf("%s failed with %v", op.Op, op.Err))
				}
			}
			if o.FinalSet && o.Final == nil {
				add("success-without-a-server", "HTTPClient.Do failed, yet the call ended in success")
			}
			continue
		}
		ex := o.Call.Exchange()
		cancelled := usedCancel(o)
		// 3. nothing left behind
		if ex != nil && ex.RespReturned && o.Call.BodyCloses() == 0 {
			closes := p.Kind == KUnary || p.Kind == KClient || p.Kind == KServer
			for _, op := range append(append([]COp{}, p.CProg...), p.CProgRcv...) {
				if op.Op == "closeresp" {
					closes = true
				}
			}
			if closes {
				add("response-body-not-closed", "HTTPClient.Do returned a response whose Body was never closed")
			}
		}
		all := append(append([]OpRec{}, o.Ops...), o.OpsRcv...)
		// first step at which a Receive had returned an error
		recvErrStep := -1
		for _, op := range all {
			if (op.Op == "recv" || op.Op == "closeandreceive" || op.Op == "unary") && op.Err != nil {
				if recvErrStep < 0 || op.End < recvErrStep {
					recvErrStep = op.End
				}
			}
		}
		if cancelled {
			r.Probes["cancelled_calls"]++
			continue // codes after cancellation are C15's business
		}
		// 2. handler sees end-of-request after CloseRequest
		closedReq := p.Kind != KBidi
		for _, op := range all {
			if op.Op == "closereq" && op.Err == nil {
				closedReq = true
			}
		}
		if closedReq && handlerDrains(p) && (p.Kind == KClient || p.Kind == KBidi) && o.H.Entered == 1 && !p.clientLimit {
			// (not when the client's own failure broke the stream before it
			// closed its side: then the handler sees that break, not a clean end)
			r.Probes["drain_checked"]++
			if !o.H.RecvEndSet {
				add("handler-never-saw-end", "handler drained the request but never reached its end")
			} else if !errors.Is(o.H.RecvEnd, io.EOF) {
				add("handler-unclean-end", fmt.Sprintf("request stream ended with %v after CloseRequest", o.H.RecvEnd))
			}
		}
		// 4./5. Sends after the handler returned (step-based: stub world only)
		for _, op := range all {
			if op.Op != "send" || ex == nil {
				continue
			}
			// a message the codec refuses, sent while the client cannot yet know
			// that the call is over (no Receive has said so), fails on the codec
			codecFirst := op.Err != nil && strings.Contains(op.Err.Error(), "cannot be marshalled") && !(recvErrStep >= 0 && op.Start > recvErrStep)
			if ex.HandlerDoneStep >= 0 && op.Start > ex.HandlerDoneStep {
				r.Probes["send_started_after_handler_returned"]++
				if op.Err != nil && !errors.Is(op.Err, io.EOF) && !codecFirst {
					add("send-after-finish-wrong-error", fmt.Sprintf("Send after the handler finished failed with %v (want nil or an error wrapping io.EOF)", op.Err))
				}
			}
			mustFailAfter := -1
			if ex.ClosedReqStep >= 0 {
				mustFailAfter = ex.ClosedReqStep
			}
			if recvErrStep >= 0 && (mustFailAfter < 0 || recvErrStep < mustFailAfter) {
				mustFailAfter = recvErrStep
			}
			if mustFailAfter >= 0 && op.Start > mustFailAfter {
				r.Probes["send_after_stream_closed"]++
				if op.Err == nil {
					add("send-after-close-succeeded", "Send started after the stream was closed (transport closed the request body or Receive had failed) returned nil")
				} else if !errors.Is(op.Err, io.EOF) && !codecFirst {
					add("send-after-close-wrong-error", fmt.Sprintf("Send after close failed with %v (want an error wrapping io.EOF)", op.Err))
				}
			}
		}
		// 6. the next Receive reports the handler's actual outcome
		if p.clientLimit {
			// the call ends on the client's own read limit: what is decided
			// here is that everything returned and was released
			r.Probes["client_limit_calls_terminated"]++
			if o.FinalSet && o.Final == nil {
				add("over-limit-ended-in-success", "a response message exceeded the client's read limit, yet the call ended in success")
			}
		} else if o.FinalSet && o.H.Returned {
			if p.HErr == nil {
				if o.Final != nil && (p.Kind == KServer || p.Kind == KBidi || respMsgOK(p)) {
					add("outcome-mismatch", fmt.Sprintf("handler returned nil, client got %v", o.Final))
				}
			} else {
				var ce *connect.Error
				if o.Final == nil {
					add("outcome-mismatch", "handler returned an error, client saw success")
				} else if !errors.As(o.Final, &ce) || ce.Code() != connect.Code(p.HErr.Code) || ce.Message() != p.HErr.Msg {
					add("outcome-mismatch", fmt.Sprintf("handler returned code %d %q, client got %v", p.HErr.Code, p.HErr.Msg, o.Final))
				}
			}
			if p.Kind == KServer || p.Kind == KBidi {
				if c, m := seqMismatch(p.RespMsgs[:o.H.Sent], o.Recv); c != "" {
					add("messages-before-outcome/"+c, m)
				}
			}
		}
		// 6b. a call refused before user code ran reports that refusal, whether
		// or not its Sends were still blocked at that time
		if p.InterceptorErr && o.FinalSet && o.CancelStep < 0 {
			r.Probes["refusal_outcome_checked"]++
			var ce *connect.Error
			if o.Final == nil {
				add("outcome-mismatch/refused", "an interceptor refused the call, client saw success")
			} else if !errors.As(o.Final, &ce) || ce.Code() != connect.Code(p.HErr.Code) || ce.Message() != p.HErr.Msg {
				add("outcome-mismatch/refused", fmt.Sprintf("an interceptor refused the call with code %d %q, client got %v", p.HErr.Code, p.HErr.Msg, o.Final))
			}
		}
		// 6c. a call refused by the protocol layer reports that refusal
		if p.protoRefused && o.FinalSet && o.CancelStep < 0 {
			r.Probes["protocol_refusal_checked"]++
			var ce *connect.Error
			if o.Final == nil {
				add("outcome-mismatch/refused-by-protocol", "the handler lacks the request's compression, client saw success")
			} else if !errors.As(o.Final, &ce) || ce.Code() != connect.CodeUnimplemented {
				add("outcome-mismatch/refused-by-protocol", fmt.Sprintf("the handler refused the request's compression (unimplemented), client got %v", o.Final))
			}
		}
		// 6d. a response that ended cleanly closes cleanly: CloseResponse after
		// Receive has reported the clean end of the stream has nothing left to fail on
		if o.FinalSet && o.Final == nil && o.CancelStep < 0 && p.Deadline == 0 {
			sawEnd := -1
			for _, op := range all {
				if (op.Op == "recv") && op.Err != nil && errors.Is(op.Err, io.EOF) {
					sawEnd = op.End
				}
			}
			for _, op := range all {
				if op.Op == "closeresp" && sawEnd >= 0 && op.Start > sawEnd {
					r.Probes["close_after_clean_end_checked"]++
					if op.Err != nil {
						add("closeresponse-failed-after-clean-end", fmt.Sprintf("Receive had reported the clean end of the stream, then CloseResponse failed: %v", op.Err))
					}
				}
			}
		}
		// 7b. Receives past the end of the stream change nothing: same trailers,
		// same error metadata
		if o.TrailerLater != nil && o.FinalSet {
			r.Probes["receive_past_end_checked"]++
			if a, b := hdrString(o.RespTrailer), hdrString(o.TrailerLater); a != b {
				add("trailers-changed-by-receive-past-end", fmt.Sprintf("response trailers were %s when the stream ended and %s after further Receives", a, b))
			}
			for _, op := range all {
				var ce *connect.Error
				if op.Op == "recvmore" && op.Err != nil && o.Final != nil && errors.As(op.Err, &ce) {
					if m := hdrString(ce.Meta()); m != o.FinalMeta {
						add("error-metadata-changed-by-receive-past-end", fmt.Sprintf("error metadata was %s when the stream ended and %s on a further Receive", o.FinalMeta, m))
					}
				}
			}
		}
		// 7. once Receive has reported an error it keeps reporting one
		seenErr := false
		for _, op := range o.OpsRcv {
			if op.Op == "recv" && op.Err != nil {
				seenErr = true
			}
			if op.Op == "recvmore" && seenErr {
				r.Probes["receive_after_error"]++
				if op.Err == nil {
					add("receive-after-error-succeeded", "Receive returned a message after an earlier Receive had failed")
				}
			}
		}
		for _, op := range o.Ops {
			if op.Op == "recv" && op.Err != nil {
				seenErr = true
			}
			if op.Op == "recvmore" && seenErr {
				r.Probes["receive_after_error"]++
				if op.Err == nil {
					add("receive-after-error-succeeded", "Receive returned a message after an earlier Receive had failed")
				}
			}
		}
	}
	if st == core.Done {
		if leaks := bubbleLeaks(); len(leaks) > 0 {
			vs = append(vs, Violation{Class: "C14/goroutine-leak", Msg: fmt.Sprintf("%d goroutine(s) with library frames remain after every call finished:\n%s", len(leaks), firstLines(leaks[0], 30))})
		}
		r.Probes["leak_scans"]++
	}
	return vs
}

// respMsgOK: for unary and client-stream calls the handler's success carries
// exactly one response message.
func respMsgOK(p *CallPlan) bool { return true }

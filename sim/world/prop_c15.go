package world

import (
	"context"
	"encoding/binary"
	"errors"
	"fmt"
	"io"
	"strings"
	"time"
	"verif/sim/simhttp"

	connect "github.com/bufbuild/connect-go"

	"verif/sim/core"
)

// C15 — cancellation and expiry surface as canceled / deadline_exceeded
// everywhere. The cancellation instant is a scheduler step (canceller task or
// a cancel operation inside the program); expiry is an instant on the fake
// clock against handler sleeps and scheduler steps.

func init() {
	register(&Prop{ID: "C15", Gen: genC15, Check: checkC15, HangIsViolation: true})
}

func genC15(t *core.Tape, tier string) *Scenario {
	sc := &Scenario{Prop: "C15", Notes: map[string]int{}}
	h := HandlerCfg{}
	c := ClientCfg{Proto: genProto(t), JSON: t.Bool(1, 4, "json")}
	sc.Handlers = []HandlerCfg{h}
	sc.Clients = []ClientCfg{c}
	p := &CallPlan{ID: callID(0), Kind: genKind(t)}
	p.K = genKnobs(t, p.Kind)
	p.K.NoFlusher = false // these programs wait, inside the handler, for the client to have seen what the handler sent
	nreq, nresp := 1, 1
	if p.Kind == KClient || p.Kind == KBidi {
		nreq = 1 + t.Choose(5, "nreq")
	}
	if p.Kind == KServer || p.Kind == KBidi {
		nresp = 1 + t.Choose(5, "nresp")
	}
	for i := 0; i < nreq; i++ {
		p.ReqMsgs = append(p.ReqMsgs, smallPayload(t))
	}
	for i := 0; i < nresp; i++ {
		p.RespMsgs = append(p.RespMsgs, smallPayload(t))
	}
	stdPrograms(t, p)
	mode := t.Pick([]int{3, 3, 3, 2}, "mode")
	if mode != 3 && len(p.ReqMsgs) > 0 && t.Bool(1, 8, "unsendable.message") {
		// one request message cannot be marshalled: a Send of it that begins
		// after the instant still fails because of the context, not the codec
		sc.Clients[0].FailCodec = true
		i := t.Choose(len(p.ReqMsgs), "unsendable.which")
		p.ReqMsgs[i] = append(append([]byte(nil), marshalFailMarker...), p.ReqMsgs[i]...)
		sc.Notes["unsendable_message"]++
	}
	if (mode == 0 || mode == 2) && t.Bool(1, 4, "client.readmax") {
		// a read limit the response messages may exceed: the library then
		// discards the oversized payload, and the context may end meanwhile.
		// (Not with a cancel operation inside the program: a Receive that fails
		// on the limit waits for the end of the response, hence for a handler
		// that may itself be waiting for that cancellation.)
		sc.Clients[0].ReadMax = 64
		sc.Notes["client_read_limit"]++
	}
	switch mode {
	case 0: // canceller task: cancels at any scheduler step
		p.CancelTask = true
		p.CancelDelay = time.Duration(t.Choose(400, "cancel.delay.us")) * time.Microsecond
		p.CancelLate = t.Bool(1, 2, "cancel.late")
		sc.Notes["mode_canceller"]++
	case 1: // cancel inside the program, between two operations
		sc.Notes["mode_cancel_op"]++
		prog := &p.CProg
		if p.Split && t.Bool(1, 2, "cancel.in.rcv") {
			prog = &p.CProgRcv
		}
		if p.Kind == KServer {
			// receive k messages, cancel, keep receiving
			k := t.Choose(min(3, len(p.RespMsgs)+1), "cancel.after.recvs")
			*prog = nil
			for i := 0; i < k; i++ {
				*prog = append(*prog, COp{Op: "recv"})
			}
			*prog = append(*prog, COp{Op: "cancel"}, COp{Op: "recvall"})
		} else if p.Kind == KUnary {
			// no program: cancel before the call
			p.CProg = []COp{{Op: "cancel"}}
		} else {
			// never after an operation of the same task that may wait for the
			// handler (which may itself be waiting for the cancellation)
			max := len(*prog)
			for i, op := range *prog {
				if op.Op == "recv" || op.Op == "recvall" {
					max = i
					break
				}
			}
			at := t.Choose(max+1, "cancel.at")
			rest := (*prog)[at:]
			if p.Kind == KBidi && !p.Split && t.Bool(1, 2, "cancel.ends.request.side") {
				// the program finishes by cancelling: at most one more Send, no
				// CloseRequest, then the response side (which must not block)
				hasSend := false
				for _, op := range (*prog)[:at] {
					hasSend = hasSend || op.Op == "send"
				}
				var kept []COp
				sent := false
				for _, op := range rest {
					switch {
					case op.Op == "send" && !sent:
						kept, sent = append(kept, op), true
					case op.Op == "send" || op.Op == "closereq":
					default:
						kept = append(kept, op)
					}
				}
				if hasSend || sent {
					rest = kept
					sc.Notes["cancel_without_closerequest"]++
				}
			}
			*prog = append((*prog)[:at:at], append([]COp{{Op: "cancel"}}, rest...)...)
		}
	case 2: // deadline on the fake clock
		sc.Notes["mode_deadline"]++
		d := []time.Duration{1, 5, 20, 60, 150, 400, 1500, 5000}[t.Choose(8, "deadline")] * time.Microsecond
		if t.Bool(1, 4, "deadline.ms") {
			d = time.Duration(1+t.Choose(30, "deadline.ms.n")) * time.Millisecond
		}
		p.Deadline = d
		if p.Kind == KBidi && len(p.ReqMsgs) > 0 && t.Bool(1, 6, "first.send.unsendable") {
			// the first Send fails on the client (the message cannot be
			// marshalled), the caller turns to the response side: whatever it
			// calls there returns when the deadline passes, at the latest
			sc.Clients[0].FailCodec = true
			p.ReqMsgs[0] = append(append([]byte(nil), marshalFailMarker...), p.ReqMsgs[0]...)
			p.Split = false
			p.CProg = []COp{{Op: "send", Arg: 0}, {Op: "recvall"}, {Op: "closeresp"}}
			p.CProgRcv = nil
			p.HProg = []HOp{{Op: "drain"}, {Op: "waitctx"}}
			p.HErr = &ErrPlan{CtxErr: true}
			sc.Notes["first_send_unsendable"]++
		}
	case 3: // no cancellation: the handler returns a context error of its own
		sc.Notes["mode_handler_ctx_error"]++
		p.HErr = &ErrPlan{CtxKind: 1 + t.Choose(4, "ctxkind")}
		if p.Kind == KServer || p.Kind == KBidi {
			k := t.Choose(len(p.HProg)+1, "err.after.ops")
			p.HProg = append([]HOp(nil), p.HProg[:k]...)
			if p.Kind == KBidi {
				earlyExitKnobs(p)
			}
		}
	}
	if mode != 3 {
		// slow handlers make cancellations and expiries land mid-call
		if t.Bool(2, 3, "h.sleeps") {
			var prog []HOp
			for _, op := range p.HProg {
				if t.Bool(1, 3, "h.sleep.here") {
					prog = append(prog, HOp{Op: "sleep", Arg: []int{1, 10, 100, 1000, 10000}[t.Choose(5, "h.sleep.us")]})
				}
				prog = append(prog, op)
			}
			p.HProg = prog
		}
		switch t.Pick([]int{4, 2, 2, 1}, "h.end") {
		case 3:
			// a handler that stops when its context ends and returns nil: its
			// clean end of the response is a reaction to the cancellation
			p.HProg = append(p.HProg, HOp{Op: "waitctx"})
			sc.Notes["handler_returns_nil_on_cancel"]++
		case 1:
			p.HProg = append(p.HProg, HOp{Op: "waitctx"})
			p.HErr = &ErrPlan{CtxErr: true}
			sc.Notes["handler_returns_ctx_err"]++
		case 2:
			p.HProg = append([]HOp{{Op: "sleep", Arg: 2000}}, p.HProg...)
		}
	}
	if !p.Split {
		earlyExitKnobs(p)
	}
	if p.Kind == KUnary && mode == 1 {
		// CallUnary with a context cancelled before the call: handled by the
		// engine (cancel op for unary kinds runs before the call).
		p.CancelBefore = true
		p.CProg = nil
	}
	boundSteps(p)
	genYield(t, p)
	if p.Kind == KServer && (mode == 0 || mode == 2) && sc.Clients[0].ReadMax == 0 && t.Bool(1, 2, "late.close.focus") {
		// HTTP/1.1 over TLS, a receiver blocked on a quiet stream, a handler
		// that stops when its context ends: the server's reaction to the
		// cancellation (its own classification of it, or a clean end) can reach
		// the blocked read before the client's socket is closed
		p.K.HTTP2, p.K.Lazy, p.K.PostAccept = false, false, 0
		p.K.H1LateClose, p.K.H1LateCloseSlow = true, t.Bool(1, 2, "late.close.slow")
		if t.Bool(1, 2, "late.close.transit") {
			p.K.ArriveLag = 30 * time.Microsecond
		}
		p.CProg = []COp{{Op: "recvall"}, {Op: "closeresp"}}
		p.HProg = []HOp{{Op: "recv"}}
		for i := range p.RespMsgs {
			p.HProg = append(p.HProg, HOp{Op: "send", Arg: i})
		}
		p.HProg = append(p.HProg, HOp{Op: "waitctx"})
		p.HErr = nil
		if t.Bool(1, 2, "late.close.returns.ctxerr") {
			p.HErr = &ErrPlan{CtxErr: true}
		}
		if mode == 2 && p.Deadline < 200*time.Microsecond {
			p.Deadline = 200 * time.Microsecond
		}
		sc.Notes["late_close_focus"]++
	}
	if p.K.H1LateClose && !p.K.HTTP2 && t.Bool(3, 4, "watcher.slow") {
		// the library's own context watcher is slow to wake: what the server
		// sends in reaction to the cancellation can then reach a blocked read
		i := simhttp.PointIndex("watch.woken")
		p.YieldOn[i], p.SlowOn[i] = true, true
		sc.Notes["library_watcher_slow"]++
	}
	sc.Calls = []*CallPlan{p}
	return sc
}

func wantCtxCode(o *CallObs) (connect.Code, bool) {
	if o.CancelStep >= 0 {
		return connect.CodeCanceled, true
	}
	if o.Plan.Deadline > 0 {
		return connect.CodeDeadlineExceeded, true
	}
	return 0, false
}

func checkC15(w *World, st core.Status, r *RunResult) []Violation {
	var vs []Violation
	if st != core.Done {
		return nil
	}
	for _, o := range w.Obs {
		p := o.Plan
		tag := cfgTag(w, o)
		add := func(class, msg string) {
			vs = append(vs, Violation{Class: "C15/" + class + "/" + tag, Msg: p.ID + ": " + msg})
		}
		// handler-returned context errors, no cancellation on the client
		if p.HErr != nil && p.HErr.CtxKind != 0 {
			want := connect.CodeCanceled
			if p.HErr.CtxKind == 2 || p.HErr.CtxKind == 4 {
				want = connect.CodeDeadlineExceeded
			}
			r.Probes["handler_ctx_error_checked"]++
			var ce *connect.Error
			if !o.FinalSet || o.Final == nil {
				add("handler-ctx-error-as-success", "handler returned a context error, client saw success")
			} else if !errors.As(o.Final, &ce) || ce.Code() != want {
				add("handler-ctx-error-wrong-code", fmt.Sprintf("handler returned a %v context error, client got %v", want, o.Final))
			}
			continue
		}
		want, ok := wantCtxCode(o)
		if !ok {
			continue // canceller never ran before the call ended... nothing to check
		}
		isCancel := o.CancelStep >= 0
		var deadlineT time.Time
		if !isCancel {
			deadlineT = o.StartTime.Add(p.Deadline)
		}
		after := func(step int, tm time.Time) bool {
			if isCancel {
				return step > o.CancelStep
			}
			return tm.After(deadlineT)
		}
		// only instants that precede the handler's return
		if o.H.Returned && !after(o.H.ReturnStep, o.H.ReturnTime) {
			r.Probes["instant_after_handler_returned"]++
			continue
		}
		r.Probes["instant_before_handler_returned"]++
		codeOK := func(err error) bool {
			var ce *connect.Error
			return errors.As(err, &ce) && ce.Code() == want
		}
		all := append(append([]OpRec{}, o.Ops...), o.OpsRcv...)
		sendEOF := false
		nrecv := 0 // response messages received so far: the index of the envelope a failing receive was on
		for _, op := range all {
			started := after(op.Start, op.StartT)
			ended := after(op.End, op.EndT)
			switch op.Op {
			case "recv", "recvmore", "unary", "closeandreceive":
				if op.Err == nil {
					nrecv++
				}
			}
			if !ended {
				continue
			}
			inflight := !started
			switch op.Op {
			case "send":
				if started {
					r.Probes["send_after_instant"]++
				}
				if op.Err == nil {
					if started {
						add("send-succeeded-after-instant", fmt.Sprintf("Send started after the %v instant returned nil", want))
					}
					continue
				}
				if errors.Is(op.Err, io.EOF) {
					sendEOF = true
					if started {
						// the stream-closed error is for a Send that the instant
						// interrupted; one that begins afterwards says why
						add("send-eof-after-instant", fmt.Sprintf("Send started after the %v instant returned %v, want code %v", want, op.Err, want))
					}
					continue
				}
				if inflight && strings.Contains(op.Err.Error(), "cannot be marshalled") {
					// a competing cause that may have struck before the instant
					r.Probes["inflight_unsendable"]++
					continue
				}
				if !codeOK(op.Err) && (started || p.HErr == nil) {
					add("send-wrong-code", fmt.Sprintf("Send failed with %v, want %v or an error wrapping io.EOF", op.Err, want))
				}
			case "recv", "recvmore", "unary", "callserverstream", "closeandreceive":
				if started {
					r.Probes["receive_after_instant"]++
				}
				if op.Err == nil {
					if started {
						add(op.Op+"-succeeded-after-instant", fmt.Sprintf("%s started after the %v instant succeeded", op.Op, want))
					}
					continue
				}
				if inflight && p.HErr != nil && !p.HErr.CtxErr {
					continue
				}
				if inflight && errors.Is(op.Err, io.EOF) && op.Op == "recv" && o.H.Returned {
					// a clean end: fine if the transport handed it over before the
					// instant. Afterwards the library knows, when its read returns,
					// that the context has ended - whatever the server sent in
					// reaction to the cancellation is not the call's outcome.
					if ex := o.Call.Exchange(); ex != nil && w.real == nil {
						if step, at, ok := ex.Down.EndSeen(); ok && after(step, at) {
							add("clean-end-after-instant/in-flight", fmt.Sprintf("a Receive blocked since before the %v instant returned a clean end of stream that the transport delivered after it", want))
						}
					}
					continue
				}
				if inflight && !codeOK(op.Err) && strings.Contains(op.Err.Error(), "cannot be marshalled") {
					r.Probes["inflight_unsendable"]++
					continue
				}
				if inflight && !codeOK(op.Err) && readLimitDecided(w, o, &op, nrecv) {
					// the competing failure (an oversized message, wholly read and
					// discarded) was complete before the operation returned
					r.Probes["inflight_read_limit_complete"]++
					continue
				}
				if !codeOK(op.Err) {
					cls := "after-instant"
					if inflight {
						cls = "in-flight"
					}
					add(op.Op+"-wrong-code/"+cls, fmt.Sprintf("%s failed with %v, want code %v", op.Op, op.Err, want))
				}
			case "closereq", "closeresp":
				if op.Err != nil && started && !codeOK(op.Err) {
					add(op.Op+"-wrong-code", fmt.Sprintf("%s failed with %v, want code %v (or success)", op.Op, op.Err, want))
				}
			}
		}
		_ = sendEOF
		// the call's final outcome is never success, and carries the right code
		// unless it was decided before the instant
		if o.FinalSet {
			var fin *OpRec
			for i := range all {
				op := &all[i]
				if op.Op == "recv" || op.Op == "unary" || op.Op == "closeandreceive" || op.Op == "callserverstream" {
					if (o.Final == nil && op.Err != nil && errors.Is(op.Err, io.EOF)) || (o.Final != nil && op.Err == o.Final) {
						fin = op
						break
					}
				}
			}
			if fin != nil && after(fin.Start, fin.StartT) {
				if o.Final == nil {
					add("final-success", fmt.Sprintf("the call ended in success although its context was %v before the handler returned", want))
				} else if !codeOK(o.Final) {
					add("final-wrong-code", fmt.Sprintf("final outcome %v, want code %v", o.Final, want))
				}
			}
		}
		// a handler that returns its context's error conveys the same classification
		if p.HErr != nil && p.HErr.CtxErr && o.H.Returned && o.H.ReturnErr != nil {
			r.Probes["handler_returned_ctx_err"]++
			if !errors.Is(o.H.ReturnErr, context.Canceled) && !errors.Is(o.H.ReturnErr, context.DeadlineExceeded) {
				add("handler-ctx-err-odd", fmt.Sprintf("handler's ctx.Err() was %v", o.H.ReturnErr))
			}
		}
	}
	return vs
}

// readLimitDecided: the operation failed because a response message exceeded
// the client's read limit, and the client had consumed that whole message from
// the transport when the operation returned - the failure owes nothing to the
// context. (An operation still blocked discarding the message when the
// context ended failed because of the context.)
func readLimitDecided(w *World, o *CallObs, op *OpRec, idx int) bool {
	p := o.Plan
	if p.Raw != nil || op.Err == nil || op.DownRead < 0 {
		return false
	}
	c := w.Sc.Clients[p.Client]
	if c.ReadMax <= 0 || !strings.Contains(op.Err.Error(), "larger than configured max") {
		return false
	}
	ex := o.Call.Exchange()
	body := ex.Down.Bytes()
	if c.Proto == PConnect && p.Kind == KUnary {
		return ex.Down.Finished() && op.DownRead >= len(body) && len(body) > c.ReadMax
	}
	off := 0
	for i := 0; off+5 <= len(body); i++ {
		end := off + 5 + int(binary.BigEndian.Uint32(body[off+1:off+5]))
		if i == idx {
			return op.DownRead >= end
		}
		off = end
	}
	return false
}

package world

import (
	"errors"
	"fmt"
	"net/http"
	"reflect"
	"runtime"
	"strings"

	connect "github.com/bufbuild/connect-go"

	"verif/sim/core"
)

// C19 — handler panics are converted by WithRecover exactly as configured.
// A panic is a crash fault of the handler task at a program point.

func init() {
	register(&Prop{ID: "C19", Gen: genC19, Check: checkC19})
}

func genC19(t *core.Tape, tier string) *Scenario {
	sc := &Scenario{Prop: "C19", Notes: map[string]int{}}
	h := HandlerCfg{Recover: true}
	h.NIntercept = t.Choose(4, "nintercept")
	h.RecoverPos = t.Choose(h.NIntercept+1, "recoverpos")
	c := ClientCfg{Proto: genProto(t), JSON: t.Bool(1, 4, "json")}
	sc.Handlers = []HandlerCfg{h}
	sc.Clients = []ClientCfg{c}
	// a history of calls through ONE handler set: panicking and
	// non-panicking calls of the same procedure follow or overlap each other
	ncalls := 1 + t.Pick([]int{3, 3, 2}, "ncalls")
	concurrent := t.Bool(1, 3, "concurrent")
	kind := genKind(t)
	for i := 0; i < ncalls; i++ {
		p := &CallPlan{ID: callID(i), Kind: kind}
		if t.Bool(1, 3, "other.kind") {
			p.Kind = genKind(t)
		}
		if concurrent {
			p.Task = i
		}
		p.K = genKnobs(t, p.Kind)
		nreq, nresp := 1, 1
		if p.Kind == KClient || p.Kind == KBidi {
			nreq = t.Choose(5, "nreq")
		}
		if p.Kind == KServer || p.Kind == KBidi {
			nresp = t.Choose(5, "nresp")
		}
		for j := 0; j < nreq; j++ {
			p.ReqMsgs = append(p.ReqMsgs, smallPayload(t))
		}
		for j := 0; j < nresp; j++ {
			p.RespMsgs = append(p.RespMsgs, smallPayload(t))
		}
		stdPrograms(t, p)
		if p.Kind == KUnary && h.NIntercept > 0 && t.Bool(1, 4, "mirror") {
			// one of the handler's interceptors mirrors traffic: it passes the
			// request object to a shadow client before the call proceeds
			p.MirrorBy = fmt.Sprintf("i%d", t.Choose(h.NIntercept, "mirror.by"))
			sc.Notes["request_mirrored_by_interceptor"]++
		}
		if t.Bool(3, 5, "panics") {
			p.HPanic = &PanicPlan{Kind: t.Choose(10, "panic.kind"), Text: "boom " + string(t.Bytes(3, 1, "ptext"))}
			at := t.Choose(len(p.HProg)+1, "panic.at")
			prog := append([]HOp(nil), p.HProg[:at]...)
			if t.Bool(1, 4, "panic.after.ctx.done") {
				// the call's context ends first (the client gives up), then the
				// handler panics: the recovery function must still see the panic
				prog = append(prog, HOp{Op: "waitctx"})
				p.CancelTask = true
				p.panicAfterCtx = true
				sc.Notes["panic_after_context_done"]++
			}
			if p.Kind == KUnary && t.Bool(1, 3, "forward.then.panic") {
				// a gateway handler: it passes the request object it received to a
				// downstream client, then panics
				prog = append(prog, HOp{Op: "forward"})
				sc.Notes["forwarded_then_panicked"]++
			}
			prog = append(prog, HOp{Op: "panic"})
			p.HProg = prog
			sc.Notes[fmt.Sprintf("panic_kind_%d", p.HPanic.Kind)]++
			switch {
			case at == 0:
				sc.Notes["panic_before_anything"]++
			case sendsPlanned(p) > 0:
				sc.Notes["panic_after_sends"]++
			}
			if i > 0 {
				sc.Notes["panic_after_earlier_call"]++
			}
			p.RecoverErr = &ErrPlan{Code: uint32(1 + t.Choose(16, "rec.code")), Msg: "recovered: " + string(t.Bytes(4, 1, "rtext"))}
			if t.Bool(1, 6, "rec.text.not.utf8") {
				// the recovery function quotes a panic value that is not valid UTF-8
				p.RecoverErr.Msg = "recovered: panic(\"bad frame \xff\xfe\x80\") " + string(t.Bytes(2, 1, "rtext2"))
				sc.Notes["recovery_error_text_not_utf8"]++
			}
			earlyExitKnobs(p)
		} else {
			sc.Notes["control_no_panic"]++
			if t.Bool(1, 3, "control.err") {
				p.HErr = &ErrPlan{Code: uint32(1 + t.Choose(16, "err.code")), Msg: "plain failure"}
			}
		}
		boundSteps(p)
		genYield(t, p)
		sc.Calls = append(sc.Calls, p)
	}
	return sc
}

func checkC19(w *World, st core.Status, r *RunResult) []Violation {
	var vs []Violation
	if st != core.Done {
		return nil
	}
	for _, o := range w.Obs {
		p := o.Plan
		if transportLimit(o, r) {
			continue
		}
		tag := cfgTag(w, o)
		add := func(class, msg string) {
			vs = append(vs, Violation{Class: "C19/" + class + "/" + tag, Msg: p.ID + ": " + msg})
		}
		ex := o.Call.Exchange()
		if why := interceptorPositions(w, o); why != "" {
			add("recover-position", why)
		}
		if p.HPanic == nil {
			// control: calls that do not panic are unaffected
			if len(o.Recovered) != 0 {
				add("recover-called-without-panic", fmt.Sprintf("recovery function called %d times", len(o.Recovered)))
			}
			if p.HErr == nil {
				if !o.FinalSet || o.Final != nil {
					add("control-outcome", fmt.Sprintf("no panic, handler succeeded, client got %v", o.Final))
				} else if c, m := seqMismatch(p.RespMsgs, o.Recv); c != "" {
					add("control-messages/"+c, m)
				}
			} else {
				var ce *connect.Error
				if !errors.As(o.Final, &ce) || ce.Code() != connect.Code(p.HErr.Code) || ce.Message() != p.HErr.Msg {
					add("control-outcome", fmt.Sprintf("no panic, handler returned code %d, client got %v", p.HErr.Code, o.Final))
				}
			}
			continue
		}
		if !o.H.Panicked {
			if p.panicAfterCtx {
				continue // the call was cancelled before the handler got that far
			}
			// the program never reached the panic (cannot happen in the fault-free world)
			add("panic-not-reached", "handler program ended before its panic point")
			continue
		}
		r.Probes["panics_checked"]++
		if p.HPanic.Kind == 4 {
			// the abort sentinel is re-raised untouched
			if len(o.Recovered) != 0 {
				add("abort-sentinel-recovered", "recovery function was called for http.ErrAbortHandler")
			}
			if w.real != nil {
				// calibration world: net/http swallows the sentinel itself
			} else if ex == nil || ex.Panic != http.ErrAbortHandler { //nolint:errorlint
				var got any
				if ex != nil {
					got = ex.Panic
				}
				add("abort-sentinel-not-reraised", fmt.Sprintf("ServeHTTP ended with panic value %v (%T), want http.ErrAbortHandler", got, got))
			}
			if o.FinalSet && o.Final == nil {
				add("abort-delivered-as-success", "handler aborted, client saw success")
			}
			continue
		}
		if ex != nil && ex.Panic != nil {
			add("panic-escaped", fmt.Sprintf("panic value %v escaped ServeHTTP", ex.Panic))
		}
		if len(o.Recovered) != 1 {
			add("recover-call-count", fmt.Sprintf("recovery function called %d times, want exactly 1", len(o.Recovered)))
			continue
		}
		got := o.Recovered[0]
		want := o.H.PanicValue
		ok := false
		switch {
		case p.HPanic.Kind == 0:
			_, isNilErr := got.(*runtime.PanicNilError)
			ok = got == nil || isNilErr
		case p.HPanic.Kind == 1 || p.HPanic.Kind == 5 || p.HPanic.Kind == 9:
			ok = got == want // same error value / same pointer
		default:
			ok = reflect.DeepEqual(got, want)
		}
		if !ok {
			add("recovered-value", fmt.Sprintf("recovery function received %#v (%T), handler panicked with %#v (%T)", got, got, want, want))
		}
		if p.panicAfterCtx {
			continue // the client had already given up; what it sees is its own cancellation
		}
		var ce *connect.Error
		if !o.FinalSet || o.Final == nil {
			add("recovered-error-lost", "client saw success although the recovery function returned an error")
		} else if !errors.As(o.Final, &ce) || ce.Code() != connect.Code(p.RecoverErr.Code) || !sameText(p.RecoverErr.Msg, ce.Message()) {
			add("recovered-error-differs", fmt.Sprintf("recovery function returned code %d %q, client got %v", p.RecoverErr.Code, p.RecoverErr.Msg, o.Final))
		}
		if p.Kind == KServer || p.Kind == KBidi {
			if c, m := seqMismatch(p.RespMsgs[:sendsPlanned(p)], o.Recv); c != "" {
				add("messages-before-panic/"+c, m)
			}
		}
	}
	return vs
}

// interceptorPositions checks "the position of the recover interceptor among
// other interceptors": the interceptors configured before WithRecover sit
// outside it and see a panicking call return (the recovery function's
// error), the ones configured after it sit inside and see the panic unwind
// through them - all of them when the panic is net/http's abort sentinel,
// which is re-raised untouched, none of them when the call does not panic.
// (The order of the other interceptors among themselves is not C19's
// business and is not compared.)
func interceptorPositions(w *World, o *CallObs) string {
	p := o.Plan
	h := w.Sc.Handlers[p.Handler]
	if p.Raw != nil || o.H.Entered == 0 || h.NIntercept == 0 {
		return ""
	}
	pos := h.RecoverPos
	if !h.Recover || pos > h.NIntercept {
		pos = h.NIntercept
	}
	seen := map[string]int{}
	for _, e := range o.InterceptLog {
		seen[e]++
	}
	var bad []string
	for i := 0; i < h.NIntercept; i++ {
		want := "out"
		if o.H.Panicked && (p.HPanic != nil && p.HPanic.Kind == 4 || !h.Recover || i >= pos) {
			want = "panic"
		}
		other := map[string]string{"out": "panic", "panic": "out"}[want]
		if seen[fmt.Sprintf("i%d:in", i)] != 1 || seen[fmt.Sprintf("i%d:%s", i, want)] != 1 || seen[fmt.Sprintf("i%d:%s", i, other)] != 0 {
			bad = append(bad, fmt.Sprintf("i%d should see :%s", i, want))
		}
	}
	if len(bad) > 0 {
		return fmt.Sprintf("%d interceptors, WithRecover configured at position %d, handler panicked: %v: %s; they saw [%s]", h.NIntercept, pos, o.H.Panicked, strings.Join(bad, ", "), strings.Join(o.InterceptLog, " "))
	}
	return ""
}

package world

import (
	"verif/sim/core"
)

// runRaw serves a crafted HTTP request straight into the handler.
func (w *World) runRaw(t *core.Task, o *CallObs) {
	p := o.Plan
	w.opGate(o, "raw")
	t.SetWhere(p.ID + " ServeHTTP")
	hdr := p.Raw.Header.Clone()
	if hdr.Get(callHeader) == "" {
		hdr.Set(callHeader, p.ID)
	}
	w.Net.ServeRaw(o.Call, p.Raw.Method, "http://sim.test"+procName(p.Handler, p.Kind), hdr, p.Raw.Body, p.Raw.EndErr)
	t.SetWhere("")
}

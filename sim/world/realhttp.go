package world

import (
	"context"
	"errors"
	"io"
	"math/rand"
	"net"
	"net/http"
	"net/url"
	"os"
	"sync"
	"time"

	"verif/sim/simhttp"
)

// The calibration world: the same clients, handlers, programs and oracles,
// but over real net/http (http.Server + http.Transport, HTTP/1.1 or h2c) on
// an in-memory wire inside the bubble. Nothing is gated: goroutines run
// freely on the fake clock, so results do not replay - this world is used
// only by `check selftest-calibration` to test that the oracles (and thereby
// the stub transport's contract they were developed against) also hold over
// the real transport. A disagreement is a fault of the machinery (exit 2),
// never a violation.

type memAddr struct{}

func (memAddr) Network() string { return "mem" }
func (memAddr) String() string  { return "mem" }

// halfConn is one direction of an in-memory connection.
type halfConn struct {
	mu       sync.Mutex
	cond     *sync.Cond
	buf      []byte
	closed   bool
	deadline time.Time
	timer    *time.Timer
}

func newHalf() *halfConn {
	h := &halfConn{}
	h.cond = sync.NewCond(&h.mu)
	return h
}

func (h *halfConn) write(p []byte) (int, error) {
	h.mu.Lock()
	defer h.mu.Unlock()
	if h.closed {
		return 0, io.ErrClosedPipe
	}
	h.buf = append(h.buf, p...)
	h.cond.Broadcast()
	return len(p), nil
}

func (h *halfConn) read(p []byte) (int, error) {
	h.mu.Lock()
	defer h.mu.Unlock()
	for len(h.buf) == 0 {
		if h.closed {
			return 0, io.EOF
		}
		if !h.deadline.IsZero() && !time.Now().Before(h.deadline) {
			return 0, os.ErrDeadlineExceeded
		}
		h.cond.Wait()
	}
	n := copy(p, h.buf)
	h.buf = h.buf[n:]
	return n, nil
}

func (h *halfConn) close() {
	h.mu.Lock()
	h.closed = true
	h.cond.Broadcast()
	h.mu.Unlock()
}

func (h *halfConn) setDeadline(t time.Time) {
	h.mu.Lock()
	h.deadline = t
	if h.timer != nil {
		h.timer.Stop()
		h.timer = nil
	}
	if !t.IsZero() {
		d := time.Until(t)
		if d < 0 {
			d = 0
		}
		h.timer = time.AfterFunc(d, func() {
			h.mu.Lock()
			h.cond.Broadcast()
			h.mu.Unlock()
		})
	}
	h.cond.Broadcast()
	h.mu.Unlock()
}

type memConn struct {
	rd, wr *halfConn
}

func (c *memConn) Read(p []byte) (int, error) { return c.rd.read(p) }

func (c *memConn) Write(p []byte) (int, error) { return c.wr.write(p) }
func (c *memConn) Close() error {
	c.rd.close()
	c.wr.close()
	return nil
}
func (c *memConn) LocalAddr() net.Addr                { return memAddr{} }
func (c *memConn) RemoteAddr() net.Addr               { return memAddr{} }
func (c *memConn) SetDeadline(t time.Time) error      { c.rd.setDeadline(t); return nil }
func (c *memConn) SetReadDeadline(t time.Time) error  { c.rd.setDeadline(t); return nil }
func (c *memConn) SetWriteDeadline(t time.Time) error { return nil }

type memListener struct {
	mu     sync.Mutex
	cond   *sync.Cond
	queue  []net.Conn
	closed bool
	conns  []*memConn
}

func newMemListener() *memListener {
	l := &memListener{}
	l.cond = sync.NewCond(&l.mu)
	return l
}

func (l *memListener) Accept() (net.Conn, error) {
	l.mu.Lock()
	defer l.mu.Unlock()
	for len(l.queue) == 0 {
		if l.closed {
			return nil, net.ErrClosed
		}
		l.cond.Wait()
	}
	c := l.queue[0]
	l.queue = l.queue[1:]
	return c, nil
}

func (l *memListener) Close() error {
	l.mu.Lock()
	l.closed = true
	l.cond.Broadcast()
	l.mu.Unlock()
	return nil
}

func (l *memListener) Addr() net.Addr { return memAddr{} }

func (l *memListener) dial(ctx context.Context, network, addr string) (net.Conn, error) {
	a, b := newHalf(), newHalf()
	client := &memConn{rd: a, wr: b}
	server := &memConn{rd: b, wr: a}
	l.mu.Lock()
	defer l.mu.Unlock()
	if l.closed {
		return nil, errors.New("listener closed")
	}
	l.queue = append(l.queue, server)
	l.conns = append(l.conns, client, server)
	l.cond.Broadcast()
	return client, nil
}

// realNet is real net/http over the in-memory wire.
type realNet struct {
	lag      func() time.Duration
	lis      *memListener
	srv      *http.Server
	h1, h2   *http.Client
	tr1, tr2 *http.Transport
}

func newRealNet(handler http.Handler, seed int64, noFlusher func(*http.Request) bool) *realNet {
	n := &realNet{lis: newMemListener()}
	{
		inner := handler
		handler = http.HandlerFunc(func(rw http.ResponseWriter, r *http.Request) {
			if noFlusher(r) {
				// the middleware whose ResponseWriter wrapper has no Flush
				rw = struct{ http.ResponseWriter }{rw}
			}
			inner.ServeHTTP(rw, r)
		})
	}
	if seed%3 != 0 {
		// Two thirds of the worlds have a transport goroutine that now and then
		// comes back late (fake clock) to read the request body, and handlers
		// whose end of response follows their return late. (Sleeping inside
		// conn.Write is not an option: net/http holds a mutex there, and a
		// goroutine waiting for a mutex never lets the bubble's clock advance.)
		var mu sync.Mutex
		rng := rand.New(rand.NewSource(seed))
		n.lag = func() time.Duration {
			mu.Lock()
			defer mu.Unlock()
			if rng.Intn(3) != 0 {
				return 0
			}
			return time.Duration(1+rng.Intn(300)) * time.Microsecond
		}
		inner := handler
		handler = http.HandlerFunc(func(rw http.ResponseWriter, r *http.Request) {
			inner.ServeHTTP(rw, r)
			if d := n.lag(); d > 0 {
				if f, ok := rw.(http.Flusher); ok {
					f.Flush()
				}
				time.Sleep(d)
			}
		})
	}
	protos := new(http.Protocols)
	protos.SetHTTP1(true)
	protos.SetUnencryptedHTTP2(true)
	n.srv = &http.Server{Handler: handler, Protocols: protos}
	go func() { _ = n.srv.Serve(n.lis) }()
	p1 := new(http.Protocols)
	p1.SetHTTP1(true)
	n.tr1 = &http.Transport{DialContext: n.lis.dial, Protocols: p1, DisableCompression: true}
	p2 := new(http.Protocols)
	p2.SetUnencryptedHTTP2(true)
	n.tr2 = &http.Transport{DialContext: n.lis.dial, Protocols: p2, DisableCompression: true}
	n.h1 = &http.Client{Transport: n.tr1}
	n.h2 = &http.Client{Transport: n.tr2}
	return n
}

// Do routes by the simulated call's HTTP version knob.
type realClient struct {
	n  *realNet
	h2 bool
}

func (c *realClient) Do(req *http.Request) (*http.Response, error) {
	call := simhttp.CallOf(req.Context())
	if call != nil {
		call.EditURL(req)
		if call.K.DoGivesUp {
			if req.Body != nil {
				_ = req.Body.Close()
			}
			return nil, &url.Error{Op: "Post", URL: req.URL.String(), Err: errors.New("net/http: request canceled (Client.Timeout exceeded while awaiting headers)")}
		}
		if call.K.DoErr != nil {
			// nothing answers at that address
			if req.Body != nil {
				_ = req.Body.Close()
			}
			return nil, &url.Error{Op: "Post", URL: req.URL.String(), Err: call.K.DoErr}
		}
	}
	cl := c.n.h1
	if c.h2 {
		cl = c.n.h2
	}
	if c.n.lag != nil && req.Body != nil {
		req.Body = &lagBody{ReadCloser: req.Body, lag: c.n.lag}
	}
	resp, err := cl.Do(req)
	if err == nil && call != nil && call.K.DropTrailers {
		// the intermediary that strips HTTP trailers
		resp.Body = &trailerStripper{ReadCloser: resp.Body, resp: resp}
	}
	return resp, err
}

type trailerStripper struct {
	io.ReadCloser
	resp *http.Response
}

func (t *trailerStripper) Read(p []byte) (int, error) {
	n, err := t.ReadCloser.Read(p)
	if err != nil {
		clear(t.resp.Trailer)
	}
	return n, err
}

func (n *realNet) close() {
	n.tr1.CloseIdleConnections()
	n.tr2.CloseIdleConnections()
	_ = n.srv.Close()
	_ = n.lis.Close()
	n.lis.mu.Lock()
	conns := n.lis.conns
	n.lis.mu.Unlock()
	for _, c := range conns {
		_ = c.Close()
	}
}

// lagBody is a request body whose reader (net/http's transport goroutine) is
// sometimes late coming back for more.
type lagBody struct {
	io.ReadCloser
	lag   func() time.Duration
	reads int
}

func (b *lagBody) Read(p []byte) (int, error) {
	if b.reads > 0 {
		if d := b.lag(); d > 0 {
			time.Sleep(d)
		}
	}
	b.reads++
	return b.ReadCloser.Read(p)
}
